(* GENERATED on every run by harness/translate/guardfacts.py from calgebra/gcsa.py — do not edit. *)
From CG Require Import Spec.GuardDiscipline.

Definition facts : gfacts :=
  mkGF true [
    mkGM "_calendar_timezone" false false [mkBC "calendar.get_calendar" false] [];
    mkGM "__str__" false false [] [];
    mkGM "fetch" false false [] [mkSC "_fetch_reverse" false; mkSC "_fetch_forward" false];
    mkGM "_fetch_forward" false false [mkBC "calendar.get_events" false] [mkSC "_calendar_timezone" false; mkSC "_calendar_timezone" false];
    mkGM "_fetch_reverse" false false [] [mkSC "_fetch_forward" false];
    mkGM "_add_interval" true true [mkBC "calendar.add_event" false] [mkSC "_calendar_timezone" false];
    mkGM "_add_recurring" true true [mkBC "calendar.add_event" false] [mkSC "_calendar_timezone" false; mkSC "_calendar_timezone" false; mkSC "_calendar_timezone" false];
    mkGM "_remove_interval" true true [mkBC "calendar.delete_event" false] [mkSC "_remove_recurring_instance" false];
    mkGM "_remove_recurring_instance" false false [mkBC "calendar.get_event" true; mkBC "calendar.update_event" true] [];
    mkGM "_add_many" true false [] [mkSC "_add_many_batch" true];
    mkGM "_add_many_batch" false false [mkBC "calendar.service.new_batch_http_request" false; mkBC "calendar.service.events.insert" false; mkBC "calendar.service.events" false; mkBC "batch.add" false; mkBC "batch.execute" true] [mkSC "_calendar_timezone" false];
    mkGM "_remove_series" true true [mkBC "calendar.delete_event" false] []
  ].
