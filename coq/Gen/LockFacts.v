(* GENERATED on every run by harness/translate/lockfacts.py from calgebra/cache.py — do not edit.
   shared fields: _cover, _expiry_heap, _expiry_seq, _key_validated, _sink *)
From CG Require Import Spec.LockDiscipline.

Definition facts : cfacts :=
  mkCF 1 true 0 [
    mkMF "_is_mask" true 0 0 [] [] 0 0;
    mkMF "fetch" true 0 1 [] ["_evict_expired"; "_fill_gap"; "_fetch_sink"] 0 1;
    mkMF "_fill_gap" false 7 0 ["_get_key"; "_stitch_at"; "_stitch_at"] [] 0 0;
    mkMF "_stitch_at" false 5 0 ["_get_key"; "_get_key"] [] 0 0;
    mkMF "_get_key" false 0 0 [] [] 0 0;
    mkMF "_fetch_sink" false 1 0 [] [] 0 0;
    mkMF "_evict_expired" false 4 0 ["_purge_sink"] [] 0 0;
    mkMF "_purge_sink" false 4 0 [] [] 0 0
  ].
