From CG Require Import Model.IcalSrc.
From CG Require Import Model.RecSrc.
(* GENERATED on every run by harness/translate/pysrc.py from the Python sources of the tree
   under test — do not edit.  Each definition is the translation of one function's source text;
   Proofs/GenEq*.v prove it equal to the hand-written model for all inputs. *)
From CG Require Import Model.Metrics Model.Slice Model.Loop Model.Recur Model.Cache.

From CG Require Import Model.Small.
From CG Require Import Model.LoopMem.

From CG Require Import Model.LoopMet Model.MetricsSrc.

From CG Require Import Model.FiltLoop.


(* calgebra/interval.py: Interval.finite_start *)
Definition g_finite_start (self : ivl) : Z :=
  (if (negb (is_none (st self))) then (ozd (st self)) else NEG_INF).

(* calgebra/interval.py: Interval.finite_end *)
Definition g_finite_end (self : ivl) : Z :=
  (if (negb (is_none (en self))) then (ozd (en self)) else POS_INF).

(* calgebra/core.py: _neg *)
Definition g_neg (val : option Z) : option Z :=
  (match val with Some val => (Some (- val)) | None => None end).

(* calgebra/core.py: _negate_interval *)
Definition g_negate_interval (ivl_ : ivl) : ivl :=
  (set_span ivl_ (g_neg (en ivl_)) (g_neg (st ivl_))).

(* calgebra/core.py: _negate_stream *)
Definition g_negate_stream (stream : list ivl) : list ivl :=
  (map (fun ivl_ => (g_negate_interval ivl_)) stream).

(* calgebra/core.py: _SolidTimeline.fetch *)
Definition g_solid_fetch (start : option Z) (end_ : option Z) (reverse : bool) : list ivl :=
  let out := @nil ivl in
  let out := out ++ [(mkI start end_ Plain)] in
  out.

(* calgebra/core.py: Complement._sweep *)
Definition g_compl_sweep (source_stream : list ivl) (start : option Z) (end_ : option Z) : list ivl :=
  let start_bound := (match start with Some start => start | None => NEG_INF end) in
  let end_bound := (match end_ with Some end_ => end_ | None => POS_INF end) in
  let cursor := start_bound in
  run_for
    (fun cursor event =>
      let out := @nil ivl in
      let event_start := (fstart event) in
      let event_end := (fend event) in
      if (event_end <? start_bound) then
        (out, cursor, Cont)
      else
        if (event_start >? end_bound) then
          (out, cursor, Brk)
        else
          let segment_start := (Z.max event_start start_bound) in
          let segment_end := (Z.min event_end end_bound) in
          if (segment_end <=? cursor) then
            (out, cursor, Cont)
          else
            if (segment_start >? cursor) then
              let gap_start := (if (negb (cursor =? NEG_INF)) then (Some cursor) else None) in
              let gap_end := (if (negb (segment_start =? NEG_INF)) then (Some segment_start) else None) in
              let out := out ++ [(mkI gap_start gap_end Plain)] in
              let cursor := (Z.max cursor segment_end) in
              if (cursor >? end_bound) then
                (out, cursor, Ret)
              else
                (out, cursor, Cont)
            else
              let cursor := (Z.max cursor segment_end) in
              if (cursor >? end_bound) then
                (out, cursor, Ret)
              else
                (out, cursor, Cont))
    (fun cursor =>
      let out := @nil ivl in
      if (cursor <? end_bound) then
        let gap_start := (if (negb (cursor =? NEG_INF)) then (Some cursor) else None) in
        let gap_end := (if (negb (end_bound =? POS_INF)) then end_ else None) in
        let out := out ++ [(mkI gap_start gap_end Plain)] in
        out
      else
        out)
    cursor source_stream.

(* calgebra/core.py: Complement.fetch *)
Definition g_compl_fetch (source_fetch : option Z -> option Z -> bool -> list ivl) (start : option Z) (end_ : option Z) (reverse : bool) : list ivl :=
  if reverse then
    let source_stream := (g_negate_stream (source_fetch start end_ true)) in
    (g_negate_stream (g_compl_sweep source_stream (g_neg end_) (g_neg start)))
  else
    (g_compl_sweep (source_fetch start end_ false) start end_).

(* calgebra/core.py: Filtered.fetch *)
Definition g_filtered_fetch (source_fetch : option Z -> option Z -> bool -> list ivl) (filter_apply : ivl -> bool) (start : option Z) (end_ : option Z) (reverse : bool) : list ivl :=
  (filter (fun e => (filter_apply e)) (source_fetch start end_ reverse)).

(* calgebra/transform.py: _Buffered.fetch *)
Definition g_buffered_fetch (source_fetch : option Z -> option Z -> bool -> list ivl) (self_before : Z) (self_after : Z) (start : option Z) (end_ : option Z) (reverse : bool) : list ivl :=
  let adj_start := (match start with Some start => (Some (start - self_after)) | None => None end) in
  let adj_end := (match end_ with Some end_ => (Some (end_ + self_before)) | None => None end) in
  run_for
    (fun _ interval_ =>
      let out := @nil ivl in
      let buffered_start := (if (negb (is_none (st interval_))) then (Some ((ozd (st interval_)) - self_before)) else None) in
      let buffered_end := (if (negb (is_none (en interval_))) then (Some ((ozd (en interval_)) + self_after)) else None) in
      let out := out ++ [(set_span interval_ buffered_start buffered_end)] in
      (out, tt, Cont))
    (fun _ =>
      let out := @nil ivl in
      out)
    tt (source_fetch adj_start adj_end reverse).

(* calgebra/transform.py: _MergedWithin._fetch_forward *)
Definition g_merged_fetch_forward (source_fetch : option Z -> option Z -> bool -> list ivl) (self_gap : Z) (start : option Z) (end_ : option Z) : list ivl :=
  let current := None in
  run_for
    (fun current interval_ =>
      let out := @nil ivl in
      match current with
      | Some current =>
        let can_merge :=
          if ((is_none (en current)) || (is_none (st interval_))) then
            let can_merge := true in
            can_merge
          else
            let gap_ := ((ozd (st interval_)) - (ozd (en current))) in
            let can_merge := (gap_ <=? self_gap) in
            can_merge in
        if can_merge then
          let new_end := (en current) in
          let new_end :=
            if ((is_none new_end) || (is_none (en interval_))) then
              let new_end := None in
              new_end
            else
              if ((ozd (en interval_)) >? (ozd new_end)) then
                let new_end := (en interval_) in
                new_end
              else
                new_end in
          let current := (Some (set_span current (st current) new_end)) in
          (out, current, Cont)
        else
          let out := out ++ [current] in
          let current := (Some interval_) in
          (out, current, Cont)
      | None =>
        let current := (Some interval_) in
        (out, current, Cont)
      end)
    (fun current =>
      let out := @nil ivl in
      match current with
      | Some current =>
        let out := out ++ [current] in
        out
      | None =>
        out
      end)
    current (source_fetch start end_ false).

(* calgebra/recurrence.py: RecurringPattern._fetch_forward *)
Definition g_recur_fetch_forward {DT : Type} (self_freq : freq) (self_interval : Z) (self_duration_seconds : Z) (self_exdates : list Z) (dt_fromtimestamp : Z -> DT) (get_safe_anchor : DT -> DT) (dt_midnight : DT -> DT) (rrule_of : DT -> list DT) (occurrence_to_interval : DT -> ivl) (start : option Z) (end_ : option Z) : res (list ivl) :=
  match start with
  | Some start =>
    let lookback_buffer := self_duration_seconds in
    let lookback_buffer :=
      if (freq_eqb self_freq Daily) then
        let lookback_buffer := (lookback_buffer + (self_interval * 86400)) in
        lookback_buffer
      else
        if (freq_eqb self_freq Weekly) then
          let lookback_buffer := (lookback_buffer + (self_interval * 604800)) in
          lookback_buffer
        else
          if (freq_eqb self_freq Monthly) then
            let lookback_buffer := (lookback_buffer + ((self_interval * 32) * 86400)) in
            lookback_buffer
          else
            if (freq_eqb self_freq Yearly) then
              let lookback_buffer := (lookback_buffer + ((self_interval * 366) * 86400)) in
              lookback_buffer
            else
              lookback_buffer in
    let lookback_start_ts := (start - lookback_buffer) in
    let lookback_start_dt := (dt_fromtimestamp lookback_start_ts) in
    let anchor_dt := (get_safe_anchor lookback_start_dt) in
    let anchor_dt := (dt_midnight anchor_dt) in
    let rules := (rrule_of anchor_dt) in
    RDone (run_for
      (fun _ occurrence =>
        let out := @nil ivl in
        let ivl_ := (occurrence_to_interval occurrence) in
        if (match (st ivl_) with Some v_ => zmem v_ self_exdates | None => false end) then
          (out, tt, Cont)
        else
          if ((negb (is_none (en ivl_))) && ((ozd (en ivl_)) <=? start)) then
            (out, tt, Cont)
          else
            if ((negb (is_none end_)) && (negb (is_none (st ivl_))) && ((ozd (st ivl_)) >? (ozd end_))) then
              (out, tt, Brk)
            else
              let out := out ++ [ivl_] in
              (out, tt, Cont))
      (fun _ =>
        let out := @nil ivl in
        out)
      tt rules)
  | None =>
    (RRaise ValueError)
  end.

(* calgebra/recurrence.py: RecurringPattern._fetch_reverse *)
Definition g_recur_fetch_reverse (fuel : nat) (self_freq : freq) (fetch_forward : Z -> Z -> list ivl) (start : option Z) (end_ : option Z) : res (list ivl) :=
  match end_ with
  | Some end_ =>
    let chunk_size :=
      if (freq_eqb self_freq Daily) then
        let chunk_size := (30 * 86400) in
        chunk_size
      else
        if (freq_eqb self_freq Weekly) then
          let chunk_size := (12 * 604800) in
          chunk_size
        else
          if (freq_eqb self_freq Monthly) then
            let chunk_size := (365 * 86400) in
            chunk_size
          else
            let chunk_size := ((5 * 365) * 86400) in
            chunk_size in
    let current_end := end_ in
    let effective_start := (match start with Some start => start | None => (end_ - ((10 * 365) * 86400)) end) in
    run_while fuel
      (fun current_end => (current_end >? effective_start))
      (fun current_end =>
        let out := @nil ivl in
        let chunk_start := (Z.max effective_start (current_end - chunk_size)) in
        let chunk := (filter (fun ivl_ => ((((ozd (st ivl_)) <? current_end) || (current_end =? end_)) && (((ozd (st ivl_)) >=? chunk_start) || (chunk_start =? effective_start)))) (fetch_forward chunk_start current_end)) in
        let out := out ++ (rev chunk) in
        let current_end := chunk_start in
        if ((negb (is_none start)) && (current_end <=? (ozd start))) then
          (out, current_end, Brk)
        else
          (out, current_end, Cont))
      (fun current_end =>
        let out := @nil ivl in
        out)
      current_end
  | None =>
    (RRaise ValueError)
  end.

(* calgebra/recurrence.py: RecurringPattern._get_safe_anchor *)
Definition g_recur_safe_anchor {DT : Type} {DATE : Type} {TD : Type} (fuel : nat) (self_freq : freq) (self_interval : Z) (self_anchor_timestamp : option Z) (self_epoch : DT) (dt_fromtimestamp : Z -> DT) (dt_make : Z -> Z -> Z -> DT) (dt_date : DT -> DATE) (date_sub : DATE -> DATE -> TD) (td_days : TD -> Z) (td_of_days : Z -> TD) (td_of_weeks : Z -> TD) (dt_add : DT -> TD -> DT) (dt_year : DT -> Z) (dt_month : DT -> Z) (dt_replace_ym : DT -> Z -> Z -> option DT) (dt_replace_y : DT -> Z -> option DT) (start_dt : DT) : res DT :=
  let base_anchor :=
    if (negb (is_none self_anchor_timestamp)) then
      let base_anchor := (dt_fromtimestamp (ozd self_anchor_timestamp)) in
      base_anchor
    else
      if (freq_eqb self_freq Weekly) then
        let base_anchor := (dt_make 1969 12 29) in
        base_anchor
      else
        let base_anchor := self_epoch in
        base_anchor in
  if (freq_eqb self_freq Daily) then
    let delta_days := (td_days (date_sub (dt_date start_dt) (dt_date base_anchor))) in
    let offset := (delta_days mod self_interval) in
    let aligned_days := (delta_days - offset) in
    (RDone (dt_add base_anchor (td_of_days aligned_days)))
  else
    if (freq_eqb self_freq Weekly) then
      let delta_days := (td_days (date_sub (dt_date start_dt) (dt_date base_anchor))) in
      let weeks := (delta_days / 7) in
      let offset := (weeks mod self_interval) in
      let aligned_weeks := (weeks - offset) in
      (RDone (dt_add base_anchor (td_of_weeks aligned_weeks)))
    else
      if (freq_eqb self_freq Monthly) then
        let delta_years := ((dt_year start_dt) - (dt_year base_anchor)) in
        let delta_months := ((dt_month start_dt) - (dt_month base_anchor)) in
        let total_months := ((delta_years * 12) + delta_months) in
        let offset := (total_months mod self_interval) in
        let target_total := (total_months - offset) in
        let abs_total := (((((dt_year base_anchor) * 12) + (dt_month base_anchor)) - 1) + target_total) in
        let year := (abs_total / 12) in
        let month := ((abs_total mod 12) + 1) in
        iter_while fuel
          (fun '(abs_total, year, month) => true)
          (fun '(abs_total, year, month) =>
            match (dt_replace_ym base_anchor year month) with
            | Some v_ =>
              (SRet (RDone v_))
            | None =>
              if (year <? 1) then
                (SRet (RRaise ValueError))
              else
                let abs_total := (abs_total - self_interval) in
                let year := (abs_total / 12) in
                let month := ((abs_total mod 12) + 1) in
                (SCont (abs_total, year, month))
            end)
          (fun '(abs_total, year, month) =>
            (RDone start_dt))
          (abs_total, year, month)
      else
        if (freq_eqb self_freq Yearly) then
          let delta_years := ((dt_year start_dt) - (dt_year base_anchor)) in
          let offset := (delta_years mod self_interval) in
          let year := ((dt_year start_dt) - offset) in
          iter_while fuel
            (fun year => true)
            (fun year =>
              match (dt_replace_y base_anchor year) with
              | Some v_ =>
                (SRet (RDone v_))
              | None =>
                if (year <? 1) then
                  (SRet (RRaise ValueError))
                else
                  let year := (year - self_interval) in
                  (SCont year)
              end)
            (fun year =>
              (RDone start_dt))
            year
        else
          (RDone start_dt).

(* calgebra/cache.py: CachedTimeline._purge_sink *)
Definition g_cache_purge_sink (self_sink : list ivl) (start : Z) (end_ : Z) : (list ivl) :=
  let affected := (fetch_static self_sink (Some start) (Some end_) false) in
  iter_for
    (fun self_sink ivl_ =>
      let self_sink := (sl_remove ivl_ self_sink) in
      let self_sink :=
        if ((negb (is_none (st ivl_))) && ((ozd (st ivl_)) <? start)) then
          let left_ := (set_span ivl_ (st ivl_) (Some start)) in
          let self_sink := (sl_add left_ self_sink) in
          self_sink
        else
          self_sink in
      if ((negb (is_none (en ivl_))) && ((ozd (en ivl_)) >? end_)) then
        let right_ := (set_span ivl_ (Some end_) (en ivl_)) in
        let self_sink := (sl_add right_ self_sink) in
        (SCont self_sink)
      else
        (SCont self_sink))
    (fun self_sink =>
      self_sink)
    self_sink affected.

(* calgebra/cache.py: CachedTimeline._fill_gap *)
Definition g_cache_fill_gap_clip {KEYS : Type} (self_sink : list ivl) (self_key_validated : bool) (self_key_fields : option KEYS) (source_fetch : option Z -> option Z -> bool -> list ivl) (gap_start : Z) (gap_end : Z) : (list ivl * bool) :=
  let fetched := (source_fetch (Some gap_start) (Some gap_end) false) in
  iter_for
    (fun '(self_sink, self_key_validated) ivl_ =>
      let self_key_validated :=
        if ((negb self_key_validated) && (negb (is_none self_key_fields))) then
          let self_key_validated := true in
          self_key_validated
        else
          self_key_validated in
      let clipped_start := (st ivl_) in
      let clipped_end := (en ivl_) in
      let clipped_start :=
        if ((is_none (st ivl_)) || ((ozd (st ivl_)) <? gap_start)) then
          let clipped_start := gap_start in
          (Some clipped_start)
        else
          clipped_start in
      let clipped_end :=
        if ((is_none (en ivl_)) || ((ozd (en ivl_)) >? gap_end)) then
          let clipped_end := gap_end in
          (Some clipped_end)
        else
          clipped_end in
      if ((negb (is_none clipped_start)) && (negb (is_none clipped_end))) then
        if ((ozd clipped_start) >=? (ozd clipped_end)) then
          (SCont (self_sink, self_key_validated))
        else
          let ivl_ :=
            if ((negb (oZ_eqb clipped_start (st ivl_))) || (negb (oZ_eqb clipped_end (en ivl_)))) then
              let ivl_ := (set_span ivl_ clipped_start clipped_end) in
              ivl_
            else
              ivl_ in
          let self_sink := (sl_add ivl_ self_sink) in
          (SCont (self_sink, self_key_validated))
      else
        let ivl_ :=
          if ((negb (oZ_eqb clipped_start (st ivl_))) || (negb (oZ_eqb clipped_end (en ivl_)))) then
            let ivl_ := (set_span ivl_ clipped_start clipped_end) in
            ivl_
          else
            ivl_ in
        let self_sink := (sl_add ivl_ self_sink) in
        (SCont (self_sink, self_key_validated)))
    (fun '(self_sink, self_key_validated) =>
      (self_sink, self_key_validated))
    (self_sink, self_key_validated) fetched.

(* calgebra/cache.py: CachedTimeline._evict_expired *)
Definition g_cache_evict_expired (fuel : nat) (clock_now : Z) (self_expiry_heap : list hent) (self_cover : list cov) (self_sink : list ivl) : res (list hent * list cov * list ivl) :=
  let now_ := (clock_now) in
  iter_while fuel
    (fun '(self_expiry_heap, self_sink, self_cover) => ((nonempty self_expiry_heap) && ((fst (fst (py_index (0, 0%N, mkCov 0 0 0) self_expiry_heap 0))) <=? now_)))
    (fun '(self_expiry_heap, self_sink, self_cover) =>
      let '(_, _, cover_) := (hd (0, 0%N, mkCov 0 0 0) self_expiry_heap) in
      let self_expiry_heap := (tl self_expiry_heap) in
      if (existsb (cov_eqb cover_) self_cover) then
        let self_cover := (cov_remove cover_ self_cover) in
        let self_sink := (g_cache_purge_sink self_sink (cv_s cover_) (cv_e cover_)) in
        (SCont (self_expiry_heap, self_sink, self_cover))
      else
        (SCont (self_expiry_heap, self_sink, self_cover)))
    (fun '(self_expiry_heap, self_sink, self_cover) =>
      (RDone (self_expiry_heap, self_cover, self_sink)))
    (self_expiry_heap, self_sink, self_cover).

(* calgebra/mutable/memory.py: MemoryTimeline._fetch_static *)
Definition g_mem_fetch_static (self_static_intervals : list ivl) (start : option Z) (end_ : option Z) (reverse : bool) : list ivl :=
  let out := @nil ivl in
  if (negb (nonempty self_static_intervals)) then
    out
  else
    let end_idx := (Z.of_nat (length self_static_intervals)) in
    let end_idx :=
      match end_ with
      | Some end_ =>
        let end_idx := (bisect_right (fun interval_ => (fstart interval_)) self_static_intervals end_) in
        end_idx
      | None =>
        end_idx
      end in
    let matching := (@nil ivl) in
    run_for
      (fun matching i =>
        let out := @nil ivl in
        let interval_ := (py_index (mkI None None Plain) self_static_intervals i) in
        if ((negb (is_none start)) && ((fend interval_) <=? (ozd start))) then
          (out, matching, Cont)
        else
          let matching := (matching ++ [interval_]) in
          (out, matching, Cont))
      (fun matching =>
        let out := @nil ivl in
        if reverse then
          let out := out ++ (rev matching) in
          out
        else
          let out := out ++ matching in
          out)
      matching (zrange end_idx).

(* calgebra/core.py: Difference._sweep *)
Definition g_diff_sweep (fuel : nat) (source_stream : list ivl) (sub_streams : list (list ivl)) : res (list ivl) :=
  let merged := (merge_by lt_fwd sub_streams) in
  let subtractor_iter := merged in
  let '(subtractor_iter, current_subtractor) :=
    match subtractor_iter with
    | v_ :: it_ =>
      let current_subtractor := (Some v_) in
      let subtractor_iter := it_ in
        (subtractor_iter, current_subtractor)
    | [] =>
      let current_subtractor := None in
      (subtractor_iter, current_subtractor)
    end in
  run_for_o
    (fun '(subtractor_iter, current_subtractor) event =>
      let out := @nil ivl in
      match current_subtractor with
      | Some current_subtractor =>
        let cursor := (fstart event) in
        let event_end := (fend event) in
        match sub_while fuel
            (fun '(subtractor_iter, current_subtractor) => ((negb (is_none current_subtractor)) && ((fend (oivld current_subtractor)) <? cursor)))
            (fun '(subtractor_iter, current_subtractor) =>
              let out := @nil ivl in
              match subtractor_iter with
              | v_ :: it_ =>
                let current_subtractor := (Some v_) in
                let subtractor_iter := it_ in
                  (out, (subtractor_iter, current_subtractor), true)
              | [] =>
                let current_subtractor := None in
                (out, (subtractor_iter, current_subtractor), true)
              end)
            (subtractor_iter, (Some current_subtractor)) with
        | None => None
        | Some (out1_, (subtractor_iter, current_subtractor)) =>
          let out := out ++ out1_ in
          match current_subtractor with
          | Some current_subtractor =>
            match sub_while fuel
                (fun '(cursor, subtractor_iter, current_subtractor) => ((negb (is_none current_subtractor)) && ((fstart (oivld current_subtractor)) <=? event_end)))
                (fun '(cursor, subtractor_iter, current_subtractor) =>
                  let out := @nil ivl in
                  let overlap_start := (Z.max cursor (fstart (oivld current_subtractor))) in
                  let overlap_end := (Z.min event_end (fend (oivld current_subtractor))) in
                  if (overlap_start <? overlap_end) then
                    if (cursor <? overlap_start) then
                      let start_val := (if (negb (cursor =? NEG_INF)) then (Some cursor) else None) in
                      let end_val := (if (negb (overlap_start =? NEG_INF)) then (Some overlap_start) else None) in
                      let out := out ++ [(set_span event start_val end_val)] in
                      let cursor := overlap_end in
                      if (cursor >=? event_end) then
                        (out, (cursor, subtractor_iter, current_subtractor), false)
                      else
                        if ((fend (oivld current_subtractor)) <=? event_end) then
                          match subtractor_iter with
                          | v_ :: it_ =>
                            let current_subtractor := (Some v_) in
                            let subtractor_iter := it_ in
                              (out, (cursor, subtractor_iter, current_subtractor), true)
                          | [] =>
                            let current_subtractor := None in
                            (out, (cursor, subtractor_iter, current_subtractor), true)
                          end
                        else
                          (out, (cursor, subtractor_iter, current_subtractor), false)
                    else
                      let cursor := overlap_end in
                      if (cursor >=? event_end) then
                        (out, (cursor, subtractor_iter, current_subtractor), false)
                      else
                        if ((fend (oivld current_subtractor)) <=? event_end) then
                          match subtractor_iter with
                          | v_ :: it_ =>
                            let current_subtractor := (Some v_) in
                            let subtractor_iter := it_ in
                              (out, (cursor, subtractor_iter, current_subtractor), true)
                          | [] =>
                            let current_subtractor := None in
                            (out, (cursor, subtractor_iter, current_subtractor), true)
                          end
                        else
                          (out, (cursor, subtractor_iter, current_subtractor), false)
                  else
                    if ((fend (oivld current_subtractor)) <=? event_end) then
                      match subtractor_iter with
                      | v_ :: it_ =>
                        let current_subtractor := (Some v_) in
                        let subtractor_iter := it_ in
                          (out, (cursor, subtractor_iter, current_subtractor), true)
                      | [] =>
                        let current_subtractor := None in
                        (out, (cursor, subtractor_iter, current_subtractor), true)
                      end
                    else
                      (out, (cursor, subtractor_iter, current_subtractor), false))
                (cursor, subtractor_iter, (Some current_subtractor)) with
            | None => None
            | Some (out1_, (cursor, subtractor_iter, current_subtractor)) =>
              let out := out ++ out1_ in
              if (cursor <? event_end) then
                let start_val := (if (negb (cursor =? NEG_INF)) then (Some cursor) else None) in
                let end_val := (if (negb (event_end =? POS_INF)) then (Some event_end) else None) in
                let out := out ++ [(set_span event start_val end_val)] in
                Some (out, (subtractor_iter, current_subtractor), Cont)
              else
                Some (out, (subtractor_iter, current_subtractor), Cont)
            end
          | None =>
            let out := out ++ [event] in
            Some (out, (subtractor_iter, current_subtractor), Cont)
          end
        end
      | None =>
        let out := out ++ [event] in
        Some (out, (subtractor_iter, current_subtractor), Cont)
      end)
    (fun '(subtractor_iter, current_subtractor) =>
      let out := @nil ivl in
      out)
    (subtractor_iter, current_subtractor) source_stream.

(* calgebra/core.py: _SourceState.advance *)
Definition g_ss_advance (self : sstate) : sstate * bool :=
  if (exh self) then
    (self, false)
  else
    match (rest self) with
    | v_ :: it_ =>
      let self := (mkS (cur self) it_ (exh self) (lpc self)) in
      let self := (mkS (Some v_) (rest self) (exh self) (lpc self)) in
      let self := (mkS (cur self) (rest self) (exh self) None) in
      (self, true)
    | [] =>
      let self := (mkS (cur self) (rest self) true (lpc self)) in
      (self, true)
    end.

(* calgebra/core.py: _SourceState.__init__ *)
Definition g_ss_init (iterator : list ivl) : sstate :=
  let self := (mkS None iterator false None) in
  let '(self, m1_) := (g_ss_advance self) in
  self.

(* calgebra/core.py: _SourceState.advance_if_ends_at *)
Definition g_ss_advance_if_ends_at (self : sstate) (cutoff : Z) : sstate * bool :=
  if ((negb (is_none (cur self))) && ((fend (oivld (cur self))) =? cutoff) && (negb (exh self))) then
    let '(self, m1_) := (g_ss_advance self) in
    (self, m1_)
  else
    (self, false).

(* calgebra/core.py: _SourceState.advance_if_stalled *)
Definition g_ss_advance_if_stalled (self : sstate) (cutoff : Z) : sstate * bool :=
  if ((negb (is_none (cur self))) && (negb (exh self)) && (oZ_eqb (lpc self) (Some cutoff)) && (negb ((fend (oivld (cur self))) =? cutoff))) then
    let '(self, m1_) := (g_ss_advance self) in
    (self, m1_)
  else
    (self, false).

(* calgebra/core.py: _SourceState.was_processed_at *)
Definition g_ss_was_processed_at (self : sstate) (cutoff : Z) : bool :=
  (oZ_eqb (lpc self) (Some cutoff)).

(* calgebra/core.py: Intersection._sweep *)
Definition g_inter_sweep (fuel : nat) (streams : list (list ivl)) (emit_indices : list Z) : res (list ivl) :=
  let out := @nil ivl in
  let states := (map (fun stream => (g_ss_init stream)) streams) in
  if (forallb (fun s => ((exh s) && (is_none (cur s)))) states) then
    (RDone out)
  else
    if ((Z.of_nat (length states)) =? 1) then
      let state := (py_index (mkS None [] true None) states 0) in
      run_while fuel
        (fun '(state, states) => (negb (is_none (cur state))))
        (fun '(state, states) =>
          let out := @nil ivl in
          let out := out ++ [(oivld (cur state))] in
          let '(state, m1_) := (g_ss_advance state) in
          let states := (py_set_index states 0 state) in
          if (exh state) then
            (out, (state, states), Brk)
          else
            (out, (state, states), Cont))
        (fun '(state, states) =>
          let out := @nil ivl in
          out)
        (state, states)
    else
      run_while fuel
        (fun states => true)
        (fun states =>
          let out := @nil ivl in
          let active := (map (fun s => (oivld (cur s))) (filter (fun s => (negb (is_none (cur s)))) states)) in
          if ((Z.of_nat (length active)) <? (Z.of_nat (length states))) then
            (out, states, Ret)
          else
            let overlap_start := (py_max (map (fun ivl_ => (fstart ivl_)) active)) in
            let overlap_end := (py_min (map (fun ivl_ => (fend ivl_)) active)) in
            if (overlap_start <? overlap_end) then
              let '(out1_, states) :=
                sub_for
                  (fun states idx =>
                    let out := @nil ivl in
                    let state := (py_index (mkS None [] true None) states idx) in
                    if ((is_none (cur state)) || (g_ss_was_processed_at state overlap_end)) then
                      (out, states, true)
                    else
                      let start_val := (if (negb (overlap_start =? NEG_INF)) then (Some overlap_start) else None) in
                      let end_val := (if (negb (overlap_end =? POS_INF)) then (Some overlap_end) else None) in
                      let out := out ++ [(set_span (oivld (cur state)) start_val end_val)] in
                      let state := (mkS (cur state) (rest state) (exh state) (Some overlap_end)) in
                      let states := (py_set_index states idx state) in
                      (out, states, true))
                  states emit_indices in
              let out := out ++ out1_ in
              let cutoff := overlap_end in
              let '(states, advanced) := (any_mut (fun v_ => (g_ss_advance_if_ends_at v_ cutoff)) states) in
              let '(advanced, states) :=
                if (negb advanced) then
                  let '(states, advanced) := (any_mut_at (mkS None [] true None) (fun v_ => (g_ss_advance_if_stalled v_ cutoff)) states emit_indices) in
                  (advanced, states)
                else
                  (advanced, states) in
              if (negb advanced) then
                (out, states, Ret)
              else
                (out, states, Cont)
            else
              let cutoff := overlap_end in
              let '(states, advanced) := (any_mut (fun v_ => (g_ss_advance_if_ends_at v_ cutoff)) states) in
              let '(advanced, states) :=
                if (negb advanced) then
                  let '(states, advanced) := (any_mut_at (mkS None [] true None) (fun v_ => (g_ss_advance_if_stalled v_ cutoff)) states emit_indices) in
                  (advanced, states)
                else
                  (advanced, states) in
              if (negb advanced) then
                (out, states, Ret)
              else
                (out, states, Cont))
        (fun states =>
          let out := @nil ivl in
          out)
        states.

(* calgebra/core.py: Intersection.fetch *)
Definition g_inter_fetch {TL : Type} (fuel : nat) (self_sources : list TL) (tl_is_mask : TL -> bool) (tl_fetch : TL -> option Z -> option Z -> bool -> list ivl) (start : option Z) (end_ : option Z) (reverse : bool) : res (list ivl) :=
  if (negb (nonempty self_sources)) then
    (RDone (@nil ivl))
  else
    let mask_sources := (map (fun s => (tl_is_mask s)) self_sources) in
    let emit_indices :=
      if (forallb (fun b_ => b_) mask_sources) then
        let emit_indices := (fs_of_list [0]) in
        emit_indices
      else
        if (existsb (fun b_ => b_) mask_sources) then
          let emit_indices := (fs_of_list (map (fun '(i, is_mask) => i) (filter (fun '(i, is_mask) => (negb is_mask)) (py_enumerate mask_sources)))) in
          emit_indices
        else
          let emit_indices := (fs_of_list (zrange (Z.of_nat (length self_sources)))) in
          emit_indices in
    if reverse then
      let streams := (map (fun s => (g_negate_stream (tl_fetch s start end_ true))) self_sources) in
      res_bind (g_inter_sweep fuel streams emit_indices) (fun r1_ =>
      (RDone (g_negate_stream r1_)))
    else
      let streams := (map (fun s => (tl_fetch s start end_ false)) self_sources) in
      res_bind (g_inter_sweep fuel streams emit_indices) (fun r2_ =>
      (RDone r2_)).

(* calgebra/core.py: Timeline._coerce_bound *)
Definition g_coerce_bound (bound_ : Slice.bound) : res (option Z) :=
  match bound_ with
  | Slice.BNone =>
    (RDone None)
  | Slice.BInt bound__z =>
    (RDone (Some bound__z))
  | Slice.BAware bound__t bound__zone =>
    (RDone (Some bound__t))
  | Slice.BNaive =>
    (RRaise TypeError)
  | Slice.BOther =>
    (RRaise TypeError)
  end.

(* calgebra/core.py: Timeline.__getitem__ *)
Definition g_getitem (self_fetch : option Z -> option Z -> bool -> list ivl) (clipped_fetch : option Z -> option Z -> bool -> list ivl) (item_start : Slice.bound) (item_stop : Slice.bound) (item_step : Slice.stepv) : res (list ivl) :=
  res_bind (g_coerce_bound item_start) (fun r1_ =>
  let start := r1_ in
  res_bind (g_coerce_bound item_stop) (fun r2_ =>
  let end_bound := r2_ in
  let step_ := item_step in
  match step_ with
  | Slice.SNone =>
    let reverse := false in
    let end_ := end_bound in
    let '(start, end_) :=
      if ((negb (is_none start)) && (negb (is_none end_)) && ((ozd start) >? (ozd end_))) then
        let '(start, end_) := (end_, start) in
        (start, end_)
      else
        (start, end_) in
    if ((is_none start) && (is_none end_)) then
      (RDone (self_fetch start end_ reverse))
    else
      (RDone (clipped_fetch start end_ reverse))
  | Slice.SInt step__z =>
    if (negb (zmem step__z [1; (-1)])) then
      (RRaise ValueError)
    else
      let reverse := (step__z =? (-1)) in
      let end_ := end_bound in
      let '(start, end_) :=
        if ((negb (is_none start)) && (negb (is_none end_)) && ((ozd start) >? (ozd end_))) then
          let '(start, end_) := (end_, start) in
          (start, end_)
        else
          (start, end_) in
      if ((is_none start) && (is_none end_)) then
        (RDone (self_fetch start end_ reverse))
      else
        (RDone (clipped_fetch start end_ reverse))
  | Slice.SOther =>
    (RRaise ValueError)
  end)).

(* calgebra/cache.py: CachedTimeline._stitch_at *)
Definition g_cache_stitch_at {KEYS : Type} {KEY : Type} (self_key_fields : option KEYS) (get_key : ivl -> option KEY) (key_eqb : KEY -> KEY -> bool) (fresh_left : bool) (self_sink : list ivl) (point : Z) : (list ivl) :=
  if (is_none self_key_fields) then
    self_sink
  else
    let left_ := (filter (fun ivl_ => (oZ_eqb (en ivl_) (Some point))) (sink_overlapping self_sink (point - 1))) in
    let right_ := (filter (fun ivl_ => (oZ_eqb (st ivl_) (Some point))) (sink_overlapping self_sink point)) in
    if ((negb (nonempty left_)) || (negb (nonempty right_))) then
      self_sink
    else
      let left_by_key := (dict_of (opt_eqb key_eqb) (fun ivl_ => (get_key ivl_)) (fun ivl_ => ivl_) left_) in
      let right_by_key := (dict_of (opt_eqb key_eqb) (fun ivl_ => (get_key ivl_)) (fun ivl_ => ivl_) right_) in
      iter_for
        (fun self_sink key_ =>
          if (is_none key_) then
            (SCont self_sink)
          else
            let '(l_ivl, r_ivl) := ((dict_get (opt_eqb key_eqb) (mkI None None Plain) key_ left_by_key), (dict_get (opt_eqb key_eqb) (mkI None None Plain) key_ right_by_key)) in
            let fresh := (if fresh_left then l_ivl else r_ivl) in
            let merged := (set_span fresh (st l_ivl) (en r_ivl)) in
            let self_sink := (sl_remove l_ivl self_sink) in
            let self_sink := (sl_remove r_ivl self_sink) in
            let self_sink := (sl_add merged self_sink) in
            (SCont self_sink))
        (fun self_sink =>
          self_sink)
        self_sink (keys_inter (opt_eqb key_eqb) left_by_key right_by_key).

(* calgebra/cache.py: CachedTimeline._fill_gap *)
Definition g_cache_fill_gap {KEYS : Type} {KEY : Type} (self_key_fields : option KEYS) (get_key : ivl -> option KEY) (key_eqb : KEY -> KEY -> bool) (source_fetch : option Z -> option Z -> bool -> list ivl) (self_ttl : Z) (clock_now : Z) (self_sink : list ivl) (self_key_validated : bool) (self_cover : list cov) (self_expiry_seq : N) (self_expiry_heap : list hent) (gap_start : Z) (gap_end : Z) : (list ivl * bool * list cov * N * list hent) :=
  let fetched := (source_fetch (Some gap_start) (Some gap_end) false) in
  iter_for
    (fun '(self_sink, self_key_validated) ivl_ =>
      let self_key_validated :=
        if ((negb self_key_validated) && (negb (is_none self_key_fields))) then
          let self_key_validated := true in
          self_key_validated
        else
          self_key_validated in
      let clipped_start := (st ivl_) in
      let clipped_end := (en ivl_) in
      let clipped_start :=
        if ((is_none (st ivl_)) || ((ozd (st ivl_)) <? gap_start)) then
          let clipped_start := gap_start in
          (Some clipped_start)
        else
          clipped_start in
      let clipped_end :=
        if ((is_none (en ivl_)) || ((ozd (en ivl_)) >? gap_end)) then
          let clipped_end := gap_end in
          (Some clipped_end)
        else
          clipped_end in
      if ((negb (is_none clipped_start)) && (negb (is_none clipped_end))) then
        if ((ozd clipped_start) >=? (ozd clipped_end)) then
          (SCont (self_sink, self_key_validated))
        else
          let ivl_ :=
            if ((negb (oZ_eqb clipped_start (st ivl_))) || (negb (oZ_eqb clipped_end (en ivl_)))) then
              let ivl_ := (set_span ivl_ clipped_start clipped_end) in
              ivl_
            else
              ivl_ in
          let self_sink := (sl_add ivl_ self_sink) in
          (SCont (self_sink, self_key_validated))
      else
        let ivl_ :=
          if ((negb (oZ_eqb clipped_start (st ivl_))) || (negb (oZ_eqb clipped_end (en ivl_)))) then
            let ivl_ := (set_span ivl_ clipped_start clipped_end) in
            ivl_
          else
            ivl_ in
        let self_sink := (sl_add ivl_ self_sink) in
        (SCont (self_sink, self_key_validated)))
    (fun '(self_sink, self_key_validated) =>
      let cover_ := (mkCov gap_start gap_end (clock_now)) in
      let self_cover := (cov_add cover_ self_cover) in
      let self_expiry_seq := (N_plus_Z self_expiry_seq 1) in
      let self_expiry_heap := (heap_push (((cv_t cover_) + self_ttl), self_expiry_seq, cover_) self_expiry_heap) in
      let self_sink := (g_cache_stitch_at self_key_fields get_key key_eqb false self_sink gap_start) in
      let self_sink := (g_cache_stitch_at self_key_fields get_key key_eqb true self_sink gap_end) in
      (self_sink, self_key_validated, self_cover, self_expiry_seq, self_expiry_heap))
    (self_sink, self_key_validated) fetched.

(* calgebra/cache.py: CachedTimeline._fetch_sink *)
Definition g_cache_fetch_sink (self_sink : list ivl) (start : Z) (end_ : Z) (reverse : bool) : list ivl :=
  let out := @nil ivl in
  let out := out ++ (fetch_static self_sink (Some start) (Some end_) reverse) in
  out.

(* calgebra/cache.py: CachedTimeline.fetch *)
Definition g_cache_fetch {KEYS : Type} {KEY : Type} (fuel : nat) (self_key_fields : option KEYS) (get_key : ivl -> option KEY) (key_eqb : KEY -> KEY -> bool) (source_fetch : option Z -> option Z -> bool -> list ivl) (self_ttl : Z) (tick : Z) (clock : Z) (self_sink : list ivl) (self_key_validated : bool) (self_cover : list cov) (self_expiry_seq : N) (self_expiry_heap : list hent) (start : option Z) (end_ : option Z) (reverse : bool) : res (Z * list ivl * bool * list cov * N * list hent * list ivl) :=
  let out := @nil ivl in
  if ((is_none start) || (is_none end_)) then
    (RRaise ValueError)
  else
    res_bind (res_bind (g_cache_evict_expired fuel clock self_expiry_heap self_cover self_sink) (fun x_ => RDone (x_, clock + tick))) (fun '(self_expiry_heap, self_cover, self_sink, clock) =>
    let query := tt in
    iter_for
      (fun '(self_sink, self_key_validated, self_cover, self_expiry_seq, self_expiry_heap, clock) gap_ =>
        let '(self_sink, self_key_validated, self_cover, self_expiry_seq, self_expiry_heap, clock) := (g_cache_fill_gap self_key_fields get_key key_eqb source_fetch self_ttl clock self_sink self_key_validated self_cover self_expiry_seq self_expiry_heap (ozd (st gap_)) (ozd (en gap_)), clock + tick) in
        (SCont (self_sink, self_key_validated, self_cover, self_expiry_seq, self_expiry_heap, clock)))
      (fun '(self_sink, self_key_validated, self_cover, self_expiry_seq, self_expiry_heap, clock) =>
        let result := (g_cache_fetch_sink self_sink (ozd start) (ozd end_) reverse) in
        let out := out ++ result in
        (RDone (clock, self_sink, self_key_validated, self_cover, self_expiry_seq, self_expiry_heap, out)))
      (self_sink, self_key_validated, self_cover, self_expiry_seq, self_expiry_heap, clock) (gaps_of self_cover (ozd start) (ozd end_))).

(* calgebra/core.py: Union.fetch *)
Definition g_union_fetch {TL : Type} (self_sources : list TL) (tl_fetch : TL -> option Z -> option Z -> bool -> list ivl) (start : option Z) (end_ : option Z) (reverse : bool) : list ivl :=
  let streams := (map (fun source => (tl_fetch source start end_ reverse)) self_sources) in
  let merged :=
    if reverse then
      let merged := (merge_by lt_rev streams) in
      merged
    else
      let merged := (merge_by lt_fwd streams) in
      merged in
  merged.

(* calgebra/core.py: Difference.fetch *)
Definition g_diff_fetch {TL : Type} (fuel : nat) (source_fetch : option Z -> option Z -> bool -> list ivl) (self_subtractors : list TL) (tl_fetch : TL -> option Z -> option Z -> bool -> list ivl) (start : option Z) (end_ : option Z) (reverse : bool) : res (list ivl) :=
  if (negb (nonempty self_subtractors)) then
    (RDone (source_fetch start end_ reverse))
  else
    if reverse then
      let source_stream := (g_negate_stream (source_fetch start end_ true)) in
      let sub_streams := (map (fun sub => (g_negate_stream (tl_fetch sub start end_ true))) self_subtractors) in
      res_bind (g_diff_sweep fuel source_stream sub_streams) (fun r1_ =>
      (RDone (g_negate_stream r1_)))
    else
      let source_stream := (source_fetch start end_ false) in
      let sub_streams := (map (fun sub => (tl_fetch sub start end_ false)) self_subtractors) in
      res_bind (g_diff_sweep fuel source_stream sub_streams) (fun r2_ =>
      (RDone r2_)).

(* calgebra/core.py: Difference.overlapping *)
Definition g_diff_overlapping {TL : Type} (fuel : nat) (source_overlapping : Z -> list ivl) (self_subtractors : list TL) (tl_fetch : TL -> option Z -> option Z -> bool -> list ivl) (point : Z) : res (list ivl) :=
  let out := @nil ivl in
  if (negb (nonempty self_subtractors)) then
    let out := out ++ (source_overlapping point) in
    (RDone out)
  else
    run_for_r
      (fun _ src_ivl =>
        let out := @nil ivl in
        let sub_streams := (map (fun sub => (tl_fetch sub (st src_ivl) (en src_ivl) false)) self_subtractors) in
        res_bind (g_diff_sweep fuel [src_ivl] sub_streams) (fun r1_ =>
        let '(out1_, _) :=
          sub_for
            (fun _ fragment =>
              let out := @nil ivl in
              if (((fstart fragment) <=? point) && (point <? (fend fragment))) then
                let out := out ++ [fragment] in
                (out, tt, true)
              else
                (out, tt, true))
            tt r1_ in
        let out := out ++ out1_ in
        RDone (out, tt, Cont)))
      (fun _ =>
        let out := @nil ivl in
        out)
      tt (source_overlapping point).

(* calgebra/core.py: Complement.overlapping *)
Definition g_compl_overlapping (source_fetch : option Z -> option Z -> bool -> list ivl) (self_fetch : option Z -> option Z -> bool -> list ivl) (point : Z) : list ivl :=
  if (existsb (fun ivl_ => (((fstart ivl_) <=? point) && (point <? (fend ivl_)))) (source_fetch (Some point) (Some (point + 1)) false)) then
    (@nil ivl)
  else
    let right_ := None in
    iter_for
      (fun right_ ivl_ =>
        if ((fstart ivl_) >? point) then
          let right_ := (st ivl_) in
          (SBrk right_)
        else
          (SCont right_))
      (fun right_ =>
        let left_ := None in
        iter_for
          (fun left_ gap_ =>
            if (((fstart gap_) <=? point) && ((fend gap_) >? point)) then
              let left_ := (st gap_) in
              (SBrk left_)
            else
              (SCont left_))
          (fun left_ =>
            [(mkI left_ right_ Plain)])
          left_ (self_fetch None (Some (point + 1)) true))
      right_ (source_fetch (Some point) None false).

(* calgebra/core.py: Timeline.overlapping *)
Definition g_base_overlapping (self_fetch : option Z -> option Z -> bool -> list ivl) (point : Z) : list ivl :=
  (filter (fun ivl_ => (((fstart ivl_) <=? point) && (point <? (fend ivl_)))) (self_fetch (Some point) (Some (point + 1)) false)).

(* calgebra/recurrence.py: RecurringPattern._occurrence_to_interval *)
Definition g_recur_occurrence_to_interval {DT : Type} {TD : Type} (self_start_seconds : Z) (self_duration_seconds : Z) (dt_replace_hms : DT -> Z -> Z -> Z -> DT) (dt_timestamp : DT -> Z) (dt_fromtimestamp : Z -> DT) (td_of_seconds : Z -> TD) (dt_add : DT -> TD -> DT) (interval_class : Z -> Z -> ivl) (occurrence : DT) : ivl :=
  let start_hour_int := (self_start_seconds / 3600) in
  let remaining := (self_start_seconds mod 3600) in
  let start_minute := (remaining / 60) in
  let start_second := (remaining mod 60) in
  let window_start := (dt_replace_hms occurrence start_hour_int start_minute start_second) in
  let window_start := (dt_fromtimestamp (dt_timestamp window_start)) in
  let window_end := (dt_add window_start (td_of_seconds self_duration_seconds)) in
  let base_interval := (interval_class (dt_timestamp window_start) (dt_timestamp window_end)) in
  base_interval.

(* calgebra/metrics.py: _period_windows_with_dt *)
Definition g_period_windows_dt {DT : Type} {TD : Type} (fuel : nat) (p_fromtimestamp : Z -> DT) (p_ymd : Z -> Z -> Z -> DT) (p_ymdh : Z -> Z -> Z -> Z -> DT) (p_hours : Z -> TD) (p_days : Z -> TD) (p_weeks : Z -> TD) (p_add : DT -> TD -> DT) (p_sub : DT -> TD -> DT) (p_lt : DT -> DT -> bool) (p_timestamp : DT -> Z) (p_weekday : DT -> Z) (p_year : DT -> Z) (p_month : DT -> Z) (p_day : DT -> Z) (p_hour : DT -> Z) (start_ts : Z) (end_ts : Z) (period : Metrics.period) : res (list ((DT * Z * Z))) :=
  if (start_ts >=? end_ts) then
    (RDone (@nil ((DT * Z * Z))))
  else
    let zone := tt in
    let start_dt := (p_fromtimestamp start_ts) in
    let end_dt := (p_fromtimestamp end_ts) in
    match period with
    | Metrics.PHour =>
      let windows := (@nil ((DT * Z * Z))) in
      let current := (p_ymdh (p_year start_dt) (p_month start_dt) (p_day start_dt) (p_hour start_dt)) in
      iter_while fuel
        (fun '(windows, current) => (p_lt current end_dt))
        (fun '(windows, current) =>
          let next_hour := (p_add current (p_hours 1)) in
          let win_start := (p_timestamp current) in
          let win_end := (p_timestamp next_hour) in
          let windows := (windows ++ [(current, win_start, win_end)]) in
          let current := next_hour in
          (SCont (windows, current)))
        (fun '(windows, current) =>
          (RDone windows))
        (windows, current)
    | Metrics.PDay =>
      let windows := (@nil ((DT * Z * Z))) in
      let current := (p_ymd (p_year start_dt) (p_month start_dt) (p_day start_dt)) in
      iter_while fuel
        (fun '(windows, current) => (p_lt current end_dt))
        (fun '(windows, current) =>
          let next_day := (p_add current (p_days 1)) in
          let win_start := (p_timestamp current) in
          let win_end := (p_timestamp next_day) in
          let windows := (windows ++ [(current, win_start, win_end)]) in
          let current := next_day in
          (SCont (windows, current)))
        (fun '(windows, current) =>
          (RDone windows))
        (windows, current)
    | Metrics.PWeek =>
      let windows := (@nil ((DT * Z * Z))) in
      let days_since_monday := (p_weekday start_dt) in
      let week_start := (p_sub (p_ymd (p_year start_dt) (p_month start_dt) (p_day start_dt)) (p_days days_since_monday)) in
      let current := week_start in
      iter_while fuel
        (fun '(windows, current) => (p_lt current end_dt))
        (fun '(windows, current) =>
          let next_week := (p_add current (p_weeks 1)) in
          let win_start := (p_timestamp current) in
          let win_end := (p_timestamp next_week) in
          let windows := (windows ++ [(current, win_start, win_end)]) in
          let current := next_week in
          (SCont (windows, current)))
        (fun '(windows, current) =>
          (RDone windows))
        (windows, current)
    | Metrics.PMonth =>
      let windows := (@nil ((DT * Z * Z))) in
      let current := (p_ymd (p_year start_dt) (p_month start_dt) 1) in
      iter_while fuel
        (fun '(windows, current) => (p_lt current end_dt))
        (fun '(windows, current) =>
          let next_month :=
            if ((p_month current) =? 12) then
              let next_month := (p_ymd ((p_year current) + 1) 1 1) in
              next_month
            else
              let next_month := (p_ymd (p_year current) ((p_month current) + 1) 1) in
              next_month in
          let win_start := (p_timestamp current) in
          let win_end := (p_timestamp next_month) in
          let windows := (windows ++ [(current, win_start, win_end)]) in
          let current := next_month in
          (SCont (windows, current)))
        (fun '(windows, current) =>
          (RDone windows))
        (windows, current)
    | Metrics.PYear =>
      let windows := (@nil ((DT * Z * Z))) in
      let current := (p_ymd (p_year start_dt) 1 1) in
      iter_while fuel
        (fun '(windows, current) => (p_lt current end_dt))
        (fun '(windows, current) =>
          let next_year := (p_ymd ((p_year current) + 1) 1 1) in
          let win_start := (p_timestamp current) in
          let win_end := (p_timestamp next_year) in
          let windows := (windows ++ [(current, win_start, win_end)]) in
          let current := next_year in
          (SCont (windows, current)))
        (fun '(windows, current) =>
          (RDone windows))
        (windows, current)
    | Metrics.PFull =>
      (RDone [(start_dt, start_ts, end_ts)])
    end.

(* calgebra/util.py: SECOND *)
Definition g_const_SECOND : Z :=
  1.

(* calgebra/util.py: MINUTE *)
Definition g_const_MINUTE : Z :=
  60.

(* calgebra/util.py: HOUR *)
Definition g_const_HOUR : Z :=
  3600.

(* calgebra/util.py: DAY *)
Definition g_const_DAY : Z :=
  86400.

(* calgebra/util.py: WEEK *)
Definition g_const_WEEK : Z :=
  604800.

(* calgebra/util.py: MONTH *)
Definition g_const_MONTH : Z :=
  2678400.

(* calgebra/util.py: YEAR *)
Definition g_const_YEAR : Z :=
  31536000.

(* calgebra/interval.py: NEG_INF *)
Definition g_const_NEG_INF : Z :=
  (- (9223372036854775807 - 1)).

(* calgebra/interval.py: POS_INF *)
Definition g_const_POS_INF : Z :=
  (9223372036854775807 - 1).

(* calgebra/interval.py: Interval.__post_init__ *)
Definition g_interval_post_init (self : ivl) : res unit :=
  if ((negb (is_none (st self))) && (negb (is_none (en self)))) then
    if ((ozd (st self)) >? (ozd (en self))) then
      (RRaise ValueError)
    else
      (RDone tt)
  else
    (RDone tt).

(* calgebra/interval.py: Interval.duration *)
Definition g_interval_duration (self : ivl) : option Z :=
  if ((is_none (st self)) || (is_none (en self))) then
    None
  else
    (Some ((ozd (en self)) - (ozd (st self)))).

(* calgebra/interval.py: Interval.from_datetimes *)
Definition g_interval_from_datetimes (cls_new : Z -> Z -> res ivl) (start : dtarg) (end_ : dtarg) : res ivl :=
  match start with
  | DAware start_t start_zone =>
    match end_ with
    | DAware end__t end__zone =>
      res_bind (cls_new start_t end__t) (fun r1_ =>
      (RDone r1_))
    | DNaive =>
      (RRaise ValueError)
    end
  | DNaive =>
    match end_ with
    | DAware end__t end__zone =>
      (RRaise ValueError)
    | DNaive =>
      (RRaise ValueError)
    end
  end.

(* calgebra/transform.py: _Buffered.__init__ *)
Definition g_buffered_init {TL : Type} (source : TL) (before : Z) (after : Z) : bufrec TL :=
  let self_source := source in
  let self_before := before in
  let self_after := after in
  (mkBuf self_source self_before self_after).

(* calgebra/transform.py: _MergedWithin.__init__ *)
Definition g_merged_init {TL : Type} (source : TL) (gap_ : Z) : mwrec TL :=
  let self_source := source in
  let self_gap := gap_ in
  (mkMW self_source self_gap).

(* calgebra/transform.py: _MergedWithin.fetch *)
Definition g_merged_fetch (source_fetch : option Z -> option Z -> bool -> list ivl) (self_gap : Z) (start : option Z) (end_ : option Z) (reverse : bool) : list ivl :=
  if reverse then
    (rev (g_merged_fetch_forward source_fetch self_gap start end_))
  else
    (g_merged_fetch_forward source_fetch self_gap start end_).

(* calgebra/transform.py: buffer *)
Definition g_buffer {TL : Type} (timeline : TL) (before : Z) (after : Z) : res (bufrec TL) :=
  if (before <? 0) then
    (RRaise ValueError)
  else
    if (after <? 0) then
      (RRaise ValueError)
    else
      (RDone (g_buffered_init timeline before after)).

(* calgebra/transform.py: merge_within *)
Definition g_merge_within {TL : Type} (timeline : TL) (gap_ : Z) : mwrec TL :=
  (g_merged_init timeline gap_).

(* calgebra/core.py: _flatten_sources *)
Definition g_flatten_sources {TL : Type} (tl_is_cls : TL -> bool) (tl_sources : TL -> list TL) (sources : list TL) : list TL :=
  let flattened := (@nil TL) in
  iter_for
    (fun flattened source =>
      if (tl_is_cls source) then
        let flattened := (flattened ++ (tl_sources source)) in
        (SCont flattened)
      else
        let flattened := (flattened ++ [source]) in
        (SCont flattened))
    (fun flattened =>
      flattened)
    flattened sources.

(* calgebra/core.py: Union.__init__ *)
Definition g_union_init {TL : Type} (tl_is_union : TL -> bool) (tl_sources : TL -> list TL) (sources : list TL) : srcsrec TL :=
  let self_sources := (g_flatten_sources tl_is_union tl_sources sources) in
  (mkSrcs self_sources).

(* calgebra/core.py: Intersection.__init__ *)
Definition g_intersection_init {TL : Type} (tl_is_intersection : TL -> bool) (tl_sources : TL -> list TL) (sources : list TL) : srcsrec TL :=
  let self_sources := (g_flatten_sources tl_is_intersection tl_sources sources) in
  (mkSrcs self_sources).

(* calgebra/core.py: Filtered.__init__ *)
Definition g_filtered_init {TL : Type} {FT : Type} (source : TL) (filter_ : FT) : filtrec TL FT :=
  let self_source := source in
  let self_filter := filter_ in
  (mkFilt self_source self_filter).

(* calgebra/core.py: Difference.__init__ *)
Definition g_difference_init {TL : Type} (source : TL) (subtractors : list TL) : diffrec TL :=
  let self_source := source in
  let self_subtractors := subtractors in
  (mkDiff self_source self_subtractors).

(* calgebra/core.py: Complement.__init__ *)
Definition g_complement_init {TL : Type} (source : TL) : complrec TL :=
  let self_source := source in
  (mkCompl self_source).

(* calgebra/core.py: Timeline.__or__ *)
Definition g_tl_or {TL : Type} {FT : Type} (mk_union : TL -> TL -> TL) (self : TL) (other : operand TL FT) : res TL :=
  match other with
  | OTimeline other_tl =>
    (RDone (mk_union self other_tl))
  | OFilter other_f =>
    (RRaise TypeError)
  end.

(* calgebra/core.py: Timeline.__and__ *)
Definition g_tl_and {TL : Type} {FT : Type} (mk_filtered : TL -> FT -> TL) (mk_intersection : TL -> TL -> TL) (self : TL) (other : operand TL FT) : TL :=
  match other with
  | OTimeline other_tl =>
    (mk_intersection self other_tl)
  | OFilter other_f =>
    (mk_filtered self other_f)
  end.

(* calgebra/core.py: Timeline.__sub__ *)
Definition g_tl_sub {TL : Type} (mk_difference : TL -> TL -> TL) (self : TL) (other : TL) : TL :=
  (mk_difference self other).

(* calgebra/core.py: Timeline.__invert__ *)
Definition g_tl_invert {TL : Type} (mk_complement : TL -> TL) (self : TL) : TL :=
  (mk_complement self).

(* calgebra/core.py: flatten *)
Definition g_flatten {TL : Type} (tl_invert : TL -> TL) (timeline : TL) : TL :=
  (tl_invert (tl_invert timeline)).

(* calgebra/core.py: Timeline._is_mask *)
Definition g_base_is_mask  : bool :=
  false.

(* calgebra/core.py: _SolidTimeline._is_mask *)
Definition g_solid_is_mask  : bool :=
  true.

(* calgebra/core.py: Union._is_mask *)
Definition g_union_is_mask {TL : Type} (self_sources : list TL) (tl_is_mask : TL -> bool) : bool :=
  (forallb (fun s => (tl_is_mask s)) self_sources).

(* calgebra/core.py: Intersection._is_mask *)
Definition g_intersection_is_mask {TL : Type} (self_sources : list TL) (tl_is_mask : TL -> bool) : bool :=
  (forallb (fun s => (tl_is_mask s)) self_sources).

(* calgebra/core.py: Filtered._is_mask *)
Definition g_filtered_is_mask {TL : Type} (self_source : TL) (tl_is_mask : TL -> bool) : bool :=
  (tl_is_mask self_source).

(* calgebra/core.py: Difference._is_mask *)
Definition g_difference_is_mask {TL : Type} (self_source : TL) (tl_is_mask : TL -> bool) : bool :=
  (tl_is_mask self_source).

(* calgebra/core.py: Complement._is_mask *)
Definition g_complement_is_mask  : bool :=
  true.

(* calgebra/core.py: Timeline._is_mask *)
Definition g_buffered_is_mask  : bool :=
  false.

(* calgebra/core.py: Timeline._is_mask *)
Definition g_merged_is_mask  : bool :=
  false.

(* calgebra/core.py: Timeline._is_mask *)
Definition g_memory_is_mask  : bool :=
  false.

(* calgebra/cache.py: CachedTimeline._is_mask *)
Definition g_cached_is_mask {TL : Type} (self_source : TL) (tl_is_mask : TL -> bool) : bool :=
  (tl_is_mask self_source).

(* calgebra/cache.py: CachedTimeline.__init__ *)
Definition g_cached_init {TL : Type} (tl_is_mask : TL -> bool) (source : TL) (ttl : Z) (key_ : keyarg) : cacherec TL :=
  let self_source := source in
  let self_ttl := ttl in
  if (tl_is_mask source) then
    let self_key_fields := None in
    let self_key_validated := false in
    let self_sink := (@nil ivl) in
    let self_cover := (@nil cov) in
    let self_expiry_heap := (@nil hent) in
    let self_expiry_seq := 0%N in
    (mkCacheRec self_source self_ttl self_key_fields self_key_validated self_sink self_cover self_expiry_heap self_expiry_seq)
  else
    match key_ with
    | KStr key__s =>
      let self_key_fields := (Some [key__s]) in
      let self_key_validated := false in
      let self_sink := (@nil ivl) in
      let self_cover := (@nil cov) in
      let self_expiry_heap := (@nil hent) in
      let self_expiry_seq := 0%N in
      (mkCacheRec self_source self_ttl self_key_fields self_key_validated self_sink self_cover self_expiry_heap self_expiry_seq)
    | KSeq key__l =>
      let self_key_fields := (Some key__l) in
      let self_key_validated := false in
      let self_sink := (@nil ivl) in
      let self_cover := (@nil cov) in
      let self_expiry_heap := (@nil hent) in
      let self_expiry_seq := 0%N in
      (mkCacheRec self_source self_ttl self_key_fields self_key_validated self_sink self_cover self_expiry_heap self_expiry_seq)
    end.

(* calgebra/cache.py: CachedTimeline._get_key *)
Definition g_cache_get_key {FV : Type} (self_key_fields : option ((list N))) (ivl_getattr : ivl -> N -> option FV) (ivl_ : ivl) : res (option ((list FV))) :=
  if (is_none self_key_fields) then
    (RDone None)
  else
    match opt_all (map (fun f => ivl_getattr ivl_ f) (match self_key_fields with Some v_ => v_ | None => [] end)) with
    | Some v_ => (RDone (Some v_))
    | None => (RRaise TypeError)
    end.

(* calgebra/mutable/memory.py: _interval_sort_key *)
Definition g_interval_sort_key (interval_ : ivl) : (Z * Z) :=
  ((fstart interval_), (fend interval_)).

(* calgebra/mutable/memory.py: MemoryTimeline.fetch *)
Definition g_mem_fetch {ID : Type} {PAT : Type} (pattern_fetch : PAT -> option Z -> option Z -> bool -> list ivl) (self_static_intervals : list ivl) (self_recurring_patterns : list ((ID * PAT))) (start : option Z) (end_ : option Z) (reverse : bool) : list ivl :=
  let iterators := (@nil (list ivl)) in
  iter_for
    (fun iterators '(_, pattern) =>
      let iterators := (iterators ++ [(pattern_fetch pattern start end_ reverse)]) in
      (SCont iterators))
    (fun iterators =>
      let iterators :=
        if (nonempty self_static_intervals) then
          let iterators := (iterators ++ [(g_mem_fetch_static self_static_intervals start end_ reverse)]) in
          iterators
        else
          iterators in
      if reverse then
        (merge_by lt_rev iterators)
      else
        (merge_by lt_fwd iterators))
    iterators self_recurring_patterns.

(* calgebra/mutable/memory.py: MemoryTimeline._remove_recurring_instance *)
Definition g_mem_remove_recurring_instance {ID : Type} {PAT : Type} {EXS : Type} (recurring_id_of : ivl -> option ID) (id_truthy : ID -> bool) (id_eqb : ID -> ID -> bool) (pattern_fetch : PAT -> option Z -> option Z -> bool -> list ivl) (pattern_exdates : PAT -> EXS) (exs_add : EXS -> Z -> EXS) (pattern_set_exdates : PAT -> EXS -> PAT) (self_recurring_patterns : list ((ID * PAT))) (interval_ : ivl) : (list ((ID * PAT)) * (list wres)) :=
  let recurring_id := (recurring_id_of interval_) in
  if (is_none recurring_id) then
    (self_recurring_patterns, [(mkWR false (Some interval_) (Some ValueError))])
  else
    iter_for
      (fun self_recurring_patterns '(i_, (stored_id, pattern)) =>
        if (eq_opt id_eqb stored_id recurring_id) then
          if (is_none (st interval_)) then
            (SRet (self_recurring_patterns, [(mkWR false (Some interval_) (Some ValueError))]))
          else
            if (negb (existsb (fun occ => (oZ_eqb (st occ) (st interval_))) (pattern_fetch pattern (st interval_) (Some ((ozd (st interval_)) + 1)) false))) then
              (SRet (self_recurring_patterns, [(mkWR false (Some interval_) (Some ValueError))]))
            else
              let pattern := (pattern_set_exdates pattern (exs_add (pattern_exdates pattern) (ozd (st interval_)))) in
              let self_recurring_patterns := (py_set_index self_recurring_patterns i_ (stored_id, pattern)) in
              (SRet (self_recurring_patterns, [(mkWR true (Some interval_) None)]))
        else
          (SCont self_recurring_patterns))
      (fun self_recurring_patterns =>
        (self_recurring_patterns, [(mkWR false (Some interval_) (Some ValueError))]))
      self_recurring_patterns (py_enumerate self_recurring_patterns).

(* calgebra/mutable/memory.py: MemoryTimeline._remove_interval *)
Definition g_mem_remove_interval {ID : Type} {PAT : Type} {EXS : Type} (recurring_id_of : ivl -> option ID) (id_truthy : ID -> bool) (id_eqb : ID -> ID -> bool) (pattern_fetch : PAT -> option Z -> option Z -> bool -> list ivl) (pattern_exdates : PAT -> EXS) (exs_add : EXS -> Z -> EXS) (pattern_set_exdates : PAT -> EXS -> PAT) (self_static_intervals : list ivl) (self_recurring_patterns : list ((ID * PAT))) (interval_ : ivl) : (list ivl * list ((ID * PAT)) * (list wres)) :=
  if (existsb (ivl_eqb interval_) self_static_intervals) then
    let self_static_intervals := (sl_remove interval_ self_static_intervals) in
    (self_static_intervals, self_recurring_patterns, [(mkWR true (Some interval_) None)])
  else
    let recurring_id := (recurring_id_of interval_) in
    if (truthy_opt id_truthy recurring_id) then
      let '(self_recurring_patterns, r1_) := (g_mem_remove_recurring_instance recurring_id_of id_truthy id_eqb pattern_fetch pattern_exdates exs_add pattern_set_exdates self_recurring_patterns interval_) in
      (self_static_intervals, self_recurring_patterns, r1_)
    else
      (self_static_intervals, self_recurring_patterns, [(mkWR false (Some interval_) (Some ValueError))]).

(* calgebra/mutable/memory.py: MemoryTimeline._remove_series *)
Definition g_mem_remove_series {ID : Type} {PAT : Type} {EXS : Type} (recurring_id_of : ivl -> option ID) (id_truthy : ID -> bool) (id_eqb : ID -> ID -> bool) (pattern_fetch : PAT -> option Z -> option Z -> bool -> list ivl) (pattern_exdates : PAT -> EXS) (exs_add : EXS -> Z -> EXS) (pattern_set_exdates : PAT -> EXS -> PAT) (self_static_intervals : list ivl) (self_recurring_patterns : list ((ID * PAT))) (interval_ : ivl) : (list ivl * list ((ID * PAT)) * (list wres)) :=
  let recurring_id := (recurring_id_of interval_) in
  if (is_none recurring_id) then
    let '(self_static_intervals, self_recurring_patterns, r1_) := (g_mem_remove_interval recurring_id_of id_truthy id_eqb pattern_fetch pattern_exdates exs_add pattern_set_exdates self_static_intervals self_recurring_patterns interval_) in
    (self_static_intervals, self_recurring_patterns, r1_)
  else
    iter_for
      (fun self_recurring_patterns '(i, (pattern_id, _)) =>
        if (eq_opt id_eqb pattern_id recurring_id) then
          let self_recurring_patterns := (py_pop self_recurring_patterns i) in
          (SRet (self_static_intervals, self_recurring_patterns, [(mkWR true None None)]))
        else
          (SCont self_recurring_patterns))
      (fun self_recurring_patterns =>
        (self_static_intervals, self_recurring_patterns, [(mkWR false None (Some ValueError))]))
      self_recurring_patterns (py_enumerate self_recurring_patterns).

(* calgebra/mutable/memory.py: MemoryTimeline._remove_many *)
Definition g_mem_remove_many {ID : Type} {PAT : Type} {EXS : Type} (recurring_id_of : ivl -> option ID) (id_truthy : ID -> bool) (id_eqb : ID -> ID -> bool) (pattern_fetch : PAT -> option Z -> option Z -> bool -> list ivl) (pattern_exdates : PAT -> EXS) (exs_add : EXS -> Z -> EXS) (pattern_set_exdates : PAT -> EXS -> PAT) (self_static_intervals : list ivl) (self_recurring_patterns : list ((ID * PAT))) (intervals : list ivl) : (list ivl * list ((ID * PAT)) * (list wres)) :=
  let results := (@nil wres) in
  iter_for
    (fun '(results, self_static_intervals, self_recurring_patterns) interval_ =>
      let '(self_static_intervals, self_recurring_patterns, r1_) := (g_mem_remove_interval recurring_id_of id_truthy id_eqb pattern_fetch pattern_exdates exs_add pattern_set_exdates self_static_intervals self_recurring_patterns interval_) in
      let results := (results ++ r1_) in
      (SCont (results, self_static_intervals, self_recurring_patterns)))
    (fun '(results, self_static_intervals, self_recurring_patterns) =>
      (self_static_intervals, self_recurring_patterns, results))
    (results, self_static_intervals, self_recurring_patterns) intervals.

(* calgebra/mutable/memory.py: MemoryTimeline._remove_many_series *)
Definition g_mem_remove_many_series {ID : Type} {PAT : Type} {EXS : Type} (recurring_id_of : ivl -> option ID) (id_truthy : ID -> bool) (id_eqb : ID -> ID -> bool) (pattern_fetch : PAT -> option Z -> option Z -> bool -> list ivl) (pattern_exdates : PAT -> EXS) (exs_add : EXS -> Z -> EXS) (pattern_set_exdates : PAT -> EXS -> PAT) (self_static_intervals : list ivl) (self_recurring_patterns : list ((ID * PAT))) (intervals : list ivl) : (list ivl * list ((ID * PAT)) * (list wres)) :=
  let results := (@nil wres) in
  iter_for
    (fun '(results, self_static_intervals, self_recurring_patterns) interval_ =>
      let '(self_static_intervals, self_recurring_patterns, r1_) := (g_mem_remove_series recurring_id_of id_truthy id_eqb pattern_fetch pattern_exdates exs_add pattern_set_exdates self_static_intervals self_recurring_patterns interval_) in
      let results := (results ++ r1_) in
      (SCont (results, self_static_intervals, self_recurring_patterns)))
    (fun '(results, self_static_intervals, self_recurring_patterns) =>
      (self_static_intervals, self_recurring_patterns, results))
    (results, self_static_intervals, self_recurring_patterns) intervals.

(* calgebra/mutable/memory.py: MemoryTimeline._add_interval *)
Definition g_mem_add_interval {KEY : Type} {VAL : Type} (key_eqb : KEY -> KEY -> bool) (replace_fields : ivl -> list (KEY * option VAL) -> ivl) (self_metadata : list (KEY * option VAL)) (self_static_intervals : list ivl) (interval_ : ivl) (metadata : list (KEY * option VAL)) : (list ivl * (list wres)) :=
  let merged := metadata in
  iter_for
    (fun merged '(key_, value) =>
      if (is_none (dict_get_opt key_eqb key_ merged)) then
        let merged := (dict_set key_eqb key_ value merged) in
        (SCont merged)
      else
        (SCont merged))
    (fun merged =>
      let interval_with_metadata := (if (nonempty merged) then (replace_fields interval_ merged) else interval_) in
      let self_static_intervals := (sl_add interval_with_metadata self_static_intervals) in
      (self_static_intervals, [(mkWR true (Some interval_with_metadata) None)]))
    merged self_metadata.

(* calgebra/mutable/memory.py: MemoryTimeline._add_recurring *)
Definition g_mem_add_recurring {ID : Type} {PAT : Type} {KEY : Type} {VAL : Type} {START : Type} {TZ : Type} (key_eqb : KEY -> KEY -> bool) (make_id : PAT -> N -> ID) (pattern_metadata : PAT -> list (KEY * option VAL)) (class_has_annotations : PAT -> bool) (class_annotations : PAT -> list KEY) (key_recurring_event_id : KEY) (val_of_id : ID -> VAL) (anchor_start : PAT -> START) (anchor_tz : PAT -> TZ) (make_pattern : PAT -> START -> TZ -> list (KEY * option VAL) -> PAT) (self_metadata : list (KEY * option VAL)) (self_recurring_patterns : list ((ID * PAT))) (self_series_seq : N) (pattern : PAT) (metadata : list (KEY * option VAL)) : (list ((ID * PAT)) * N * (list wres)) :=
  let self_series_seq := (N_plus_Z self_series_seq 1) in
  let recurring_id := (make_id pattern self_series_seq) in
  let merged_metadata := (pattern_metadata pattern) in
  iter_for
    (fun merged_metadata '(key_, value) =>
      if (is_none (dict_get_opt key_eqb key_ merged_metadata)) then
        let merged_metadata := (dict_set key_eqb key_ value merged_metadata) in
        (SCont merged_metadata)
      else
        (SCont merged_metadata))
    (fun merged_metadata =>
      let merged_metadata := (dict_update key_eqb merged_metadata metadata) in
      let interval_fields := (@nil KEY) in
      let interval_fields :=
        if (class_has_annotations pattern) then
          let interval_fields := (class_annotations pattern) in
          interval_fields
        else
          interval_fields in
      let merged_metadata :=
        if (existsb (key_eqb key_recurring_event_id) interval_fields) then
          let merged_metadata := (dict_set key_eqb key_recurring_event_id (Some (val_of_id recurring_id)) merged_metadata) in
          merged_metadata
        else
          merged_metadata in
      let start := (anchor_start pattern) in
      let tz := (anchor_tz pattern) in
      let enriched_pattern := (make_pattern pattern start tz merged_metadata) in
      let self_recurring_patterns := (self_recurring_patterns ++ [(recurring_id, enriched_pattern)]) in
      (self_recurring_patterns, self_series_seq, [(mkWR true None None)]))
    merged_metadata self_metadata.

(* calgebra/mutable/__init__.py: MutableTimeline.remove *)
Definition g_mt_remove {ST : Type} (remove_interval : ST -> ivl -> ST * list wres) (remove_many : ST -> list ivl -> ST * list wres) (self_state : ST) (items : remitem) : (ST * (list wres)) :=
  match items with
  | RIvl items_i =>
    let '(self_state, r1_) := (remove_interval self_state items_i) in
    (self_state, r1_)
  | RMany items_l =>
    let '(self_state, r2_) := (remove_many self_state items_l) in
    (self_state, r2_)
  end.

(* calgebra/mutable/__init__.py: MutableTimeline.remove_series *)
Definition g_mt_remove_series {ST : Type} (remove_series : ST -> ivl -> ST * list wres) (remove_many_series : ST -> list ivl -> ST * list wres) (self_state : ST) (items : remitem) : (ST * (list wres)) :=
  match items with
  | RIvl items_i =>
    let '(self_state, r1_) := (remove_series self_state items_i) in
    (self_state, r1_)
  | RMany items_l =>
    let '(self_state, r2_) := (remove_many_series self_state items_l) in
    (self_state, r2_)
  end.

(* calgebra/mutable/__init__.py: MutableTimeline.add *)
Definition g_mt_add {ST : Type} {PAT : Type} {KEY : Type} {VAL : Type} (key_eqb : KEY -> KEY -> bool) (vars_of : ivl -> list (KEY * option VAL)) (add_interval : ST -> ivl -> list (KEY * option VAL) -> ST * list wres) (add_recurring : ST -> PAT -> list (KEY * option VAL) -> ST * list wres) (add_many : ST -> list ivl -> list (KEY * option VAL) -> ST * list wres) (self_state : ST) (item : (additem PAT)) (metadata : list (KEY * option VAL)) : res (ST * (list wres)) :=
  match item with
  | AIvl item_i =>
    let '(self_state, r1_) := (add_interval self_state item_i (dict_update key_eqb (vars_of item_i) metadata)) in
    (RDone (self_state, r1_))
  | APat item_p =>
    let '(self_state, r2_) := (add_recurring self_state item_p metadata) in
    (RDone (self_state, r2_))
  | ATimeline =>
    (RRaise ValueError)
  | AMany item_l =>
    let '(self_state, r3_) := (add_many self_state item_l metadata) in
    (RDone (self_state, r3_))
  end.

(* calgebra/mutable/__init__.py: MutableTimeline._add_many *)
Definition g_mt_add_many {ST : Type} {KEY : Type} {VAL : Type} (key_eqb : KEY -> KEY -> bool) (vars_of : ivl -> list (KEY * option VAL)) (add_interval : ST -> ivl -> list (KEY * option VAL) -> ST * list wres) (self_state : ST) (intervals : list ivl) (metadata : list (KEY * option VAL)) : (ST * (list wres)) :=
  let results := (@nil wres) in
  iter_for
    (fun '(results, self_state) interval_ =>
      let merged_metadata := (dict_update key_eqb (vars_of interval_) metadata) in
      let '(self_state, r1_) := (add_interval self_state interval_ merged_metadata) in
      let results := (results ++ r1_) in
      (SCont (results, self_state)))
    (fun '(results, self_state) =>
      (self_state, results))
    (results, self_state) intervals.

(* calgebra/mutable/__init__.py: MutableTimeline._remove_many *)
Definition g_mt_remove_many {ST : Type} (remove_interval : ST -> ivl -> ST * list wres) (self_state : ST) (intervals : list ivl) : (ST * (list wres)) :=
  let results := (@nil wres) in
  iter_for
    (fun '(results, self_state) interval_ =>
      let '(self_state, r1_) := (remove_interval self_state interval_) in
      let results := (results ++ r1_) in
      (SCont (results, self_state)))
    (fun '(results, self_state) =>
      (self_state, results))
    (results, self_state) intervals.

(* calgebra/mutable/__init__.py: MutableTimeline._remove_many_series *)
Definition g_mt_remove_many_series {ST : Type} (remove_series : ST -> ivl -> ST * list wres) (self_state : ST) (intervals : list ivl) : (ST * (list wres)) :=
  let results := (@nil wres) in
  iter_for
    (fun '(results, self_state) interval_ =>
      let '(self_state, r1_) := (remove_series self_state interval_) in
      let results := (results ++ r1_) in
      (SCont (results, self_state)))
    (fun '(results, self_state) =>
      (self_state, results))
    (results, self_state) intervals.

(* calgebra/metrics.py: _total_duration *)
Definition g_total_duration {TL : Type} (tl_flatten : TL -> TL) (tl_slice : TL -> Z -> Z -> list ivl) (tl : TL) (win_start : Z) (win_end : Z) : Z :=
  let total := 0 in
  iter_for
    (fun total ivl_ =>
      if ((is_none (st ivl_)) || (is_none (en ivl_))) then
        (SCont total)
      else
        let clipped_start := (Z.max (ozd (st ivl_)) win_start) in
        let clipped_end := (Z.min (ozd (en ivl_)) win_end) in
        if (clipped_start <? clipped_end) then
          let total := (total + (clipped_end - clipped_start)) in
          (SCont total)
        else
          (SCont total))
    (fun total =>
      total)
    total (tl_slice (tl_flatten tl) win_start win_end).

(* calgebra/metrics.py: _extremum_duration *)
Definition g_extremum_duration {TL : Type} (tl_slice : TL -> Z -> Z -> list ivl) (tl : TL) (win_start : Z) (win_end : Z) (find_max : bool) : option ivl :=
  let extremum := None in
  let extremum_len := None in
  iter_for
    (fun '(extremum, extremum_len) ivl_ =>
      if ((is_none (st ivl_)) || (is_none (en ivl_))) then
        (SCont (extremum, extremum_len))
      else
        let duration := ((ozd (en ivl_)) - (ozd (st ivl_))) in
        match extremum_len with
        | Some extremum_len =>
          if (find_max && (duration >? extremum_len)) then
            let extremum := (Some ivl_) in
            let extremum_len := (Some duration) in
            (SCont (extremum, extremum_len))
          else
            if ((negb find_max) && (duration <? extremum_len)) then
              let extremum := (Some ivl_) in
              let extremum_len := (Some duration) in
              (SCont (extremum, extremum_len))
            else
              (SCont (extremum, (Some extremum_len)))
        | None =>
          let extremum := (Some ivl_) in
          let extremum_len := (Some duration) in
          (SCont (extremum, extremum_len))
        end)
    (fun '(extremum, extremum_len) =>
      extremum)
    (extremum, extremum_len) (tl_slice tl win_start win_end).

(* calgebra/metrics.py: max_duration *)
Definition g_max_agg {TL : Type} (tl_slice : TL -> Z -> Z -> list ivl) (tl : TL) (win_start : Z) (win_end : Z) : option ivl :=
  (g_extremum_duration tl_slice tl win_start win_end true).

(* calgebra/metrics.py: min_duration *)
Definition g_min_agg {TL : Type} (tl_slice : TL -> Z -> Z -> list ivl) (tl : TL) (win_start : Z) (win_end : Z) : option ivl :=
  (g_extremum_duration tl_slice tl win_start win_end false).

(* calgebra/metrics.py: count_intervals *)
Definition g_count_agg {TL : Type} (tl_slice : TL -> Z -> Z -> list ivl) (tl : TL) (win_start : Z) (win_end : Z) : Z :=
  (fold_left Z.add (map (fun _ => 1) (tl_slice tl win_start win_end)) 0).

(* calgebra/metrics.py: coverage_ratio *)
Definition g_cov_agg_tuple {TL : Type} (tl_flatten : TL -> TL) (tl_slice : TL -> Z -> Z -> list ivl) (tl : TL) (win_start : Z) (win_end : Z) : (Z * Z) :=
  let span := (win_end - win_start) in
  let total := (g_total_duration tl_flatten tl_slice tl win_start win_end) in
  (total, span).

(* calgebra/metrics.py: coverage_ratio *)
Definition g_cov_combine_ratios (tuples : list ((Z * Z))) : (Z * Z) :=
  let total_num := (fold_left Z.add (map (fun t => (fst t)) tuples) 0) in
  let total_denom := (fold_left Z.add (map (fun t => (snd t)) tuples) 0) in
  (if (total_denom >? 0) then (total_num, total_denom) else (0, 1)).

(* calgebra/metrics.py: coverage_ratio *)
Definition g_cov_agg {TL : Type} (tl_flatten : TL -> TL) (tl_slice : TL -> Z -> Z -> list ivl) (tl : TL) (win_start : Z) (win_end : Z) : (Z * Z) :=
  let span := (win_end - win_start) in
  if (span <=? 0) then
    (0, 1)
  else
    let total := (g_total_duration tl_flatten tl_slice tl win_start win_end) in
    (total, span).

(* calgebra/metrics.py: _extract_group_key *)
Definition g_extract_group_key {DT : Type} (k_hour : DT -> Z) (k_weekday : DT -> Z) (k_day : DT -> Z) (k_isoweek : DT -> Z) (k_month : DT -> Z) (dt : DT) (group_by : Metrics.groupby) : res Z :=
  match group_by with
  | Metrics.GHourOfDay =>
    (RDone (k_hour dt))
  | Metrics.GDayOfWeek =>
    (RDone (k_weekday dt))
  | Metrics.GDayOfMonth =>
    (RDone (k_day dt))
  | Metrics.GWeekOfYear =>
    (RDone (k_isoweek dt))
  | Metrics.GMonthOfYear =>
    (RDone (k_month dt))
  end.

(* calgebra/metrics.py: _validate_period_group_by *)
Definition g_validate_period_group_by (period : Metrics.period) (group_by : option Metrics.groupby) : res unit :=
  match group_by with
  | Some group_by =>
    match period with
    | Metrics.PHour =>
      if (match group_by with Metrics.GHourOfDay => false | _ => true end) then
        let valid := tt in
        (RRaise ValueError)
      else
        (RDone tt)
    | Metrics.PDay =>
      if (match group_by with Metrics.GDayOfWeek => false | Metrics.GDayOfMonth => false | _ => true end) then
        let valid := tt in
        (RRaise ValueError)
      else
        (RDone tt)
    | Metrics.PWeek =>
      if (match group_by with Metrics.GWeekOfYear => false | _ => true end) then
        let valid := tt in
        (RRaise ValueError)
      else
        (RDone tt)
    | Metrics.PMonth =>
      if (match group_by with Metrics.GMonthOfYear => false | _ => true end) then
        let valid := tt in
        (RRaise ValueError)
      else
        (RDone tt)
    | Metrics.PYear =>
      (RRaise ValueError)
    | Metrics.PFull =>
      (RRaise ValueError)
    end
  | None =>
    (RDone tt)
  end.

(* calgebra/metrics.py: _coerce_bound *)
Definition g_met_coerce_bound {DT : Type} (p_ymd : Z -> Z -> Z -> DT) (p_timestamp : DT -> Z) (bound_ : MetricsSrc.mbound) : res Z :=
  match bound_ with
  | MetricsSrc.MBInt bound__z =>
    (RDone bound__z)
  | MetricsSrc.MBDate bound__y bound__m bound__d =>
    let zone := tt in
    let dt := (p_ymd bound__y bound__m bound__d) in
    (RDone (p_timestamp dt))
  | MetricsSrc.MBAware bound__t =>
    (RDone bound__t)
  | MetricsSrc.MBNaive =>
    (RRaise TypeError)
  | MetricsSrc.MBOther =>
    (RRaise TypeError)
  end.

(* calgebra/metrics.py: _period_windows *)
Definition g_period_windows {DT : Type} {TD : Type} {LBL : Type} (fuel : nat) (p_fromtimestamp : Z -> DT) (p_ymd : Z -> Z -> Z -> DT) (p_ymdh : Z -> Z -> Z -> Z -> DT) (p_hours : Z -> TD) (p_days : Z -> TD) (p_weeks : Z -> TD) (p_add : DT -> TD -> DT) (p_sub : DT -> TD -> DT) (p_lt : DT -> DT -> bool) (p_timestamp : DT -> Z) (p_weekday : DT -> Z) (p_year : DT -> Z) (p_month : DT -> Z) (p_day : DT -> Z) (p_hour : DT -> Z) (p_date : DT -> LBL) (p_dt_label : DT -> LBL) (start_ts : Z) (end_ts : Z) (period : Metrics.period) : res (list ((LBL * Z * Z))) :=
  match period with
  | Metrics.PHour =>
    res_bind (g_period_windows_dt fuel p_fromtimestamp p_ymd p_ymdh p_hours p_days p_weeks p_add p_sub p_lt p_timestamp p_weekday p_year p_month p_day p_hour start_ts end_ts period) (fun r1_ =>
    let windows := r1_ in
    (RDone (map (fun '(dt, ws, we) => ((p_dt_label dt), ws, we)) windows)))
  | Metrics.PDay =>
    res_bind (g_period_windows_dt fuel p_fromtimestamp p_ymd p_ymdh p_hours p_days p_weeks p_add p_sub p_lt p_timestamp p_weekday p_year p_month p_day p_hour start_ts end_ts period) (fun r2_ =>
    let windows := r2_ in
    (RDone (map (fun '(dt, ws, we) => ((p_date dt), ws, we)) windows)))
  | Metrics.PWeek =>
    res_bind (g_period_windows_dt fuel p_fromtimestamp p_ymd p_ymdh p_hours p_days p_weeks p_add p_sub p_lt p_timestamp p_weekday p_year p_month p_day p_hour start_ts end_ts period) (fun r3_ =>
    let windows := r3_ in
    (RDone (map (fun '(dt, ws, we) => ((p_date dt), ws, we)) windows)))
  | Metrics.PMonth =>
    res_bind (g_period_windows_dt fuel p_fromtimestamp p_ymd p_ymdh p_hours p_days p_weeks p_add p_sub p_lt p_timestamp p_weekday p_year p_month p_day p_hour start_ts end_ts period) (fun r4_ =>
    let windows := r4_ in
    (RDone (map (fun '(dt, ws, we) => ((p_date dt), ws, we)) windows)))
  | Metrics.PYear =>
    res_bind (g_period_windows_dt fuel p_fromtimestamp p_ymd p_ymdh p_hours p_days p_weeks p_add p_sub p_lt p_timestamp p_weekday p_year p_month p_day p_hour start_ts end_ts period) (fun r5_ =>
    let windows := r5_ in
    (RDone (map (fun '(dt, ws, we) => ((p_date dt), ws, we)) windows)))
  | Metrics.PFull =>
    res_bind (g_period_windows_dt fuel p_fromtimestamp p_ymd p_ymdh p_hours p_days p_weeks p_add p_sub p_lt p_timestamp p_weekday p_year p_month p_day p_hour start_ts end_ts period) (fun r6_ =>
    let windows := r6_ in
    (RDone (map (fun '(dt, ws, we) => ((p_date dt), ws, we)) windows)))
  end.

(* calgebra/metrics.py: _windowed_agg *)
Definition g_windowed_agg {TL : Type} {DT : Type} {TD : Type} {LBL : Type} {AV : Type} (fuel : nat) (tl_slice : TL -> Z -> Z -> list ivl) (tl_make : list ivl -> TL) (p_fromtimestamp : Z -> DT) (p_ymd : Z -> Z -> Z -> DT) (p_ymdh : Z -> Z -> Z -> Z -> DT) (p_hours : Z -> TD) (p_days : Z -> TD) (p_weeks : Z -> TD) (p_add : DT -> TD -> DT) (p_sub : DT -> TD -> DT) (p_lt : DT -> DT -> bool) (p_timestamp : DT -> Z) (p_weekday : DT -> Z) (p_year : DT -> Z) (p_month : DT -> Z) (p_day : DT -> Z) (p_hour : DT -> Z) (p_date : DT -> LBL) (p_dt_label : DT -> LBL) (tl : TL) (start : MetricsSrc.mbound) (end_ : MetricsSrc.mbound) (period : Metrics.period) (agg : TL -> Z -> Z -> AV) : res (list ((LBL * AV))) :=
  res_bind (g_met_coerce_bound p_ymd p_timestamp start) (fun r1_ =>
  let start_ts := r1_ in
  res_bind (g_met_coerce_bound p_ymd p_timestamp end_) (fun r2_ =>
  let end_ts := r2_ in
  let cached_timeline := (tl_make (tl_slice tl start_ts end_ts)) in
  res_bind (g_period_windows fuel p_fromtimestamp p_ymd p_ymdh p_hours p_days p_weeks p_add p_sub p_lt p_timestamp p_weekday p_year p_month p_day p_hour p_date p_dt_label start_ts end_ts period) (fun r3_ =>
  let windows := r3_ in
  (RDone (map (fun '(label, win_start, win_end) => (label, (agg cached_timeline win_start win_end))) windows))))).

(* calgebra/metrics.py: _grouped_agg *)
Definition g_grouped_agg {TL : Type} {DT : Type} {TD : Type} {AV : Type} {CV : Type} (fuel : nat) (tl_slice : TL -> Z -> Z -> list ivl) (tl_make : list ivl -> TL) (p_fromtimestamp : Z -> DT) (p_ymd : Z -> Z -> Z -> DT) (p_ymdh : Z -> Z -> Z -> Z -> DT) (p_hours : Z -> TD) (p_days : Z -> TD) (p_weeks : Z -> TD) (p_add : DT -> TD -> DT) (p_sub : DT -> TD -> DT) (p_lt : DT -> DT -> bool) (p_timestamp : DT -> Z) (p_weekday : DT -> Z) (p_year : DT -> Z) (p_month : DT -> Z) (p_day : DT -> Z) (p_hour : DT -> Z) (k_hour : DT -> Z) (k_weekday : DT -> Z) (k_day : DT -> Z) (k_isoweek : DT -> Z) (k_month : DT -> Z) (tl : TL) (start : MetricsSrc.mbound) (end_ : MetricsSrc.mbound) (period : Metrics.period) (group_by : Metrics.groupby) (agg : TL -> Z -> Z -> AV) (combiner : list AV -> CV) : res (list ((Z * CV))) :=
  res_bind (g_met_coerce_bound p_ymd p_timestamp start) (fun r1_ =>
  let start_ts := r1_ in
  res_bind (g_met_coerce_bound p_ymd p_timestamp end_) (fun r2_ =>
  let end_ts := r2_ in
  let cached_timeline := (tl_make (tl_slice tl start_ts end_ts)) in
  res_bind (g_period_windows_dt fuel p_fromtimestamp p_ymd p_ymdh p_hours p_days p_weeks p_add p_sub p_lt p_timestamp p_weekday p_year p_month p_day p_hour start_ts end_ts period) (fun r3_ =>
  let windows := r3_ in
  let buckets := (@nil (Z * (list AV))) in
  pym_iter_for_r
    (fun buckets '(label_dt, win_start, win_end) =>
      res_bind (g_extract_group_key k_hour k_weekday k_day k_isoweek k_month label_dt group_by) (fun r4_ =>
      let key_ := r4_ in
      let value := (agg cached_timeline win_start win_end) in
      let buckets := (pym_dd_append Z.eqb key_ value buckets) in
      (RDone (SCont buckets))))
    (fun buckets =>
      (RDone (pym_sort_fst (map (fun '(key_, values) => (key_, (combiner values))) buckets))))
    buckets windows))).

(* calgebra/metrics.py: total_duration *)
Definition g_pub_total_duration {TL : Type} {DT : Type} {TD : Type} {LBL : Type} (fuel : nat) (tl_flatten : TL -> TL) (tl_slice : TL -> Z -> Z -> list ivl) (tl_make : list ivl -> TL) (p_fromtimestamp : Z -> DT) (p_ymd : Z -> Z -> Z -> DT) (p_ymdh : Z -> Z -> Z -> Z -> DT) (p_hours : Z -> TD) (p_days : Z -> TD) (p_weeks : Z -> TD) (p_add : DT -> TD -> DT) (p_sub : DT -> TD -> DT) (p_lt : DT -> DT -> bool) (p_timestamp : DT -> Z) (p_weekday : DT -> Z) (p_year : DT -> Z) (p_month : DT -> Z) (p_day : DT -> Z) (p_hour : DT -> Z) (k_hour : DT -> Z) (k_weekday : DT -> Z) (k_day : DT -> Z) (k_isoweek : DT -> Z) (k_month : DT -> Z) (p_date : DT -> LBL) (p_dt_label : DT -> LBL) (timeline : TL) (start : MetricsSrc.mbound) (end_ : MetricsSrc.mbound) (period : Metrics.period) (group_by : option Metrics.groupby) : res ((list (LBL * Z) + list (Z * Z))) :=
  res_bind (g_validate_period_group_by period group_by) (fun r1_ =>
  match group_by with
  | Some group_by =>
    res_bind (g_grouped_agg fuel tl_slice tl_make p_fromtimestamp p_ymd p_ymdh p_hours p_days p_weeks p_add p_sub p_lt p_timestamp p_weekday p_year p_month p_day p_hour k_hour k_weekday k_day k_isoweek k_month timeline start end_ period group_by (g_total_duration tl_flatten tl_slice) (fun l_ => fold_left Z.add l_ 0)) (fun r2_ =>
    (RDone (inr r2_)))
  | None =>
    res_bind (g_windowed_agg fuel tl_slice tl_make p_fromtimestamp p_ymd p_ymdh p_hours p_days p_weeks p_add p_sub p_lt p_timestamp p_weekday p_year p_month p_day p_hour p_date p_dt_label timeline start end_ period (g_total_duration tl_flatten tl_slice)) (fun r3_ =>
    (RDone (inl r3_)))
  end).

(* calgebra/metrics.py: max_duration *)
Definition g_pub_max_duration {TL : Type} {DT : Type} {TD : Type} {LBL : Type} (fuel : nat) (tl_slice : TL -> Z -> Z -> list ivl) (tl_make : list ivl -> TL) (p_fromtimestamp : Z -> DT) (p_ymd : Z -> Z -> Z -> DT) (p_ymdh : Z -> Z -> Z -> Z -> DT) (p_hours : Z -> TD) (p_days : Z -> TD) (p_weeks : Z -> TD) (p_add : DT -> TD -> DT) (p_sub : DT -> TD -> DT) (p_lt : DT -> DT -> bool) (p_timestamp : DT -> Z) (p_weekday : DT -> Z) (p_year : DT -> Z) (p_month : DT -> Z) (p_day : DT -> Z) (p_hour : DT -> Z) (p_date : DT -> LBL) (p_dt_label : DT -> LBL) (timeline : TL) (start : MetricsSrc.mbound) (end_ : MetricsSrc.mbound) (period : Metrics.period) : res (list ((LBL * option ivl))) :=
  res_bind (g_windowed_agg fuel tl_slice tl_make p_fromtimestamp p_ymd p_ymdh p_hours p_days p_weeks p_add p_sub p_lt p_timestamp p_weekday p_year p_month p_day p_hour p_date p_dt_label timeline start end_ period (g_max_agg tl_slice)) (fun r1_ =>
  (RDone r1_)).

(* calgebra/metrics.py: min_duration *)
Definition g_pub_min_duration {TL : Type} {DT : Type} {TD : Type} {LBL : Type} (fuel : nat) (tl_slice : TL -> Z -> Z -> list ivl) (tl_make : list ivl -> TL) (p_fromtimestamp : Z -> DT) (p_ymd : Z -> Z -> Z -> DT) (p_ymdh : Z -> Z -> Z -> Z -> DT) (p_hours : Z -> TD) (p_days : Z -> TD) (p_weeks : Z -> TD) (p_add : DT -> TD -> DT) (p_sub : DT -> TD -> DT) (p_lt : DT -> DT -> bool) (p_timestamp : DT -> Z) (p_weekday : DT -> Z) (p_year : DT -> Z) (p_month : DT -> Z) (p_day : DT -> Z) (p_hour : DT -> Z) (p_date : DT -> LBL) (p_dt_label : DT -> LBL) (timeline : TL) (start : MetricsSrc.mbound) (end_ : MetricsSrc.mbound) (period : Metrics.period) : res (list ((LBL * option ivl))) :=
  res_bind (g_windowed_agg fuel tl_slice tl_make p_fromtimestamp p_ymd p_ymdh p_hours p_days p_weeks p_add p_sub p_lt p_timestamp p_weekday p_year p_month p_day p_hour p_date p_dt_label timeline start end_ period (g_min_agg tl_slice)) (fun r1_ =>
  (RDone r1_)).

(* calgebra/metrics.py: count_intervals *)
Definition g_pub_count_intervals {TL : Type} {DT : Type} {TD : Type} {LBL : Type} (fuel : nat) (tl_slice : TL -> Z -> Z -> list ivl) (tl_make : list ivl -> TL) (p_fromtimestamp : Z -> DT) (p_ymd : Z -> Z -> Z -> DT) (p_ymdh : Z -> Z -> Z -> Z -> DT) (p_hours : Z -> TD) (p_days : Z -> TD) (p_weeks : Z -> TD) (p_add : DT -> TD -> DT) (p_sub : DT -> TD -> DT) (p_lt : DT -> DT -> bool) (p_timestamp : DT -> Z) (p_weekday : DT -> Z) (p_year : DT -> Z) (p_month : DT -> Z) (p_day : DT -> Z) (p_hour : DT -> Z) (k_hour : DT -> Z) (k_weekday : DT -> Z) (k_day : DT -> Z) (k_isoweek : DT -> Z) (k_month : DT -> Z) (p_date : DT -> LBL) (p_dt_label : DT -> LBL) (timeline : TL) (start : MetricsSrc.mbound) (end_ : MetricsSrc.mbound) (period : Metrics.period) (group_by : option Metrics.groupby) : res ((list (LBL * Z) + list (Z * Z))) :=
  res_bind (g_validate_period_group_by period group_by) (fun r1_ =>
  match group_by with
  | Some group_by =>
    res_bind (g_grouped_agg fuel tl_slice tl_make p_fromtimestamp p_ymd p_ymdh p_hours p_days p_weeks p_add p_sub p_lt p_timestamp p_weekday p_year p_month p_day p_hour k_hour k_weekday k_day k_isoweek k_month timeline start end_ period group_by (g_count_agg tl_slice) (fun l_ => fold_left Z.add l_ 0)) (fun r2_ =>
    (RDone (inr r2_)))
  | None =>
    res_bind (g_windowed_agg fuel tl_slice tl_make p_fromtimestamp p_ymd p_ymdh p_hours p_days p_weeks p_add p_sub p_lt p_timestamp p_weekday p_year p_month p_day p_hour p_date p_dt_label timeline start end_ period (g_count_agg tl_slice)) (fun r3_ =>
    (RDone (inl r3_)))
  end).

(* calgebra/metrics.py: coverage_ratio *)
Definition g_pub_coverage_ratio {TL : Type} {DT : Type} {TD : Type} {LBL : Type} (fuel : nat) (tl_flatten : TL -> TL) (tl_slice : TL -> Z -> Z -> list ivl) (tl_make : list ivl -> TL) (p_fromtimestamp : Z -> DT) (p_ymd : Z -> Z -> Z -> DT) (p_ymdh : Z -> Z -> Z -> Z -> DT) (p_hours : Z -> TD) (p_days : Z -> TD) (p_weeks : Z -> TD) (p_add : DT -> TD -> DT) (p_sub : DT -> TD -> DT) (p_lt : DT -> DT -> bool) (p_timestamp : DT -> Z) (p_weekday : DT -> Z) (p_year : DT -> Z) (p_month : DT -> Z) (p_day : DT -> Z) (p_hour : DT -> Z) (k_hour : DT -> Z) (k_weekday : DT -> Z) (k_day : DT -> Z) (k_isoweek : DT -> Z) (k_month : DT -> Z) (p_date : DT -> LBL) (p_dt_label : DT -> LBL) (timeline : TL) (start : MetricsSrc.mbound) (end_ : MetricsSrc.mbound) (period : Metrics.period) (group_by : option Metrics.groupby) : res ((list (LBL * (Z * Z)) + list (Z * (Z * Z)))) :=
  res_bind (g_validate_period_group_by period group_by) (fun r1_ =>
  match group_by with
  | Some group_by =>
    res_bind (g_grouped_agg fuel tl_slice tl_make p_fromtimestamp p_ymd p_ymdh p_hours p_days p_weeks p_add p_sub p_lt p_timestamp p_weekday p_year p_month p_day p_hour k_hour k_weekday k_day k_isoweek k_month timeline start end_ period group_by (g_cov_agg_tuple tl_flatten tl_slice) g_cov_combine_ratios) (fun r2_ =>
    (RDone (inr r2_)))
  | None =>
    res_bind (g_windowed_agg fuel tl_slice tl_make p_fromtimestamp p_ymd p_ymdh p_hours p_days p_weeks p_add p_sub p_lt p_timestamp p_weekday p_year p_month p_day p_hour p_date p_dt_label timeline start end_ period (g_cov_agg tl_flatten tl_slice)) (fun r3_ =>
    (RDone (inl r3_)))
  end).

(* calgebra/gcsa.py: _infer_is_all_day *)
Definition g_gcsa_infer_is_all_day {TZ : Type} {DT : Type} {TIME : Type} {TD : Type} (tz_utc : TZ) (dt_fromtimestamp : Z -> TZ -> DT) (dt_time : DT -> TIME) (time_min : TIME) (time_neb : TIME -> TIME -> bool) (td_of_seconds : Z -> TD) (td_of_days : Z -> TD) (td_of_hours : Z -> TD) (td_days : TD -> Z) (td_sub : TD -> TD -> TD) (td_gtb : TD -> TD -> bool) (start_ts : Z) (end_ts : Z) (calendar_tz : option TZ) : bool :=
  let tz := (match calendar_tz with Some calendar_tz => calendar_tz | None => tz_utc end) in
  let start_dt := (dt_fromtimestamp start_ts tz) in
  let end_dt := (dt_fromtimestamp end_ts tz) in
  if ((time_neb (dt_time start_dt) time_min) || (time_neb (dt_time end_dt) time_min)) then
    false
  else
    let duration := (td_of_seconds (end_ts - start_ts)) in
    let days := (td_days duration) in
    let remainder := (td_sub duration (td_of_days days)) in
    if (td_gtb remainder (td_of_hours 1)) then
      false
    else
      true.

(* calgebra/gcsa.py: Calendar._fetch_reverse *)
Definition g_gcsa_fetch_reverse {EV : Type} (fuel : nat) (fetch_forward : option Z -> option Z -> list EV) (ev_start : EV -> Z) (start : option Z) (end_ : option Z) : res (list EV) :=
  match end_ with
  | Some end_ =>
    let start :=
      match start with
      | Some start =>
        start
      | None =>
        let start := (end_ - (365 * 86400)) in
        start
      end in
    let window_size := (30 * 86400) in
    let current_end := end_ in
    run_while fuel
      (fun current_end => (current_end >? start))
      (fun current_end =>
        let out := @nil EV in
        let window_start := (Z.max start (current_end - window_size)) in
        let fetch_from := (if (window_start =? start) then window_start else (window_start - 1)) in
        let window_events := (filter (fun ev => ((((ev_start ev) <? current_end) || (current_end =? end_)) && (((ev_start ev) >=? window_start) || (window_start =? start)))) (fetch_forward (Some fetch_from) (Some current_end))) in
        let out := out ++ (rev window_events) in
        let current_end := window_start in
        (out, current_end, Cont))
      (fun current_end =>
        let out := @nil EV in
        out)
      current_end
  | None =>
    (RRaise ValueError)
  end.

(* calgebra/gcsa.py: _timestamp_to_datetime *)
Definition g_gcsa_ts_to_dt {TZ : Type} {DT : Type} (tz_utc : TZ) (dt_fromtimestamp : Z -> TZ -> DT) (ts : Z) : DT :=
  (dt_fromtimestamp ts tz_utc).

(* calgebra/gcsa.py: _format_exdate *)
Definition g_gcsa_format_exdate {TZ : Type} {DT : Type} {EXD : Type} (tz_utc : TZ) (dt_fromtimestamp : Z -> TZ -> DT) (dt_strftime_exdate : DT -> EXD) (timestamp : Z) : EXD :=
  let dt := (g_gcsa_ts_to_dt tz_utc dt_fromtimestamp timestamp) in
  (dt_strftime_exdate dt).

(* calgebra/gcsa.py: _add_exdate_to_rrule *)
Definition g_gcsa_add_exdate_to_rrule {RR : Type} {EXD : Type} {PART : Type} (parse_exdates_from_rrule : RR -> RR * list EXD) (exd_eqb : EXD -> EXD -> bool) (mk_exdate_part : list EXD -> PART) (rr_snoc : RR -> PART -> RR) (rrule_str : RR) (exdate_str : EXD) : RR :=
  let '(base_rrule, existing_exdates) := (parse_exdates_from_rrule rrule_str) in
  let existing_exdates :=
    if (negb (existsb (exd_eqb exdate_str) existing_exdates)) then
      let existing_exdates := (existing_exdates ++ [exdate_str]) in
      existing_exdates
    else
      existing_exdates in
  let exdate_part := (mk_exdate_part existing_exdates) in
  (rr_snoc base_rrule exdate_part).

(* calgebra/gcsa.py: _normalize_datetime *)
Definition g_gcsa_normalize_datetime {TZ : Type} {DV : Type} {TIME : Type} (tz_utc : TZ) (time_min : TIME) (dv_is_datetime : DV -> bool) (dv_tzinfo : DV -> option TZ) (dv_combine : DV -> TIME -> TZ -> DV) (dv_replace_tzinfo : DV -> TZ -> DV) (dv_astimezone : DV -> TZ -> DV) (dt : DV) (zone : option TZ) : DV :=
  let dt :=
    if (negb (dv_is_datetime dt)) then
      let tz := (match zone with Some zone => zone | None => tz_utc end) in
      let dt := (dv_combine dt time_min tz) in
      dt
    else
      if (is_none (dv_tzinfo dt)) then
        let tz := (match zone with Some zone => zone | None => tz_utc end) in
        let dt := (dv_replace_tzinfo dt tz) in
        dt
      else
        dt in
  (dv_astimezone dt tz_utc).

(* calgebra/gcsa.py: _to_timestamp *)
Definition g_gcsa_to_timestamp {TZ : Type} {DV : Type} {TIME : Type} (tz_utc : TZ) (time_min : TIME) (dv_is_datetime : DV -> bool) (dv_tzinfo : DV -> option TZ) (dv_combine : DV -> TIME -> TZ -> DV) (dv_replace_tzinfo : DV -> TZ -> DV) (dv_astimezone : DV -> TZ -> DV) (dv_replace_us : DV -> Z -> DV) (dv_timestamp : DV -> Z) (dt : DV) (zone : option TZ) : Z :=
  let normalized := (g_gcsa_normalize_datetime tz_utc time_min dv_is_datetime dv_tzinfo dv_combine dv_replace_tzinfo dv_astimezone dt zone) in
  (dv_timestamp (dv_replace_us normalized 0)).

(* calgebra/gcsa.py: _is_all_day_event *)
Definition g_gcsa_is_all_day_event {TZ : Type} {TZNAME : Type} {DV : Type} {TIME : Type} {TD : Type} {ATTR : Type} {EVT : Type} (tz_utc : TZ) (zoneinfo : TZNAME -> TZ) (gev_start : EVT -> DV) (gev_end : EVT -> DV) (gev_timezone : EVT -> option TZNAME) (extract_datetime : DV -> DV) (dv_is_date : DV -> bool) (dv_is_datetime : DV -> bool) (dv_has_date_attr : DV -> bool) (dv_date_attr : DV -> ATTR) (attr_is_none : ATTR -> bool) (attr_callable : ATTR -> bool) (dv_tzinfo : DV -> option TZ) (dv_astimezone : DV -> TZ -> DV) (dv_replace_tzinfo : DV -> TZ -> DV) (dv_time : DV -> TIME) (time_min : TIME) (time_neb : TIME -> TIME -> bool) (dv_sub : DV -> DV -> TD) (td_days : TD -> Z) (td_of_days : Z -> TD) (td_of_hours : Z -> TD) (td_sub : TD -> TD -> TD) (td_leb : TD -> TD -> bool) (gcsa_event : EVT) : bool :=
  if false then
    false
  else
    let start_dt := (extract_datetime (gev_start gcsa_event)) in
    let end_dt := (extract_datetime (gev_end gcsa_event)) in
    if ((dv_is_date start_dt) && (negb (dv_is_datetime start_dt))) then
      if ((dv_is_date end_dt) && (negb (dv_is_datetime end_dt))) then
        true
      else
        if (dv_has_date_attr (gev_start gcsa_event)) then
          let date_attr := (dv_date_attr (gev_start gcsa_event)) in
          if ((negb (attr_is_none date_attr)) && (negb (attr_callable date_attr))) then
            true
          else
            if ((dv_is_datetime start_dt) && (dv_is_datetime end_dt)) then
              let event_tz := (match (gev_timezone gcsa_event) with Some p1_ => (zoneinfo p1_) | None => tz_utc end) in
              let start_local := (match (dv_tzinfo start_dt) with Some p2_ => (dv_astimezone start_dt event_tz) | None => (dv_replace_tzinfo start_dt event_tz) end) in
              let end_local := (match (dv_tzinfo end_dt) with Some p3_ => (dv_astimezone end_dt event_tz) | None => (dv_replace_tzinfo end_dt event_tz) end) in
              if (time_neb (dv_time start_local) time_min) then
                false
              else
                let duration := (dv_sub end_local start_local) in
                let days := (td_days duration) in
                if (days >=? 1) then
                  let remainder := (td_sub duration (td_of_days days)) in
                  if (td_leb remainder (td_of_hours 1)) then
                    true
                  else
                    false
                else
                  false
            else
              false
        else
          if ((dv_is_datetime start_dt) && (dv_is_datetime end_dt)) then
            let event_tz := (match (gev_timezone gcsa_event) with Some p4_ => (zoneinfo p4_) | None => tz_utc end) in
            let start_local := (match (dv_tzinfo start_dt) with Some p5_ => (dv_astimezone start_dt event_tz) | None => (dv_replace_tzinfo start_dt event_tz) end) in
            let end_local := (match (dv_tzinfo end_dt) with Some p6_ => (dv_astimezone end_dt event_tz) | None => (dv_replace_tzinfo end_dt event_tz) end) in
            if (time_neb (dv_time start_local) time_min) then
              false
            else
              let duration := (dv_sub end_local start_local) in
              let days := (td_days duration) in
              if (days >=? 1) then
                let remainder := (td_sub duration (td_of_days days)) in
                if (td_leb remainder (td_of_hours 1)) then
                  true
                else
                  false
              else
                false
          else
            false
    else
      if (dv_has_date_attr (gev_start gcsa_event)) then
        let date_attr := (dv_date_attr (gev_start gcsa_event)) in
        if ((negb (attr_is_none date_attr)) && (negb (attr_callable date_attr))) then
          true
        else
          if ((dv_is_datetime start_dt) && (dv_is_datetime end_dt)) then
            let event_tz := (match (gev_timezone gcsa_event) with Some p7_ => (zoneinfo p7_) | None => tz_utc end) in
            let start_local := (match (dv_tzinfo start_dt) with Some p8_ => (dv_astimezone start_dt event_tz) | None => (dv_replace_tzinfo start_dt event_tz) end) in
            let end_local := (match (dv_tzinfo end_dt) with Some p9_ => (dv_astimezone end_dt event_tz) | None => (dv_replace_tzinfo end_dt event_tz) end) in
            if (time_neb (dv_time start_local) time_min) then
              false
            else
              let duration := (dv_sub end_local start_local) in
              let days := (td_days duration) in
              if (days >=? 1) then
                let remainder := (td_sub duration (td_of_days days)) in
                if (td_leb remainder (td_of_hours 1)) then
                  true
                else
                  false
              else
                false
          else
            false
      else
        if ((dv_is_datetime start_dt) && (dv_is_datetime end_dt)) then
          let event_tz := (match (gev_timezone gcsa_event) with Some p10_ => (zoneinfo p10_) | None => tz_utc end) in
          let start_local := (match (dv_tzinfo start_dt) with Some p11_ => (dv_astimezone start_dt event_tz) | None => (dv_replace_tzinfo start_dt event_tz) end) in
          let end_local := (match (dv_tzinfo end_dt) with Some p12_ => (dv_astimezone end_dt event_tz) | None => (dv_replace_tzinfo end_dt event_tz) end) in
          if (time_neb (dv_time start_local) time_min) then
            false
          else
            let duration := (dv_sub end_local start_local) in
            let days := (td_days duration) in
            if (days >=? 1) then
              let remainder := (td_sub duration (td_of_days days)) in
              if (td_leb remainder (td_of_hours 1)) then
                true
              else
                false
            else
              false
        else
          false.

(* calgebra/gcsa.py: Calendar._fetch_forward *)
Definition g_gcsa_fetch_forward {TZ : Type} {TZNAME : Type} {DV : Type} {TIME : Type} {TD : Type} {ATTR : Type} {EVT : Type} {DT : Type} {ID : Type} {RID : Type} {SUM : Type} {DESC : Type} {REMS : Type} {CID : Type} {CSUM : Type} {AEV : Type} (tz_utc : TZ) (zoneinfo : TZNAME -> TZ) (gev_start : EVT -> DV) (gev_end : EVT -> DV) (gev_timezone : EVT -> option TZNAME) (extract_datetime : DV -> DV) (dv_is_date : DV -> bool) (dv_is_datetime : DV -> bool) (dv_has_date_attr : DV -> bool) (dv_date_attr : DV -> ATTR) (attr_is_none : ATTR -> bool) (attr_callable : ATTR -> bool) (dv_tzinfo : DV -> option TZ) (dv_astimezone : DV -> TZ -> DV) (dv_replace_tzinfo : DV -> TZ -> DV) (dv_time : DV -> TIME) (time_min : TIME) (time_neb : TIME -> TIME -> bool) (dv_sub : DV -> DV -> TD) (td_days : TD -> Z) (td_of_days : Z -> TD) (td_of_hours : Z -> TD) (td_sub : TD -> TD -> TD) (td_leb : TD -> TD -> bool) (dv_combine : DV -> TIME -> TZ -> DV) (dv_replace_us : DV -> Z -> DV) (dv_timestamp : DV -> Z) (dv_is_none : DV -> bool) (tzname_utc : TZNAME) (dt_fromtimestamp : Z -> TZ -> DT) (get_events : option DT -> option DT -> list EVT) (gev_id : EVT -> option ID) (gev_summary : EVT -> option SUM) (gev_description : EVT -> option DESC) (gev_recurring_event_id : EVT -> option RID) (extract_reminders : EVT -> REMS) (mk_event : option ID -> CID -> CSUM -> option SUM -> option DESC -> option RID -> bool -> REMS -> Z -> Z -> AEV) (self_calendar_id : CID) (self_calendar_summary : CSUM) (self_calendar_timezone : option TZ) (start : option Z) (end_ : option Z) : list AEV :=
  let start_dt := (match start with Some start => (Some (g_gcsa_ts_to_dt tz_utc dt_fromtimestamp start)) | None => None end) in
  let end_dt := (match end_ with Some end_ => (Some (g_gcsa_ts_to_dt tz_utc dt_fromtimestamp end_)) | None => None end) in
  let events_iterable := (get_events start_dt end_dt) in
  run_for
    (fun _ e =>
      let out := @nil AEV in
      if ((is_none (gev_id e)) || (is_none (gev_summary e)) || (dv_is_none (gev_end e))) then
        (out, tt, Cont)
      else
        let event_zone := (match (gev_timezone e) with Some p1_ => (zoneinfo p1_) | None => (zoneinfo tzname_utc) end) in
        let is_all_day := (g_gcsa_is_all_day_event tz_utc zoneinfo gev_start gev_end gev_timezone extract_datetime dv_is_date dv_is_datetime dv_has_date_attr dv_date_attr attr_is_none attr_callable dv_tzinfo dv_astimezone dv_replace_tzinfo dv_time time_min time_neb dv_sub td_days td_of_days td_of_hours td_sub td_leb e) in
        let recurring_event_id := (gev_recurring_event_id e) in
        let reminders := (extract_reminders e) in
        let evt_start_dt := (extract_datetime (gev_start e)) in
        let evt_end_dt := (extract_datetime (gev_end e)) in
        let zone_for_timestamp :=
          if is_all_day then
            let zone_for_timestamp := (match self_calendar_timezone with Some p4_ => p4_ | None => (match (gev_timezone e) with Some p5_ => event_zone | None => (zoneinfo tzname_utc) end) end) in
            zone_for_timestamp
          else
            let zone_for_timestamp := event_zone in
            zone_for_timestamp in
        let out := out ++ [(mk_event (gev_id e) self_calendar_id self_calendar_summary (gev_summary e) (gev_description e) recurring_event_id is_all_day reminders (g_gcsa_to_timestamp tz_utc time_min dv_is_datetime dv_tzinfo dv_combine dv_replace_tzinfo dv_astimezone dv_replace_us dv_timestamp evt_start_dt (Some zone_for_timestamp)) (g_gcsa_to_timestamp tz_utc time_min dv_is_datetime dv_tzinfo dv_combine dv_replace_tzinfo dv_astimezone dv_replace_us dv_timestamp evt_end_dt (Some zone_for_timestamp)))] in
        (out, tt, Cont))
    (fun _ =>
      let out := @nil AEV in
      out)
    tt events_iterable.

(* calgebra/gcsa.py: _convert_timestamps_to_datetime *)
Definition g_gcsa_convert_timestamps {TZ : Type} {DV : Type} (tz_utc : TZ) (dv_fromtimestamp : Z -> TZ -> DV) (dv_date : DV -> DV) (start_ts : Z) (end_ts : Z) (is_all_day : bool) (calendar_tz : option TZ) : (DV * DV) :=
  let '(start_dt, end_dt) :=
    if is_all_day then
      let tz := (match calendar_tz with Some calendar_tz => calendar_tz | None => tz_utc end) in
      let start_dt := (dv_date (dv_fromtimestamp start_ts tz)) in
      let end_dt := (dv_date (dv_fromtimestamp end_ts tz)) in
      (start_dt, end_dt)
    else
      let start_dt := (g_gcsa_ts_to_dt tz_utc dv_fromtimestamp start_ts) in
      let end_dt := (g_gcsa_ts_to_dt tz_utc dv_fromtimestamp end_ts) in
      (start_dt, end_dt) in
  (start_dt, end_dt).

(* calgebra/gcsa.py: _prepare_event_for_add *)
Definition g_gcsa_prepare_event_for_add {TZ : Type} {DT : Type} {TIME : Type} {TD : Type} {DV : Type} {IVLX : Type} {EVENT : Type} {ERRS : Type} {PW : Type} {CID : Type} {CSUM : Type} (tz_utc : TZ) (dt_fromtimestamp : Z -> TZ -> DT) (dt_time : DT -> TIME) (time_min : TIME) (time_neb : TIME -> TIME -> bool) (td_of_seconds : Z -> TD) (td_of_days : Z -> TD) (td_of_hours : Z -> TD) (td_days : TD -> Z) (td_sub : TD -> TD -> TD) (td_gtb : TD -> TD -> bool) (dv_fromtimestamp : Z -> TZ -> DV) (dv_date : DV -> DV) (validate_event : IVLX -> option EVENT * option ERRS) (errs_first : ERRS -> PW) (pw_assertion_error : PW) (wr_unbounded : EVENT -> PW) (ev_start : EVENT -> option Z) (ev_end : EVENT -> option Z) (ev_is_all_day : EVENT -> option bool) (ev_for_calendar : EVENT -> CID -> CSUM -> EVENT) (mk_prepared : EVENT -> Z -> Z -> bool -> DV -> DV -> PW) (interval_ : IVLX) (calendar_id : CID) (calendar_summary : CSUM) (calendar_tz : option TZ) : PW :=
  let '(validated, error_result) := (validate_event interval_) in
  match error_result with
  | Some error_result =>
    (errs_first error_result)
  | None =>
    let event := validated in
    match event with
    | Some event =>
      if ((is_none (ev_start event)) || (is_none (ev_end event))) then
        (wr_unbounded event)
      else
        let start := (ozd (ev_start event)) in
        let end_ := (ozd (ev_end event)) in
        let event := (ev_for_calendar event calendar_id calendar_summary) in
        let is_all_day := (ev_is_all_day event) in
        let is_all_day :=
          match is_all_day with
          | Some is_all_day =>
            is_all_day
          | None =>
            let is_all_day := (g_gcsa_infer_is_all_day tz_utc dt_fromtimestamp dt_time time_min time_neb td_of_seconds td_of_days td_of_hours td_days td_sub td_gtb start end_ calendar_tz) in
            is_all_day
          end in
        let '(start_dt, end_dt) := (g_gcsa_convert_timestamps tz_utc dv_fromtimestamp dv_date start end_ is_all_day calendar_tz) in
        (mk_prepared event start end_ is_all_day start_dt end_dt)
    | None =>
      pw_assertion_error
    end
  end.

(* calgebra/gcsa.py: _build_gcsa_event *)
Definition g_gcsa_build_gcsa_event {DV : Type} {TZNAME : Type} {EVENT : Type} {PW : Type} {SUM : Type} {ODESC : Type} {REMS : Type} {GREMS : Type} {GEV : Type} (pw_event : PW -> EVENT) (pw_start_dt : PW -> DV) (pw_end_dt : PW -> DV) (pw_is_all_day : PW -> bool) (ev_summary : EVENT -> SUM) (ev_description : EVENT -> ODESC) (ev_reminders : EVENT -> REMS) (mk_gcsa_event : SUM -> DV -> DV -> option TZNAME -> ODESC -> GREMS -> GEV) (convert_reminders_to_gcsa : REMS -> GREMS) (tzname_utc : TZNAME) (prepared : PW) : GEV :=
  let gcsa_reminders := (convert_reminders_to_gcsa (ev_reminders (pw_event prepared))) in
  (mk_gcsa_event (ev_summary (pw_event prepared)) (pw_start_dt prepared) (pw_end_dt prepared) (if (negb (pw_is_all_day prepared)) then (Some tzname_utc) else None) (ev_description (pw_event prepared)) gcsa_reminders).

(* calgebra/gcsa.py: _build_result_event *)
Definition g_gcsa_build_result_event {DV : Type} {EVENT : Type} {PW : Type} {SUM : Type} {ODESC : Type} {REMS : Type} {CID : Type} {CSUM : Type} {ID : Type} {RID : Type} {AEV : Type} (pw_event : PW -> EVENT) (pw_start_dt : PW -> DV) (pw_end_dt : PW -> DV) (pw_is_all_day : PW -> bool) (ev_summary : EVENT -> SUM) (ev_description : EVENT -> ODESC) (ev_reminders : EVENT -> REMS) (ev_calendar_id : EVENT -> CID) (ev_calendar_summary : EVENT -> CSUM) (pw_start : PW -> Z) (pw_end : PW -> Z) (mk_result_event : ID -> CID -> CSUM -> SUM -> ODESC -> option RID -> bool -> REMS -> Z -> Z -> AEV) (prepared : PW) (event_id : ID) : AEV :=
  (mk_result_event event_id (ev_calendar_id (pw_event prepared)) (ev_calendar_summary (pw_event prepared)) (ev_summary (pw_event prepared)) (ev_description (pw_event prepared)) None (pw_is_all_day prepared) (ev_reminders (pw_event prepared)) (pw_start prepared) (pw_end prepared)).

(* calgebra/gcsa.py: Calendar._add_recurring *)
Definition g_gcsa_add_recurring {TZ : Type} {TZNAME : Type} {DV : Type} {TIME : Type} {TD : Type} {EXD : Type} {RR : Type} {PART : Type} {PAT : Type} {MD : Type} {SUM : Type} {ODESC : Type} {REMV : Type} {GREMS : Type} {GEV : Type} {CREATED : Type} {ID : Type} {RID : Type} {CID : Type} {CSUM : Type} {AEV : Type} {WRS : Type} (tz_utc : TZ) (dv_fromtimestamp : Z -> TZ -> DV) (dv_time : DV -> TIME) (time_min : TIME) (time_neb : TIME -> TIME -> bool) (td_of_seconds : Z -> TD) (td_of_days : Z -> TD) (td_of_hours : Z -> TD) (td_days : TD -> Z) (td_sub : TD -> TD -> TD) (td_gtb : TD -> TD -> bool) (dv_date : DV -> DV) (dv_now : TZ -> DV) (dv_midnight : DV -> DV) (dv_add : DV -> TD -> DV) (dv_timestamp : DV -> Z) (dt_strftime_exdate : DV -> EXD) (parse_exdates_from_rrule : RR -> RR * list EXD) (exd_eqb : EXD -> EXD -> bool) (mk_exdate_part : list EXD -> PART) (rr_snoc : RR -> PART -> RR) (md_merge : PAT -> MD -> MD) (pat_rrule_line : PAT -> RR) (py_sorted : list Z -> list Z) (md_has_start : MD -> bool) (md_start : MD -> Z) (tz_name_eqb : TZ -> TZ -> bool) (tz_name : TZ -> TZNAME) (md_summary : MD -> SUM) (md_description : MD -> ODESC) (md_reminders : MD -> REMV) (remv_is_list : REMV -> bool) (remv_all_reminders : REMV -> bool) (convert_reminders_to_gcsa : REMV -> GREMS) (wrs_bad_reminders : WRS) (wrs_no_id : WRS) (wrs_success : AEV -> WRS) (mk_gcsa_rec_event : SUM -> DV -> DV -> option TZNAME -> ODESC -> option GREMS -> RR -> GEV) (add_event : GEV -> CREATED) (created_id : CREATED -> option ID) (mk_result_event : option ID -> CID -> CSUM -> SUM -> ODESC -> option RID -> bool -> option REMV -> Z -> Z -> AEV) (pat_exdates : PAT -> list Z) (pat_anchor_timestamp : PAT -> option Z) (pat_zone : PAT -> TZ) (pat_start_seconds : PAT -> Z) (pat_duration_seconds : PAT -> Z) (self_calendar_id : CID) (self_calendar_summary : CSUM) (self_calendar_timezone : option TZ) (pattern : PAT) (metadata : MD) : WRS :=
  let merged_metadata := (md_merge pattern metadata) in
  let rrule_str := (pat_rrule_line pattern) in
  if (nonempty (pat_exdates pattern)) then
    iter_for
      (fun rrule_str exdate_ts =>
        let exdate_str := (g_gcsa_format_exdate tz_utc dv_fromtimestamp dt_strftime_exdate exdate_ts) in
        let rrule_str := (g_gcsa_add_exdate_to_rrule parse_exdates_from_rrule exd_eqb mk_exdate_part rr_snoc rrule_str exdate_str) in
        (SCont rrule_str))
      (fun rrule_str =>
        let series_start_ts :=
          if (md_has_start merged_metadata) then
            let series_start_ts := (md_start merged_metadata) in
            series_start_ts
          else
            if (negb (is_none (pat_anchor_timestamp pattern))) then
              let series_start_ts := (ozd (pat_anchor_timestamp pattern)) in
              series_start_ts
            else
              let now_in_tz := (dv_now (pat_zone pattern)) in
              let today_midnight := (dv_midnight now_in_tz) in
              let start_delta := (td_of_seconds (pat_start_seconds pattern)) in
              let series_start_dt_tz := (dv_add today_midnight start_delta) in
              let series_start_ts := (dv_timestamp series_start_dt_tz) in
              series_start_ts in
        let series_end_ts := (dv_timestamp (dv_add (dv_fromtimestamp series_start_ts (pat_zone pattern)) (td_of_seconds (pat_duration_seconds pattern)))) in
        let is_all_day := (((pat_duration_seconds pattern) =? 86400) && (tz_name_eqb (pat_zone pattern) (match self_calendar_timezone with Some v_ => v_ | None => tz_utc end)) && (g_gcsa_infer_is_all_day tz_utc dv_fromtimestamp dv_time time_min time_neb td_of_seconds td_of_days td_of_hours td_days td_sub td_gtb series_start_ts series_end_ts self_calendar_timezone)) in
        let '(series_start_dt, series_end_dt) :=
          if is_all_day then
            let '(series_start_dt, series_end_dt) := (g_gcsa_convert_timestamps tz_utc dv_fromtimestamp dv_date series_start_ts series_end_ts true self_calendar_timezone) in
            (series_start_dt, series_end_dt)
          else
            let series_start_dt := (dv_fromtimestamp series_start_ts (pat_zone pattern)) in
            let series_end_dt := (dv_fromtimestamp series_end_ts (pat_zone pattern)) in
            (series_start_dt, series_end_dt) in
        let summary := (md_summary merged_metadata) in
        let description := (md_description merged_metadata) in
        let reminders := (md_reminders merged_metadata) in
        if (remv_is_list reminders) then
          if (negb (remv_all_reminders reminders)) then
            wrs_bad_reminders
          else
            let gcsa_reminders := (Some (convert_reminders_to_gcsa reminders)) in
            let validated_reminders := (Some reminders) in
            let event_timezone := (if (negb is_all_day) then (Some (tz_name (pat_zone pattern))) else None) in
            let gcsa_event := (mk_gcsa_rec_event summary series_start_dt series_end_dt event_timezone description gcsa_reminders rrule_str) in
            let created_event := (add_event gcsa_event) in
            if (negb (negb (is_none (created_id created_event)))) then
              wrs_no_id
            else
              let result_event := (mk_result_event (created_id created_event) self_calendar_id self_calendar_summary summary description None is_all_day validated_reminders series_start_ts series_end_ts) in
              (wrs_success result_event)
        else
          let gcsa_reminders := None in
          let validated_reminders := None in
          let event_timezone := (if (negb is_all_day) then (Some (tz_name (pat_zone pattern))) else None) in
          let gcsa_event := (mk_gcsa_rec_event summary series_start_dt series_end_dt event_timezone description gcsa_reminders rrule_str) in
          let created_event := (add_event gcsa_event) in
          if (negb (negb (is_none (created_id created_event)))) then
            wrs_no_id
          else
            let result_event := (mk_result_event (created_id created_event) self_calendar_id self_calendar_summary summary description None is_all_day validated_reminders series_start_ts series_end_ts) in
            (wrs_success result_event))
      rrule_str (py_sorted (pat_exdates pattern))
  else
    let series_start_ts :=
      if (md_has_start merged_metadata) then
        let series_start_ts := (md_start merged_metadata) in
        series_start_ts
      else
        if (negb (is_none (pat_anchor_timestamp pattern))) then
          let series_start_ts := (ozd (pat_anchor_timestamp pattern)) in
          series_start_ts
        else
          let now_in_tz := (dv_now (pat_zone pattern)) in
          let today_midnight := (dv_midnight now_in_tz) in
          let start_delta := (td_of_seconds (pat_start_seconds pattern)) in
          let series_start_dt_tz := (dv_add today_midnight start_delta) in
          let series_start_ts := (dv_timestamp series_start_dt_tz) in
          series_start_ts in
    let series_end_ts := (dv_timestamp (dv_add (dv_fromtimestamp series_start_ts (pat_zone pattern)) (td_of_seconds (pat_duration_seconds pattern)))) in
    let is_all_day := (((pat_duration_seconds pattern) =? 86400) && (tz_name_eqb (pat_zone pattern) (match self_calendar_timezone with Some v_ => v_ | None => tz_utc end)) && (g_gcsa_infer_is_all_day tz_utc dv_fromtimestamp dv_time time_min time_neb td_of_seconds td_of_days td_of_hours td_days td_sub td_gtb series_start_ts series_end_ts self_calendar_timezone)) in
    let '(series_start_dt, series_end_dt) :=
      if is_all_day then
        let '(series_start_dt, series_end_dt) := (g_gcsa_convert_timestamps tz_utc dv_fromtimestamp dv_date series_start_ts series_end_ts true self_calendar_timezone) in
        (series_start_dt, series_end_dt)
      else
        let series_start_dt := (dv_fromtimestamp series_start_ts (pat_zone pattern)) in
        let series_end_dt := (dv_fromtimestamp series_end_ts (pat_zone pattern)) in
        (series_start_dt, series_end_dt) in
    let summary := (md_summary merged_metadata) in
    let description := (md_description merged_metadata) in
    let reminders := (md_reminders merged_metadata) in
    if (remv_is_list reminders) then
      if (negb (remv_all_reminders reminders)) then
        wrs_bad_reminders
      else
        let gcsa_reminders := (Some (convert_reminders_to_gcsa reminders)) in
        let validated_reminders := (Some reminders) in
        let event_timezone := (if (negb is_all_day) then (Some (tz_name (pat_zone pattern))) else None) in
        let gcsa_event := (mk_gcsa_rec_event summary series_start_dt series_end_dt event_timezone description gcsa_reminders rrule_str) in
        let created_event := (add_event gcsa_event) in
        if (negb (negb (is_none (created_id created_event)))) then
          wrs_no_id
        else
          let result_event := (mk_result_event (created_id created_event) self_calendar_id self_calendar_summary summary description None is_all_day validated_reminders series_start_ts series_end_ts) in
          (wrs_success result_event)
    else
      let gcsa_reminders := None in
      let validated_reminders := None in
      let event_timezone := (if (negb is_all_day) then (Some (tz_name (pat_zone pattern))) else None) in
      let gcsa_event := (mk_gcsa_rec_event summary series_start_dt series_end_dt event_timezone description gcsa_reminders rrule_str) in
      let created_event := (add_event gcsa_event) in
      if (negb (negb (is_none (created_id created_event)))) then
        wrs_no_id
      else
        let result_event := (mk_result_event (created_id created_event) self_calendar_id self_calendar_summary summary description None is_all_day validated_reminders series_start_ts series_end_ts) in
        (wrs_success result_event).

(* calgebra/gcsa.py: _error_result *)
Definition g_gcsa_error_result {EXC : Type} {WRS : Type} (wrs_error : EXC -> WRS) (error : EXC) : WRS :=
  (wrs_error error).

(* calgebra/gcsa.py: _handle_write_errors *)
Definition g_gcsa_handle_write_errors {EXC : Type} {WRS : Type} (wrs_error : EXC -> WRS) (func_call : WRS + EXC) : res WRS :=
  match func_call with
  | inl v_ =>
    (RDone v_)
  | inr e =>
    (RDone (g_gcsa_error_result wrs_error e))
  end.

(* calgebra/gcsa.py: Calendar._remove_recurring_instance *)
Definition g_gcsa_remove_recurring_instance {TZ : Type} {DT : Type} {EXD : Type} {RR : Type} {PART : Type} {RECL : Type} {MEV : Type} {ID : Type} {AEV : Type} {EXC : Type} {WRS : Type} (tz_utc : TZ) (dt_fromtimestamp : Z -> TZ -> DT) (dt_strftime_exdate : DT -> EXD) (parse_exdates_from_rrule : RR -> RR * list EXD) (exd_eqb : EXD -> EXD -> bool) (mk_exdate_part : list EXD -> PART) (rr_snoc : RR -> PART -> RR) (get_event : ID -> MEV + EXC) (update_event : MEV -> unit + EXC) (mev_has_recurrence : MEV -> bool) (mev_line : MEV -> RR) (mev_recurrence_with : MEV -> RR -> RECL) (mev_set_recurrence : MEV -> RECL -> MEV) (wrs_error_fetch : ID -> EXC -> WRS) (wrs_error_norec : ID -> WRS) (wrs_error_nostart : WRS) (wrs_error_update : EXC -> WRS) (wrs_success : AEV -> WRS) (aev_start : AEV -> option Z) (instance : AEV) (master_event_id : ID) : res WRS :=
  match (get_event master_event_id) with
  | inl master_event =>
    if (negb (mev_has_recurrence master_event)) then
      (RDone (wrs_error_norec master_event_id))
    else
      let rrule_str := (mev_line master_event) in
      if (is_none (aev_start instance)) then
        (RDone wrs_error_nostart)
      else
        let exdate_str := (g_gcsa_format_exdate tz_utc dt_fromtimestamp dt_strftime_exdate (ozd (aev_start instance))) in
        let '(_, existing_exdates) := (parse_exdates_from_rrule rrule_str) in
        if (negb (existsb (exd_eqb exdate_str) existing_exdates)) then
          let new_rrule := (g_gcsa_add_exdate_to_rrule parse_exdates_from_rrule exd_eqb mk_exdate_part rr_snoc rrule_str exdate_str) in
          let master_event := (mev_set_recurrence master_event (mev_recurrence_with master_event new_rrule)) in
          match (update_event master_event) with
          | inl _ =>
            (RDone (wrs_success instance))
          | inr e =>
            (RDone (wrs_error_update e))
          end
        else
          (RDone (wrs_success instance))
  | inr e =>
    (RDone (wrs_error_fetch master_event_id e))
  end.

(* calgebra/gcsa.py: Calendar.fetch *)
Definition g_gcsa_fetch {AEV : Type} (fetch_forward : option Z -> option Z -> list AEV) (fetch_reverse : option Z -> option Z -> list AEV) (start : option Z) (end_ : option Z) (reverse : bool) : list AEV :=
  if reverse then
    (fetch_reverse start end_)
  else
    (fetch_forward start end_).

(* calgebra/gcsa.py: Calendar._add_interval *)
Definition g_gcsa_add_interval {TZ : Type} {IVLX : Type} {MD : Type} {PW : Type} {GEV : Type} {CREATED : Type} {ID : Type} {AEV : Type} {CID : Type} {CSUM : Type} {WRS : Type} (prepare_event_for_add : IVLX -> CID -> CSUM -> option TZ -> PW) (pw_is_write_result : PW -> bool) (wrs_of_pw : PW -> WRS) (build_gcsa_event : PW -> GEV) (add_event : GEV -> CREATED) (created_has_id : CREATED -> bool) (created_id : CREATED -> ID) (wrs_no_id : WRS) (build_result_event : PW -> ID -> AEV) (wrs_success : AEV -> WRS) (self_calendar_id : CID) (self_calendar_summary : CSUM) (self_calendar_timezone : option TZ) (interval_ : IVLX) (metadata : MD) : WRS :=
  let result := (prepare_event_for_add interval_ self_calendar_id self_calendar_summary self_calendar_timezone) in
  if (pw_is_write_result result) then
    (wrs_of_pw result)
  else
    let prepared := result in
    let gcsa_event := (build_gcsa_event prepared) in
    let created_event := (add_event gcsa_event) in
    if (negb (created_has_id created_event)) then
      wrs_no_id
    else
      let result_event := (build_result_event prepared (created_id created_event)) in
      (wrs_success result_event).

(* calgebra/gcsa.py: Calendar._add_many *)
Definition g_gcsa_add_many {IVLX : Type} {MD : Type} {WR : Type} {EXC : Type} (add_many_batch : list IVLX -> list WR + EXC) (wr_error : EXC -> WR) (intervals : list IVLX) (metadata : MD) : res (list WR) :=
  let events_list := intervals in
  if (negb (nonempty events_list)) then
    (RDone (@nil WR))
  else
    match (add_many_batch events_list) with
    | inl v_ =>
      (RDone v_)
    | inr e =>
      (RDone (map (fun _ => (wr_error e)) events_list))
    end.

(* calgebra/gcsa.py: Calendar._add_many_batch *)
Definition g_gcsa_add_many_batch_results {IVLX : Type} {RESD : Type} {WR : Type} (results_get_or_missing : RESD -> Z -> WR) (results : RESD) (events_list : list IVLX) : list WR :=
  (map (fun i => (results_get_or_missing results i)) (zrange (Z.of_nat (length events_list)))).

(* calgebra/properties.py: Operator.apply *)
Definition g_operator_apply {PROP : Type} {VAL : Type} (prop_apply : PROP -> ivl -> VAL) (self_left : (PROP + VAL)) (self_right : (PROP + VAL)) (self_operator : (VAL -> VAL -> res bool)) (event : ivl) : (res bool) :=
  let left_val := (match self_left with | inl self_left_p => (prop_apply self_left_p event) | inr self_left_v => self_left_v end) in
  let right_val := (match self_right with | inl self_right_p => (prop_apply self_right_p event) | inr self_right_v => self_right_v end) in
  (self_operator left_val right_val).

(* calgebra/properties.py: Property.__ge__ *)
Definition g_prop_ge {PROP : Type} {VAL : Type} {FILT : Type} (mk_operator : (PROP + VAL) -> (PROP + VAL) -> (VAL -> VAL -> res bool) -> FILT) (op_ge : (VAL -> VAL -> res bool)) (self : PROP) (other : (PROP + VAL)) : FILT :=
  (mk_operator (inl self) other op_ge).

(* calgebra/properties.py: Property.__le__ *)
Definition g_prop_le {PROP : Type} {VAL : Type} {FILT : Type} (mk_operator : (PROP + VAL) -> (PROP + VAL) -> (VAL -> VAL -> res bool) -> FILT) (op_le : (VAL -> VAL -> res bool)) (self : PROP) (other : (PROP + VAL)) : FILT :=
  (mk_operator (inl self) other op_le).

(* calgebra/properties.py: Property.__gt__ *)
Definition g_prop_gt {PROP : Type} {VAL : Type} {FILT : Type} (mk_operator : (PROP + VAL) -> (PROP + VAL) -> (VAL -> VAL -> res bool) -> FILT) (op_gt : (VAL -> VAL -> res bool)) (self : PROP) (other : (PROP + VAL)) : FILT :=
  (mk_operator (inl self) other op_gt).

(* calgebra/properties.py: Property.__lt__ *)
Definition g_prop_lt {PROP : Type} {VAL : Type} {FILT : Type} (mk_operator : (PROP + VAL) -> (PROP + VAL) -> (VAL -> VAL -> res bool) -> FILT) (op_lt : (VAL -> VAL -> res bool)) (self : PROP) (other : (PROP + VAL)) : FILT :=
  (mk_operator (inl self) other op_lt).

(* calgebra/properties.py: Property.__eq__ *)
Definition g_prop_eq {PROP : Type} {VAL : Type} {FILT : Type} (mk_operator : (PROP + VAL) -> (PROP + VAL) -> (VAL -> VAL -> res bool) -> FILT) (op_eq : (VAL -> VAL -> res bool)) (self : PROP) (other : (PROP + VAL)) : FILT :=
  (mk_operator (inl self) other op_eq).

(* calgebra/properties.py: Property.__ne__ *)
Definition g_prop_ne {PROP : Type} {VAL : Type} {FILT : Type} (mk_operator : (PROP + VAL) -> (PROP + VAL) -> (VAL -> VAL -> res bool) -> FILT) (op_ne : (VAL -> VAL -> res bool)) (self : PROP) (other : (PROP + VAL)) : FILT :=
  (mk_operator (inl self) other op_ne).

(* calgebra/properties.py: Duration.apply *)
Definition g_duration_apply {FL : Type} (float_inf : FL) (float_div : Z -> Z -> FL) (self_scale : Z) (event : ivl) : FL :=
  if ((is_none (st event)) || (is_none (en event))) then
    float_inf
  else
    (float_div ((ozd (en event)) - (ozd (st event))) self_scale).

(* calgebra/properties.py: Duration.__init__ *)
Definition g_duration_init (self_scale : Z) (unit_ : dunit) : Z :=
  let self_scale := (match unit_ with USeconds => 1 | UMinutes => 60 | UHours => 3600 | UDays => 86400 end) in
  self_scale.

(* calgebra/properties.py: Start.apply *)
Definition g_start_apply (event : ivl) : Z :=
  (fstart event).

(* calgebra/properties.py: End.apply *)
Definition g_end_apply (event : ivl) : Z :=
  (fend event).

(* calgebra/properties.py: _normalize_collection *)
Definition g_normalize_collection {VAL : Type} {SET : Type} (is_strlike : VAL -> bool) (set_of_iterable : VAL -> option SET) (prop_val : VAL) : res SET :=
  if (is_strlike prop_val) then
    (RRaise TypeError)
  else
    match (set_of_iterable prop_val) with
    | Some v_ =>
      (RDone v_)
    | None =>
      (RRaise TypeError)
    end.

(* calgebra/properties.py: one_of *)
Definition g_one_of {PROP : Type} {VAL : Type} {FILT : Type} {SET : Type} {ITER : Type} (mk_operator : (PROP + VAL) -> (PROP + VAL) -> (VAL -> VAL -> res bool) -> FILT) (op_contains : (VAL -> VAL -> res bool)) (py_set : ITER -> SET) (val_of_set : SET -> VAL) (property : PROP) (values : ITER) : FILT :=
  (mk_operator (inr (val_of_set (py_set values))) (inl property) op_contains).

(* calgebra/properties.py: has_any *)
Definition g_has_any_check {VAL : Type} {SET : Type} (is_strlike : VAL -> bool) (set_of_iterable : VAL -> option SET) (set_inter : SET -> SET -> SET) (set_truthy : SET -> bool) (value_set : SET) (prop_val : VAL) (_ : VAL) : res bool :=
  res_bind (g_normalize_collection is_strlike set_of_iterable prop_val) (fun r1_ =>
  let prop_collection := r1_ in
  (RDone (set_truthy (set_inter value_set prop_collection)))).

(* calgebra/properties.py: has_any *)
Definition g_has_any {PROP : Type} {VAL : Type} {FILT : Type} {SET : Type} {ITER : Type} (mk_operator : (PROP + VAL) -> (PROP + VAL) -> (VAL -> VAL -> res bool) -> FILT) (py_none : VAL) (py_set : ITER -> SET) (is_strlike : VAL -> bool) (set_of_iterable : VAL -> option SET) (set_inter : SET -> SET -> SET) (set_truthy : SET -> bool) (property : PROP) (values : ITER) : FILT :=
  let value_set := (py_set values) in
  let check := (g_has_any_check is_strlike set_of_iterable set_inter set_truthy value_set) in
  (mk_operator (inl property) (inr py_none) check).

(* calgebra/properties.py: has_all *)
Definition g_has_all_check {VAL : Type} {SET : Type} (is_strlike : VAL -> bool) (set_of_iterable : VAL -> option SET) (set_issubset : SET -> SET -> bool) (value_set : SET) (prop_val : VAL) (_ : VAL) : res bool :=
  res_bind (g_normalize_collection is_strlike set_of_iterable prop_val) (fun r1_ =>
  let prop_collection := r1_ in
  (RDone (set_issubset value_set prop_collection))).

(* calgebra/properties.py: has_all *)
Definition g_has_all {PROP : Type} {VAL : Type} {FILT : Type} {SET : Type} {ITER : Type} (mk_operator : (PROP + VAL) -> (PROP + VAL) -> (VAL -> VAL -> res bool) -> FILT) (py_none : VAL) (py_set : ITER -> SET) (is_strlike : VAL -> bool) (set_of_iterable : VAL -> option SET) (set_issubset : SET -> SET -> bool) (property : PROP) (values : ITER) : FILT :=
  let value_set := (py_set values) in
  let check := (g_has_all_check is_strlike set_of_iterable set_issubset value_set) in
  (mk_operator (inl property) (inr py_none) check).

(* calgebra/properties.py: field *)
Definition g_field_name_apply {VAL : Type} {NAME : Type} (py_getattr : ivl -> NAME -> VAL) (accessor : NAME) (event : ivl) : VAL :=
  (py_getattr event accessor).

(* calgebra/properties.py: field *)
Definition g_field_getter_apply {VAL : Type} (accessor : ivl -> VAL) (event : ivl) : VAL :=
  (accessor event).

(* calgebra/properties.py: field *)
Definition g_field {PROP : Type} {VAL : Type} {NAME : Type} (prop_of_apply : (ivl -> VAL) -> PROP) (py_getattr : ivl -> NAME -> VAL) (accessor : (NAME + (ivl -> VAL))) : PROP :=
  match accessor with
  | inl accessor_s =>
    (prop_of_apply (g_field_name_apply py_getattr accessor_s))
  | inr accessor_f =>
    (prop_of_apply (g_field_getter_apply accessor_f))
  end.

(* calgebra/core.py: Filter.__or__ *)
Definition g_filter_or {TL : Type} {FILT : Type} (mk_or : FILT -> FILT -> FILT) (self : FILT) (other : (TL + FILT)) : res FILT :=
  match other with
  | inl other_t =>
    (RRaise TypeError)
  | inr other_f =>
    (RDone (mk_or self other_f))
  end.

(* calgebra/core.py: Filter.__and__ *)
Definition g_filter_and {TL : Type} {FILT : Type} (mk_filtered : TL -> FILT -> TL) (mk_and : FILT -> FILT -> FILT) (self : FILT) (other : (TL + FILT)) : (TL + FILT) :=
  match other with
  | inl other_t =>
    (inl (mk_filtered other_t self))
  | inr other_f =>
    (inr (mk_and self other_f))
  end.

(* calgebra/core.py: Or.apply *)
Definition g_or_apply {FILT : Type} (filter_apply : FILT -> ivl -> res bool) (self_filters : list FILT) (event : ivl) : (res bool) :=
  (any_r (fun f => (filter_apply f event)) self_filters).

(* calgebra/core.py: And.apply *)
Definition g_and_apply {FILT : Type} (filter_apply : FILT -> ivl -> res bool) (self_filters : list FILT) (event : ivl) : (res bool) :=
  (all_r (fun f => (filter_apply f event)) self_filters).

(* calgebra/core.py: Timeline.__or__ *)
Definition g_timeline_or {TL : Type} {FILT : Type} (mk_union : TL -> TL -> TL) (self : TL) (other : (TL + FILT)) : res TL :=
  match other with
  | inl other_t =>
    (RDone (mk_union self other_t))
  | inr other_f =>
    (RRaise TypeError)
  end.

(* calgebra/core.py: Timeline.__and__ *)
Definition g_timeline_and {TL : Type} {FILT : Type} (mk_filtered : TL -> FILT -> TL) (mk_intersection : TL -> TL -> TL) (self : TL) (other : (TL + FILT)) : TL :=
  match other with
  | inl other_t =>
    (mk_intersection self other_t)
  | inr other_f =>
    (mk_filtered self other_f)
  end.

(* calgebra/core.py: Timeline.__sub__ *)
Definition g_timeline_sub {TL : Type} (mk_difference : TL -> TL -> TL) (self : TL) (other : TL) : TL :=
  (mk_difference self other).

(* calgebra/core.py: Timeline.__invert__ *)
Definition g_timeline_invert {TL : Type} (mk_complement : TL -> TL) (self : TL) : TL :=
  (mk_complement self).

(* calgebra/core.py: _flatten_sources *)
Definition g_flatten_sources_f {TL : Type} (is_cls : TL -> bool) (tl_sources : TL -> list TL) (sources : list TL) : list TL :=
  let flattened := (@nil TL) in
  iter_for
    (fun flattened source =>
      if (is_cls source) then
        let flattened := (app flattened (tl_sources source)) in
        (SCont flattened)
      else
        let flattened := (flattened ++ [source]) in
        (SCont flattened))
    (fun flattened =>
      flattened)
    flattened sources.

(* calgebra/core.py: Union.__init__ *)
Definition g_union_init_f {TL : Type} (is_union : TL -> bool) (tl_sources : TL -> list TL) (self_sources : list TL) (sources : list TL) : (list TL) :=
  let self_sources := (g_flatten_sources_f is_union tl_sources sources) in
  self_sources.

(* calgebra/core.py: Intersection.__init__ *)
Definition g_intersection_init_f {TL : Type} (is_intersection : TL -> bool) (tl_sources : TL -> list TL) (self_sources : list TL) (sources : list TL) : (list TL) :=
  let self_sources := (g_flatten_sources_f is_intersection tl_sources sources) in
  self_sources.

(* calgebra/properties.py: Operator.__init__ *)
Definition g_operator_init {PROP : Type} {VAL : Type} (self_left : (PROP + VAL)) (self_right : (PROP + VAL)) (self_operator : (VAL -> VAL -> res bool)) (left_ : (PROP + VAL)) (right_ : (PROP + VAL)) (operator : (VAL -> VAL -> res bool)) : ((PROP + VAL) * (PROP + VAL) * (VAL -> VAL -> res bool)) :=
  let self_left := left_ in
  let self_right := right_ in
  let self_operator := operator in
  (self_left, self_right, self_operator).

(* calgebra/core.py: Or.__init__ *)
Definition g_or_init {FILT : Type} (self_filters : list FILT) (filters : list FILT) : (list FILT) :=
  let self_filters := filters in
  self_filters.

(* calgebra/core.py: And.__init__ *)
Definition g_and_init {FILT : Type} (self_filters : list FILT) (filters : list FILT) : (list FILT) :=
  let self_filters := filters in
  self_filters.

(* calgebra/core.py: Filtered.__init__ *)
Definition g_filtered_init_f {TL : Type} {FILT : Type} (self_source : TL) (self_filter : FILT) (source : TL) (filter_ : FILT) : (TL * FILT) :=
  let self_source := source in
  let self_filter := filter_ in
  (self_source, self_filter).

(* calgebra/core.py: Difference.__init__ *)
Definition g_difference_init_f {TL : Type} (self_source : TL) (self_subtractors : list TL) (source : TL) (subtractors : list TL) : (TL * list TL) :=
  let self_source := source in
  let self_subtractors := subtractors in
  (self_source, self_subtractors).

(* calgebra/core.py: Complement.__init__ *)
Definition g_complement_init_f {TL : Type} (self_source : TL) (source : TL) : TL :=
  let self_source := source in
  self_source.

(* calgebra/core.py: Timeline._is_mask *)
Definition g_is_mask_base  : bool :=
  false.

(* calgebra/core.py: _SolidTimeline._is_mask *)
Definition g_is_mask_solid  : bool :=
  true.

(* calgebra/core.py: Union._is_mask *)
Definition g_is_mask_union {TL : Type} (tl_is_mask : TL -> bool) (self_sources : list TL) : bool :=
  (forallb (fun s => (tl_is_mask s)) self_sources).

(* calgebra/core.py: Intersection._is_mask *)
Definition g_is_mask_intersection {TL : Type} (tl_is_mask : TL -> bool) (self_sources : list TL) : bool :=
  (forallb (fun s => (tl_is_mask s)) self_sources).

(* calgebra/core.py: Filtered._is_mask *)
Definition g_is_mask_filtered {TL : Type} (tl_is_mask : TL -> bool) (self_source : TL) : bool :=
  (tl_is_mask self_source).

(* calgebra/core.py: Difference._is_mask *)
Definition g_is_mask_difference {TL : Type} (tl_is_mask : TL -> bool) (self_source : TL) : bool :=
  (tl_is_mask self_source).

(* calgebra/core.py: Complement._is_mask *)
Definition g_is_mask_complement  : bool :=
  true.

(* calgebra/recurrence.py: RecurringPattern.fetch *)
Definition g_recur_fetch {R : Type} (fetch_reverse : option Z -> option Z -> R) (fetch_forward : option Z -> option Z -> R) (start : option Z) (end_ : option Z) (reverse : bool) : R :=
  if reverse then
    (fetch_reverse start end_)
  else
    (fetch_forward start end_).

(* calgebra/recurrence.py: rrule_kwargs_to_rrule_string *)
Definition g_rrule_text (rrule_kwargs : kwargs) : res text :=
  let parts := (@nil text) in
  let freq := (kw_freq rrule_kwargs) in
  match freq with
  | Some freq =>
    if false then
      (RRaise ValueError)
    else
      let parts := (parts ++ [(tok_cat [TKey KFreq] (tok_freq freq))]) in
      let interval_ := (match (kw_interval rrule_kwargs) with Some v_ => v_ | None => 1 end) in
      let parts :=
        if (negb (interval_ =? 1)) then
          let parts := (parts ++ [(tok_cat [TKey KInterval] (tok_int interval_))]) in
          parts
        else
          parts in
      let byweekday := (kw_byweekday rrule_kwargs) in
      match byweekday with
      | Some byweekday =>
        let day_strings := (@nil text) in
        iter_for
          (fun day_strings wd =>
            let weekday_str := (wd_text (fst wd)) in
            match weekday_str with
            | Some weekday_str =>
              if ((negb (is_none (snd wd))) && (negb ((ozd (snd wd)) =? 0))) then
                let day_strings := (day_strings ++ [(tok_cat (tok_int (ozd (snd wd))) weekday_str)]) in
                (SCont day_strings)
              else
                let day_strings := (day_strings ++ [weekday_str]) in
                (SCont day_strings)
            | None =>
              (SRet (RRaise ValueError))
            end)
          (fun day_strings =>
            let parts :=
              if (nonempty day_strings) then
                let parts := (parts ++ [(tok_cat [TKey KByDay] (tok_join [TComma] day_strings))]) in
                parts
              else
                parts in
            let val := (kw_bymonth rrule_kwargs) in
            let parts :=
              match val with
              | Some val =>
                let parts := (parts ++ [(tok_cat [TKey KByMonth] (tok_join [TComma] (map tok_int val)))]) in
                parts
              | None =>
                parts
              end in
            let val := (kw_bymonthday rrule_kwargs) in
            let parts :=
              match val with
              | Some val =>
                let parts := (parts ++ [(tok_cat [TKey KByMonthDay] (tok_join [TComma] (map tok_int val)))]) in
                parts
              | None =>
                parts
              end in
            let val := (kw_byweekno rrule_kwargs) in
            let parts :=
              match val with
              | Some val =>
                let parts := (parts ++ [(tok_cat [TKey KByWeekNo] (tok_join [TComma] (map tok_int val)))]) in
                parts
              | None =>
                parts
              end in
            let val := (kw_byyearday rrule_kwargs) in
            let parts :=
              match val with
              | Some val =>
                let parts := (parts ++ [(tok_cat [TKey KByYearDay] (tok_join [TComma] (map tok_int val)))]) in
                parts
              | None =>
                parts
              end in
            let val := (kw_bysetpos rrule_kwargs) in
            let parts :=
              match val with
              | Some val =>
                let parts := (parts ++ [(tok_cat [TKey KBySetPos] (tok_join [TComma] (map tok_int val)))]) in
                parts
              | None =>
                parts
              end in
            let val := (kw_byhour rrule_kwargs) in
            let parts :=
              match val with
              | Some val =>
                let parts := (parts ++ [(tok_cat [TKey KByHour] (tok_join [TComma] (map tok_int val)))]) in
                parts
              | None =>
                parts
              end in
            let val := (kw_byminute rrule_kwargs) in
            let parts :=
              match val with
              | Some val =>
                let parts := (parts ++ [(tok_cat [TKey KByMinute] (tok_join [TComma] (map tok_int val)))]) in
                parts
              | None =>
                parts
              end in
            let val := (kw_bysecond rrule_kwargs) in
            let parts :=
              match val with
              | Some val =>
                let parts := (parts ++ [(tok_cat [TKey KBySecond] (tok_join [TComma] (map tok_int val)))]) in
                parts
              | None =>
                parts
              end in
            let wkst := (kw_wkst rrule_kwargs) in
            let parts :=
              match wkst with
              | Some wkst =>
                match wkst with
                | WkObj wkst_w =>
                  let s := (wd_text wkst_w) in
                  if (otext_true s) then
                    let parts := (parts ++ [(tok_cat [TKey KWkst] (match s with Some v_ => v_ | None => (@nil token) end))]) in
                    parts
                  else
                    parts
                | WkInt wkst_z =>
                  if ((0 <=? wkst_z) && (wkst_z <? 7)) then
                    let parts := (parts ++ [(tok_cat [TKey KWkst] (tok_wd wkst_z))]) in
                    parts
                  else
                    parts
                end
              | None =>
                parts
              end in
            (RDone (tok_join [TSemi] parts)))
          day_strings byweekday
      | None =>
        let val := (kw_bymonth rrule_kwargs) in
        let parts :=
          match val with
          | Some val =>
            let parts := (parts ++ [(tok_cat [TKey KByMonth] (tok_join [TComma] (map tok_int val)))]) in
            parts
          | None =>
            parts
          end in
        let val := (kw_bymonthday rrule_kwargs) in
        let parts :=
          match val with
          | Some val =>
            let parts := (parts ++ [(tok_cat [TKey KByMonthDay] (tok_join [TComma] (map tok_int val)))]) in
            parts
          | None =>
            parts
          end in
        let val := (kw_byweekno rrule_kwargs) in
        let parts :=
          match val with
          | Some val =>
            let parts := (parts ++ [(tok_cat [TKey KByWeekNo] (tok_join [TComma] (map tok_int val)))]) in
            parts
          | None =>
            parts
          end in
        let val := (kw_byyearday rrule_kwargs) in
        let parts :=
          match val with
          | Some val =>
            let parts := (parts ++ [(tok_cat [TKey KByYearDay] (tok_join [TComma] (map tok_int val)))]) in
            parts
          | None =>
            parts
          end in
        let val := (kw_bysetpos rrule_kwargs) in
        let parts :=
          match val with
          | Some val =>
            let parts := (parts ++ [(tok_cat [TKey KBySetPos] (tok_join [TComma] (map tok_int val)))]) in
            parts
          | None =>
            parts
          end in
        let val := (kw_byhour rrule_kwargs) in
        let parts :=
          match val with
          | Some val =>
            let parts := (parts ++ [(tok_cat [TKey KByHour] (tok_join [TComma] (map tok_int val)))]) in
            parts
          | None =>
            parts
          end in
        let val := (kw_byminute rrule_kwargs) in
        let parts :=
          match val with
          | Some val =>
            let parts := (parts ++ [(tok_cat [TKey KByMinute] (tok_join [TComma] (map tok_int val)))]) in
            parts
          | None =>
            parts
          end in
        let val := (kw_bysecond rrule_kwargs) in
        let parts :=
          match val with
          | Some val =>
            let parts := (parts ++ [(tok_cat [TKey KBySecond] (tok_join [TComma] (map tok_int val)))]) in
            parts
          | None =>
            parts
          end in
        let wkst := (kw_wkst rrule_kwargs) in
        match wkst with
        | Some wkst =>
          match wkst with
          | WkObj wkst_w =>
            let s := (wd_text wkst_w) in
            let parts :=
              if (otext_true s) then
                let parts := (parts ++ [(tok_cat [TKey KWkst] (match s with Some v_ => v_ | None => (@nil token) end))]) in
                parts
              else
                parts in
            (RDone (tok_join [TSemi] parts))
          | WkInt wkst_z =>
            let parts :=
              if ((0 <=? wkst_z) && (wkst_z <? 7)) then
                let parts := (parts ++ [(tok_cat [TKey KWkst] (tok_wd wkst_z))]) in
                parts
              else
                parts in
            (RDone (tok_join [TSemi] parts))
          end
        | None =>
          (RDone (tok_join [TSemi] parts))
        end
      end
  | None =>
    (RRaise ValueError)
  end.

(* calgebra/recurrence.py: RecurringPattern.to_rrule_string *)
Definition g_to_rrule_string (self_rrule_kwargs : kwargs) : res text :=
  res_bind (g_rrule_text self_rrule_kwargs) (fun r1_ =>
  (RDone r1_)).

(* calgebra/recurrence.py: _to_int_list *)
Definition g_to_int_list (val : option intarg) : option (list Z) :=
  match val with
  | Some val =>
    match val with
    | IOne val_z =>
      let val_list := [val_z] in
      (Some (map (fun x => x) val_list))
    | IList val_l =>
      let val_list := val_l in
      (Some (map (fun x => x) val_list))
    end
  | None =>
    None
  end.

(* calgebra/recurrence.py: RecurringPattern.__init__ *)
Definition g_rp_head {DT : Type} {ZONE : Type} {TZ : Type} {IC : Type} {MD : Type} (zoneinfo : TZ -> ZONE) (zone_utc : ZONE) (dt_tzinfo : DT -> ZONE) (freq : Recur.freq) (interval_ : Z) (duration : Z) (interval_class : IC) (metadata : MD) (exdates : option (list Z)) (tz : option TZ) (start : (start_arg DT)) : res ((Recur.freq * Z * Z * list Z * ZONE)) :=
  let self_freq := freq in
  let self_interval := interval_ in
  let self_duration_seconds := duration in
  let self_interval_class := interval_class in
  let self_metadata := metadata in
  let self_exdates := (if (match exdates with Some v_ => nonempty v_ | None => false end) then (fs_of_list (match exdates with Some v_ => v_ | None => [] end)) else (@nil Z)) in
  match tz with
  | Some tz =>
    let self_zone := (zoneinfo tz) in
    (RDone (self_freq, self_interval, self_duration_seconds, self_exdates, self_zone))
  | None =>
    match start with
    | StInt start_z =>
      let self_zone := zone_utc in
      (RDone (self_freq, self_interval, self_duration_seconds, self_exdates, self_zone))
    | StAware start_dt =>
      let self_zone := (dt_tzinfo start_dt) in
      (RDone (self_freq, self_interval, self_duration_seconds, self_exdates, self_zone))
    | StNaive start_dt =>
      let self_zone := zone_utc in
      (RDone (self_freq, self_interval, self_duration_seconds, self_exdates, self_zone))
    end
  end.

(* calgebra/recurrence.py: RecurringPattern.__init__ *)
Definition g_rp_start {DT : Type} {ZONE : Type} (dt_with_zone : DT -> ZONE -> DT) (dt_timestamp : DT -> Z) (dt_fromtimestamp : Z -> ZONE -> DT) (dt_hour : DT -> Z) (dt_minute : DT -> Z) (dt_second : DT -> Z) (start : (start_arg DT)) (self_zone : ZONE) : res ((option DT * option Z * Z)) :=
  let anchor_dt := None in
  match start with
  | StInt start_z =>
    if (start_z >? 86400) then
      let anchor_dt := (dt_fromtimestamp start_z self_zone) in
      let self_anchor_timestamp := (Some start_z) in
      let self_start_seconds := ((((dt_hour anchor_dt) * 3600) + ((dt_minute anchor_dt) * 60)) + (dt_second anchor_dt)) in
      (RDone ((Some anchor_dt), self_anchor_timestamp, self_start_seconds))
    else
      if (negb ((0 <=? start_z) && (start_z <? 86400))) then
        (RRaise ValueError)
      else
        let self_anchor_timestamp := None in
        let self_start_seconds := start_z in
        (RDone (anchor_dt, self_anchor_timestamp, self_start_seconds))
  | StAware start_dt =>
    let anchor_dt := start_dt in
    let self_anchor_timestamp := (Some (dt_timestamp anchor_dt)) in
    let self_start_seconds := ((((dt_hour anchor_dt) * 3600) + ((dt_minute anchor_dt) * 60)) + (dt_second anchor_dt)) in
    (RDone ((Some anchor_dt), self_anchor_timestamp, self_start_seconds))
  | StNaive start_dt =>
    let anchor_dt := (dt_with_zone start_dt self_zone) in
    let self_anchor_timestamp := (Some (dt_timestamp anchor_dt)) in
    let self_start_seconds := ((((dt_hour anchor_dt) * 3600) + ((dt_minute anchor_dt) * 60)) + (dt_second anchor_dt)) in
    (RDone ((Some anchor_dt), self_anchor_timestamp, self_start_seconds))
  end.

(* calgebra/recurrence.py: RecurringPattern.__init__ *)
Definition g_rp_check {DT : Type} {DS : Type} (dt_weekday : DT -> Z) (ds_lower : DS -> DS) (daymap_has : DS -> bool) (daymap_get : DS -> Z) (day : option ((dayarg DS))) (anchor_dt : option DT) : res bool :=
  match day with
  | Some day =>
    match anchor_dt with
    | Some anchor_dt =>
      match day with
      | DayStr day_s =>
        let days_list := [day_s] in
        let anchor_weekday := (dt_weekday anchor_dt) in
        let valid_weekdays := (@nil Z) in
        iter_for
          (fun valid_weekdays d =>
            let d_lower := (ds_lower d) in
            if (daymap_has d_lower) then
              let valid_weekdays := (valid_weekdays ++ [(daymap_get d_lower)]) in
              (SCont valid_weekdays)
            else
              (SCont valid_weekdays))
          (fun valid_weekdays =>
            if ((nonempty valid_weekdays) && (negb (zmem anchor_weekday valid_weekdays))) then
              (RRaise ValueError)
            else
              (RDone true))
          valid_weekdays days_list
      | DayList day_l =>
        let days_list := day_l in
        let anchor_weekday := (dt_weekday anchor_dt) in
        let valid_weekdays := (@nil Z) in
        iter_for
          (fun valid_weekdays d =>
            let d_lower := (ds_lower d) in
            if (daymap_has d_lower) then
              let valid_weekdays := (valid_weekdays ++ [(daymap_get d_lower)]) in
              (SCont valid_weekdays)
            else
              (SCont valid_weekdays))
          (fun valid_weekdays =>
            if ((nonempty valid_weekdays) && (negb (zmem anchor_weekday valid_weekdays))) then
              (RRaise ValueError)
            else
              (RDone true))
          valid_weekdays days_list
      end
    | None =>
      (RDone true)
    end
  | None =>
    (RDone true)
  end.

(* calgebra/recurrence.py: RecurringPattern.__init__ *)
Definition g_rp_store {DS : Type} (day : option ((dayarg DS))) (week : option Z) (day_of_month : option intarg) (month : option intarg) (bysetpos : option intarg) (byweekno : option intarg) (byyearday : option intarg) (byhour : option intarg) (byminute : option intarg) (bysecond : option intarg) (wkst : option ((wkarg DS))) : res ((option (dayarg DS) * option Z * option intarg * option intarg * option intarg * option intarg * option intarg * option intarg * option intarg * option intarg * option (wkarg DS))) :=
  let self_day := day in
  let self_week := week in
  let self_day_of_month := day_of_month in
  let self_month := month in
  let self_bysetpos := bysetpos in
  let self_byweekno := byweekno in
  let self_byyearday := byyearday in
  let self_byhour := byhour in
  let self_byminute := byminute in
  let self_bysecond := bysecond in
  let self_wkst := wkst in
  (RDone (self_day, self_week, self_day_of_month, self_month, self_bysetpos, self_byweekno, self_byyearday, self_byhour, self_byminute, self_bysecond, self_wkst)).

(* calgebra/recurrence.py: RecurringPattern.__init__ *)
Definition g_rp_days {DS : Type} (ds_upper : DS -> DS) (ds_lower : DS -> DS) (ds_len : DS -> Z) (ds_suffix : DS -> Z -> DS) (ds_drop_suffix : DS -> Z -> DS) (ds_int : DS -> option Z) (daymap_has : DS -> bool) (daymap_get : DS -> Z) (freq : Recur.freq) (interval_ : Z) (day : option ((dayarg DS))) (week : option Z) : res kwargs :=
  let rrule_kwargs := (mkKW (Some freq) (Some interval_) None None None None None None None None None None) in
  match day with
  | Some day =>
    match day with
    | DayStr day_s =>
      let days := [day_s] in
      let weekdays := (@nil ((Z * option Z))) in
      iter_for
        (fun weekdays d =>
          let s := (ds_upper d) in
          if (daymap_has (ds_lower d)) then
            let wd := ((daymap_get (ds_lower d)), (@None Z)) in
            match week with
            | Some week =>
              match (wd_call wd week) with
              | Some v_ =>
                let wd := v_ in
                let weekdays := (weekdays ++ [wd]) in
                (SCont weekdays)
              | None =>
                (SRet (RRaise ValueError))
              end
            | None =>
              let weekdays := (weekdays ++ [wd]) in
              (SCont weekdays)
            end
          else
            if ((ds_len s) >? 2) then
              let code := (ds_suffix s 2) in
              let prefix := (ds_drop_suffix s 2) in
              if (daymap_has (ds_lower code)) then
                let wd_const := ((daymap_get (ds_lower code)), (@None Z)) in
                match (ds_int prefix) with
                | Some v_ =>
                  let n := v_ in
                  match (wd_call wd_const n) with
                  | Some v_ =>
                    let weekdays := (weekdays ++ [v_]) in
                    (SCont weekdays)
                  | None =>
                  (SRet (RRaise ValueError))
                  end
                | None =>
                  (SRet (RRaise ValueError))
                end
              else
                (SRet (RRaise ValueError))
            else
              (SRet (RRaise ValueError)))
        (fun weekdays =>
          let rrule_kwargs := (set_byweekday rrule_kwargs (Some weekdays)) in
          (RDone rrule_kwargs))
        weekdays days
    | DayList day_l =>
      let days := day_l in
      let weekdays := (@nil ((Z * option Z))) in
      iter_for
        (fun weekdays d =>
          let s := (ds_upper d) in
          if (daymap_has (ds_lower d)) then
            let wd := ((daymap_get (ds_lower d)), (@None Z)) in
            match week with
            | Some week =>
              match (wd_call wd week) with
              | Some v_ =>
                let wd := v_ in
                let weekdays := (weekdays ++ [wd]) in
                (SCont weekdays)
              | None =>
                (SRet (RRaise ValueError))
              end
            | None =>
              let weekdays := (weekdays ++ [wd]) in
              (SCont weekdays)
            end
          else
            if ((ds_len s) >? 2) then
              let code := (ds_suffix s 2) in
              let prefix := (ds_drop_suffix s 2) in
              if (daymap_has (ds_lower code)) then
                let wd_const := ((daymap_get (ds_lower code)), (@None Z)) in
                match (ds_int prefix) with
                | Some v_ =>
                  let n := v_ in
                  match (wd_call wd_const n) with
                  | Some v_ =>
                    let weekdays := (weekdays ++ [v_]) in
                    (SCont weekdays)
                  | None =>
                  (SRet (RRaise ValueError))
                  end
                | None =>
                  (SRet (RRaise ValueError))
                end
              else
                (SRet (RRaise ValueError))
            else
              (SRet (RRaise ValueError)))
        (fun weekdays =>
          let rrule_kwargs := (set_byweekday rrule_kwargs (Some weekdays)) in
          (RDone rrule_kwargs))
        weekdays days
    end
  | None =>
    (RDone rrule_kwargs)
  end.

(* calgebra/recurrence.py: RecurringPattern.__init__ *)
Definition g_rp_lists {DS : Type} (ds_lower : DS -> DS) (daymap_has : DS -> bool) (daymap_get : DS -> Z) (rrule_kwargs : kwargs) (day_of_month : option intarg) (month : option intarg) (bysetpos : option intarg) (byweekno : option intarg) (byyearday : option intarg) (byhour : option intarg) (byminute : option intarg) (bysecond : option intarg) (wkst : option ((wkarg DS))) : res kwargs :=
  let rrule_kwargs :=
    match day_of_month with
    | Some day_of_month =>
      let rrule_kwargs := (set_bymonthday rrule_kwargs (g_to_int_list (Some day_of_month))) in
      rrule_kwargs
    | None =>
      rrule_kwargs
    end in
  let rrule_kwargs :=
    match month with
    | Some month =>
      let rrule_kwargs := (set_bymonth rrule_kwargs (g_to_int_list (Some month))) in
      rrule_kwargs
    | None =>
      rrule_kwargs
    end in
  let rrule_kwargs :=
    match bysetpos with
    | Some bysetpos =>
      let rrule_kwargs := (set_bysetpos rrule_kwargs (g_to_int_list (Some bysetpos))) in
      rrule_kwargs
    | None =>
      rrule_kwargs
    end in
  let rrule_kwargs :=
    match byweekno with
    | Some byweekno =>
      let rrule_kwargs := (set_byweekno rrule_kwargs (g_to_int_list (Some byweekno))) in
      rrule_kwargs
    | None =>
      rrule_kwargs
    end in
  let rrule_kwargs :=
    match byyearday with
    | Some byyearday =>
      let rrule_kwargs := (set_byyearday rrule_kwargs (g_to_int_list (Some byyearday))) in
      rrule_kwargs
    | None =>
      rrule_kwargs
    end in
  let rrule_kwargs :=
    match byhour with
    | Some byhour =>
      let rrule_kwargs := (set_byhour rrule_kwargs (g_to_int_list (Some byhour))) in
      rrule_kwargs
    | None =>
      rrule_kwargs
    end in
  let rrule_kwargs :=
    match byminute with
    | Some byminute =>
      let rrule_kwargs := (set_byminute rrule_kwargs (g_to_int_list (Some byminute))) in
      rrule_kwargs
    | None =>
      rrule_kwargs
    end in
  let rrule_kwargs :=
    match bysecond with
    | Some bysecond =>
      let rrule_kwargs := (set_bysecond rrule_kwargs (g_to_int_list (Some bysecond))) in
      rrule_kwargs
    | None =>
      rrule_kwargs
    end in
  let rrule_kwargs :=
    match wkst with
    | Some wkst =>
      match wkst with
      | WaObj wkst_w =>
        let rrule_kwargs := (set_wkst rrule_kwargs (Some (WkObj wkst_w))) in
        rrule_kwargs
      | WaStr wkst_s =>
        if (daymap_has (ds_lower wkst_s)) then
          let rrule_kwargs := (set_wkst rrule_kwargs (Some (WkObj (daymap_get (ds_lower wkst_s))))) in
          rrule_kwargs
        else
          rrule_kwargs
      | WaInt wkst_z =>
        if ((0 <=? wkst_z) && (wkst_z <? 7)) then
          let rrule_kwargs := (set_wkst rrule_kwargs (Some (WkInt wkst_z))) in
          rrule_kwargs
        else
          rrule_kwargs
      end
    | None =>
      rrule_kwargs
    end in
  let self_rrule_kwargs := rrule_kwargs in
  (RDone self_rrule_kwargs).

(* calgebra/recurrence.py: RecurringPattern.__init__ *)
Definition g_rp_epoch {DT : Type} {ZONE : Type} (dt_make : Z -> Z -> Z -> ZONE -> DT) (self_zone : ZONE) : res DT :=
  let self__epoch := (dt_make 1970 1 1 self_zone) in
  (RDone self__epoch).

(* calgebra/recurrence.py: RecurringPattern.__init__ *)
Definition g_rp_init {DT : Type} {ZONE : Type} {TZ : Type} {IC : Type} {MD : Type} {DS : Type} (zoneinfo : TZ -> ZONE) (zone_utc : ZONE) (dt_tzinfo : DT -> ZONE) (dt_with_zone : DT -> ZONE -> DT) (dt_timestamp : DT -> Z) (dt_fromtimestamp : Z -> ZONE -> DT) (dt_hour : DT -> Z) (dt_minute : DT -> Z) (dt_second : DT -> Z) (dt_weekday : DT -> Z) (ds_lower : DS -> DS) (daymap_has : DS -> bool) (daymap_get : DS -> Z) (ds_upper : DS -> DS) (ds_len : DS -> Z) (ds_suffix : DS -> Z -> DS) (ds_drop_suffix : DS -> Z -> DS) (ds_int : DS -> option Z) (dt_make : Z -> Z -> Z -> ZONE -> DT) (freq : Recur.freq) (interval_ : Z) (day : option ((dayarg DS))) (week : option Z) (day_of_month : option intarg) (month : option intarg) (start : (start_arg DT)) (duration : Z) (tz : option TZ) (interval_class : IC) (exdates : option (list Z)) (bysetpos : option intarg) (byweekno : option intarg) (byyearday : option intarg) (byhour : option intarg) (byminute : option intarg) (bysecond : option intarg) (wkst : option ((wkarg DS))) (metadata : MD) : res ((Recur.freq * Z * Z * list Z * ZONE * option Z * Z * option (dayarg DS) * option Z * option intarg * option intarg * option intarg * option intarg * option intarg * option intarg * option intarg * option intarg * option (wkarg DS) * kwargs * DT)) :=
  res_bind (g_rp_head zoneinfo zone_utc dt_tzinfo freq interval_ duration interval_class metadata exdates tz start) (fun r1_ =>
  let part0_ := r1_ in
  let self_freq := (fst (fst (fst (fst part0_)))) in
  let self_interval := (snd (fst (fst (fst part0_)))) in
  let self_duration_seconds := (snd (fst (fst part0_))) in
  let self_exdates := (snd (fst part0_)) in
  let self_zone := (snd part0_) in
  res_bind (g_rp_start dt_with_zone dt_timestamp dt_fromtimestamp dt_hour dt_minute dt_second start self_zone) (fun r2_ =>
  let part1_ := r2_ in
  let anchor_dt := (fst (fst part1_)) in
  let self_anchor_timestamp := (snd (fst part1_)) in
  let self_start_seconds := (snd part1_) in
  res_bind (g_rp_check dt_weekday ds_lower daymap_has daymap_get day anchor_dt) (fun r3_ =>
  let part2_ := r3_ in
  res_bind (g_rp_store day week day_of_month month bysetpos byweekno byyearday byhour byminute bysecond wkst) (fun r4_ =>
  let part3_ := r4_ in
  let self_day := (fst (fst (fst (fst (fst (fst (fst (fst (fst (fst part3_)))))))))) in
  let self_week := (snd (fst (fst (fst (fst (fst (fst (fst (fst (fst part3_)))))))))) in
  let self_day_of_month := (snd (fst (fst (fst (fst (fst (fst (fst (fst part3_))))))))) in
  let self_month := (snd (fst (fst (fst (fst (fst (fst (fst part3_)))))))) in
  let self_bysetpos := (snd (fst (fst (fst (fst (fst (fst part3_))))))) in
  let self_byweekno := (snd (fst (fst (fst (fst (fst part3_)))))) in
  let self_byyearday := (snd (fst (fst (fst (fst part3_))))) in
  let self_byhour := (snd (fst (fst (fst part3_)))) in
  let self_byminute := (snd (fst (fst part3_))) in
  let self_bysecond := (snd (fst part3_)) in
  let self_wkst := (snd part3_) in
  res_bind (g_rp_days ds_upper ds_lower ds_len ds_suffix ds_drop_suffix ds_int daymap_has daymap_get freq interval_ day week) (fun r5_ =>
  let part4_ := r5_ in
  let rrule_kwargs := part4_ in
  res_bind (g_rp_lists ds_lower daymap_has daymap_get rrule_kwargs day_of_month month bysetpos byweekno byyearday byhour byminute bysecond wkst) (fun r6_ =>
  let part5_ := r6_ in
  let self_rrule_kwargs := part5_ in
  res_bind (g_rp_epoch dt_make self_zone) (fun r7_ =>
  let part6_ := r7_ in
  let self__epoch := part6_ in
  (RDone (self_freq, self_interval, self_duration_seconds, self_exdates, self_zone, self_anchor_timestamp, self_start_seconds, self_day, self_week, self_day_of_month, self_month, self_bysetpos, self_byweekno, self_byyearday, self_byhour, self_byminute, self_bysecond, self_wkst, self_rrule_kwargs, self__epoch))))))))).

(* calgebra/ical.py: _dt_to_timestamp *)
Definition g_ical_dt_to_timestamp {DV : Type} (dv_is_datetime : DV -> bool) (dv_timestamp : DV -> Z) (dv_midnight_utc : DV -> DV) (dt : DV) : Z :=
  if (dv_is_datetime dt) then
    (dv_timestamp dt)
  else
    let dt_full := (dv_midnight_utc dt) in
    (dv_timestamp dt_full).

(* calgebra/ical.py: _phase_base *)
Definition g_ical_phase_base {DV : Type} (dv_ymd : Z -> Z -> Z -> DV) (freq : freq) : DV :=
  (if (freq_eqb freq Weekly) then (dv_ymd 1969 12 29) else (dv_ymd 1970 1 1)).

(* calgebra/ical.py: _parse_vevent *)
Definition g_ical_parse_times {VE : Type} {DP : Type} {UP : Type} {DV : Type} {TD : Type} (ve_get_dtstart : VE -> option DP) (ve_get_dtend : VE -> option DP) (ve_get_duration : VE -> option UP) (dp_dt : DP -> DV) (up_dt : UP -> TD) (dv_is_datetime : DV -> bool) (dv_timestamp : DV -> Z) (dv_midnight_utc : DV -> DV) (dv_add : DV -> TD -> DV) (td_of_days : Z -> TD) (dv_same_tzinfo : DV -> DV -> bool) (dv_naive : DV -> DV) (dv_sub : DV -> DV -> TD) (td_days : TD -> Z) (td_seconds : TD -> Z) (td_geb : TD -> TD -> bool) (td_sub : TD -> TD -> TD) (td_total_seconds : TD -> Z) (component : VE) : res ((DV * bool * Z * Z * Z)) :=
  let dtstart_prop := (ve_get_dtstart component) in
  let dtend_prop := (ve_get_dtend component) in
  let duration_prop := (ve_get_duration component) in
  match dtstart_prop with
  | Some dtstart_prop =>
    let start_dt := (dp_dt dtstart_prop) in
    let is_all_day := (negb (dv_is_datetime start_dt)) in
    let end_dt :=
      match dtend_prop with
      | Some dtend_prop =>
        let end_dt := (dp_dt dtend_prop) in
        end_dt
      | None =>
        match duration_prop with
        | Some duration_prop =>
          let end_dt := (dv_add start_dt (up_dt duration_prop)) in
          end_dt
        | None =>
          if is_all_day then
            let end_dt := (dv_add start_dt (td_of_days 1)) in
            end_dt
          else
            let end_dt := start_dt in
            end_dt
        end
      end in
    let start_ts := (g_ical_dt_to_timestamp dv_is_datetime dv_timestamp dv_midnight_utc start_dt) in
    let end_ts := (g_ical_dt_to_timestamp dv_is_datetime dv_timestamp dv_midnight_utc end_dt) in
    let duration_seconds := (end_ts - start_ts) in
    let duration_seconds :=
      if ((dv_is_datetime start_dt) && (dv_is_datetime end_dt) && (dv_same_tzinfo start_dt end_dt)) then
        let wall := (dv_sub (dv_naive end_dt) (dv_naive start_dt)) in
        let duration_seconds := (((td_days wall) * 86400) + (td_seconds wall)) in
        duration_seconds
      else
        duration_seconds in
    let end_ts :=
      match duration_prop with
      | Some duration_prop =>
        match dtend_prop with
        | Some dtend_prop =>
          end_ts
        | None =>
          if (dv_is_datetime start_dt) then
            let dur := (up_dt duration_prop) in
            let days := (td_of_days (td_days dur)) in
            if (td_geb dur (td_of_days 0)) then
              let end_ts := ((g_ical_dt_to_timestamp dv_is_datetime dv_timestamp dv_midnight_utc (dv_add start_dt days)) + (td_total_seconds (td_sub dur days))) in
              end_ts
            else
              end_ts
          else
            end_ts
        end
      | None =>
        end_ts
      end in
    (RDone (start_dt, is_all_day, start_ts, end_ts, duration_seconds))
  | None =>
    (RRaise ValueError)
  end.

(* calgebra/ical.py: _parse_vevent *)
Definition g_ical_parse_start {DV : Type} {DATE : Type} (dv_is_datetime : DV -> bool) (dv_midnight_naive : DV -> DV) (dv_date : DV -> DATE) (date_eqb : DATE -> DATE -> bool) (dv_hour : DV -> Z) (dv_minute : DV -> Z) (dv_second : DV -> Z) (dv_ymd : Z -> Z -> Z -> DV) (start_dt : DV) (freq : freq) : (pstart DV) :=
  let pattern_start :=
    if (dv_is_datetime start_dt) then
      let pattern_start := start_dt in
      pattern_start
    else
      let pattern_start := (dv_midnight_naive start_dt) in
      pattern_start in
  if (date_eqb (dv_date pattern_start) (dv_date (g_ical_phase_base dv_ymd freq))) then
    let pattern_start := ((((dv_hour pattern_start) * 3600) + ((dv_minute pattern_start) * 60)) + (dv_second pattern_start)) in
    (PsInt pattern_start)
  else
    (PsDt pattern_start).

(* calgebra/ical.py: _parse_vevent *)
Definition g_ical_parse_tz {DV : Type} {TZ : Type} {TZNAME : Type} (dv_is_datetime : DV -> bool) (dv_tzinfo : DV -> option TZ) (tz_name : TZ -> TZNAME) (tzname_of_none : TZNAME) (start_dt : DV) : res (option TZNAME) :=
  let tz := None in
  if ((dv_is_datetime start_dt) && (negb (is_none (dv_tzinfo start_dt)))) then
    let tz := (Some (match dv_tzinfo start_dt with Some z_ => tz_name z_ | None => tzname_of_none end)) in
    (RDone tz)
  else
    (RDone tz).

(* calgebra/ical.py: _parse_vevent *)
Definition g_ical_parse_exdates {VE : Type} {EXP : Type} {EXVAL : Type} {DV : Type} (ve_has_exdate : VE -> bool) (ve_get_exdate : VE -> exv EXP) (exp_dts : EXP -> list EXVAL) (exval_dt : EXVAL -> DV) (dv_is_datetime : DV -> bool) (dv_timestamp : DV -> Z) (dv_midnight_utc : DV -> DV) (component : VE) : list Z :=
  let exdates := (@nil Z) in
  if (ve_has_exdate component) then
    let exdate_props := (ve_get_exdate component) in
    match exdate_props with
    | ExOne exdate_props_p =>
      let exdate_props := [exdate_props_p] in
      iter_for
        (fun exdates prop =>
          let exdates := (exdates ++ (map (fun value => (g_ical_dt_to_timestamp dv_is_datetime dv_timestamp dv_midnight_utc (exval_dt value))) (exp_dts prop))) in
          (SCont exdates))
        (fun exdates =>
          exdates)
        exdates exdate_props
    | ExList exdate_props_l =>
      iter_for
        (fun exdates prop =>
          let exdates := (exdates ++ (map (fun value => (g_ical_dt_to_timestamp dv_is_datetime dv_timestamp dv_midnight_utc (exval_dt value))) (exp_dts prop))) in
          (SCont exdates))
        (fun exdates =>
          exdates)
        exdates exdate_props_l
    end
  else
    exdates.

(* calgebra/ical.py: _interval_to_vevent *)
Definition g_ical_interval_to_vevent {ITEM : Type} {RP : Type} {IVLX : Type} {MD : Type} {ZN : Type} {DV : Type} {TD : Type} {STR : Type} {VR : Type} {TXT : Type} {EV : Type} (item_is_pattern : ITEM -> bool) (item_as_pattern : ITEM -> RP) (item_as_interval : ITEM -> IVLX) (rp_metadata : RP -> MD) (rp_zone_or_utc : RP -> ZN) (rp_anchor_timestamp : RP -> option Z) (rp_start_seconds : RP -> Z) (rp_duration_seconds : RP -> Z) (rp_freq : RP -> freq) (rp_exdates : RP -> list Z) (rp_rrule_string : RP -> STR) (vrecur_from_ical : STR -> res VR) (anchor_wall_clock : Z -> Z -> ZN -> DV) (dv_ymd : Z -> Z -> Z -> DV) (dv_with_zone : DV -> ZN -> DV) (dv_add : DV -> TD -> DV) (td_of_seconds : Z -> TD) (md_is_all_day : MD -> bool) (zone_is_utc : ZN -> bool) (dv_to_date : DV -> DV) (dv_fromtimestamp : Z -> ZN -> DV) (zn_utc : ZN) (ivl_vars : IVLX -> MD) (ivl_start : IVLX -> option Z) (ivl_end : IVLX -> option Z) (ivl_is_all_day : IVLX -> MD -> bool) (md_text : MD -> Z -> option TXT) (md_empty : MD) (ev_empty : EV) (ev_add_dtstart : DV -> EV -> EV) (ev_add_dtend : DV -> EV -> EV) (ev_add_duration : TD -> EV -> EV) (ev_add_rrule : VR -> EV -> EV) (ev_add_exdate : DV -> EV -> EV) (ev_add_text : Z -> TXT -> EV -> EV) (item : ITEM) : res EV :=
  let event := ev_empty in
  let is_all_day := false in
  let meta := md_empty in
  if (item_is_pattern item) then
    let rp := (item_as_pattern item) in
    let meta := (rp_metadata rp) in
    let zone := (rp_zone_or_utc rp) in
    let dtstart :=
      if (negb (is_none (rp_anchor_timestamp rp))) then
        let dtstart := (anchor_wall_clock (ozd (rp_anchor_timestamp rp)) (rp_start_seconds rp) zone) in
        dtstart
      else
        let dtstart := (dv_add (dv_with_zone (g_ical_phase_base dv_ymd (rp_freq rp)) zone) (td_of_seconds (rp_start_seconds rp))) in
        dtstart in
    let is_all_day := ((md_is_all_day meta) && (zone_is_utc zone) && ((rp_start_seconds rp) =? 0) && (((rp_duration_seconds rp) mod 86400) =? 0)) in
    let event := (ev_add_dtstart (if is_all_day then (dv_to_date dtstart) else dtstart) event) in
    let event := (ev_add_duration (td_of_seconds (rp_duration_seconds rp)) event) in
    let rrule_str := (rp_rrule_string rp) in
    res_bind (vrecur_from_ical rrule_str) (fun r1_ =>
    let event := (ev_add_rrule r1_ event) in
    if (nonempty (rp_exdates rp)) then
      iter_for
        (fun event mts =>
          let mdt := (dv_fromtimestamp mts (rp_zone_or_utc rp)) in
          let event := (ev_add_exdate (if is_all_day then (dv_to_date mdt) else mdt) event) in
          (SCont event))
        (fun event =>
          let val := (md_text meta 0) in
          let event :=
            match val with
            | Some val =>
              let event := (ev_add_text 0 val event) in
              event
            | None =>
              event
            end in
          let val := (md_text meta 1) in
          let event :=
            match val with
            | Some val =>
              let event := (ev_add_text 1 val event) in
              event
            | None =>
              event
            end in
          let val := (md_text meta 2) in
          let event :=
            match val with
            | Some val =>
              let event := (ev_add_text 2 val event) in
              event
            | None =>
              event
            end in
          let val := (md_text meta 3) in
          let event :=
            match val with
            | Some val =>
              let event := (ev_add_text 3 val event) in
              event
            | None =>
              event
            end in
          (RDone event))
        event (rp_exdates rp)
    else
      let val := (md_text meta 0) in
      let event :=
        match val with
        | Some val =>
          let event := (ev_add_text 0 val event) in
          event
        | None =>
          event
        end in
      let val := (md_text meta 1) in
      let event :=
        match val with
        | Some val =>
          let event := (ev_add_text 1 val event) in
          event
        | None =>
          event
        end in
      let val := (md_text meta 2) in
      let event :=
        match val with
        | Some val =>
          let event := (ev_add_text 2 val event) in
          event
        | None =>
          event
        end in
      let val := (md_text meta 3) in
      let event :=
        match val with
        | Some val =>
          let event := (ev_add_text 3 val event) in
          event
        | None =>
          event
        end in
      (RDone event))
  else
    let ivl_ := (item_as_interval item) in
    let meta := (ivl_vars ivl_) in
    if (is_none (ivl_start ivl_)) then
      (RRaise ValueError)
    else
      let is_all_day := (ivl_is_all_day ivl_ meta) in
      let dtstart := (dv_fromtimestamp (ozd (ivl_start ivl_)) zn_utc) in
      let event :=
        if is_all_day then
          let event := (ev_add_dtstart (dv_to_date dtstart) event) in
          event
        else
          let event := (ev_add_dtstart dtstart event) in
          event in
      let event :=
        if (negb (is_none (ivl_end ivl_))) then
          let dtend := (dv_fromtimestamp (ozd (ivl_end ivl_)) zn_utc) in
          if is_all_day then
            let event := (ev_add_dtend (dv_to_date dtend) event) in
            event
          else
            let event := (ev_add_dtend dtend event) in
            event
        else
          event in
      let val := (md_text meta 0) in
      let event :=
        match val with
        | Some val =>
          let event := (ev_add_text 0 val event) in
          event
        | None =>
          event
        end in
      let val := (md_text meta 1) in
      let event :=
        match val with
        | Some val =>
          let event := (ev_add_text 1 val event) in
          event
        | None =>
          event
        end in
      let val := (md_text meta 2) in
      let event :=
        match val with
        | Some val =>
          let event := (ev_add_text 2 val event) in
          event
        | None =>
          event
        end in
      let val := (md_text meta 3) in
      let event :=
        match val with
        | Some val =>
          let event := (ev_add_text 3 val event) in
          event
        | None =>
          event
        end in
      (RDone event).
