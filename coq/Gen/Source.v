From CG Require Import Model.RecSrc.
(* GENERATED on every run by harness/translate/pysrc.py from the Python sources of the tree
   under test — do not edit.  Each definition is the translation of one function's source text;
   Proofs/GenEq*.v prove it equal to the hand-written model for all inputs. *)
From CG Require Import Model.Metrics Model.Slice Model.Loop Model.Recur Model.Cache.


(* calgebra/interval.py: Interval.finite_start *)
Definition g_finite_start (self : ivl) : Z :=
  (if (negb (is_none (st self))) then (ozd (st self)) else NEG_INF).

(* calgebra/interval.py: Interval.finite_end *)
Definition g_finite_end (self : ivl) : Z :=
  (if (negb (is_none (en self))) then (ozd (en self)) else POS_INF).

(* calgebra/core.py: _neg *)
Definition g_neg (val : option Z) : option Z :=
  (match val with Some val => (Some (- val)) | None => None end).

(* calgebra/core.py: _negate_interval *)
Definition g_negate_interval (ivl_ : ivl) : ivl :=
  (set_span ivl_ (g_neg (en ivl_)) (g_neg (st ivl_))).

(* calgebra/core.py: _negate_stream *)
Definition g_negate_stream (stream : list ivl) : list ivl :=
  (map (fun ivl_ => (g_negate_interval ivl_)) stream).

(* calgebra/core.py: _SolidTimeline.fetch *)
Definition g_solid_fetch (start : option Z) (end_ : option Z) (reverse : bool) : list ivl :=
  let out := @nil ivl in
  let out := out ++ [(mkI start end_ Plain)] in
  out.

(* calgebra/core.py: Complement._sweep *)
Definition g_compl_sweep (source_stream : list ivl) (start : option Z) (end_ : option Z) : list ivl :=
  let start_bound := (match start with Some start => start | None => NEG_INF end) in
  let end_bound := (match end_ with Some end_ => end_ | None => POS_INF end) in
  let cursor := start_bound in
  run_for
    (fun cursor event =>
      let out := @nil ivl in
      let event_start := (fstart event) in
      let event_end := (fend event) in
      if (event_end <? start_bound) then
        (out, cursor, Cont)
      else
        if (event_start >? end_bound) then
          (out, cursor, Brk)
        else
          let segment_start := (Z.max event_start start_bound) in
          let segment_end := (Z.min event_end end_bound) in
          if (segment_end <=? cursor) then
            (out, cursor, Cont)
          else
            if (segment_start >? cursor) then
              let gap_start := (if (negb (cursor =? NEG_INF)) then (Some cursor) else None) in
              let gap_end := (if (negb (segment_start =? NEG_INF)) then (Some segment_start) else None) in
              let out := out ++ [(mkI gap_start gap_end Plain)] in
              let cursor := (Z.max cursor segment_end) in
              if (cursor >? end_bound) then
                (out, cursor, Ret)
              else
                (out, cursor, Cont)
            else
              let cursor := (Z.max cursor segment_end) in
              if (cursor >? end_bound) then
                (out, cursor, Ret)
              else
                (out, cursor, Cont))
    (fun cursor =>
      let out := @nil ivl in
      if (cursor <? end_bound) then
        let gap_start := (if (negb (cursor =? NEG_INF)) then (Some cursor) else None) in
        let gap_end := (if (negb (end_bound =? POS_INF)) then end_ else None) in
        let out := out ++ [(mkI gap_start gap_end Plain)] in
        out
      else
        out)
    cursor source_stream.

(* calgebra/core.py: Complement.fetch *)
Definition g_compl_fetch (source_fetch : option Z -> option Z -> bool -> list ivl) (start : option Z) (end_ : option Z) (reverse : bool) : list ivl :=
  if reverse then
    let source_stream := (g_negate_stream (source_fetch start end_ true)) in
    (g_negate_stream (g_compl_sweep source_stream (g_neg end_) (g_neg start)))
  else
    (g_compl_sweep (source_fetch start end_ false) start end_).

(* calgebra/core.py: Filtered.fetch *)
Definition g_filtered_fetch (source_fetch : option Z -> option Z -> bool -> list ivl) (filter_apply : ivl -> bool) (start : option Z) (end_ : option Z) (reverse : bool) : list ivl :=
  (filter (fun e => (filter_apply e)) (source_fetch start end_ reverse)).

(* calgebra/transform.py: _Buffered.fetch *)
Definition g_buffered_fetch (source_fetch : option Z -> option Z -> bool -> list ivl) (self_before : Z) (self_after : Z) (start : option Z) (end_ : option Z) (reverse : bool) : list ivl :=
  let adj_start := (match start with Some start => (Some (start - self_after)) | None => None end) in
  let adj_end := (match end_ with Some end_ => (Some (end_ + self_before)) | None => None end) in
  run_for
    (fun _ interval_ =>
      let out := @nil ivl in
      let buffered_start := (if (negb (is_none (st interval_))) then (Some ((ozd (st interval_)) - self_before)) else None) in
      let buffered_end := (if (negb (is_none (en interval_))) then (Some ((ozd (en interval_)) + self_after)) else None) in
      let out := out ++ [(set_span interval_ buffered_start buffered_end)] in
      (out, tt, Cont))
    (fun _ =>
      let out := @nil ivl in
      out)
    tt (source_fetch adj_start adj_end reverse).

(* calgebra/transform.py: _MergedWithin._fetch_forward *)
Definition g_merged_fetch_forward (source_fetch : option Z -> option Z -> bool -> list ivl) (self_gap : Z) (start : option Z) (end_ : option Z) : list ivl :=
  let current := None in
  run_for
    (fun current interval_ =>
      let out := @nil ivl in
      match current with
      | Some current =>
        let can_merge :=
          if ((is_none (en current)) || (is_none (st interval_))) then
            let can_merge := true in
            can_merge
          else
            let gap_ := ((ozd (st interval_)) - (ozd (en current))) in
            let can_merge := (gap_ <=? self_gap) in
            can_merge in
        if can_merge then
          let new_end := (en current) in
          let new_end :=
            if ((is_none new_end) || (is_none (en interval_))) then
              let new_end := None in
              new_end
            else
              if ((ozd (en interval_)) >? (ozd new_end)) then
                let new_end := (en interval_) in
                new_end
              else
                new_end in
          let current := (Some (set_span current (st current) new_end)) in
          (out, current, Cont)
        else
          let out := out ++ [current] in
          let current := (Some interval_) in
          (out, current, Cont)
      | None =>
        let current := (Some interval_) in
        (out, current, Cont)
      end)
    (fun current =>
      let out := @nil ivl in
      match current with
      | Some current =>
        let out := out ++ [current] in
        out
      | None =>
        out
      end)
    current (source_fetch start end_ false).

(* calgebra/recurrence.py: RecurringPattern._fetch_forward *)
Definition g_recur_fetch_forward {DT : Type} (self_freq : freq) (self_interval : Z) (self_duration_seconds : Z) (self_exdates : list Z) (dt_fromtimestamp : Z -> DT) (get_safe_anchor : DT -> DT) (dt_midnight : DT -> DT) (rrule_of : DT -> list DT) (occurrence_to_interval : DT -> ivl) (start : option Z) (end_ : option Z) : res (list ivl) :=
  match start with
  | Some start =>
    let lookback_buffer := self_duration_seconds in
    let lookback_buffer :=
      if (freq_eqb self_freq Daily) then
        let lookback_buffer := (lookback_buffer + (self_interval * 86400)) in
        lookback_buffer
      else
        if (freq_eqb self_freq Weekly) then
          let lookback_buffer := (lookback_buffer + (self_interval * 604800)) in
          lookback_buffer
        else
          if (freq_eqb self_freq Monthly) then
            let lookback_buffer := (lookback_buffer + ((self_interval * 32) * 86400)) in
            lookback_buffer
          else
            if (freq_eqb self_freq Yearly) then
              let lookback_buffer := (lookback_buffer + ((self_interval * 366) * 86400)) in
              lookback_buffer
            else
              lookback_buffer in
    let lookback_start_ts := (start - lookback_buffer) in
    let lookback_start_dt := (dt_fromtimestamp lookback_start_ts) in
    let anchor_dt := (get_safe_anchor lookback_start_dt) in
    let anchor_dt := (dt_midnight anchor_dt) in
    let rules := (rrule_of anchor_dt) in
    RDone (run_for
      (fun _ occurrence =>
        let out := @nil ivl in
        let ivl_ := (occurrence_to_interval occurrence) in
        if (match (st ivl_) with Some v_ => zmem v_ self_exdates | None => false end) then
          (out, tt, Cont)
        else
          if ((negb (is_none (en ivl_))) && ((ozd (en ivl_)) <=? start)) then
            (out, tt, Cont)
          else
            if ((negb (is_none end_)) && (negb (is_none (st ivl_))) && ((ozd (st ivl_)) >? (ozd end_))) then
              (out, tt, Brk)
            else
              let out := out ++ [ivl_] in
              (out, tt, Cont))
      (fun _ =>
        let out := @nil ivl in
        out)
      tt rules)
  | None =>
    (RRaise ValueError)
  end.

(* calgebra/recurrence.py: RecurringPattern._fetch_reverse *)
Definition g_recur_fetch_reverse (fuel : nat) (self_freq : freq) (fetch_forward : Z -> Z -> list ivl) (start : option Z) (end_ : option Z) : res (list ivl) :=
  match end_ with
  | Some end_ =>
    let chunk_size :=
      if (freq_eqb self_freq Daily) then
        let chunk_size := (30 * 86400) in
        chunk_size
      else
        if (freq_eqb self_freq Weekly) then
          let chunk_size := (12 * 604800) in
          chunk_size
        else
          if (freq_eqb self_freq Monthly) then
            let chunk_size := (365 * 86400) in
            chunk_size
          else
            let chunk_size := ((5 * 365) * 86400) in
            chunk_size in
    let current_end := end_ in
    let effective_start := (match start with Some start => start | None => (end_ - ((10 * 365) * 86400)) end) in
    run_while fuel
      (fun current_end => (current_end >? effective_start))
      (fun current_end =>
        let out := @nil ivl in
        let chunk_start := (Z.max effective_start (current_end - chunk_size)) in
        let chunk := (filter (fun ivl_ => ((((ozd (st ivl_)) <? current_end) || (current_end =? end_)) && (((ozd (st ivl_)) >=? chunk_start) || (chunk_start =? effective_start)))) (fetch_forward chunk_start current_end)) in
        let out := out ++ (rev chunk) in
        let current_end := chunk_start in
        if ((negb (is_none start)) && (current_end <=? (ozd start))) then
          (out, current_end, Brk)
        else
          (out, current_end, Cont))
      (fun current_end =>
        let out := @nil ivl in
        out)
      current_end
  | None =>
    (RRaise ValueError)
  end.

(* calgebra/recurrence.py: RecurringPattern._get_safe_anchor *)
Definition g_recur_safe_anchor {DT : Type} {DATE : Type} {TD : Type} (fuel : nat) (self_freq : freq) (self_interval : Z) (self_anchor_timestamp : option Z) (self_epoch : DT) (dt_fromtimestamp : Z -> DT) (dt_make : Z -> Z -> Z -> DT) (dt_date : DT -> DATE) (date_sub : DATE -> DATE -> TD) (td_days : TD -> Z) (td_of_days : Z -> TD) (td_of_weeks : Z -> TD) (dt_add : DT -> TD -> DT) (dt_year : DT -> Z) (dt_month : DT -> Z) (dt_replace_ym : DT -> Z -> Z -> option DT) (dt_replace_y : DT -> Z -> option DT) (start_dt : DT) : res DT :=
  let base_anchor :=
    if (negb (is_none self_anchor_timestamp)) then
      let base_anchor := (dt_fromtimestamp (ozd self_anchor_timestamp)) in
      base_anchor
    else
      if (freq_eqb self_freq Weekly) then
        let base_anchor := (dt_make 1969 12 29) in
        base_anchor
      else
        let base_anchor := self_epoch in
        base_anchor in
  if (freq_eqb self_freq Daily) then
    let delta_days := (td_days (date_sub (dt_date start_dt) (dt_date base_anchor))) in
    let offset := (delta_days mod self_interval) in
    let aligned_days := (delta_days - offset) in
    (RDone (dt_add base_anchor (td_of_days aligned_days)))
  else
    if (freq_eqb self_freq Weekly) then
      let delta_days := (td_days (date_sub (dt_date start_dt) (dt_date base_anchor))) in
      let weeks := (delta_days / 7) in
      let offset := (weeks mod self_interval) in
      let aligned_weeks := (weeks - offset) in
      (RDone (dt_add base_anchor (td_of_weeks aligned_weeks)))
    else
      if (freq_eqb self_freq Monthly) then
        let delta_years := ((dt_year start_dt) - (dt_year base_anchor)) in
        let delta_months := ((dt_month start_dt) - (dt_month base_anchor)) in
        let total_months := ((delta_years * 12) + delta_months) in
        let offset := (total_months mod self_interval) in
        let target_total := (total_months - offset) in
        let abs_total := (((((dt_year base_anchor) * 12) + (dt_month base_anchor)) - 1) + target_total) in
        let year := (abs_total / 12) in
        let month := ((abs_total mod 12) + 1) in
        iter_while fuel
          (fun '(abs_total, year, month) => true)
          (fun '(abs_total, year, month) =>
            match (dt_replace_ym base_anchor year month) with
            | Some v_ =>
              (SRet (RDone v_))
            | None =>
              if (year <? 1) then
                (SRet (RRaise ValueError))
              else
                let abs_total := (abs_total - self_interval) in
                let year := (abs_total / 12) in
                let month := ((abs_total mod 12) + 1) in
                (SCont (abs_total, year, month))
            end)
          (fun '(abs_total, year, month) =>
            (RDone start_dt))
          (abs_total, year, month)
      else
        if (freq_eqb self_freq Yearly) then
          let delta_years := ((dt_year start_dt) - (dt_year base_anchor)) in
          let offset := (delta_years mod self_interval) in
          let year := ((dt_year start_dt) - offset) in
          iter_while fuel
            (fun year => true)
            (fun year =>
              match (dt_replace_y base_anchor year) with
              | Some v_ =>
                (SRet (RDone v_))
              | None =>
                if (year <? 1) then
                  (SRet (RRaise ValueError))
                else
                  let year := (year - self_interval) in
                  (SCont year)
              end)
            (fun year =>
              (RDone start_dt))
            year
        else
          (RDone start_dt).

(* calgebra/cache.py: CachedTimeline._purge_sink *)
Definition g_cache_purge_sink (self_sink : list ivl) (start : Z) (end_ : Z) : (list ivl) :=
  let affected := (fetch_static self_sink (Some start) (Some end_) false) in
  iter_for
    (fun self_sink ivl_ =>
      let self_sink := (sl_remove ivl_ self_sink) in
      let self_sink :=
        if ((negb (is_none (st ivl_))) && ((ozd (st ivl_)) <? start)) then
          let left_ := (set_span ivl_ (st ivl_) (Some start)) in
          let self_sink := (sl_add left_ self_sink) in
          self_sink
        else
          self_sink in
      if ((negb (is_none (en ivl_))) && ((ozd (en ivl_)) >? end_)) then
        let right_ := (set_span ivl_ (Some end_) (en ivl_)) in
        let self_sink := (sl_add right_ self_sink) in
        (SCont self_sink)
      else
        (SCont self_sink))
    (fun self_sink =>
      self_sink)
    self_sink affected.

(* calgebra/cache.py: CachedTimeline._fill_gap *)
Definition g_cache_fill_gap_clip {KEYS : Type} (self_sink : list ivl) (self_key_validated : bool) (self_key_fields : option KEYS) (source_fetch : option Z -> option Z -> bool -> list ivl) (gap_start : Z) (gap_end : Z) : (list ivl * bool) :=
  let fetched := (source_fetch (Some gap_start) (Some gap_end) false) in
  iter_for
    (fun '(self_sink, self_key_validated) ivl_ =>
      let self_key_validated :=
        if ((negb self_key_validated) && (negb (is_none self_key_fields))) then
          let self_key_validated := true in
          self_key_validated
        else
          self_key_validated in
      let clipped_start := (st ivl_) in
      let clipped_end := (en ivl_) in
      let clipped_start :=
        if ((is_none (st ivl_)) || ((ozd (st ivl_)) <? gap_start)) then
          let clipped_start := gap_start in
          (Some clipped_start)
        else
          clipped_start in
      let clipped_end :=
        if ((is_none (en ivl_)) || ((ozd (en ivl_)) >? gap_end)) then
          let clipped_end := gap_end in
          (Some clipped_end)
        else
          clipped_end in
      if ((negb (is_none clipped_start)) && (negb (is_none clipped_end))) then
        if ((ozd clipped_start) >=? (ozd clipped_end)) then
          (SCont (self_sink, self_key_validated))
        else
          let ivl_ :=
            if ((negb (oZ_eqb clipped_start (st ivl_))) || (negb (oZ_eqb clipped_end (en ivl_)))) then
              let ivl_ := (set_span ivl_ clipped_start clipped_end) in
              ivl_
            else
              ivl_ in
          let self_sink := (sl_add ivl_ self_sink) in
          (SCont (self_sink, self_key_validated))
      else
        let ivl_ :=
          if ((negb (oZ_eqb clipped_start (st ivl_))) || (negb (oZ_eqb clipped_end (en ivl_)))) then
            let ivl_ := (set_span ivl_ clipped_start clipped_end) in
            ivl_
          else
            ivl_ in
        let self_sink := (sl_add ivl_ self_sink) in
        (SCont (self_sink, self_key_validated)))
    (fun '(self_sink, self_key_validated) =>
      (self_sink, self_key_validated))
    (self_sink, self_key_validated) fetched.

(* calgebra/cache.py: CachedTimeline._evict_expired *)
Definition g_cache_evict_expired (fuel : nat) (clock_now : Z) (self_expiry_heap : list hent) (self_cover : list cov) (self_sink : list ivl) : res (list hent * list cov * list ivl) :=
  let now_ := (clock_now) in
  iter_while fuel
    (fun '(self_expiry_heap, self_sink, self_cover) => ((nonempty self_expiry_heap) && ((fst (fst (py_index (0, 0%N, mkCov 0 0 0) self_expiry_heap 0))) <=? now_)))
    (fun '(self_expiry_heap, self_sink, self_cover) =>
      let '(_, _, cover_) := (hd (0, 0%N, mkCov 0 0 0) self_expiry_heap) in
      let self_expiry_heap := (tl self_expiry_heap) in
      if (existsb (cov_eqb cover_) self_cover) then
        let self_cover := (cov_remove cover_ self_cover) in
        let self_sink := (g_cache_purge_sink self_sink (cv_s cover_) (cv_e cover_)) in
        (SCont (self_expiry_heap, self_sink, self_cover))
      else
        (SCont (self_expiry_heap, self_sink, self_cover)))
    (fun '(self_expiry_heap, self_sink, self_cover) =>
      (RDone (self_expiry_heap, self_cover, self_sink)))
    (self_expiry_heap, self_sink, self_cover).

(* calgebra/mutable/memory.py: MemoryTimeline._fetch_static *)
Definition g_mem_fetch_static (self_static_intervals : list ivl) (start : option Z) (end_ : option Z) (reverse : bool) : list ivl :=
  let out := @nil ivl in
  if (negb (nonempty self_static_intervals)) then
    out
  else
    let end_idx := (Z.of_nat (length self_static_intervals)) in
    let end_idx :=
      match end_ with
      | Some end_ =>
        let end_idx := (bisect_right (fun interval_ => (fstart interval_)) self_static_intervals end_) in
        end_idx
      | None =>
        end_idx
      end in
    let matching := (@nil ivl) in
    run_for
      (fun matching i =>
        let out := @nil ivl in
        let interval_ := (py_index (mkI None None Plain) self_static_intervals i) in
        if ((negb (is_none start)) && ((fend interval_) <=? (ozd start))) then
          (out, matching, Cont)
        else
          let matching := (matching ++ [interval_]) in
          (out, matching, Cont))
      (fun matching =>
        let out := @nil ivl in
        if reverse then
          let out := out ++ (rev matching) in
          out
        else
          let out := out ++ matching in
          out)
      matching (zrange end_idx).

(* calgebra/core.py: Difference._sweep *)
Definition g_diff_sweep (fuel : nat) (source_stream : list ivl) (sub_streams : list (list ivl)) : res (list ivl) :=
  let merged := (merge_by lt_fwd sub_streams) in
  let subtractor_iter := merged in
  let '(subtractor_iter, current_subtractor) :=
    match subtractor_iter with
    | v_ :: it_ =>
      let current_subtractor := (Some v_) in
      let subtractor_iter := it_ in
        (subtractor_iter, current_subtractor)
    | [] =>
      let current_subtractor := None in
      (subtractor_iter, current_subtractor)
    end in
  run_for_o
    (fun '(subtractor_iter, current_subtractor) event =>
      let out := @nil ivl in
      match current_subtractor with
      | Some current_subtractor =>
        let cursor := (fstart event) in
        let event_end := (fend event) in
        match sub_while fuel
            (fun '(subtractor_iter, current_subtractor) => ((negb (is_none current_subtractor)) && ((fend (oivld current_subtractor)) <? cursor)))
            (fun '(subtractor_iter, current_subtractor) =>
              let out := @nil ivl in
              match subtractor_iter with
              | v_ :: it_ =>
                let current_subtractor := (Some v_) in
                let subtractor_iter := it_ in
                  (out, (subtractor_iter, current_subtractor), true)
              | [] =>
                let current_subtractor := None in
                (out, (subtractor_iter, current_subtractor), true)
              end)
            (subtractor_iter, (Some current_subtractor)) with
        | None => None
        | Some (out1_, (subtractor_iter, current_subtractor)) =>
          let out := out ++ out1_ in
          match current_subtractor with
          | Some current_subtractor =>
            match sub_while fuel
                (fun '(cursor, subtractor_iter, current_subtractor) => ((negb (is_none current_subtractor)) && ((fstart (oivld current_subtractor)) <=? event_end)))
                (fun '(cursor, subtractor_iter, current_subtractor) =>
                  let out := @nil ivl in
                  let overlap_start := (Z.max cursor (fstart (oivld current_subtractor))) in
                  let overlap_end := (Z.min event_end (fend (oivld current_subtractor))) in
                  if (overlap_start <? overlap_end) then
                    if (cursor <? overlap_start) then
                      let start_val := (if (negb (cursor =? NEG_INF)) then (Some cursor) else None) in
                      let end_val := (if (negb (overlap_start =? NEG_INF)) then (Some overlap_start) else None) in
                      let out := out ++ [(set_span event start_val end_val)] in
                      let cursor := overlap_end in
                      if (cursor >=? event_end) then
                        (out, (cursor, subtractor_iter, current_subtractor), false)
                      else
                        if ((fend (oivld current_subtractor)) <=? event_end) then
                          match subtractor_iter with
                          | v_ :: it_ =>
                            let current_subtractor := (Some v_) in
                            let subtractor_iter := it_ in
                              (out, (cursor, subtractor_iter, current_subtractor), true)
                          | [] =>
                            let current_subtractor := None in
                            (out, (cursor, subtractor_iter, current_subtractor), true)
                          end
                        else
                          (out, (cursor, subtractor_iter, current_subtractor), false)
                    else
                      let cursor := overlap_end in
                      if (cursor >=? event_end) then
                        (out, (cursor, subtractor_iter, current_subtractor), false)
                      else
                        if ((fend (oivld current_subtractor)) <=? event_end) then
                          match subtractor_iter with
                          | v_ :: it_ =>
                            let current_subtractor := (Some v_) in
                            let subtractor_iter := it_ in
                              (out, (cursor, subtractor_iter, current_subtractor), true)
                          | [] =>
                            let current_subtractor := None in
                            (out, (cursor, subtractor_iter, current_subtractor), true)
                          end
                        else
                          (out, (cursor, subtractor_iter, current_subtractor), false)
                  else
                    if ((fend (oivld current_subtractor)) <=? event_end) then
                      match subtractor_iter with
                      | v_ :: it_ =>
                        let current_subtractor := (Some v_) in
                        let subtractor_iter := it_ in
                          (out, (cursor, subtractor_iter, current_subtractor), true)
                      | [] =>
                        let current_subtractor := None in
                        (out, (cursor, subtractor_iter, current_subtractor), true)
                      end
                    else
                      (out, (cursor, subtractor_iter, current_subtractor), false))
                (cursor, subtractor_iter, (Some current_subtractor)) with
            | None => None
            | Some (out1_, (cursor, subtractor_iter, current_subtractor)) =>
              let out := out ++ out1_ in
              if (cursor <? event_end) then
                let start_val := (if (negb (cursor =? NEG_INF)) then (Some cursor) else None) in
                let end_val := (if (negb (event_end =? POS_INF)) then (Some event_end) else None) in
                let out := out ++ [(set_span event start_val end_val)] in
                Some (out, (subtractor_iter, current_subtractor), Cont)
              else
                Some (out, (subtractor_iter, current_subtractor), Cont)
            end
          | None =>
            let out := out ++ [event] in
            Some (out, (subtractor_iter, current_subtractor), Cont)
          end
        end
      | None =>
        let out := out ++ [event] in
        Some (out, (subtractor_iter, current_subtractor), Cont)
      end)
    (fun '(subtractor_iter, current_subtractor) =>
      let out := @nil ivl in
      out)
    (subtractor_iter, current_subtractor) source_stream.

(* calgebra/core.py: _SourceState.advance *)
Definition g_ss_advance (self : sstate) : sstate * bool :=
  if (exh self) then
    (self, false)
  else
    match (rest self) with
    | v_ :: it_ =>
      let self := (mkS (cur self) it_ (exh self) (lpc self)) in
      let self := (mkS (Some v_) (rest self) (exh self) (lpc self)) in
      let self := (mkS (cur self) (rest self) (exh self) None) in
      (self, true)
    | [] =>
      let self := (mkS (cur self) (rest self) true (lpc self)) in
      (self, true)
    end.

(* calgebra/core.py: _SourceState.__init__ *)
Definition g_ss_init (iterator : list ivl) : sstate :=
  let self := (mkS None iterator false None) in
  let '(self, m1_) := (g_ss_advance self) in
  self.

(* calgebra/core.py: _SourceState.advance_if_ends_at *)
Definition g_ss_advance_if_ends_at (self : sstate) (cutoff : Z) : sstate * bool :=
  if ((negb (is_none (cur self))) && ((fend (oivld (cur self))) =? cutoff) && (negb (exh self))) then
    let '(self, m1_) := (g_ss_advance self) in
    (self, m1_)
  else
    (self, false).

(* calgebra/core.py: _SourceState.advance_if_stalled *)
Definition g_ss_advance_if_stalled (self : sstate) (cutoff : Z) : sstate * bool :=
  if ((negb (is_none (cur self))) && (negb (exh self)) && (oZ_eqb (lpc self) (Some cutoff)) && (negb ((fend (oivld (cur self))) =? cutoff))) then
    let '(self, m1_) := (g_ss_advance self) in
    (self, m1_)
  else
    (self, false).

(* calgebra/core.py: _SourceState.was_processed_at *)
Definition g_ss_was_processed_at (self : sstate) (cutoff : Z) : bool :=
  (oZ_eqb (lpc self) (Some cutoff)).

(* calgebra/core.py: Intersection._sweep *)
Definition g_inter_sweep (fuel : nat) (streams : list (list ivl)) (emit_indices : list Z) : res (list ivl) :=
  let out := @nil ivl in
  let states := (map (fun stream => (g_ss_init stream)) streams) in
  if (forallb (fun s => ((exh s) && (is_none (cur s)))) states) then
    (RDone out)
  else
    if ((Z.of_nat (length states)) =? 1) then
      let state := (py_index (mkS None [] true None) states 0) in
      run_while fuel
        (fun '(state, states) => (negb (is_none (cur state))))
        (fun '(state, states) =>
          let out := @nil ivl in
          let out := out ++ [(oivld (cur state))] in
          let '(state, m1_) := (g_ss_advance state) in
          let states := (py_set_index states 0 state) in
          if (exh state) then
            (out, (state, states), Brk)
          else
            (out, (state, states), Cont))
        (fun '(state, states) =>
          let out := @nil ivl in
          out)
        (state, states)
    else
      run_while fuel
        (fun states => true)
        (fun states =>
          let out := @nil ivl in
          let active := (map (fun s => (oivld (cur s))) (filter (fun s => (negb (is_none (cur s)))) states)) in
          if ((Z.of_nat (length active)) <? (Z.of_nat (length states))) then
            (out, states, Ret)
          else
            let overlap_start := (py_max (map (fun ivl_ => (fstart ivl_)) active)) in
            let overlap_end := (py_min (map (fun ivl_ => (fend ivl_)) active)) in
            if (overlap_start <? overlap_end) then
              let '(out1_, states) :=
                sub_for
                  (fun states idx =>
                    let out := @nil ivl in
                    let state := (py_index (mkS None [] true None) states idx) in
                    if ((is_none (cur state)) || (g_ss_was_processed_at state overlap_end)) then
                      (out, states, true)
                    else
                      let start_val := (if (negb (overlap_start =? NEG_INF)) then (Some overlap_start) else None) in
                      let end_val := (if (negb (overlap_end =? POS_INF)) then (Some overlap_end) else None) in
                      let out := out ++ [(set_span (oivld (cur state)) start_val end_val)] in
                      let state := (mkS (cur state) (rest state) (exh state) (Some overlap_end)) in
                      let states := (py_set_index states idx state) in
                      (out, states, true))
                  states emit_indices in
              let out := out ++ out1_ in
              let cutoff := overlap_end in
              let '(states, advanced) := (any_mut (fun v_ => (g_ss_advance_if_ends_at v_ cutoff)) states) in
              let '(advanced, states) :=
                if (negb advanced) then
                  let '(states, advanced) := (any_mut_at (mkS None [] true None) (fun v_ => (g_ss_advance_if_stalled v_ cutoff)) states emit_indices) in
                  (advanced, states)
                else
                  (advanced, states) in
              if (negb advanced) then
                (out, states, Ret)
              else
                (out, states, Cont)
            else
              let cutoff := overlap_end in
              let '(states, advanced) := (any_mut (fun v_ => (g_ss_advance_if_ends_at v_ cutoff)) states) in
              let '(advanced, states) :=
                if (negb advanced) then
                  let '(states, advanced) := (any_mut_at (mkS None [] true None) (fun v_ => (g_ss_advance_if_stalled v_ cutoff)) states emit_indices) in
                  (advanced, states)
                else
                  (advanced, states) in
              if (negb advanced) then
                (out, states, Ret)
              else
                (out, states, Cont))
        (fun states =>
          let out := @nil ivl in
          out)
        states.

(* calgebra/core.py: Intersection.fetch *)
Definition g_inter_fetch {TL : Type} (fuel : nat) (self_sources : list TL) (tl_is_mask : TL -> bool) (tl_fetch : TL -> option Z -> option Z -> bool -> list ivl) (start : option Z) (end_ : option Z) (reverse : bool) : res (list ivl) :=
  if (negb (nonempty self_sources)) then
    (RDone (@nil ivl))
  else
    let mask_sources := (map (fun s => (tl_is_mask s)) self_sources) in
    let emit_indices :=
      if (forallb (fun b_ => b_) mask_sources) then
        let emit_indices := (fs_of_list [0]) in
        emit_indices
      else
        if (existsb (fun b_ => b_) mask_sources) then
          let emit_indices := (fs_of_list (map (fun '(i, is_mask) => i) (filter (fun '(i, is_mask) => (negb is_mask)) (py_enumerate mask_sources)))) in
          emit_indices
        else
          let emit_indices := (fs_of_list (zrange (Z.of_nat (length self_sources)))) in
          emit_indices in
    if reverse then
      let streams := (map (fun s => (g_negate_stream (tl_fetch s start end_ true))) self_sources) in
      res_bind (g_inter_sweep fuel streams emit_indices) (fun r1_ =>
      (RDone (g_negate_stream r1_)))
    else
      let streams := (map (fun s => (tl_fetch s start end_ false)) self_sources) in
      res_bind (g_inter_sweep fuel streams emit_indices) (fun r2_ =>
      (RDone r2_)).

(* calgebra/core.py: Timeline._coerce_bound *)
Definition g_coerce_bound (bound_ : Slice.bound) : res (option Z) :=
  match bound_ with
  | Slice.BNone =>
    (RDone None)
  | Slice.BInt bound__z =>
    (RDone (Some bound__z))
  | Slice.BAware bound__t bound__zone =>
    (RDone (Some bound__t))
  | Slice.BNaive =>
    (RRaise TypeError)
  | Slice.BOther =>
    (RRaise TypeError)
  end.

(* calgebra/core.py: Timeline.__getitem__ *)
Definition g_getitem (self_fetch : option Z -> option Z -> bool -> list ivl) (clipped_fetch : option Z -> option Z -> bool -> list ivl) (item_start : Slice.bound) (item_stop : Slice.bound) (item_step : Slice.stepv) : res (list ivl) :=
  res_bind (g_coerce_bound item_start) (fun r1_ =>
  let start := r1_ in
  res_bind (g_coerce_bound item_stop) (fun r2_ =>
  let end_bound := r2_ in
  let step_ := item_step in
  match step_ with
  | Slice.SNone =>
    let reverse := false in
    let end_ := end_bound in
    let '(start, end_) :=
      if ((negb (is_none start)) && (negb (is_none end_)) && ((ozd start) >? (ozd end_))) then
        let '(start, end_) := (end_, start) in
        (start, end_)
      else
        (start, end_) in
    if ((is_none start) && (is_none end_)) then
      (RDone (self_fetch start end_ reverse))
    else
      (RDone (clipped_fetch start end_ reverse))
  | Slice.SInt step__z =>
    if (negb (zmem step__z [1; (-1)])) then
      (RRaise ValueError)
    else
      let reverse := (step__z =? (-1)) in
      let end_ := end_bound in
      let '(start, end_) :=
        if ((negb (is_none start)) && (negb (is_none end_)) && ((ozd start) >? (ozd end_))) then
          let '(start, end_) := (end_, start) in
          (start, end_)
        else
          (start, end_) in
      if ((is_none start) && (is_none end_)) then
        (RDone (self_fetch start end_ reverse))
      else
        (RDone (clipped_fetch start end_ reverse))
  | Slice.SOther =>
    (RRaise ValueError)
  end)).

(* calgebra/cache.py: CachedTimeline._stitch_at *)
Definition g_cache_stitch_at {KEYS : Type} {KEY : Type} (self_key_fields : option KEYS) (get_key : ivl -> option KEY) (key_eqb : KEY -> KEY -> bool) (fresh_left : bool) (self_sink : list ivl) (point : Z) : (list ivl) :=
  if (is_none self_key_fields) then
    self_sink
  else
    let left_ := (filter (fun ivl_ => (oZ_eqb (en ivl_) (Some point))) (sink_overlapping self_sink (point - 1))) in
    let right_ := (filter (fun ivl_ => (oZ_eqb (st ivl_) (Some point))) (sink_overlapping self_sink point)) in
    if ((negb (nonempty left_)) || (negb (nonempty right_))) then
      self_sink
    else
      let left_by_key := (dict_of (opt_eqb key_eqb) (fun ivl_ => (get_key ivl_)) (fun ivl_ => ivl_) left_) in
      let right_by_key := (dict_of (opt_eqb key_eqb) (fun ivl_ => (get_key ivl_)) (fun ivl_ => ivl_) right_) in
      iter_for
        (fun self_sink key_ =>
          if (is_none key_) then
            (SCont self_sink)
          else
            let '(l_ivl, r_ivl) := ((dict_get (opt_eqb key_eqb) (mkI None None Plain) key_ left_by_key), (dict_get (opt_eqb key_eqb) (mkI None None Plain) key_ right_by_key)) in
            let fresh := (if fresh_left then l_ivl else r_ivl) in
            let merged := (set_span fresh (st l_ivl) (en r_ivl)) in
            let self_sink := (sl_remove l_ivl self_sink) in
            let self_sink := (sl_remove r_ivl self_sink) in
            let self_sink := (sl_add merged self_sink) in
            (SCont self_sink))
        (fun self_sink =>
          self_sink)
        self_sink (keys_inter (opt_eqb key_eqb) left_by_key right_by_key).

(* calgebra/cache.py: CachedTimeline._fill_gap *)
Definition g_cache_fill_gap {KEYS : Type} {KEY : Type} (self_key_fields : option KEYS) (get_key : ivl -> option KEY) (key_eqb : KEY -> KEY -> bool) (source_fetch : option Z -> option Z -> bool -> list ivl) (self_ttl : Z) (clock_now : Z) (self_sink : list ivl) (self_key_validated : bool) (self_cover : list cov) (self_expiry_seq : N) (self_expiry_heap : list hent) (gap_start : Z) (gap_end : Z) : (list ivl * bool * list cov * N * list hent) :=
  let fetched := (source_fetch (Some gap_start) (Some gap_end) false) in
  iter_for
    (fun '(self_sink, self_key_validated) ivl_ =>
      let self_key_validated :=
        if ((negb self_key_validated) && (negb (is_none self_key_fields))) then
          let self_key_validated := true in
          self_key_validated
        else
          self_key_validated in
      let clipped_start := (st ivl_) in
      let clipped_end := (en ivl_) in
      let clipped_start :=
        if ((is_none (st ivl_)) || ((ozd (st ivl_)) <? gap_start)) then
          let clipped_start := gap_start in
          (Some clipped_start)
        else
          clipped_start in
      let clipped_end :=
        if ((is_none (en ivl_)) || ((ozd (en ivl_)) >? gap_end)) then
          let clipped_end := gap_end in
          (Some clipped_end)
        else
          clipped_end in
      if ((negb (is_none clipped_start)) && (negb (is_none clipped_end))) then
        if ((ozd clipped_start) >=? (ozd clipped_end)) then
          (SCont (self_sink, self_key_validated))
        else
          let ivl_ :=
            if ((negb (oZ_eqb clipped_start (st ivl_))) || (negb (oZ_eqb clipped_end (en ivl_)))) then
              let ivl_ := (set_span ivl_ clipped_start clipped_end) in
              ivl_
            else
              ivl_ in
          let self_sink := (sl_add ivl_ self_sink) in
          (SCont (self_sink, self_key_validated))
      else
        let ivl_ :=
          if ((negb (oZ_eqb clipped_start (st ivl_))) || (negb (oZ_eqb clipped_end (en ivl_)))) then
            let ivl_ := (set_span ivl_ clipped_start clipped_end) in
            ivl_
          else
            ivl_ in
        let self_sink := (sl_add ivl_ self_sink) in
        (SCont (self_sink, self_key_validated)))
    (fun '(self_sink, self_key_validated) =>
      let cover_ := (mkCov gap_start gap_end (clock_now)) in
      let self_cover := (cov_add cover_ self_cover) in
      let self_expiry_seq := (N_plus_Z self_expiry_seq 1) in
      let self_expiry_heap := (heap_push (((cv_t cover_) + self_ttl), self_expiry_seq, cover_) self_expiry_heap) in
      let self_sink := (g_cache_stitch_at self_key_fields get_key key_eqb false self_sink gap_start) in
      let self_sink := (g_cache_stitch_at self_key_fields get_key key_eqb true self_sink gap_end) in
      (self_sink, self_key_validated, self_cover, self_expiry_seq, self_expiry_heap))
    (self_sink, self_key_validated) fetched.

(* calgebra/cache.py: CachedTimeline._fetch_sink *)
Definition g_cache_fetch_sink (self_sink : list ivl) (start : Z) (end_ : Z) (reverse : bool) : list ivl :=
  let out := @nil ivl in
  let out := out ++ (fetch_static self_sink (Some start) (Some end_) reverse) in
  out.

(* calgebra/cache.py: CachedTimeline.fetch *)
Definition g_cache_fetch {KEYS : Type} {KEY : Type} (fuel : nat) (self_key_fields : option KEYS) (get_key : ivl -> option KEY) (key_eqb : KEY -> KEY -> bool) (source_fetch : option Z -> option Z -> bool -> list ivl) (self_ttl : Z) (tick : Z) (clock : Z) (self_sink : list ivl) (self_key_validated : bool) (self_cover : list cov) (self_expiry_seq : N) (self_expiry_heap : list hent) (start : option Z) (end_ : option Z) (reverse : bool) : res (Z * list ivl * bool * list cov * N * list hent * list ivl) :=
  let out := @nil ivl in
  if ((is_none start) || (is_none end_)) then
    (RRaise ValueError)
  else
    res_bind (res_bind (g_cache_evict_expired fuel clock self_expiry_heap self_cover self_sink) (fun x_ => RDone (x_, clock + tick))) (fun '(self_expiry_heap, self_cover, self_sink, clock) =>
    let query := tt in
    iter_for
      (fun '(self_sink, self_key_validated, self_cover, self_expiry_seq, self_expiry_heap, clock) gap_ =>
        let '(self_sink, self_key_validated, self_cover, self_expiry_seq, self_expiry_heap, clock) := (g_cache_fill_gap self_key_fields get_key key_eqb source_fetch self_ttl clock self_sink self_key_validated self_cover self_expiry_seq self_expiry_heap (ozd (st gap_)) (ozd (en gap_)), clock + tick) in
        (SCont (self_sink, self_key_validated, self_cover, self_expiry_seq, self_expiry_heap, clock)))
      (fun '(self_sink, self_key_validated, self_cover, self_expiry_seq, self_expiry_heap, clock) =>
        let result := (g_cache_fetch_sink self_sink (ozd start) (ozd end_) reverse) in
        let out := out ++ result in
        (RDone (clock, self_sink, self_key_validated, self_cover, self_expiry_seq, self_expiry_heap, out)))
      (self_sink, self_key_validated, self_cover, self_expiry_seq, self_expiry_heap, clock) (gaps_of self_cover (ozd start) (ozd end_))).

(* calgebra/core.py: Union.fetch *)
Definition g_union_fetch {TL : Type} (self_sources : list TL) (tl_fetch : TL -> option Z -> option Z -> bool -> list ivl) (start : option Z) (end_ : option Z) (reverse : bool) : list ivl :=
  let streams := (map (fun source => (tl_fetch source start end_ reverse)) self_sources) in
  let merged :=
    if reverse then
      let merged := (merge_by lt_rev streams) in
      merged
    else
      let merged := (merge_by lt_fwd streams) in
      merged in
  merged.

(* calgebra/core.py: Difference.fetch *)
Definition g_diff_fetch {TL : Type} (fuel : nat) (source_fetch : option Z -> option Z -> bool -> list ivl) (self_subtractors : list TL) (tl_fetch : TL -> option Z -> option Z -> bool -> list ivl) (start : option Z) (end_ : option Z) (reverse : bool) : res (list ivl) :=
  if (negb (nonempty self_subtractors)) then
    (RDone (source_fetch start end_ reverse))
  else
    if reverse then
      let source_stream := (g_negate_stream (source_fetch start end_ true)) in
      let sub_streams := (map (fun sub => (g_negate_stream (tl_fetch sub start end_ true))) self_subtractors) in
      res_bind (g_diff_sweep fuel source_stream sub_streams) (fun r1_ =>
      (RDone (g_negate_stream r1_)))
    else
      let source_stream := (source_fetch start end_ false) in
      let sub_streams := (map (fun sub => (tl_fetch sub start end_ false)) self_subtractors) in
      res_bind (g_diff_sweep fuel source_stream sub_streams) (fun r2_ =>
      (RDone r2_)).

(* calgebra/core.py: Difference.overlapping *)
Definition g_diff_overlapping {TL : Type} (fuel : nat) (source_overlapping : Z -> list ivl) (self_subtractors : list TL) (tl_fetch : TL -> option Z -> option Z -> bool -> list ivl) (point : Z) : res (list ivl) :=
  let out := @nil ivl in
  if (negb (nonempty self_subtractors)) then
    let out := out ++ (source_overlapping point) in
    (RDone out)
  else
    run_for_r
      (fun _ src_ivl =>
        let out := @nil ivl in
        let sub_streams := (map (fun sub => (tl_fetch sub (st src_ivl) (en src_ivl) false)) self_subtractors) in
        res_bind (g_diff_sweep fuel [src_ivl] sub_streams) (fun r1_ =>
        let '(out1_, _) :=
          sub_for
            (fun _ fragment =>
              let out := @nil ivl in
              if (((fstart fragment) <=? point) && (point <? (fend fragment))) then
                let out := out ++ [fragment] in
                (out, tt, true)
              else
                (out, tt, true))
            tt r1_ in
        let out := out ++ out1_ in
        RDone (out, tt, Cont)))
      (fun _ =>
        let out := @nil ivl in
        out)
      tt (source_overlapping point).

(* calgebra/core.py: Complement.overlapping *)
Definition g_compl_overlapping (source_fetch : option Z -> option Z -> bool -> list ivl) (self_fetch : option Z -> option Z -> bool -> list ivl) (point : Z) : list ivl :=
  if (existsb (fun ivl_ => (((fstart ivl_) <=? point) && (point <? (fend ivl_)))) (source_fetch (Some point) (Some (point + 1)) false)) then
    (@nil ivl)
  else
    let right_ := None in
    iter_for
      (fun right_ ivl_ =>
        if ((fstart ivl_) >? point) then
          let right_ := (st ivl_) in
          (SBrk right_)
        else
          (SCont right_))
      (fun right_ =>
        let left_ := None in
        iter_for
          (fun left_ gap_ =>
            if (((fstart gap_) <=? point) && ((fend gap_) >? point)) then
              let left_ := (st gap_) in
              (SBrk left_)
            else
              (SCont left_))
          (fun left_ =>
            [(mkI left_ right_ Plain)])
          left_ (self_fetch None (Some (point + 1)) true))
      right_ (source_fetch (Some point) None false).

(* calgebra/core.py: Timeline.overlapping *)
Definition g_base_overlapping (self_fetch : option Z -> option Z -> bool -> list ivl) (point : Z) : list ivl :=
  (filter (fun ivl_ => (((fstart ivl_) <=? point) && (point <? (fend ivl_)))) (self_fetch (Some point) (Some (point + 1)) false)).

(* calgebra/recurrence.py: RecurringPattern._occurrence_to_interval *)
Definition g_recur_occurrence_to_interval {DT : Type} {TD : Type} (self_start_seconds : Z) (self_duration_seconds : Z) (dt_replace_hms : DT -> Z -> Z -> Z -> DT) (dt_timestamp : DT -> Z) (dt_fromtimestamp : Z -> DT) (td_of_seconds : Z -> TD) (dt_add : DT -> TD -> DT) (interval_class : Z -> Z -> ivl) (occurrence : DT) : ivl :=
  let start_hour_int := (self_start_seconds / 3600) in
  let remaining := (self_start_seconds mod 3600) in
  let start_minute := (remaining / 60) in
  let start_second := (remaining mod 60) in
  let window_start := (dt_replace_hms occurrence start_hour_int start_minute start_second) in
  let window_start := (dt_fromtimestamp (dt_timestamp window_start)) in
  let window_end := (dt_add window_start (td_of_seconds self_duration_seconds)) in
  let base_interval := (interval_class (dt_timestamp window_start) (dt_timestamp window_end)) in
  base_interval.

(* calgebra/metrics.py: _period_windows_with_dt *)
Definition g_period_windows_dt {DT : Type} {TD : Type} (fuel : nat) (p_fromtimestamp : Z -> DT) (p_ymd : Z -> Z -> Z -> DT) (p_ymdh : Z -> Z -> Z -> Z -> DT) (p_hours : Z -> TD) (p_days : Z -> TD) (p_weeks : Z -> TD) (p_add : DT -> TD -> DT) (p_sub : DT -> TD -> DT) (p_lt : DT -> DT -> bool) (p_timestamp : DT -> Z) (p_weekday : DT -> Z) (p_year : DT -> Z) (p_month : DT -> Z) (p_day : DT -> Z) (p_hour : DT -> Z) (start_ts : Z) (end_ts : Z) (period : Metrics.period) : res (list ((DT * Z * Z))) :=
  if (start_ts >=? end_ts) then
    (RDone (@nil (DT * Z * Z)))
  else
    let zone := tt in
    let start_dt := (p_fromtimestamp start_ts) in
    let end_dt := (p_fromtimestamp end_ts) in
    match period with
    | Metrics.PHour =>
      let windows := (@nil (DT * Z * Z)) in
      let current := (p_ymdh (p_year start_dt) (p_month start_dt) (p_day start_dt) (p_hour start_dt)) in
      iter_while fuel
        (fun '(windows, current) => (p_lt current end_dt))
        (fun '(windows, current) =>
          let next_hour := (p_add current (p_hours 1)) in
          let win_start := (p_timestamp current) in
          let win_end := (p_timestamp next_hour) in
          let windows := (windows ++ [(current, win_start, win_end)]) in
          let current := next_hour in
          (SCont (windows, current)))
        (fun '(windows, current) =>
          (RDone windows))
        (windows, current)
    | Metrics.PDay =>
      let windows := (@nil (DT * Z * Z)) in
      let current := (p_ymd (p_year start_dt) (p_month start_dt) (p_day start_dt)) in
      iter_while fuel
        (fun '(windows, current) => (p_lt current end_dt))
        (fun '(windows, current) =>
          let next_day := (p_add current (p_days 1)) in
          let win_start := (p_timestamp current) in
          let win_end := (p_timestamp next_day) in
          let windows := (windows ++ [(current, win_start, win_end)]) in
          let current := next_day in
          (SCont (windows, current)))
        (fun '(windows, current) =>
          (RDone windows))
        (windows, current)
    | Metrics.PWeek =>
      let windows := (@nil (DT * Z * Z)) in
      let days_since_monday := (p_weekday start_dt) in
      let week_start := (p_sub (p_ymd (p_year start_dt) (p_month start_dt) (p_day start_dt)) (p_days days_since_monday)) in
      let current := week_start in
      iter_while fuel
        (fun '(windows, current) => (p_lt current end_dt))
        (fun '(windows, current) =>
          let next_week := (p_add current (p_weeks 1)) in
          let win_start := (p_timestamp current) in
          let win_end := (p_timestamp next_week) in
          let windows := (windows ++ [(current, win_start, win_end)]) in
          let current := next_week in
          (SCont (windows, current)))
        (fun '(windows, current) =>
          (RDone windows))
        (windows, current)
    | Metrics.PMonth =>
      let windows := (@nil (DT * Z * Z)) in
      let current := (p_ymd (p_year start_dt) (p_month start_dt) 1) in
      iter_while fuel
        (fun '(windows, current) => (p_lt current end_dt))
        (fun '(windows, current) =>
          let next_month :=
            if ((p_month current) =? 12) then
              let next_month := (p_ymd ((p_year current) + 1) 1 1) in
              next_month
            else
              let next_month := (p_ymd (p_year current) ((p_month current) + 1) 1) in
              next_month in
          let win_start := (p_timestamp current) in
          let win_end := (p_timestamp next_month) in
          let windows := (windows ++ [(current, win_start, win_end)]) in
          let current := next_month in
          (SCont (windows, current)))
        (fun '(windows, current) =>
          (RDone windows))
        (windows, current)
    | Metrics.PYear =>
      let windows := (@nil (DT * Z * Z)) in
      let current := (p_ymd (p_year start_dt) 1 1) in
      iter_while fuel
        (fun '(windows, current) => (p_lt current end_dt))
        (fun '(windows, current) =>
          let next_year := (p_ymd ((p_year current) + 1) 1 1) in
          let win_start := (p_timestamp current) in
          let win_end := (p_timestamp next_year) in
          let windows := (windows ++ [(current, win_start, win_end)]) in
          let current := next_year in
          (SCont (windows, current)))
        (fun '(windows, current) =>
          (RDone windows))
        (windows, current)
    | Metrics.PFull =>
      (RDone [(start_dt, start_ts, end_ts)])
    end.

(* calgebra/recurrence.py: RecurringPattern.fetch *)
Definition g_recur_fetch {R : Type} (fetch_reverse : option Z -> option Z -> R) (fetch_forward : option Z -> option Z -> R) (start : option Z) (end_ : option Z) (reverse : bool) : R :=
  if reverse then
    (fetch_reverse start end_)
  else
    (fetch_forward start end_).

(* calgebra/recurrence.py: rrule_kwargs_to_rrule_string *)
Definition g_rrule_text (rrule_kwargs : kwargs) : res text :=
  let parts := (@nil text) in
  let freq := (kw_freq rrule_kwargs) in
  match freq with
  | Some freq =>
    if false then
      (RRaise ValueError)
    else
      let parts := (parts ++ [(tok_cat [TKey KFreq] (tok_freq freq))]) in
      let interval_ := (match (kw_interval rrule_kwargs) with Some v_ => v_ | None => 1 end) in
      let parts :=
        if (negb (interval_ =? 1)) then
          let parts := (parts ++ [(tok_cat [TKey KInterval] (tok_int interval_))]) in
          parts
        else
          parts in
      let byweekday := (kw_byweekday rrule_kwargs) in
      match byweekday with
      | Some byweekday =>
        let day_strings := (@nil text) in
        iter_for
          (fun day_strings wd =>
            let weekday_str := (wd_text (fst wd)) in
            match weekday_str with
            | Some weekday_str =>
              if ((negb (is_none (snd wd))) && (negb ((ozd (snd wd)) =? 0))) then
                let day_strings := (day_strings ++ [(tok_cat (tok_int (ozd (snd wd))) weekday_str)]) in
                (SCont day_strings)
              else
                let day_strings := (day_strings ++ [weekday_str]) in
                (SCont day_strings)
            | None =>
              (SRet (RRaise ValueError))
            end)
          (fun day_strings =>
            let parts :=
              if (nonempty day_strings) then
                let parts := (parts ++ [(tok_cat [TKey KByDay] (tok_join [TComma] day_strings))]) in
                parts
              else
                parts in
            let val := (kw_bymonth rrule_kwargs) in
            let parts :=
              match val with
              | Some val =>
                let parts := (parts ++ [(tok_cat [TKey KByMonth] (tok_join [TComma] (map tok_int val)))]) in
                parts
              | None =>
                parts
              end in
            let val := (kw_bymonthday rrule_kwargs) in
            let parts :=
              match val with
              | Some val =>
                let parts := (parts ++ [(tok_cat [TKey KByMonthDay] (tok_join [TComma] (map tok_int val)))]) in
                parts
              | None =>
                parts
              end in
            let val := (kw_byweekno rrule_kwargs) in
            let parts :=
              match val with
              | Some val =>
                let parts := (parts ++ [(tok_cat [TKey KByWeekNo] (tok_join [TComma] (map tok_int val)))]) in
                parts
              | None =>
                parts
              end in
            let val := (kw_byyearday rrule_kwargs) in
            let parts :=
              match val with
              | Some val =>
                let parts := (parts ++ [(tok_cat [TKey KByYearDay] (tok_join [TComma] (map tok_int val)))]) in
                parts
              | None =>
                parts
              end in
            let val := (kw_bysetpos rrule_kwargs) in
            let parts :=
              match val with
              | Some val =>
                let parts := (parts ++ [(tok_cat [TKey KBySetPos] (tok_join [TComma] (map tok_int val)))]) in
                parts
              | None =>
                parts
              end in
            let val := (kw_byhour rrule_kwargs) in
            let parts :=
              match val with
              | Some val =>
                let parts := (parts ++ [(tok_cat [TKey KByHour] (tok_join [TComma] (map tok_int val)))]) in
                parts
              | None =>
                parts
              end in
            let val := (kw_byminute rrule_kwargs) in
            let parts :=
              match val with
              | Some val =>
                let parts := (parts ++ [(tok_cat [TKey KByMinute] (tok_join [TComma] (map tok_int val)))]) in
                parts
              | None =>
                parts
              end in
            let val := (kw_bysecond rrule_kwargs) in
            let parts :=
              match val with
              | Some val =>
                let parts := (parts ++ [(tok_cat [TKey KBySecond] (tok_join [TComma] (map tok_int val)))]) in
                parts
              | None =>
                parts
              end in
            let wkst := (kw_wkst rrule_kwargs) in
            let parts :=
              match wkst with
              | Some wkst =>
                match wkst with
                | WkObj wkst_w =>
                  let s := (wd_text wkst_w) in
                  if (otext_true s) then
                    let parts := (parts ++ [(tok_cat [TKey KWkst] (match s with Some v_ => v_ | None => (@nil token) end))]) in
                    parts
                  else
                    parts
                | WkInt wkst_z =>
                  if ((0 <=? wkst_z) && (wkst_z <? 7)) then
                    let parts := (parts ++ [(tok_cat [TKey KWkst] (tok_wd wkst_z))]) in
                    parts
                  else
                    parts
                end
              | None =>
                parts
              end in
            (RDone (tok_join [TSemi] parts)))
          day_strings byweekday
      | None =>
        let val := (kw_bymonth rrule_kwargs) in
        let parts :=
          match val with
          | Some val =>
            let parts := (parts ++ [(tok_cat [TKey KByMonth] (tok_join [TComma] (map tok_int val)))]) in
            parts
          | None =>
            parts
          end in
        let val := (kw_bymonthday rrule_kwargs) in
        let parts :=
          match val with
          | Some val =>
            let parts := (parts ++ [(tok_cat [TKey KByMonthDay] (tok_join [TComma] (map tok_int val)))]) in
            parts
          | None =>
            parts
          end in
        let val := (kw_byweekno rrule_kwargs) in
        let parts :=
          match val with
          | Some val =>
            let parts := (parts ++ [(tok_cat [TKey KByWeekNo] (tok_join [TComma] (map tok_int val)))]) in
            parts
          | None =>
            parts
          end in
        let val := (kw_byyearday rrule_kwargs) in
        let parts :=
          match val with
          | Some val =>
            let parts := (parts ++ [(tok_cat [TKey KByYearDay] (tok_join [TComma] (map tok_int val)))]) in
            parts
          | None =>
            parts
          end in
        let val := (kw_bysetpos rrule_kwargs) in
        let parts :=
          match val with
          | Some val =>
            let parts := (parts ++ [(tok_cat [TKey KBySetPos] (tok_join [TComma] (map tok_int val)))]) in
            parts
          | None =>
            parts
          end in
        let val := (kw_byhour rrule_kwargs) in
        let parts :=
          match val with
          | Some val =>
            let parts := (parts ++ [(tok_cat [TKey KByHour] (tok_join [TComma] (map tok_int val)))]) in
            parts
          | None =>
            parts
          end in
        let val := (kw_byminute rrule_kwargs) in
        let parts :=
          match val with
          | Some val =>
            let parts := (parts ++ [(tok_cat [TKey KByMinute] (tok_join [TComma] (map tok_int val)))]) in
            parts
          | None =>
            parts
          end in
        let val := (kw_bysecond rrule_kwargs) in
        let parts :=
          match val with
          | Some val =>
            let parts := (parts ++ [(tok_cat [TKey KBySecond] (tok_join [TComma] (map tok_int val)))]) in
            parts
          | None =>
            parts
          end in
        let wkst := (kw_wkst rrule_kwargs) in
        match wkst with
        | Some wkst =>
          match wkst with
          | WkObj wkst_w =>
            let s := (wd_text wkst_w) in
            let parts :=
              if (otext_true s) then
                let parts := (parts ++ [(tok_cat [TKey KWkst] (match s with Some v_ => v_ | None => (@nil token) end))]) in
                parts
              else
                parts in
            (RDone (tok_join [TSemi] parts))
          | WkInt wkst_z =>
            let parts :=
              if ((0 <=? wkst_z) && (wkst_z <? 7)) then
                let parts := (parts ++ [(tok_cat [TKey KWkst] (tok_wd wkst_z))]) in
                parts
              else
                parts in
            (RDone (tok_join [TSemi] parts))
          end
        | None =>
          (RDone (tok_join [TSemi] parts))
        end
      end
  | None =>
    (RRaise ValueError)
  end.

(* calgebra/recurrence.py: RecurringPattern.to_rrule_string *)
Definition g_to_rrule_string (self_rrule_kwargs : kwargs) : res text :=
  res_bind (g_rrule_text self_rrule_kwargs) (fun r1_ =>
  (RDone r1_)).

(* calgebra/recurrence.py: _to_int_list *)
Definition g_to_int_list (val : option intarg) : option (list Z) :=
  match val with
  | Some val =>
    match val with
    | IOne val_z =>
      let val_list := [val_z] in
      (Some (map (fun x => x) val_list))
    | IList val_l =>
      let val_list := val_l in
      (Some (map (fun x => x) val_list))
    end
  | None =>
    None
  end.

(* calgebra/recurrence.py: RecurringPattern.__init__ *)
Definition g_rp_head {DT : Type} {ZONE : Type} {TZ : Type} {IC : Type} {MD : Type} (zoneinfo : TZ -> ZONE) (zone_utc : ZONE) (dt_tzinfo : DT -> ZONE) (freq : Recur.freq) (interval_ : Z) (duration : Z) (interval_class : IC) (metadata : MD) (exdates : option (list Z)) (tz : option TZ) (start : (start_arg DT)) : res ((Recur.freq * Z * Z * list Z * ZONE)) :=
  let self_freq := freq in
  let self_interval := interval_ in
  let self_duration_seconds := duration in
  let self_interval_class := interval_class in
  let self_metadata := metadata in
  let self_exdates := (if (match exdates with Some v_ => nonempty v_ | None => false end) then (fs_of_list (match exdates with Some v_ => v_ | None => [] end)) else (@nil Z)) in
  match tz with
  | Some tz =>
    let self_zone := (zoneinfo tz) in
    (RDone (self_freq, self_interval, self_duration_seconds, self_exdates, self_zone))
  | None =>
    match start with
    | StInt start_z =>
      let self_zone := zone_utc in
      (RDone (self_freq, self_interval, self_duration_seconds, self_exdates, self_zone))
    | StAware start_dt =>
      let self_zone := (dt_tzinfo start_dt) in
      (RDone (self_freq, self_interval, self_duration_seconds, self_exdates, self_zone))
    | StNaive start_dt =>
      let self_zone := zone_utc in
      (RDone (self_freq, self_interval, self_duration_seconds, self_exdates, self_zone))
    end
  end.

(* calgebra/recurrence.py: RecurringPattern.__init__ *)
Definition g_rp_start {DT : Type} {ZONE : Type} (dt_with_zone : DT -> ZONE -> DT) (dt_timestamp : DT -> Z) (dt_fromtimestamp : Z -> ZONE -> DT) (dt_hour : DT -> Z) (dt_minute : DT -> Z) (dt_second : DT -> Z) (start : (start_arg DT)) (self_zone : ZONE) : res ((option DT * option Z * Z)) :=
  let anchor_dt := None in
  match start with
  | StInt start_z =>
    if (start_z >? 86400) then
      let anchor_dt := (dt_fromtimestamp start_z self_zone) in
      let self_anchor_timestamp := (Some start_z) in
      let self_start_seconds := ((((dt_hour anchor_dt) * 3600) + ((dt_minute anchor_dt) * 60)) + (dt_second anchor_dt)) in
      (RDone ((Some anchor_dt), self_anchor_timestamp, self_start_seconds))
    else
      if (negb ((0 <=? start_z) && (start_z <? 86400))) then
        (RRaise ValueError)
      else
        let self_anchor_timestamp := None in
        let self_start_seconds := start_z in
        (RDone (anchor_dt, self_anchor_timestamp, self_start_seconds))
  | StAware start_dt =>
    let anchor_dt := start_dt in
    let self_anchor_timestamp := (Some (dt_timestamp anchor_dt)) in
    let self_start_seconds := ((((dt_hour anchor_dt) * 3600) + ((dt_minute anchor_dt) * 60)) + (dt_second anchor_dt)) in
    (RDone ((Some anchor_dt), self_anchor_timestamp, self_start_seconds))
  | StNaive start_dt =>
    let anchor_dt := (dt_with_zone start_dt self_zone) in
    let self_anchor_timestamp := (Some (dt_timestamp anchor_dt)) in
    let self_start_seconds := ((((dt_hour anchor_dt) * 3600) + ((dt_minute anchor_dt) * 60)) + (dt_second anchor_dt)) in
    (RDone ((Some anchor_dt), self_anchor_timestamp, self_start_seconds))
  end.

(* calgebra/recurrence.py: RecurringPattern.__init__ *)
Definition g_rp_check {DT : Type} {DS : Type} (dt_weekday : DT -> Z) (ds_lower : DS -> DS) (daymap_has : DS -> bool) (daymap_get : DS -> Z) (day : option ((dayarg DS))) (anchor_dt : option DT) : res bool :=
  match day with
  | Some day =>
    match anchor_dt with
    | Some anchor_dt =>
      match day with
      | DayStr day_s =>
        let days_list := [day_s] in
        let anchor_weekday := (dt_weekday anchor_dt) in
        let valid_weekdays := (@nil Z) in
        iter_for
          (fun valid_weekdays d =>
            let d_lower := (ds_lower d) in
            if (daymap_has d_lower) then
              let valid_weekdays := (valid_weekdays ++ [(daymap_get d_lower)]) in
              (SCont valid_weekdays)
            else
              (SCont valid_weekdays))
          (fun valid_weekdays =>
            if ((nonempty valid_weekdays) && (negb (zmem anchor_weekday valid_weekdays))) then
              (RRaise ValueError)
            else
              (RDone true))
          valid_weekdays days_list
      | DayList day_l =>
        let days_list := day_l in
        let anchor_weekday := (dt_weekday anchor_dt) in
        let valid_weekdays := (@nil Z) in
        iter_for
          (fun valid_weekdays d =>
            let d_lower := (ds_lower d) in
            if (daymap_has d_lower) then
              let valid_weekdays := (valid_weekdays ++ [(daymap_get d_lower)]) in
              (SCont valid_weekdays)
            else
              (SCont valid_weekdays))
          (fun valid_weekdays =>
            if ((nonempty valid_weekdays) && (negb (zmem anchor_weekday valid_weekdays))) then
              (RRaise ValueError)
            else
              (RDone true))
          valid_weekdays days_list
      end
    | None =>
      (RDone true)
    end
  | None =>
    (RDone true)
  end.

(* calgebra/recurrence.py: RecurringPattern.__init__ *)
Definition g_rp_store {DS : Type} (day : option ((dayarg DS))) (week : option Z) (day_of_month : option intarg) (month : option intarg) (bysetpos : option intarg) (byweekno : option intarg) (byyearday : option intarg) (byhour : option intarg) (byminute : option intarg) (bysecond : option intarg) (wkst : option ((wkarg DS))) : res ((option (dayarg DS) * option Z * option intarg * option intarg * option intarg * option intarg * option intarg * option intarg * option intarg * option intarg * option (wkarg DS))) :=
  let self_day := day in
  let self_week := week in
  let self_day_of_month := day_of_month in
  let self_month := month in
  let self_bysetpos := bysetpos in
  let self_byweekno := byweekno in
  let self_byyearday := byyearday in
  let self_byhour := byhour in
  let self_byminute := byminute in
  let self_bysecond := bysecond in
  let self_wkst := wkst in
  (RDone (self_day, self_week, self_day_of_month, self_month, self_bysetpos, self_byweekno, self_byyearday, self_byhour, self_byminute, self_bysecond, self_wkst)).

(* calgebra/recurrence.py: RecurringPattern.__init__ *)
Definition g_rp_days {DS : Type} (ds_upper : DS -> DS) (ds_lower : DS -> DS) (ds_len : DS -> Z) (ds_suffix : DS -> Z -> DS) (ds_drop_suffix : DS -> Z -> DS) (ds_int : DS -> option Z) (daymap_has : DS -> bool) (daymap_get : DS -> Z) (freq : Recur.freq) (interval_ : Z) (day : option ((dayarg DS))) (week : option Z) : res kwargs :=
  let rrule_kwargs := (mkKW (Some freq) (Some interval_) None None None None None None None None None None) in
  match day with
  | Some day =>
    match day with
    | DayStr day_s =>
      let days := [day_s] in
      let weekdays := (@nil (Z * option Z)) in
      iter_for
        (fun weekdays d =>
          let s := (ds_upper d) in
          if (daymap_has (ds_lower d)) then
            let wd := ((daymap_get (ds_lower d)), (@None Z)) in
            match week with
            | Some week =>
              match (wd_call wd week) with
              | Some v_ =>
                let wd := v_ in
                let weekdays := (weekdays ++ [wd]) in
                (SCont weekdays)
              | None =>
                (SRet (RRaise ValueError))
              end
            | None =>
              let weekdays := (weekdays ++ [wd]) in
              (SCont weekdays)
            end
          else
            if ((ds_len s) >? 2) then
              let code := (ds_suffix s 2) in
              let prefix := (ds_drop_suffix s 2) in
              if (daymap_has (ds_lower code)) then
                let wd_const := ((daymap_get (ds_lower code)), (@None Z)) in
                match (ds_int prefix) with
                | Some v_ =>
                  let n := v_ in
                  match (wd_call wd_const n) with
                  | Some v_ =>
                    let weekdays := (weekdays ++ [v_]) in
                    (SCont weekdays)
                  | None =>
                  (SRet (RRaise ValueError))
                  end
                | None =>
                  (SRet (RRaise ValueError))
                end
              else
                (SRet (RRaise ValueError))
            else
              (SRet (RRaise ValueError)))
        (fun weekdays =>
          let rrule_kwargs := (set_byweekday rrule_kwargs (Some weekdays)) in
          (RDone rrule_kwargs))
        weekdays days
    | DayList day_l =>
      let days := day_l in
      let weekdays := (@nil (Z * option Z)) in
      iter_for
        (fun weekdays d =>
          let s := (ds_upper d) in
          if (daymap_has (ds_lower d)) then
            let wd := ((daymap_get (ds_lower d)), (@None Z)) in
            match week with
            | Some week =>
              match (wd_call wd week) with
              | Some v_ =>
                let wd := v_ in
                let weekdays := (weekdays ++ [wd]) in
                (SCont weekdays)
              | None =>
                (SRet (RRaise ValueError))
              end
            | None =>
              let weekdays := (weekdays ++ [wd]) in
              (SCont weekdays)
            end
          else
            if ((ds_len s) >? 2) then
              let code := (ds_suffix s 2) in
              let prefix := (ds_drop_suffix s 2) in
              if (daymap_has (ds_lower code)) then
                let wd_const := ((daymap_get (ds_lower code)), (@None Z)) in
                match (ds_int prefix) with
                | Some v_ =>
                  let n := v_ in
                  match (wd_call wd_const n) with
                  | Some v_ =>
                    let weekdays := (weekdays ++ [v_]) in
                    (SCont weekdays)
                  | None =>
                  (SRet (RRaise ValueError))
                  end
                | None =>
                  (SRet (RRaise ValueError))
                end
              else
                (SRet (RRaise ValueError))
            else
              (SRet (RRaise ValueError)))
        (fun weekdays =>
          let rrule_kwargs := (set_byweekday rrule_kwargs (Some weekdays)) in
          (RDone rrule_kwargs))
        weekdays days
    end
  | None =>
    (RDone rrule_kwargs)
  end.

(* calgebra/recurrence.py: RecurringPattern.__init__ *)
Definition g_rp_lists {DS : Type} (ds_lower : DS -> DS) (daymap_has : DS -> bool) (daymap_get : DS -> Z) (rrule_kwargs : kwargs) (day_of_month : option intarg) (month : option intarg) (bysetpos : option intarg) (byweekno : option intarg) (byyearday : option intarg) (byhour : option intarg) (byminute : option intarg) (bysecond : option intarg) (wkst : option ((wkarg DS))) : res kwargs :=
  let rrule_kwargs :=
    match day_of_month with
    | Some day_of_month =>
      let rrule_kwargs := (set_bymonthday rrule_kwargs (g_to_int_list (Some day_of_month))) in
      rrule_kwargs
    | None =>
      rrule_kwargs
    end in
  let rrule_kwargs :=
    match month with
    | Some month =>
      let rrule_kwargs := (set_bymonth rrule_kwargs (g_to_int_list (Some month))) in
      rrule_kwargs
    | None =>
      rrule_kwargs
    end in
  let rrule_kwargs :=
    match bysetpos with
    | Some bysetpos =>
      let rrule_kwargs := (set_bysetpos rrule_kwargs (g_to_int_list (Some bysetpos))) in
      rrule_kwargs
    | None =>
      rrule_kwargs
    end in
  let rrule_kwargs :=
    match byweekno with
    | Some byweekno =>
      let rrule_kwargs := (set_byweekno rrule_kwargs (g_to_int_list (Some byweekno))) in
      rrule_kwargs
    | None =>
      rrule_kwargs
    end in
  let rrule_kwargs :=
    match byyearday with
    | Some byyearday =>
      let rrule_kwargs := (set_byyearday rrule_kwargs (g_to_int_list (Some byyearday))) in
      rrule_kwargs
    | None =>
      rrule_kwargs
    end in
  let rrule_kwargs :=
    match byhour with
    | Some byhour =>
      let rrule_kwargs := (set_byhour rrule_kwargs (g_to_int_list (Some byhour))) in
      rrule_kwargs
    | None =>
      rrule_kwargs
    end in
  let rrule_kwargs :=
    match byminute with
    | Some byminute =>
      let rrule_kwargs := (set_byminute rrule_kwargs (g_to_int_list (Some byminute))) in
      rrule_kwargs
    | None =>
      rrule_kwargs
    end in
  let rrule_kwargs :=
    match bysecond with
    | Some bysecond =>
      let rrule_kwargs := (set_bysecond rrule_kwargs (g_to_int_list (Some bysecond))) in
      rrule_kwargs
    | None =>
      rrule_kwargs
    end in
  let rrule_kwargs :=
    match wkst with
    | Some wkst =>
      match wkst with
      | WaObj wkst_w =>
        let rrule_kwargs := (set_wkst rrule_kwargs (Some (WkObj wkst_w))) in
        rrule_kwargs
      | WaStr wkst_s =>
        if (daymap_has (ds_lower wkst_s)) then
          let rrule_kwargs := (set_wkst rrule_kwargs (Some (WkObj (daymap_get (ds_lower wkst_s))))) in
          rrule_kwargs
        else
          rrule_kwargs
      | WaInt wkst_z =>
        if ((0 <=? wkst_z) && (wkst_z <? 7)) then
          let rrule_kwargs := (set_wkst rrule_kwargs (Some (WkInt wkst_z))) in
          rrule_kwargs
        else
          rrule_kwargs
      end
    | None =>
      rrule_kwargs
    end in
  let self_rrule_kwargs := rrule_kwargs in
  (RDone self_rrule_kwargs).

(* calgebra/recurrence.py: RecurringPattern.__init__ *)
Definition g_rp_epoch {DT : Type} {ZONE : Type} (dt_make : Z -> Z -> Z -> ZONE -> DT) (self_zone : ZONE) : res DT :=
  let self__epoch := (dt_make 1970 1 1 self_zone) in
  (RDone self__epoch).

(* calgebra/recurrence.py: RecurringPattern.__init__ *)
Definition g_rp_init {DT : Type} {ZONE : Type} {TZ : Type} {IC : Type} {MD : Type} {DS : Type} (zoneinfo : TZ -> ZONE) (zone_utc : ZONE) (dt_tzinfo : DT -> ZONE) (dt_with_zone : DT -> ZONE -> DT) (dt_timestamp : DT -> Z) (dt_fromtimestamp : Z -> ZONE -> DT) (dt_hour : DT -> Z) (dt_minute : DT -> Z) (dt_second : DT -> Z) (dt_weekday : DT -> Z) (ds_lower : DS -> DS) (daymap_has : DS -> bool) (daymap_get : DS -> Z) (ds_upper : DS -> DS) (ds_len : DS -> Z) (ds_suffix : DS -> Z -> DS) (ds_drop_suffix : DS -> Z -> DS) (ds_int : DS -> option Z) (dt_make : Z -> Z -> Z -> ZONE -> DT) (freq : Recur.freq) (interval_ : Z) (day : option ((dayarg DS))) (week : option Z) (day_of_month : option intarg) (month : option intarg) (start : (start_arg DT)) (duration : Z) (tz : option TZ) (interval_class : IC) (exdates : option (list Z)) (bysetpos : option intarg) (byweekno : option intarg) (byyearday : option intarg) (byhour : option intarg) (byminute : option intarg) (bysecond : option intarg) (wkst : option ((wkarg DS))) (metadata : MD) : res ((Recur.freq * Z * Z * list Z * ZONE * option Z * Z * option (dayarg DS) * option Z * option intarg * option intarg * option intarg * option intarg * option intarg * option intarg * option intarg * option intarg * option (wkarg DS) * kwargs * DT)) :=
  res_bind (g_rp_head zoneinfo zone_utc dt_tzinfo freq interval_ duration interval_class metadata exdates tz start) (fun r1_ =>
  let part0_ := r1_ in
  let self_freq := (fst (fst (fst (fst part0_)))) in
  let self_interval := (snd (fst (fst (fst part0_)))) in
  let self_duration_seconds := (snd (fst (fst part0_))) in
  let self_exdates := (snd (fst part0_)) in
  let self_zone := (snd part0_) in
  res_bind (g_rp_start dt_with_zone dt_timestamp dt_fromtimestamp dt_hour dt_minute dt_second start self_zone) (fun r2_ =>
  let part1_ := r2_ in
  let anchor_dt := (fst (fst part1_)) in
  let self_anchor_timestamp := (snd (fst part1_)) in
  let self_start_seconds := (snd part1_) in
  res_bind (g_rp_check dt_weekday ds_lower daymap_has daymap_get day anchor_dt) (fun r3_ =>
  let part2_ := r3_ in
  res_bind (g_rp_store day week day_of_month month bysetpos byweekno byyearday byhour byminute bysecond wkst) (fun r4_ =>
  let part3_ := r4_ in
  let self_day := (fst (fst (fst (fst (fst (fst (fst (fst (fst (fst part3_)))))))))) in
  let self_week := (snd (fst (fst (fst (fst (fst (fst (fst (fst (fst part3_)))))))))) in
  let self_day_of_month := (snd (fst (fst (fst (fst (fst (fst (fst (fst part3_))))))))) in
  let self_month := (snd (fst (fst (fst (fst (fst (fst (fst part3_)))))))) in
  let self_bysetpos := (snd (fst (fst (fst (fst (fst (fst part3_))))))) in
  let self_byweekno := (snd (fst (fst (fst (fst (fst part3_)))))) in
  let self_byyearday := (snd (fst (fst (fst (fst part3_))))) in
  let self_byhour := (snd (fst (fst (fst part3_)))) in
  let self_byminute := (snd (fst (fst part3_))) in
  let self_bysecond := (snd (fst part3_)) in
  let self_wkst := (snd part3_) in
  res_bind (g_rp_days ds_upper ds_lower ds_len ds_suffix ds_drop_suffix ds_int daymap_has daymap_get freq interval_ day week) (fun r5_ =>
  let part4_ := r5_ in
  let rrule_kwargs := part4_ in
  res_bind (g_rp_lists ds_lower daymap_has daymap_get rrule_kwargs day_of_month month bysetpos byweekno byyearday byhour byminute bysecond wkst) (fun r6_ =>
  let part5_ := r6_ in
  let self_rrule_kwargs := part5_ in
  res_bind (g_rp_epoch dt_make self_zone) (fun r7_ =>
  let part6_ := r7_ in
  let self__epoch := part6_ in
  (RDone (self_freq, self_interval, self_duration_seconds, self_exdates, self_zone, self_anchor_timestamp, self_start_seconds, self_day, self_week, self_day_of_month, self_month, self_bysetpos, self_byweekno, self_byyearday, self_byhour, self_byminute, self_bysecond, self_wkst, self_rrule_kwargs, self__epoch))))))))).
