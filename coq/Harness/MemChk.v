(* Harness/MemChk.v — correspondence and trace oracle for the in-memory timeline (C12). *)
From CG Require Export Spec.MemSpec Harness.CoreChk.

Record mcase := mkMC { mc_ops : list mop; mc_obs : list (list bool * list ivl) }.

Definition obs_eqb (x y : list bool * list ivl) : bool :=
  list_eqb Bool.eqb (fst x) (fst y) && list_eqb ivl_eqb (snd x) (snd y).

Definition corr_mem (c : mcase) : bool := list_eqb obs_eqb (mrun minit c.(mc_ops)) c.(mc_obs).
Definition oracle_C12 (c : mcase) : bool := trace_ok ainit c.(mc_ops) c.(mc_obs).

(* metadata merge, all combinations *)
Record metacase := mkMeta { mt_item : option N; mt_kw : option (option N); mt_cont : option (option N);
                            mt_out : option N }.
Definition oN_eqb (a b : option N) : bool :=
  match a, b with Some x, Some y => N.eqb x y | None, None => true | _, _ => false end.
Definition corr_meta (c : metacase) : bool := oN_eqb (meta_merge c.(mt_item) c.(mt_kw) c.(mt_cont)) c.(mt_out).
(* documented rule: call arguments override the item's fields; container metadata only fills a
   field that is missing or None *)
Definition oracle_meta (c : metacase) : bool :=
  match c.(mt_kw) with
  | Some (Some v) => oN_eqb c.(mt_out) (Some v)
  | _ =>
    match (match c.(mt_kw) with Some None => None | _ => c.(mt_item) end) with
    | Some v => oN_eqb c.(mt_out) (Some v)
    | None => oN_eqb c.(mt_out) (match c.(mt_cont) with Some d => d | None => None end)
    end
  end.
