(* Harness/PullChk.v — C14: correspondence of the pull machines (Model/Pull.v) with the
   instrumented implementation, and the property oracle on the implementation's observations.
   Evaluated with vm_compute over the generated cases. *)
From CG Require Export Model.Pull Harness.CoreChk.

(* One case: an expression over counting leaves, the open-ended query islice(e[a:], n) and
   the bounded query e[a:b].  Pull counters are listed per leaf id (0..nleaf-1). *)
Record lcase := mkLC {
  l_env : fenv; l_expr : pexpr; l_nleaf : nat; l_a : Z; l_b : Z; l_n : nat;
  l_open : list (ivl * list nat);   (* items of islice(e[a:], n), counters right after each item *)
  l_ologs : list (list ivl);        (* per leaf: the items its wrapper handed downstream (open run) *)
  l_bnd : list (ivl * list nat);    (* items of e[a:b] run to StopIteration, counters after each *)
  l_bfinal : list nat;              (* counters after the StopIteration of e[a:b] *)
  l_blogs : list (list ivl);
  l_b2 : Z;                         (* a window end past the horizon l_hor *)
  l_long : list (ivl * list nat);   (* first n items of e[a:b2], counters after each *)
  l_hor : Z;                        (* harness-computed horizon: see harness/props_lazy.py, horizon() *)
  l_compose_fetches : nat;          (* leaf fetch() calls made by building the expression *)
  l_pre_pulls : nat;                (* leaf items pulled by iter(e[a:]) / iter(e[a:b]) before the first next() *)
  l_bdone : bool }.                 (* e[a:b] reached StopIteration under the harness's pull cap *)

Definition FUEL : nat := 4000.

Definition cnt_eqb (x y : list nat) : bool := list_eqb Nat.eqb x y.
Definition tr_eqb (x y : list (ivl * list nat)) : bool :=
  list_eqb (fun p q => ivl_eqb (fst p) (fst q) && cnt_eqb (snd p) (snd q)) x y.

Definition sliced_p (c : lcase) : pexpr := pand c.(l_expr) PSolid.
Definition c0 (c : lcase) : cnts := repeat O c.(l_nleaf).

Definition open_trace (c : lcase) :=
  let e := sliced_p c in
  trace FUEL c.(l_env) (oenv_of e c.(l_a) None) c.(l_n) (compile e c.(l_a) None) (c0 c).

Definition bnd_trace (c : lcase) (b : Z) (n : nat) :=
  let e := sliced_p c in
  trace FUEL c.(l_env) (oenv_of e c.(l_a) (Some b)) n (compile e c.(l_a) (Some b)) (c0 c).

(* the wrapper of leaf id yielded exactly the first items of the model's oracle *)
Fixpoint logs_ok (o : oenv) (id : nat) (logs : list (list ivl)) : bool :=
  match logs with
  | [] => true
  | lg :: r => list_eqb ivl_eqb (enum (length lg) (o id) 0) lg && logs_ok o (S id) r
  end.

(* correspondence: the machine reproduces items AND per-leaf pull counts exactly, for the
   open-ended and for the bounded query; the leaf oracles are the real leaves *)
Definition corr_pull (c : lcase) : bool :=
  let e := sliced_p c in
  (match open_trace c with
   | Some (t, _, _) => tr_eqb t c.(l_open)
   | None => false
   end) &&
  (match bnd_trace c c.(l_b) (S (length c.(l_bnd))) with
   | Some (t, fin, cf) => tr_eqb t c.(l_bnd) && fin && cnt_eqb cf c.(l_bfinal)
   | None => false
   end) &&
  (match bnd_trace c c.(l_b2) c.(l_n) with
   | Some (t, _, _) => tr_eqb t c.(l_long)
   | None => false
   end) &&
  logs_ok (oenv_of e c.(l_a) None) 0 c.(l_ologs) &&
  logs_ok (oenv_of e c.(l_a) (Some c.(l_b))) 0 c.(l_blogs).

Fixpoint cnt_le_plus1 (x y : list nat) : bool :=
  match x, y with
  | [], [] => true
  | a :: r, b :: s => (a <=? S b)%nat && cnt_le_plus1 r s
  | _, _ => false
  end.

Definition last_cnt (c0 : cnts) (t : list (ivl * list nat)) : cnts :=
  match rev t with [] => c0 | p :: _ => snd p end.

Definition starts_le (h : Z) (l : list ivl) : bool := forallb (fun x => fstart x <=? h) l.

(* C14 on the implementation's observations:
   (o)   composing fetched nothing, creating the slice iterators pulled nothing;
   (i)   islice(e[a:], n) delivered n items, equal to the first n items of e[a:b], and e[a:b]
         is what the list model (Model/Sweeps.v functions) computes;
   (ii)  bounded prefix: no leaf item read by the open-ended query starts after the horizon,
         and when the n-th item was delivered every leaf had been pulled at most once more
         than by the bounded query e[a:b2] (b2 past the horizon) at its n-th item;
   (iii) the bounded queries terminated. *)
Definition oracle_C14 (c : lcase) : bool :=
  let bitems := map fst c.(l_bnd) in
  (c.(l_compose_fetches) =? 0)%nat && (c.(l_pre_pulls) =? 0)%nat &&
  (length c.(l_open) =? c.(l_n))%nat &&
  list_eqb ivl_eqb (map fst c.(l_open)) (firstn c.(l_n) bitems) &&
  list_eqb ivl_eqb bitems (lslice c.(l_env) c.(l_expr) c.(l_a) c.(l_b)) &&
  list_eqb ivl_eqb (map fst c.(l_open)) (map fst c.(l_long)) &&
  forallb (starts_le c.(l_hor)) c.(l_ologs) && (c.(l_hor) <=? c.(l_b2)) &&
  cnt_le_plus1 (last_cnt (c0 c) c.(l_open)) (last_cnt (c0 c) c.(l_long)) &&
  c.(l_bdone).

(* sharper than (ii), reported as a statistic only: the counters are equal *)
Definition same_counts (c : lcase) : bool :=
  cnt_eqb (last_cnt (c0 c) c.(l_open)) (last_cnt (c0 c) c.(l_long)).
