(* Harness/PureChk.v — check functions for C15: repeated / alternately consumed slices and
   equivalent bound spellings. *)
From CG Require Export Harness.CoreChk Model.Slice.

(* two iterators over the same slice consumed alternately (A, B), then a third full evaluation (C) *)
Record icase := mkIC {
  i_env : fenv; i_expr : expr; i_a : option Z; i_b : option Z; i_rev : bool;
  i_A : list ivl; i_B : list ivl; i_C : list ivl }.

Definition corr_iter (c : icase) : bool :=
  let m := slice c.(i_env) c.(i_expr) c.(i_a) c.(i_b) c.(i_rev) in
  list_eqb ivl_eqb m c.(i_A) && list_eqb ivl_eqb m c.(i_B) && list_eqb ivl_eqb m c.(i_C).
Definition oracle_iter (c : icase) : bool :=
  list_eqb ivl_eqb c.(i_A) c.(i_B) && list_eqb ivl_eqb c.(i_A) c.(i_C).

(* one way of writing the bounds and the step; the observation is the result or the error kind *)
Inductive gobs := GOk (l : list ivl) | GErr (e : pyerr).
Record gcase := mkGC {
  g_env : fenv; g_expr : expr; g_a : bound; g_b : bound; g_s : stepv;
  g_obs : gobs;
  g_ref : list ivl }.            (* implementation's result for the canonical spelling (ints) *)

Definition pyerr_eqb (x y : pyerr) : bool :=
  match x, y with TypeError, TypeError => true | ValueError, ValueError => true | _, _ => false end.

Definition corr_getitem (c : gcase) : bool :=
  match getitem c.(g_env) c.(g_expr) c.(g_a) c.(g_b) c.(g_s), c.(g_obs) with
  | inr l, GOk l' => list_eqb ivl_eqb l l'
  | inl e, GErr e' => pyerr_eqb e e'
  | _, _ => false
  end.

(* the property: equal-denoting spellings give the reference result; ill-typed bounds are
   TypeErrors, other steps ValueErrors — never a wrong answer *)
Definition bad_bound (b : bound) : bool := match b with BNaive | BOther => true | _ => false end.
Definition bad_step (s : stepv) : bool :=
  match s with SNone => false | SInt z => negb ((z =? 1) || (z =? -1)) | SOther => true end.
Definition oracle_getitem (c : gcase) : bool :=
  if bad_bound c.(g_a) || bad_bound c.(g_b) then
    match c.(g_obs) with GErr TypeError => true | _ => false end
  else if bad_step c.(g_s) then
    match c.(g_obs) with GErr ValueError => true | _ => false end
  else match c.(g_obs) with GOk l => list_eqb ivl_eqb l c.(g_ref) | _ => false end.

(* operator typing *)
Record kcase2 := mkKC { kc_or : bool; kc_l : okind; kc_r : okind; kc_obs : option okind }.  (* None = TypeError *)
Definition okind_eqb (x y : okind) : bool :=
  match x, y with KTimeline, KTimeline => true | KFilter, KFilter => true | _, _ => false end.
Definition corr_kind (c : kcase2) : bool :=
  match (if c.(kc_or) then or_kind c.(kc_l) c.(kc_r) else and_kind c.(kc_l) c.(kc_r)), c.(kc_obs) with
  | inr k, Some k' => okind_eqb k k'
  | inl TypeError, None => true
  | _, _ => false
  end.
Definition oracle_kind (c : kcase2) : bool :=
  (* uniting a filter with a timeline is rejected; everything else is accepted *)
  if c.(kc_or) && negb (okind_eqb c.(kc_l) c.(kc_r)) then match c.(kc_obs) with None => true | _ => false end
  else match c.(kc_obs) with Some _ => true | None => false end.

(* C17: chains of buffer() calls, with negative amounts at any level.  bc_obs = None: ValueError *)
Record bcase := mkBC { bc_evs : list ivl; bc_amts : list (Z * Z); bc_a : option Z; bc_b : option Z;
                       bc_obs : option (list ivl) }.
Definition corr_bufchain (c : bcase) : bool :=
  match buffer_chain (Stored c.(bc_evs)) c.(bc_amts), c.(bc_obs) with
  | inl _, None => true
  | inr e, Some l => list_eqb ivl_eqb (slice [] e c.(bc_a) c.(bc_b) false) l
  | _, _ => false
  end.
(* rejected iff some amount is negative; otherwise the chain is one buffer by the summed amounts *)
Definition oracle_bufchain (c : bcase) : bool :=
  if existsb (fun p => (fst p <? 0) || (snd p <? 0)) c.(bc_amts)
  then match c.(bc_obs) with None => true | Some _ => false end
  else match c.(bc_obs) with
       | None => false
       | Some l =>
         let sb := fold_left (fun acc p => acc + fst p) c.(bc_amts) 0 in
         let sa := fold_left (fun acc p => acc + snd p) c.(bc_amts) 0 in
         mset_eqb l (slice [] (Buf (Stored c.(bc_evs)) sb sa) c.(bc_a) c.(bc_b) false)
       end.
