(* Harness/RecurChk.v — correspondence and oracles for recurring patterns (C07, C08), evaluated
   with vm_compute over the case files of a run.
     corr_*    the Gallina model's output = what the real code returned on the same input
     oracle_*  the property's executable spec applied to what the real code returned *)
From CG Require Export Spec.RecurSpec Harness.CoreChk.

Definition pi (p : Z * Z) : ivl := mkI (Some (fst p)) (Some (snd p)) Plain.
Definition pis (l : list (Z * Z)) : list ivl := map pi l.
Definition ivls_eqb (a b : list ivl) : bool := list_eqb ivl_eqb a b.
Definition fres_is (x : fres) (l : list (Z * Z)) : bool :=
  match x with Ok m => ivls_eqb m (pis l) | _ => false end.

(* ------------------------------------------------------------------------------------------ *)
(* part "zones": Model/Civil.v and Model/Zone.v against datetime / zoneinfo                     *)
Record zcase := mkZC {
  zc_zone : zone;
  zc_u2w : list (Z * Z * bool * Z);    (* t, fromtimestamp(t, tz) as wall seconds, its fold, and that
                                          aware datetime's .timestamp() *)
  zc_w2u : list (Z * bool * Z);        (* wall seconds w, fold, datetime(w, fold, tz).timestamp() *)
  zc_civil : list (Z * (Z * Z * Z) * Z) }.   (* day number, date.fromordinal (y, m, d), weekday() *)

Definition corr_zone (c : zcase) : bool :=
  forallb (fun p => let '(t, w, f, _) := p in
                    (utc_to_wall (zc_zone c) t =? w) && Bool.eqb (fold_of (zc_zone c) t) f &&
                    (wall_to_utc (zc_zone c) w f =? t)) (zc_u2w c) &&
  forallb (fun p => let '(w, f, t) := p in wall_to_utc (zc_zone c) w f =? t) (zc_w2u c) &&
  forallb (fun p => let '(dn, ymd, wd) := p in
                    let '(y, m, d) := ymd in
                    let '(y', m', d') := civil_from_days dn in
                    (y =? y') && (m =? m') && (d =? d') && (weekday dn =? wd) &&
                    (days_from_civil y m d =? dn) && valid_date y m d) (zc_civil c).

(* what the datetime library itself promises (PEP 495): a timestamp survives the trip through
   its wall-clock reading and fold *)
Definition oracle_zone (c : zcase) : bool :=
  forallb (fun p => let '(t, _, _, t') := p in t' =? t) (zc_u2w c) &&
  (* the hypothesis of the look-back theorem (anchor_before) about the zone table *)
  zone_spread_ok (zc_zone c).

(* ------------------------------------------------------------------------------------------ *)
(* part "rrule": rrule_model against dateutil.rrule itself                                     *)
Record qcase := mkQC {
  qc_freq : freq; qc_interval : Z; qc_byweekday : list (Z * option Z);
  qc_bymonthday : list Z; qc_bymonth : list Z; qc_bysetpos : list Z;
  qc_dtstart : Z;                      (* dtstart, a date at midnight, as a day number *)
  qc_periods : Z;                      (* periods to expand (enough for the observed prefix) *)
  qc_obs : list Z }.                   (* list(islice(rrule(...), N)) as day numbers *)

Definition qc_rr (c : qcase) : rr :=
  rr_init (qc_freq c) (qc_interval c) (qc_byweekday c) (qc_bymonthday c) (qc_bymonth c)
          (qc_bysetpos c) (qc_dtstart c).

Definition corr_rrule (c : qcase) : bool :=
  let m := rrule_model (qc_rr c) (Z.to_nat (qc_periods c)) in
  (length (qc_obs c) <=? length m)%nat && list_eqb Z.eqb (firstn (length (qc_obs c)) m) (qc_obs c).

(* dateutil's own output against the reference series (anchored at dtstart, UTC): the dates
   dateutil yields are exactly the matching dates from dtstart up to the last one it yielded.
   One documented difference: for a WEEKLY rule with BYSETPOS whose dtstart is not a Monday,
   dateutil numbers the positions of the first week within the days from dtstart on (the week is
   truncated), the series within the whole week; that first partial week is left out of the
   comparison.  (RecurringPattern never shows it: its dtstart lies a full period plus the duration
   before the window — lemma anchor_before.) *)
Definition oracle_rrule (c : qcase) : bool :=
  let r := mkRule (qc_freq c) (qc_interval c) (qc_byweekday c) (qc_bymonthday c) (qc_bymonth c)
                  (qc_bysetpos c) [] (Some (qc_dtstart c * DAY)) 0 1 utc_zone in
  let from :=
      if freq_eqb (qc_freq c) Weekly && negb (is_nil (qc_bysetpos c)) && negb (weekday (qc_dtstart c) =? 0)
      then qc_dtstart c - weekday (qc_dtstart c) + 7 else qc_dtstart c in
  let obs := filter (fun d => from <=? d) (qc_obs c) in
  match obs with
  | [] => true
  | _ => let last_ := last obs 0 in
         list_eqb Z.eqb (matching_dates r from (last_ - from + 1)) obs
  end.

(* ------------------------------------------------------------------------------------------ *)
(* parts "forward" / "windows": RecurringPattern.fetch                                          *)
Record rcase := mkRC {
  rc_rule : rule;
  rc_a : Z; rc_b : Z;
  rc_fwd : list (Z * Z);                 (* list(p.fetch(a, b)) as (start, end) *)
  rc_rev : option (list (Z * Z));        (* list(p.fetch(a, b, reverse=True)) if probed *)
  (* nested windows a <= a' , b' <= b: (a', b', forward result, reverse result if probed) *)
  rc_subs : list (Z * Z * list (Z * Z) * option (list (Z * Z)));
  rc_slice : option (list (Z * Z));      (* list(p[a:b]) if probed *)
  (* list(day_of_week(days, tz)[a:b]) / list(time_of_day(start, duration, tz)[a:b]) if the rule
     is one of those convenience forms and it was probed *)
  rc_flat : option (list (Z * Z)) }.

(* a slice clips what fetch returns to [a, b) *)
Definition clip_ivls (a b : Z) (l : list ivl) : list ivl :=
  flat_map (fun i => let s := Z.max (fstart i) a in let e := Z.min (fend i) b in
                     if s <? e then [mkI (Some s) (Some e) Plain] else []) l.
(* flatten: overlapping and adjacent intervals of an ascending list become one *)
Fixpoint coalesce_go (cur : ivl) (l : list ivl) : list ivl :=
  match l with
  | [] => [cur]
  | x :: r => if fstart x <=? fend cur
              then coalesce_go (mkI (st cur) (Some (Z.max (fend cur) (fend x))) Plain) r
              else cur :: coalesce_go x r
  end.
Definition coalesce (l : list ivl) : list ivl := match l with [] => [] | x :: r => coalesce_go x r end.

Definition opt_is (o : option (list (Z * Z))) (l : list ivl) : bool :=
  match o with None => true | Some m => ivls_eqb (pis m) l end.

Definition corr_rev (r : rule) (a b : Z) (o : option (list (Z * Z))) : bool :=
  match o with None => true | Some l => fres_is (fetch_reverse r a b) l end.

Definition corr_recur (c : rcase) : bool :=
  fres_is (fetch_forward (rc_rule c) (rc_a c) (rc_b c)) (rc_fwd c) &&
  corr_rev (rc_rule c) (rc_a c) (rc_b c) (rc_rev c) &&
  forallb (fun s => let '(a', b', f, o) := s in
                    fres_is (fetch_forward (rc_rule c) a' b') f && corr_rev (rc_rule c) a' b' o)
          (rc_subs c) &&
  match fetch_forward (rc_rule c) (rc_a c) (rc_b c) with
  | Ok m => opt_is (rc_slice c) (clip_ivls (rc_a c) (rc_b c) m) &&
            opt_is (rc_flat c) (coalesce (clip_ivls (rc_a c) (rc_b c) m))
  | _ => false
  end.

(* C07: every answer is the window's part of the reference series *)
Definition oracle_C07 (c : rcase) : bool :=
  ivls_eqb (pis (rc_fwd c)) (spec_occurrences (rc_rule c) (rc_a c) (rc_b c)) &&
  forallb (fun s => let '(a', b', f, _) := s in
                    ivls_eqb (pis f) (spec_occurrences (rc_rule c) a' b')) (rc_subs c) &&
  (* slices clip; day_of_week / time_of_day are the flattened forms *)
  opt_is (rc_slice c) (clip_ivls (rc_a c) (rc_b c) (spec_occurrences (rc_rule c) (rc_a c) (rc_b c))) &&
  opt_is (rc_flat c) (coalesce (clip_ivls (rc_a c) (rc_b c) (spec_occurrences (rc_rule c) (rc_a c) (rc_b c)))).

Definition pair_eqb (x y : Z * Z) : bool := (fst x =? fst y) && (snd x =? snd y).
Definition pairs_eqb := list_eqb pair_eqb.
Fixpoint nodup_pairs (l : list (Z * Z)) : bool :=
  match l with [] => true | x :: r => negb (existsb (pair_eqb x) r) && nodup_pairs r end.

(* what fetch(a', b') keeps of a list of occurrences: end > a' and start <= b' *)
Definition restrict (a' b' : Z) (l : list (Z * Z)) : list (Z * Z) :=
  filter (fun p => (a' <? snd p) && (fst p <=? b')) l.

Definition rev_ok (f : list (Z * Z)) (o : option (list (Z * Z))) : bool :=
  match o with None => true | Some l => pairs_eqb l (rev f) end.

(* C08: same occurrences whatever the window and the direction.  (That the call returned at all
   — did not raise — is what the harness checks before a case gets here.)
   - reverse = forward, reversed, for every probed window
   - the answer for a nested window is the restriction of the answer for the wider one
   - nothing twice
   - the wide answer is the window's part of the one bi-infinite series (phase kept however far
     the window is from the anchor, look-back long enough for any duration) *)
Definition oracle_C08 (c : rcase) : bool :=
  rev_ok (rc_fwd c) (rc_rev c) &&
  nodup_pairs (rc_fwd c) &&
  forallb (fun s => let '(a', b', f, o) := s in
                    (negb ((rc_a c <=? a') && (b' <=? rc_b c)) || pairs_eqb f (restrict a' b' (rc_fwd c))) &&
                    rev_ok f o && nodup_pairs f) (rc_subs c) &&
  ivls_eqb (pis (rc_fwd c)) (spec_occurrences (rc_rule c) (rc_a c) (rc_b c)).

(* ---- signatures delimiting sub-domains (for the attribution of recorded findings) ---- *)
(* BYDAY lists mixing plain weekdays and n-th weekdays in a MONTHLY / YEARLY rule *)
Definition mixed_byday (r : rule) : bool :=
  match r_freq r with
  | Monthly | Yearly =>
    existsb (fun e => match snd e with None => true | Some n => n =? 0 end) (r_byweekday r) &&
    existsb (fun e => match snd e with None => false | Some n => negb (n =? 0) end) (r_byweekday r)
  | _ => false
  end.
Definition no_mixed_byday (c : rcase) : bool := negb (mixed_byday (rc_rule c)).
