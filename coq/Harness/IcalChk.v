(* Harness/IcalChk.v — correspondence and oracles for C19, evaluated with vm_compute over the
   case files of a run.
     corr_*    the Gallina model's output = what the real code produced on the same input
     oracle_*  the property's executable spec applied to what the real code produced
     no_*      signatures of recorded findings (false = the case lies in that finding's sub-domain) *)
From CG Require Export Spec.IcalSpec Harness.RecurChk.

(* ---- strict equalities on the model's types ---- *)
Definition key_eqb (a b : key) : bool :=
  match a, b with
  | KFreq, KFreq | KInterval, KInterval | KByDay, KByDay | KByMonth, KByMonth
  | KByMonthDay, KByMonthDay | KByWeekNo, KByWeekNo | KByYearDay, KByYearDay
  | KBySetPos, KBySetPos | KByHour, KByHour | KByMinute, KByMinute | KBySecond, KBySecond
  | KWkst, KWkst => true
  | _, _ => false
  end.

Definition token_eqb (a b : token) : bool :=
  match a, b with
  | TKey k, TKey k' => key_eqb k k'
  | TFreqV f, TFreqV f' => freq_eqb f f'
  | TInt n, TInt n' => n =? n'
  | TDay w n, TDay w' n' => (w =? w') && oz_eqb n n'
  | TComma, TComma | TSemi, TSemi => true
  | _, _ => false
  end.

Definition ofreq_eqb (a b : option freq) : bool :=
  match a, b with Some x, Some y => freq_eqb x y | None, None => true | _, _ => false end.

Definition vrecur_eqb (a b : vrecur) : bool :=
  ofreq_eqb (v_freq a) (v_freq b) && oz_eqb (v_interval a) (v_interval b) &&
  list_eqb day_eqb (v_byday a) (v_byday b) &&
  zlist_eqb (v_bymonth a) (v_bymonth b) && zlist_eqb (v_bymonthday a) (v_bymonthday b) &&
  zlist_eqb (v_byweekno a) (v_byweekno b) && zlist_eqb (v_byyearday a) (v_byyearday b) &&
  zlist_eqb (v_bysetpos a) (v_bysetpos b) && zlist_eqb (v_byhour a) (v_byhour b) &&
  zlist_eqb (v_byminute a) (v_byminute b) && zlist_eqb (v_bysecond a) (v_bysecond b) &&
  oz_eqb (v_wkst a) (v_wkst b).

Definition dtval_eqb (a b : dtval) : bool :=
  match a, b with
  | DDate x, DDate y | DUtc x, DUtc y | DFloat x, DFloat y => x =? y
  | DTz z w, DTz z' w' => zone_eqb z z' && (w =? w')
  | _, _ => false
  end.

Definition endspec_eqb (a b : endspec) : bool :=
  match a, b with
  | EDtend x, EDtend y => dtval_eqb x y
  | EDuration x, EDuration y => x =? y
  | ENone, ENone => true
  | _, _ => false
  end.

Definition oN_eqb' (a b : option N) : bool := otext_eqb a b.

(* the EXDATE lines come out in the iteration order of a frozenset: compared as a set *)
Definition dt_set_eqb (a b : list dtval) : bool :=
  (length a =? length b)%nat &&
  forallb (fun x => existsb (dtval_eqb x) b) a && forallb (fun x => existsb (dtval_eqb x) a) b.

Definition ovr_eqb (a b : option vrecur) : bool :=
  match a, b with Some x, Some y => vrecur_eqb x y | None, None => true | _, _ => false end.

Definition vevent_eqb (a b : vevent) : bool :=
  dtval_eqb (ve_dtstart a) (ve_dtstart b) && endspec_eqb (ve_end a) (ve_end b) &&
  ovr_eqb (ve_rrule a) (ve_rrule b) && dt_set_eqb (ve_exdate a) (ve_exdate b) &&
  oN_eqb' (ve_summary a) (ve_summary b) && oN_eqb' (ve_description a) (ve_description b) &&
  oN_eqb' (ve_uid a) (ve_uid b) && oN_eqb' (ve_location a) (ve_location b).

Definition meta_eqb (a b : meta) : bool :=
  same_meta a b && otext_eqb (m_description a) (m_description b).

(* every field (exdates as a set: a frozenset) *)
Definition item_eqb (a b : item) : bool :=
  match a, b with
  | Static s e m, Static s' e' m' => oz_eqb s s' && oz_eqb e e' && meta_eqb m m'
  | Pattern x m, Pattern y n => same_pattern x y && meta_eqb m n
  | _, _ => false
  end.

Definition opt_eqb {A} (eqb : A -> A -> bool) (a b : option A) : bool :=
  match a, b with Some x, Some y => eqb x y | None, None => true | _, _ => false end.

(* ------------------------------------------------------------------------------------------ *)
(* part "text": to_rrule_string() and its independent expansion                                *)
Record tcase := mkTC {
  tc_x : xrule;
  tc_tokens : list token;                         (* pattern.to_rrule_string(), tokenised *)
  tc_wins : list (Z * Z * list (Z * Z) * list Z)  (* a, b, pattern.fetch(a, b), and the starts in
                                                     [a, b] of rrulestr(text, dtstart=anchor or
                                                     the phase base) *)
}.

(* the rule is in the property's list (nothing but the parts of Model/Recur.v's rule) *)
Definition plain_x (x : xrule) : bool := supported (parts_of x).

Definition corr_text (c : tcase) : bool :=
  list_eqb token_eqb (rrule_text (parts_of (tc_x c))) (tc_tokens c) &&
  (negb (plain_x (tc_x c)) ||
   forallb (fun w => let '(a, b, f, _) := w in fres_is (fetch_forward (x_rule (tc_x c)) a b) f)
           (tc_wins c)).

(* the text the implementation emitted, parsed back, gives the pattern's parameters; and the
   independent expansion of that text starts an occurrence exactly where the pattern does
   (the excluded instances, which are not part of the RRULE value, left out) *)
Definition oracle_text (c : tcase) : bool :=
  match parse_rrule (tc_tokens c) with
  | Some q => rparts_eqb (parts_of (tc_x c)) q
  | None => false
  end &&
  forallb (fun w => let '(a, b, f, ref) := w in
                    zlist_eqb (filter (fun s => (a <=? s) && (s <=? b)) (map fst f))
                              (filter (fun s => negb (zmem s (r_exdates (x_rule (tc_x c))))) ref))
          (tc_wins c).

(* ------------------------------------------------------------------------------------------ *)
(* part "files": MemoryTimeline -> timeline_to_file -> file_to_timeline                        *)
Record fitem := mkFI {
  fi_item : item;                  (* what the user handed to MemoryTimeline(...) *)
  fi_named : bool;                 (* the pattern's tzinfo prints as an IANA key (a ZoneInfo) *)
  fi_stored : option item;         (* what the timeline stored; None = add raised *)
  fi_vevent : option vevent;       (* its VEVENT as found in the written file; None = none *)
  fi_loaded : option item }.       (* what the reloaded timeline stores for it; None = dropped *)

Record fcase := mkFC {
  fc_items : list fitem;
  fc_reloaded : list item;         (* everything the reloaded timeline stores, with multiplicity *)
  fc_slices : list (Z * Z * list ev * list ev) }.   (* a, b, m[a:b], reloaded[a:b] *)

(* equality of two lists as multisets (every element of one used up by exactly one of the other) *)
Fixpoint remove_first {A} (f : A -> bool) (l : list A) : option (list A) :=
  match l with
  | [] => None
  | y :: r => if f y then Some r
              else match remove_first f r with Some r' => Some (y :: r') | None => None end
  end.
Fixpoint multiset_eqb {A} (eqb : A -> A -> bool) (a b : list A) : bool :=
  match a with
  | [] => is_nil b
  | x :: r => match remove_first (eqb x) b with Some b' => multiset_eqb eqb r b' | None => false end
  end.
Definition somes {A} (l : list (option A)) : list A :=
  flat_map (fun o => match o with Some x => [x] | None => [] end) l.

Definition bind {A B} (a : option A) (f : A -> option B) : option B :=
  match a with Some x => f x | None => None end.

(* a TZID that names no zone (a fixed-offset tzinfo prints as "UTC+02:00"): icalendar hands the
   value back without a zone, so it is read like a floating time *)
Definition unzone (v : dtval) : dtval := match v with DTz _ w => DFloat w | _ => v end.
Definition unresolved (v : vevent) : vevent :=
  mkVE (unzone (ve_dtstart v))
       (match ve_end v with EDtend e => EDtend (unzone e) | x => x end)
       (ve_rrule v) (map unzone (ve_exdate v))
       (ve_summary v) (ve_description v) (ve_uid v) (ve_location v).

Definition corr_item (i : fitem) : bool :=
  let st := readd (fi_item i) in
  let ve := bind st to_vevent in
  let ld := bind ve (fun v => load_vevent (if fi_named i then v else unresolved v)) in
  opt_eqb item_eqb st (fi_stored i) && opt_eqb vevent_eqb ve (fi_vevent i) &&
  opt_eqb item_eqb ld (fi_loaded i).

(* the timeline as a whole: the model's round trip over the LIST of items (each stored item
   written once and read once) gives the multiset of items the reloaded timeline stores *)
Definition model_reloaded (c : fcase) : list item :=
  somes (map (fun i => bind (bind (readd (fi_item i)) to_vevent)
                            (fun v => load_vevent (if fi_named i then v else unresolved v)))
             (fc_items c)).

Definition corr_files (c : fcase) : bool :=
  forallb corr_item (fc_items c) && multiset_eqb item_eqb (model_reloaded c) (fc_reloaded c).

(* C19 (a) on what the implementation did: each stored item came back denoting the same thing,
   the reloaded timeline stores the same items with the same multiplicities (two identical bookings
   stay two), and every probed slice of the reloaded timeline is identical *)
Definition oracle_files (c : fcase) : bool :=
  forallb (fun i => match fi_stored i, fi_loaded i with
                    | Some a, Some b => same_item a b
                    | _, _ => false
                    end) (fc_items c) &&
  multiset_eqb same_item (somes (map fi_stored (fc_items c))) (fc_reloaded c) &&
  forallb (fun s => let '(_, _, x, y) := s in slices_equal x y) (fc_slices c).

(* signatures of the recorded findings *)
Definition item_all (f : item -> bool) (c : fcase) : bool := forallb (fun i => f (fi_item i)) (fc_items c).

(* KF-OPENEND: a static event without an end *)
Definition no_open_end (c : fcase) : bool :=
  item_all (fun it => match it with Static _ None _ => false | Static None _ _ => false | _ => true end) c.

(* KF-ALLDAYUTC: an all-day static event whose bounds are not midnights UTC *)
Definition no_unaligned_allday (c : fcase) : bool :=
  item_all (fun it => match it with
                      | Static (Some s) (Some e) m => negb (m_allday m) || ((s mod DAY =? 0) && (e mod DAY =? 0))
                      | _ => true
                      end) c.

(* KF-FIXEDTZ: a pattern whose tzinfo is a fixed offset (written as a TZID no reader resolves) *)
Definition no_fixed_offset (c : fcase) : bool := forallb (fun i => fi_named i) (fc_items c).

(* KF-ALLDAYPAT: an all-day pattern that a DATE start cannot express *)
Definition no_inexpressible_allday (c : fcase) : bool :=
  item_all (fun it => match it with
                      | Pattern x m => negb (m_allday m) || writes_date (x_rule x) m
                      | _ => true
                      end) c.

(* ------------------------------------------------------------------------------------------ *)
(* part "load": file_to_timeline on VEVENT texts against a reference RFC 5545 expansion        *)
Record lcase := mkLC {
  lc_vevent : vevent;
  lc_allday : option bool;                 (* the is_all_day flag the loaded events carry *)
  lc_wins : list (Z * Z * list (Z * Z) * list (Z * Z)) }.   (* a, b, loaded.fetch(a, b), and the
                                              reference: rrulestr on the same text, durations
                                              from DTEND - DTSTART / DURATION, minus EXDATEs *)

Definition static_fetch (s e : option Z) (a b : Z) : list ivl :=
  let i := mkI s e Plain in
  if (a <? fend i) && (fstart i <=? b) then [i] else [].

Definition corr_load (c : lcase) : bool :=
  match load_vevent (lc_vevent c) with
  | Some (Pattern x _) =>
    (* (a rule so sparse that the model's search runs out of fuel — documented in DESIGN 12.5 — gives no
       verdict of the correspondence; the oracle below judges the case against the reference and the spec) *)
    forallb (fun w => let '(a, b, f, _) := w in
                      match fetch_forward (x_rule x) a b with OutOfFuel => true | r => fres_is r f end) (lc_wins c)
  | Some (Static s e _) =>
    forallb (fun w => let '(a, b, f, _) := w in ivls_eqb (static_fetch s e a b) (pis f)) (lc_wins c)
  | None => forallb (fun w => let '(_, _, f, _) := w in is_nil f) (lc_wins c)
  end &&
  match lc_allday c, load_vevent (lc_vevent c) with
  | Some fl, Some (Pattern _ m) | Some fl, Some (Static _ _ m) => Bool.eqb fl (m_allday m)
  | Some _, None => false
  | None, _ => true
  end.

(* KF-PREDTSTART: the loaded timeline reports an occurrence that starts before DTSTART *)
Definition no_pre_dtstart (c : lcase) : bool :=
  forallb (fun w => let '(_, _, f, _) := w in
                    forallb (fun p => s_instant (ve_dtstart (lc_vevent c)) <=? fst p) f) (lc_wins c).

(* the loaded timeline reports what the reference expansion (dateutil on the same text) reports,
   which is also what the VEVENT denotes by Spec/IcalSpec.v; all-day iff DTSTART is a DATE *)
Definition oracle_load (c : lcase) : bool :=
  forallb (fun w => let '(a, b, f, ref) := w in
                    pairs_eqb f ref && ivls_eqb (pis f) (rfc_occurrences (lc_vevent c) a b))
          (lc_wins c) &&
  match lc_allday c with Some fl => Bool.eqb fl (is_date (ve_dtstart (lc_vevent c))) | None => true end.
