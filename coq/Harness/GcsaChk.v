(* Harness/GcsaChk.v — correspondence and trace oracle for the Google Calendar adapter (C20),
   evaluated with vm_compute over the case files of a run.
     corr_*     the Gallina model's outputs = what the real code returned on the same history
     oracle_C20 the abstract machine of Spec/GcsaSpec.v applied to what the real code returned *)
From CG Require Export Spec.GcsaSpec Harness.CoreChk.

Record gcase := mkGC {
  g_zone : zone; g_store : list sev; g_next : N; g_fail : list nat;
  g_ops : list op; g_obs : list (out * nat) }.

Definition aev_eqb (a b : aev) : bool :=
  eid_eqb (e_id a) (e_id b) && N.eqb (e_sum a) (e_sum b) && oN_eq (e_desc a) (e_desc b) &&
  oN_eq (e_rid a) (e_rid b) && Bool.eqb (e_allday a) (e_allday b) && orem_eq (e_rem a) (e_rem b) &&
  (e_s a =? e_s b) && (e_e a =? e_e b).

Definition wres_eqb (a b : wres) : bool :=
  Bool.eqb (fst a) (fst b) &&
  match snd a, snd b with
  | None, None => true
  | Some (i, s, e, d), Some (i', s', e', d') => eid_eqb i i' && (s =? s') && (e =? e') && Bool.eqb d d'
  | _, _ => false
  end.

Definition out_eqb (a b : out) : bool :=
  match a, b with
  | ORead None, ORead None => true
  | ORead (Some x), ORead (Some y) => list_eqb aev_eqb x y
  | OWrite None, OWrite None => true
  | OWrite (Some x), OWrite (Some y) => list_eqb wres_eqb x y
  | OSkip, OSkip => true
  | _, _ => false
  end.

Definition model_run (c : gcase) : list (out * nat) :=
  run (init c.(g_zone) c.(g_store) c.(g_next) c.(g_fail)) [] c.(g_ops).

(* outputs and the number of backend calls after every operation *)
Definition corr_gcsa (c : gcase) : bool :=
  list_eqb (fun x y => out_eqb (fst x) (fst y) && Nat.eqb (snd x) (snd y)) (model_run c) c.(g_obs).
(* outputs only: histories with slices, whose sweep may stop consuming the stream early, so that
   the lazy zone lookup happens at a later operation than in the (eager) model *)
Definition corr_gcsa_out (c : gcase) : bool :=
  list_eqb (fun x y => out_eqb (fst x) (fst y)) (model_run c) c.(g_obs).

Definition oracle_C20 (c : gcase) : bool :=
  trace_ok (spec_init (a_b (init c.(g_zone) c.(g_store) c.(g_next) c.(g_fail)))) [] c.(g_fail) 0
           c.(g_ops) c.(g_obs).

(* diagnostics (replays): index of the first operation whose observation the spec rejects *)
Fixpoint trace_bad_at (s : spec_state) (hist : list out) (fail : list nat) (c0 : nat)
         (ops : list op) (obs : list (out * nat)) (k : nat) : option nat :=
  match ops, obs with
  | [], [] => None
  | o :: r, ob :: obs' =>
    match spec_step s hist fail c0 o ob with
    | Some s' => trace_bad_at s' (hist ++ [fst ob]) fail (snd ob) r obs' (S k)
    | None => Some k
    end
  | _, _ => Some k
  end.
Definition first_bad (c : gcase) : option nat :=
  trace_bad_at (spec_init (a_b (init c.(g_zone) c.(g_store) c.(g_next) c.(g_fail)))) [] c.(g_fail) 0
               c.(g_ops) c.(g_obs) 0.
Fixpoint trace_state (s : spec_state) (hist : list out) (fail : list nat) (c0 : nat)
         (ops : list op) (obs : list (out * nat)) (k : nat) : spec_state :=
  match k, ops, obs with
  | S k', o :: r, ob :: obs' =>
    match spec_step s hist fail c0 o ob with
    | Some s' => trace_state s' (hist ++ [fst ob]) fail (snd ob) r obs' k'
    | None => s
    end
  | _, _, _ => s
  end.
Definition state_before (c : gcase) (k : nat) : spec_state :=
  trace_state (spec_init (a_b (init c.(g_zone) c.(g_store) c.(g_next) c.(g_fail)))) [] c.(g_fail) 0
              c.(g_ops) c.(g_obs) k.
Definition show (l : list xev) := map (fun x => (e_id (fst x), e_s (fst x), e_e (fst x), e_allday (fst x), snd x)) l.

(* signatures of known findings: true = the case is free of the finding's trigger *)
Definition is_remove (o : op) : bool := match o with ORemove _ _ => true | _ => false end.
Definition is_rev_read (o : op) : bool :=
  match o with OFetch _ _ true => true | OSlice _ _ true => true | _ => false end.
(* N3: a master carrying EXDATE lines of its own, and some remove() *)
Definition c_noN3 (c : gcase) : bool :=
  negb (existsb (fun st => match s_rec st with
                           | Some r => match r_extra r with [] => false | _ => true end
                           | None => false end) c.(g_store)
        && existsb is_remove c.(g_ops)).
(* N5: a zero-length timed event, and some reverse read *)
Definition zero_len (st : sev) : bool :=
  negb (s_allday st) && match s_rec st, s_e st with None, Some e => e =? s_s st | _, _ => false end.
Definition c_noN5 (c : gcase) : bool :=
  negb (existsb zero_len c.(g_store) && existsb is_rev_read c.(g_ops)).
