(* Harness/CoreChk.v — check functions evaluated (vm_compute) over the generated case files:
   correspondence (model output = implementation output) and the property oracles applied to
   the implementation's output. *)
From CG Require Export Spec.Sets.

(* one slice of one expression, with what the implementation returned *)
Record scase := mkSC {
  c_env : fenv; c_expr : expr; c_a : option Z; c_b : option Z; c_rev : bool;
  c_out : list ivl }.

Definition fails {A} (f : A -> bool) (l : list A) : list nat :=
  map fst (filter (fun p => negb (f (snd p))) (combine (seq 0 (length l)) l)).

(* correspondence: model slice = implementation slice, element by element *)
Definition corr_slice (c : scase) : bool :=
  list_eqb ivl_eqb (slice c.(c_env) c.(c_expr) c.(c_a) c.(c_b) c.(c_rev)) c.(c_out).

Definition nb (c : scase) : option Z * option Z := norm_bounds c.(c_a) c.(c_b).

(* C01 *)
Definition oracle_C01 (c : scase) : bool :=
  negb (is_sexpr c.(c_expr)) ||
  cover_ok c.(c_env) c.(c_expr) (fst (nb c)) (snd (nb c)) c.(c_out).
(* Signatures of the known findings, computed on the streams the model's sweeps receive:
   D1  Difference._sweep gets a source stream with two overlapping events
   D2  Intersection._sweep gets an operand stream with two overlapping events
   D3  a sweep run in negated time gets a stream whose ends are not monotone (nested events) *)
Fixpoint mono_ends (l : list ivl) : bool :=
  match l with
  | [] => true
  | x :: r => match r with [] => true | y :: _ => (fend x <=? fend y) && mono_ends r end
  end.

Fixpoint nodes_ok (Pi Pds Pdu Pc : list ivl -> bool) (env : fenv) (e : expr) (a b : option Z)
         {struct e} : bool :=
  match e with
  | Stored _ => true
  | Solid => true
  | Union es => forallb (fun s => nodes_ok Pi Pds Pdu Pc env s a b) es
  | Inter es => forallb (fun s => nodes_ok Pi Pds Pdu Pc env s a b) es &&
                forallb (fun s => Pi (fetch env s a b false)) es
  | Diff s subs => nodes_ok Pi Pds Pdu Pc env s a b &&
                   forallb (fun u => nodes_ok Pi Pds Pdu Pc env u a b) subs &&
                   match subs with [] => true | _ =>
                     Pds (fetch env s a b false) &&
                     Pdu (merge_by lt_fwd (map (fun u => fetch env u a b false) subs)) end
  | Compl s => nodes_ok Pi Pds Pdu Pc env s a b && Pc (fetch env s a b false)
  | Filt s _ => nodes_ok Pi Pds Pdu Pc env s a b
  | Buf s before after => nodes_ok Pi Pds Pdu Pc env s (addO a (- after)) (addO b before)
  | MergeW s _ => nodes_ok Pi Pds Pdu Pc env s a b
  end.

Definition tt_ (l : list ivl) : bool := true.
Definition sliced (e : expr) (a b : option Z) : expr :=
  match a, b with None, None => e | _, _ => and_ e Solid end.
Definition sig_free (Pi Pds Pdu Pc : list ivl -> bool) env e a b : bool :=
  let '(a', b') := norm_bounds a b in nodes_ok Pi Pds Pdu Pc env (sliced e a' b') a' b'.
Definition noD1 env e a b := sig_free tt_ disjoint_list tt_ tt_ env e a b.
Definition noD2 env e a b := sig_free disjoint_list tt_ tt_ tt_ env e a b.
Definition noD3 env e a b := sig_free mono_ends mono_ends mono_ends mono_ends env e a b.

Definition c_noD1 (c : scase) := noD1 c.(c_env) c.(c_expr) c.(c_a) c.(c_b).
Definition c_noD2 (c : scase) := noD2 c.(c_env) c.(c_expr) c.(c_a) c.(c_b).
Definition c_noD3 (c : scase) := noD3 c.(c_env) c.(c_expr) c.(c_a) c.(c_b).

(* C02 / C05: result = clip of the window-independent evaluation, as multisets *)
Definition oracle_events_strong (c : scase) : bool :=
  mset_eqb c.(c_out) (expected c.(c_env) c.(c_expr) (fst (nb c)) (snd (nb c))).
(* every input: each source event's copies cover exactly its surviving part, nothing invented *)
Definition oracle_events_weak (c : scase) : bool :=
  negb (is_sexpr c.(c_expr)) ||
  events_weak_ok c.(c_env) c.(c_expr) (fst (nb c)) (snd (nb c)) c.(c_out).
Definition oracle_events (c : scase) : bool :=
  if c_noD1 c && c_noD2 c then oracle_events_strong c && oracle_events_weak c
  else oracle_events_weak c.

(* C03 *)
Definition oracle_C03 (c : scase) : bool :=
  match fst (nb c), snd (nb c) with
  | None, None => true     (* fully open slice hands fetch through; checked separately *)
  | a, b => stream_wf a b c.(c_rev) c.(c_out)
  end.

(* C06 *)
Definition oracle_C06 (c : scase) : bool :=
  negb (is_mask c.(c_expr)) || canonical (fst (nb c)) (snd (nb c)) c.(c_out).

(* pairs of slices of one expression: forward/reverse (C04), nested windows (C05) *)
Record pcase := mkPC {
  p_env : fenv; p_expr : expr;
  p_a1 : option Z; p_b1 : option Z; p_rev1 : bool; p_out1 : list ivl;
  p_a2 : option Z; p_b2 : option Z; p_rev2 : bool; p_out2 : list ivl }.

Definition corr_pair (c : pcase) : bool :=
  list_eqb ivl_eqb (slice c.(p_env) c.(p_expr) c.(p_a1) c.(p_b1) c.(p_rev1)) c.(p_out1) &&
  list_eqb ivl_eqb (slice c.(p_env) c.(p_expr) c.(p_a2) c.(p_b2) c.(p_rev2)) c.(p_out2).

(* C04: out2 (reverse) is a permutation of out1 (forward), newest first *)
Definition oracle_C04 (c : pcase) : bool :=
  mset_eqb c.(p_out1) c.(p_out2) && sorted_by Z.geb c.(p_out2).

(* C05: window 2 nested in window 1: out2 = clip of out1 *)
Definition oracle_C05 (c : pcase) : bool :=
  mset_eqb c.(p_out2) (flat_map (clipW c.(p_a2) c.(p_b2)) c.(p_out1)).

Definition p_noD1 (c : pcase) := noD1 c.(p_env) c.(p_expr) c.(p_a1) c.(p_b1) && noD1 c.(p_env) c.(p_expr) c.(p_a2) c.(p_b2).
Definition p_noD2 (c : pcase) := noD2 c.(p_env) c.(p_expr) c.(p_a1) c.(p_b1) && noD2 c.(p_env) c.(p_expr) c.(p_a2) c.(p_b2).
Definition p_noD3 (c : pcase) := noD3 c.(p_env) c.(p_expr) c.(p_a1) c.(p_b1) && noD3 c.(p_env) c.(p_expr) c.(p_a2) c.(p_b2).
