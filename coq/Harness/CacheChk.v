(* Harness/CacheChk.v — correspondence and trace oracles for the cache (C09, C10). *)
From CG Require Export Model.Cache Spec.Sets Harness.CoreChk.

Record kcase := mkK {
  k_masked : bool; k_ttl : Z; k_tick : Z; k_t0 : Z;
  k_evs : list ivl;                       (* source events, ids = key * KEYMOD *)
  k_ops : list cop;
  k_outs : list (list ivl);               (* implementation: list(cached.fetch(a,b,reverse)) per query *)
  k_logs : list (list (Z * Z * Z));       (* implementation: source fetches per query (clock, start, end) *)
  k_evt : list Z }.                       (* implementation: clock reading of each query's eviction pass *)

Fixpoint zip_all {A B} (f : A -> B -> bool) (l1 : list A) (l2 : list B) : bool :=
  match l1, l2 with
  | [], [] => true
  | x :: r, y :: s => f x y && zip_all f r s
  | _, _ => false
  end.

Definition z3_eqb (x y : Z * Z * Z) : bool :=
  let '(a, b, c) := x in let '(a', b', c') := y in (a =? a') && (b =? b') && (c =? c').

Definition corr_cache (c : kcase) : bool :=
  let r := crun_all c.(k_masked) c.(k_ttl) c.(k_tick) c.(k_t0) c.(k_evs) c.(k_ops) in
  (* the order among fragments with equal (start, end) depends on the iteration order of a Python
     set of keys in _stitch_at: results are compared as multisets here, their order is checked
     by the oracle *)
  zip_all mset_eqb (r_outs r) c.(k_outs) &&
  list_eqb (list_eqb z3_eqb) (r_logs r) c.(k_logs) &&
  list_eqb Z.eqb (r_evt r) c.(k_evt).

(* the queries of a history, with the source version current at each *)
Fixpoint queries_of (ops : list cop) (v : N) : list (Z * Z * bool * N) :=
  match ops with
  | [] => []
  | CQuery a b rv :: r => (a, b, rv, v) :: queries_of r v
  | CAdvance _ :: r => queries_of r v
  | CMutate :: r => queries_of r (N.succ v)
  end.

(* ---- C09: each slice of the cached timeline = the same slice of the (static) source ---- *)
Definition c09_one (masked : bool) (evs : list ivl) (q : Z * Z * bool * N) (out : list ivl) : bool :=
  let '(a, b, rv, v) := q in
  let src := map (retag v) (filter pos_len evs) in
  let got := flat_map (clipW (Some a) (Some b)) out in
  let want := flat_map (clipW (Some a) (Some b)) src in
  sorted_by (if rv then Z.geb else Z.leb) out &&
  if masked then
    agree_on (a :: b :: ends_of src ++ ends_of out) (covers got) (covers want)
  else mset_eqb got want.

Definition has_mutation (ops : list cop) : bool :=
  existsb (fun o => match o with CMutate => true | _ => false end) ops.

Definition oracle_C09 (c : kcase) : bool :=
  has_mutation c.(k_ops) ||
  zip_all (c09_one c.(k_masked) c.(k_evs)) (queries_of c.(k_ops) 0%N) c.(k_outs).

(* ---- C10: TTL ---- *)
(* all source fetches made up to and including query k, as (clock, start, end, version) *)
Fixpoint fetches_upto (qs : list (Z * Z * bool * N)) (logs : list (list (Z * Z * Z))) (k : nat)
  : list (Z * Z * Z * N) :=
  match k, qs, logs with
  | S k', (_, _, _, v) :: qr, lg :: lr =>
    map (fun f => (f, v)) lg ++ fetches_upto qr lr k'
  | _, _, _ => []
  end.

Definition ver_of (i : ivl) : N := match pl i with Rich id => N.modulo id KEYMOD | Plain => 0%N end.

(* economy of query k: fetches confined to the window, pairwise disjoint, and disjoint from every
   earlier fetch that is still fresh at this query's eviction reading *)
Definition economy_one (ttl : Z) (q : Z * Z * bool * N) (lg : list (Z * Z * Z)) (ev : Z)
           (earlier : list (Z * Z * Z * N)) : bool :=
  let '(a, b, _, _) := q in
  forallb (fun f => let '(t, gs, ge) := f in (a <=? gs) && (gs <? ge) && (ge <=? b) && (ev <=? t)) lg &&
  forallb (fun f => let '(_, gs, ge) := f in
                    forallb (fun g => let '(t', gs', ge', _) := g in
                                      negb (ev <? t' + ttl) ||                       (* expired: may be refetched *)
                                      negb (Z.max gs gs' <? Z.min ge ge'))            (* fresh: never overlapped *)
                            earlier) lg &&
  (fix pairwise (l : list (Z * Z * Z)) : bool :=
     match l with
     | [] => true
     | (_, gs, ge) :: r => forallb (fun g => let '(_, gs', ge') := g in negb (Z.max gs gs' <? Z.min ge ge')) r && pairwise r
     end) lg.

(* staleness of query k: every instant of every result fragment inside the window is backed by
   a fetch of that fragment's version made less than ttl before this query's clock reading *)
Definition fresh_one (masked : bool) (ttl : Z) (evs : list ivl) (q : Z * Z * bool * N) (out : list ivl) (ev : Z)
           (upto : list (Z * Z * Z * N)) : bool :=
  let '(a, b, _, _) := q in
  forallb (fun r =>
             let lo := Z.max (fstart r) a in let hi := Z.min (fend r) b in
             let pts := lo :: flat_map (fun g => let '(_, gs, ge, _) := g in [gs; ge]) upto in
             forallb (fun t =>
                        negb ((lo <=? t) && (t <? hi)) ||
                        existsb (fun g => let '(t', gs, ge, v) := g in
                                          (gs <=? t) && (t <? ge) && (ev <? t' + ttl)) upto)
                     pts &&
             (* the fragment's content (its version) comes from a fetch made less than ttl ago
                whose range reached the source event *)
             (masked ||
              existsb (fun g => let '(t', gs, ge, v) := g in
                                (ev <? t' + ttl) && N.eqb v (ver_of r) &&
                                existsb (fun x => okey_eqb (key_of x) (key_of r) &&
                                                  (Z.max (fstart x) gs <? Z.min (fend x) ge)) evs) upto))
          out.

Fixpoint c10_all (masked : bool) (ttl : Z) (evs : list ivl) (qs : list (Z * Z * bool * N)) (outs : list (list ivl))
         (logs : list (list (Z * Z * Z))) (evt : list Z) (allq : list (Z * Z * bool * N))
         (alllogs : list (list (Z * Z * Z))) (k : nat) : bool :=
  match qs, outs, logs, evt with
  | q :: qr, o :: or, lg :: lr, ev :: er =>
    economy_one ttl q lg ev (fetches_upto allq alllogs k) &&
    fresh_one masked ttl evs q o ev (fetches_upto allq alllogs (S k)) &&
    c10_all masked ttl evs qr or lr er allq alllogs (S k)
  | [], [], [], [] => true
  | _, _, _, _ => false
  end.

Definition oracle_C10 (c : kcase) : bool :=
  let qs := queries_of c.(k_ops) 0%N in
  c10_all c.(k_masked) c.(k_ttl) c.(k_evs) qs c.(k_outs) c.(k_logs) c.(k_evt) qs c.(k_logs) 0.
