(* Harness/MoreChk.v — check functions for raw fetches (C17), overlapping(point) (C16) and
   filter evaluation (C18). *)
From CG Require Export Harness.CoreChk Spec.TransformSpec.

(* a raw fetch (no window clipping) *)
Record fcase := mkFC {
  f_env : fenv; f_expr : expr; f_a : option Z; f_b : option Z; f_rev : bool; f_out : list ivl }.

Definition corr_fetch (c : fcase) : bool :=
  list_eqb ivl_eqb (fetch c.(f_env) c.(f_expr) c.(f_a) c.(f_b) c.(f_rev)) c.(f_out).

(* C17 merge_within: f_expr = MergeW s g; the source stream is what the model's source
   returns for the window *)
Definition oracle_mw (c : fcase) : bool :=
  match c.(f_expr) with
  | MergeW s g =>
    let src := fetch c.(f_env) s c.(f_a) c.(f_b) false in
    let out := if c.(f_rev) then rev c.(f_out) else c.(f_out) in
    mw_spec_ok g src out
  | _ => true
  end.
Definition f_noD1 (c : fcase) := nodes_ok tt_ disjoint_list tt_ tt_ c.(f_env) c.(f_expr) c.(f_a) c.(f_b).
Definition f_noD2 (c : fcase) := nodes_ok disjoint_list tt_ tt_ tt_ c.(f_env) c.(f_expr) c.(f_a) c.(f_b).

(* C16 overlapping(point) *)
Record ocase := mkOC { o_env : fenv; o_expr : expr; o_p : Z; o_out : list ivl }.
Definition corr_ov (c : ocase) : bool :=
  list_eqb ivl_eqb (overlapping c.(o_env) c.(o_expr) c.(o_p)) c.(o_out).
Definition oracle_C16 (c : ocase) : bool :=
  mset_eqb c.(o_out) (ov_expected c.(o_env) c.(o_expr) c.(o_p)).
(* signatures, on the unbounded streams *)
Definition o_noD1 (c : ocase) := nodes_ok tt_ disjoint_list tt_ tt_ c.(o_env) c.(o_expr) None None.
Definition o_noD2 (c : ocase) := nodes_ok disjoint_list tt_ tt_ tt_ c.(o_env) c.(o_expr) None None.
Definition o_noD3 (c : ocase) := nodes_ok mono_ends mono_ends mono_ends mono_ends c.(o_env) c.(o_expr) None None.

(* C18 filter evaluation on single events *)
Record acase := mkAC { a_env : fenv; a_f : filt; a_ev : ivl; a_out : bool }.
Definition corr_apply (c : acase) : bool := Bool.eqb (feval c.(a_env) c.(a_f) c.(a_ev)) c.(a_out).
