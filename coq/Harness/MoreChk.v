(* Harness/MoreChk.v — check functions for raw fetches (C17), overlapping(point) (C16) and
   filter evaluation (C18). *)
From CG Require Export Harness.CoreChk Spec.TransformSpec.

(* a raw fetch (no window clipping) *)
Record fcase := mkFC {
  f_env : fenv; f_expr : expr; f_a : option Z; f_b : option Z; f_rev : bool; f_out : list ivl }.

Definition corr_fetch (c : fcase) : bool :=
  list_eqb ivl_eqb (fetch c.(f_env) c.(f_expr) c.(f_a) c.(f_b) c.(f_rev)) c.(f_out).

(* C17 merge_within: f_expr = MergeW s g; the source stream is what the model's source
   returns for the window *)
Definition oracle_mw (c : fcase) : bool :=
  match c.(f_expr) with
  | MergeW s g =>
    let src := fetch c.(f_env) s c.(f_a) c.(f_b) false in
    let out := if c.(f_rev) then rev c.(f_out) else c.(f_out) in
    mw_spec_ok g src out
  | _ => true
  end.
Definition f_noD1 (c : fcase) := nodes_ok tt_ disjoint_list tt_ tt_ c.(f_env) c.(f_expr) c.(f_a) c.(f_b).
Definition f_noD2 (c : fcase) := nodes_ok disjoint_list tt_ tt_ tt_ c.(f_env) c.(f_expr) c.(f_a) c.(f_b).

(* C16 overlapping(point) *)
Record ocase := mkOC { o_env : fenv; o_expr : expr; o_p : Z; o_out : list ivl }.
Definition corr_ov (c : ocase) : bool :=
  list_eqb ivl_eqb (overlapping c.(o_env) c.(o_expr) c.(o_p)) c.(o_out).
Definition oracle_C16 (c : ocase) : bool :=
  mset_eqb c.(o_out) (ov_expected c.(o_env) c.(o_expr) c.(o_p)).
(* signatures, on the unbounded streams *)
Definition o_noD1 (c : ocase) := nodes_ok tt_ disjoint_list tt_ tt_ c.(o_env) c.(o_expr) None None.
Definition o_noD2 (c : ocase) := nodes_ok disjoint_list tt_ tt_ tt_ c.(o_env) c.(o_expr) None None.
Definition o_noD3 (c : ocase) := nodes_ok mono_ends mono_ends mono_ends mono_ends c.(o_env) c.(o_expr) None None.

(* signature OVC: overlapping() is asked of a Union / Intersection / Filter / Buffer / merge_within
   node that has a Complement or a (real) Difference somewhere below it.  Those nodes do not
   override Timeline.overlapping: they answer from fetch(p, p+1), so the complement / difference
   below them is evaluated on the clipped window [p, p+1) — gaps come back clipped, fragments are
   carved only by the subtractors meeting [p, p+1) (known finding KF-OVCLIP-C16).  A Difference
   asks its source's overlapping(); a Complement works from its source's fetch. *)
Fixpoint has_cd (e : expr) {struct e} : bool :=
  match e with
  | Stored _ | Solid => false
  | Union es | Inter es => existsb has_cd es
  | Diff s subs => match subs with [] => has_cd s | _ => true end
  | Compl _ => true
  | Filt s _ | Buf s _ _ | MergeW s _ => has_cd s
  end.
Fixpoint ovc_free (e : expr) {struct e} : bool :=
  match e with
  | Stored _ | Solid => true
  | Union es | Inter es => negb (existsb has_cd es)
  | Filt s _ | Buf s _ _ | MergeW s _ => negb (has_cd s)
  | Diff s _ => ovc_free s
  | Compl _ => true
  end.
Definition o_noOVC (c : ocase) := ovc_free c.(o_expr).

(* C18 filter evaluation on single events *)
Record acase := mkAC { a_env : fenv; a_f : filt; a_ev : ivl; a_out : bool }.
Definition corr_apply (c : acase) : bool := Bool.eqb (feval c.(a_env) c.(a_f) c.(a_ev)) c.(a_out).
