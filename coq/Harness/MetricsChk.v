(* Harness/MetricsChk.v — correspondence and oracle for the metrics (C13).

   What the harness records from the implementation (harness/props_metrics.py):
     m_a, m_b     calgebra.metrics._coerce_bound(start, tz), _coerce_bound(end, tz)
     m_wins       calgebra.metrics._period_windows_with_dt(m_a, m_b, period, tz) as
                  (naive wall clock of the label datetime in seconds, win_start, win_end)
     m_ints       result of total_duration / count_intervals: (label, value); a date label is its day
                  number (date.toordinal() - 719163), an hourly datetime label its naive wall clock in
                  seconds, a group_by label the key
     m_rats       result of coverage_ratio: (label, float.as_integer_ratio())
     m_ivls       result of max_duration / min_duration: (label, interval or None)
   coverage_ratio returns floats.  The model and the spec compute the exact rational total/span; the
   float returned is accepted iff its exact value (as_integer_ratio) is within relative error 2^-53 of
   that rational, which is what a correctly rounded int/int division yields (Spec rat_close); CPython's
   true division of ints is trusted to be correctly rounded, nothing else about floats is. *)
From CG Require Export Model.Metrics Spec.MetricsSpec Harness.CoreChk.

Record mcase := mkM {
  m_zone : zone; m_evs : list ivl; m_fn : fn; m_start : bound; m_end : bound;
  m_period : period; m_group : option groupby;
  m_a : Z; m_b : Z; m_wins : list win;
  m_ints : list (Z * Z); m_rats : list (Z * (Z * Z)); m_ivls : list (Z * option ivl) }.

Definition win_eqb (x y : win) : bool :=
  let '(l, s, e) := x in let '(l', s', e') := y in (l =? l') && (s =? s') && (e =? e').
Definition zz_eq (x y : Z * Z) : bool := (fst x =? fst y) && (snd x =? snd y).
Definition oivl_eqb (x y : option ivl) : bool :=
  match x, y with Some i, Some j => ivl_eqb i j | None, None => true | _, _ => false end.

(* ---- correspondence: model = implementation ---- *)
Definition corr_bounds (c : mcase) : bool :=
  (coerce_bound c.(m_zone) c.(m_start) =? c.(m_a)) && (coerce_bound c.(m_zone) c.(m_end) =? c.(m_b)).

Definition corr_windows (c : mcase) : bool :=
  match period_windows_dt c.(m_zone) c.(m_a) c.(m_b) c.(m_period) with
  | Some ws => list_eqb win_eqb ws c.(m_wins)
  | None => false
  end.

Definition corr_result (c : mcase) : bool :=
  match metrics_run c.(m_zone) (Stored c.(m_evs)) c.(m_fn) c.(m_start) c.(m_end) c.(m_period) c.(m_group) with
  | RInts l => list_eqb zz_eq l c.(m_ints)
  | RRats l => zip_ok (fun x y => (fst x =? fst y) &&
                                  rat_close (fst (snd x)) (snd (snd x)) (fst (snd y)) (snd (snd y))) l c.(m_rats)
  | RIvls l => list_eqb (fun x y => (fst x =? fst y) && oivl_eqb (snd x) (snd y)) l c.(m_ivls)
  | RValueError => false
  | RFuel => false
  end.

Definition corr_metrics (c : mcase) : bool := corr_bounds c && corr_windows c && corr_result c.

(* ---- oracle: the spec applied to what the implementation returned ---- *)
Definition oracle_windows (c : mcase) : bool :=
  bound_ok c.(m_zone) c.(m_start) c.(m_a) && bound_ok c.(m_zone) c.(m_end) c.(m_b) &&
  windows_ok c.(m_zone) c.(m_period) c.(m_a) c.(m_b) c.(m_wins).

Definition oracle_values (c : mcase) : bool :=
  let evs := c.(m_evs) in let a := c.(m_a) in let b := c.(m_b) in
  let ws := c.(m_wins) in let p := c.(m_period) in
  match c.(m_fn), c.(m_group) with
  | FTotal, None => rows_int_ok p (spec_total evs a b) ws c.(m_ints) && additive_ok evs a b c.(m_ints)
  | FTotal, Some g => buckets_int_ok g (spec_total evs a b) ws c.(m_ints) && additive_ok evs a b c.(m_ints)
  | FCount, None => rows_int_ok p (spec_count evs a b) ws c.(m_ints)
  | FCount, Some g => buckets_int_ok g (spec_count evs a b) ws c.(m_ints)
  | FRatio, None => rows_rat_ok p evs a b ws c.(m_rats)
  | FRatio, Some g => buckets_rat_ok g evs a b ws c.(m_rats)
  | FMax, _ => rows_ivl_ok p true evs a b ws c.(m_ivls)
  | FMin, _ => rows_ivl_ok p false evs a b ws c.(m_ivls)
  end.

Definition oracle_C13 (c : mcase) : bool := oracle_windows c && oracle_values c.

(* ---- signatures of the known findings (zone / period combinations on which the stepping is wrong) ----
   A transition from offset o1 to o2 at instant T makes the wall clock stretch between T + min o1 o2 and
   T + max o1 o2 either skipped (o2 > o1) or repeated (o2 < o1).
     M1  the stretch is longer than the hourly step (e.g. Antarctica/Troll, 2 h)
     M2  a boundary of the stepped period lies strictly inside the stretch (Pacific/Chatham 02:45,
         America/St_Johns 00:01 before 2011-11)
     M3  the query range ends exactly at a transition instant and the wall clock there is a period boundary.
         The loop test "current < end_dt" compares wall clocks, not instants:
         - clock set forward over a stretch beginning on a period boundary and shorter than the period
           (end=date(d) when the local midnight of d is skipped: America/Havana, Africa/Cairo,
           Asia/Kathmandu 1986): one more period, lying entirely after the range, is returned;
         - clock set back to a period boundary (end = 01:00 standard time on the day DST ends): the last
           period of the range (the first pass of the repeated hour) is not returned at all
   Only transitions near the windows (one period on each side of the query range) count for M1, M2. *)
Definition unit_of (p : period) : Z :=
  match p with PHour => 3600 | _ => DAY end.
Definition margin_of (p : period) : Z :=
  match p with PHour => 2 * 3600 | PDay => 2 * DAY | PWeek => 8 * DAY | PMonth => 32 * DAY | PYear => 367 * DAY
             | PFull => 0 end.

Fixpoint trans_sig (f : Z -> Z -> Z -> bool) (cur : Z) (tr : list (Z * Z)) : bool :=
  match tr with
  | [] => false
  | (T, o) :: r => f T cur o || trans_sig f o r
  end.

Definition near (c : mcase) (T : Z) : bool :=
  (c.(m_a) - margin_of c.(m_period) - DAY <=? T) && (T <=? c.(m_b) + margin_of c.(m_period) + DAY).

(* a multiple of u strictly between lo and hi *)
Definition boundary_inside (u lo hi : Z) : bool := (lo / u + 1) * u <? hi.

Definition has_M1 (c : mcase) : bool :=
  match c.(m_period) with
  | PHour => trans_sig (fun T o1 o2 => near c T && (3600 <? Z.abs (o2 - o1))) (off0 c.(m_zone)) (trans c.(m_zone))
  | _ => false
  end.
Definition has_M2 (c : mcase) : bool :=
  match c.(m_period) with
  | PFull => false
  | p => trans_sig (fun T o1 o2 => near c T &&
                                   boundary_inside (unit_of p) (T + Z.min o1 o2) (T + Z.max o1 o2))
                   (off0 c.(m_zone)) (trans c.(m_zone))
  end.
Definition has_M3 (c : mcase) : bool :=
  match c.(m_period) with
  | PFull => false
  | p => (c.(m_a) <? c.(m_b)) &&
         trans_sig (fun T o1 o2 => (T =? c.(m_b)) &&
                                   (((o1 <? o2) && (o2 - o1 <? unit_of p) && ((T + o1) mod unit_of p =? 0)) ||
                                    ((o2 <? o1) && ((T + o2) mod unit_of p =? 0))))
                   (off0 c.(m_zone)) (trans c.(m_zone))
  end.
Definition c_noM1 (c : mcase) : bool := negb (has_M1 c).
Definition c_noM2 (c : mcase) : bool := negb (has_M2 c).
Definition c_noM3 (c : mcase) : bool := negb (has_M3 c).
