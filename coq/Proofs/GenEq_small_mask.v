(* Proofs/GenEq_small_mask.v — tie C, third extension (tag "small"), the part for C06: the `_is_mask`
   property of every timeline class, as generated from its source text (Gen/Source.v), against is_mask of
   Model/Expr.v.  A class without its own `_is_mask` (MemoryTimeline, _Buffered, _MergedWithin) uses
   Timeline._is_mask: its generated definition is that text, translated only while the class lacks the
   name (spec "facts": the translation fails closed otherwise).  `x._is_mask` on an operand is the function
   parameter tl_is_mask; [src_is_mask] ties the knot: the mask flag of an expression computed ONLY with the
   generated definitions. *)
From CG Require Import Model.Slice Model.Cache Model.Loop Model.Small Gen.Source.

Fixpoint src_is_mask (e : expr) : bool :=
  match e with
  | Stored _ => g_memory_is_mask
  | Solid => g_solid_is_mask
  | Union es => g_union_is_mask es src_is_mask
  | Inter es => g_intersection_is_mask es src_is_mask
  | Diff s _ => g_difference_is_mask s src_is_mask
  | Compl _ => g_complement_is_mask
  | Filt s _ => g_filtered_is_mask s src_is_mask
  | Buf _ _ _ => g_buffered_is_mask
  | MergeW _ _ => g_merged_is_mask
  end.

(* HEADLINE: the model's is_mask is what the code's `_is_mask` properties compute *)
Theorem is_mask_is_source : forall e, src_is_mask e = is_mask e.
Proof.
  (* the two fixpoints have the same shape and, arm by arm, the generated definitions unfold to the model's
     arms: the kernel's conversion checks it (it stops doing so as soon as one `_is_mask` changes) *)
  reflexivity.
Qed.
Print Assumptions is_mask_is_source.

(* class by class, with the operands' flags given by the model *)
Theorem g_is_mask_eqs :
  g_base_is_mask = false /\ g_solid_is_mask = true /\ g_complement_is_mask = true /\
  g_memory_is_mask = false /\ g_buffered_is_mask = false /\ g_merged_is_mask = false /\
  (forall es, g_union_is_mask es is_mask = is_mask (Union es)) /\
  (forall es, g_intersection_is_mask es is_mask = is_mask (Inter es)) /\
  (forall s subs, g_difference_is_mask s is_mask = is_mask (Diff s subs)) /\
  (forall s f, g_filtered_is_mask s is_mask = is_mask (Filt s f)).
Proof.
  repeat split; reflexivity.
Qed.
Print Assumptions g_is_mask_eqs.

(* the emit-index selection of Intersection.fetch reads these flags: `solid` (the clipping operand of
   __getitem__) is a mask, so a slice keeps the events of the timeline and not the window *)
Theorem solid_is_mask_source : src_is_mask Solid = true.
Proof. reflexivity. Qed.

(* flatten(t) is a mask whatever t is; buffer / merge_within never are; a union is a mask iff all its
   operands are *)
Theorem src_mask_facts : forall e b a g,
  src_is_mask (flatten_ e) = true /\ src_is_mask (Buf e b a) = false /\ src_is_mask (MergeW e g) = false /\
  (forall es, src_is_mask (Union es) = forallb src_is_mask es).
Proof. intros. repeat split. Qed.

Example mask_examples :
  let ev := Stored [mkI (Some 1) (Some 2) (Rich 1)] in
  src_is_mask (Inter [ev; Solid]) = false /\ src_is_mask (Inter [Compl ev; Solid]) = true /\
  src_is_mask (Diff Solid [ev]) = true /\ src_is_mask (Diff ev [Solid]) = false /\
  src_is_mask (Filt (Compl ev) (FAnd [])) = true /\ src_is_mask (Union []) = true.
Proof. cbv zeta. repeat split. Qed.
