(* Proofs/GenEq_gcsa6.v — tie C for calgebra/gcsa.py (tag gcsa), part 6: the dispatchers
     M. g_gcsa_fetch                    Calendar.fetch           = Model/Gcsa.v fetch
     N. g_gcsa_add_interval             Calendar._add_interval   = add_interval (over the generated
                                        _prepare_event_for_add / _build_gcsa_event / _build_result_event)
     O. g_gcsa_add_many                 Calendar._add_many       = add_many (the batch being one call)
     P. g_gcsa_add_many_batch_results   the final statement of _add_many_batch: results in input order *)
From CG Require Import Model.Loop Gen.Source Model.Gcsa.
From CG Require Proofs.GcsaP Proofs.GenEq_gcsa Proofs.GenEq_gcsa2 Proofs.GenEq_gcsa3.
From Coq Require Import ZArith List Bool Lia ZifyBool.
Import ListNotations.
Local Open Scope Z_scope.
Import GenEq_gcsa GenEq_gcsa2 GenEq_gcsa3.

(* ========================================================================================== *)
(* M. Calendar.fetch *)
Theorem g_gcsa_fetch_eq {A} (ff fr : option Z -> option Z -> list A) lo hi (rv : bool) :
  g_gcsa_fetch ff fr lo hi rv = if rv then fr lo hi else ff lo hi.
Proof. reflexivity. Qed.
Print Assumptions g_gcsa_fetch_eq.

(* over the generated forward and reverse fetches, on a quiet state (zone fetched, no failure scheduled) *)
Definition src_reverse_list (ffw : option Z -> option Z -> list aev) (lo hi : option Z) : list aev :=
  match hi with
  | Some h =>
    let start := match lo with Some s => s | None => h - 365 * DAY end in
    match g_gcsa_fetch_reverse (Z.to_nat ((h - start) / WINDOW + 2)) ffw e_s lo hi with RDone l => l | _ => [] end
  | None => []
  end.

Theorem src_fetch_is_model (z : zone) (st : list sev) (ctz : option zone) (a : astate) (lo : option Z) (h : Z) (rv : bool) :
  quiet z st ctz a ->
  let ffw := src_fetch_forward (mkBS z st 0 0 []) ctz in
  snd (fetch a lo (Some h) rv) = Some (g_gcsa_fetch ffw (src_reverse_list ffw) lo (Some h) rv).
Proof.
  intros Hq ffw. rewrite g_gcsa_fetch_eq. unfold fetch. destruct rv.
  - pose proof (src_fetch_reverse_is_model z st ctz a lo h Hq) as H. cbv zeta in H.
    unfold src_reverse_list. fold ffw in H.
    destruct (g_gcsa_fetch_reverse _ ffw e_s lo (Some h)); try contradiction. exact H.
  - destruct (quiet_pages z st ctz a lo (Some h) Hq) as [a' [E _]]. rewrite E. reflexivity.
Qed.
Print Assumptions src_fetch_is_model.

(* ========================================================================================== *)
(* N. Calendar._add_interval *)
Definition pw_is_write_result (p : pw) : bool := match p with PWPrepared _ _ _ _ _ _ => false | _ => true end.
Definition wrs_of_pw (p : pw) : list wres := match p with PWResult r => [r] | _ => [failed] end.

Definition src_add_interval (add_event : wreq -> option N) (ctz : option zone) (w : wev) : list wres :=
  g_gcsa_add_interval (MD := unit) (fun w _ _ ctz => src_prepare ctz w) pw_is_write_result wrs_of_pw
    src_build_gcsa_event add_event (fun c => match c with Some _ => true | None => false end)
    (fun c => match c with Some n => n | None => 0%N end) [failed]
    src_build_result_event (fun r => [r]) tt tt ctz w tt.

Theorem g_gcsa_add_interval_eq (add_event : wreq -> option N) (ctz : option zone) (w : wev) :
  src_add_interval add_event ctz w =
  match add_event (prepare ctz w) with
  | Some id => [(true, Some (EId id, v_s w, v_e w, q_allday (prepare ctz w)))]
  | None => [failed]
  end.
Proof.
  unfold src_add_interval, g_gcsa_add_interval. cbv zeta.
  rewrite g_gcsa_prepare_build_eq.
  assert (Hp : pw_is_write_result (src_prepare ctz w) = false).
  { rewrite g_gcsa_prepare_event_for_add_eq. reflexivity. }
  rewrite Hp. destruct (add_event (prepare ctz w)) as [id|]; cbn [negb]; [|reflexivity].
  rewrite g_gcsa_build_result_event_eq. reflexivity.
Qed.
Print Assumptions g_gcsa_add_interval_eq.

Theorem src_add_interval_full_is_model (a : astate) (ctz : option zone) (w : wev) :
  a_tz a = Some ctz -> snd (tick (a_b a)) = true ->
  snd (add_interval a w) = src_add_interval (fun q => snd (b_store (fst (tick (a_b a))) q)) ctz w.
Proof.
  intros Htz Hok. rewrite g_gcsa_add_interval_eq.
  unfold add_interval, cal_tz. rewrite Htz. cbv zeta.
  destruct (tick (a_b a)) as [b2 ok]. cbn [fst snd] in *. subst ok.
  destruct (b_store b2 (prepare ctz w)) as [b3 [id|]]; reflexivity.
Qed.
Print Assumptions src_add_interval_full_is_model.

(* ========================================================================================== *)
(* O. Calendar._add_many: nothing for no events; otherwise what the batch returns, or one failed
   result per event when it raised *)
Theorem g_gcsa_add_many_eq {I MD WR EXC : Type} (batch : list I -> list WR + EXC) (wr_error : EXC -> WR)
        (l : list I) (md : MD) :
  g_gcsa_add_many batch wr_error l md =
  RDone (match l with
         | [] => []
         | _ => match batch l with inl v => v | inr e => map (fun _ => wr_error e) l end
         end).
Proof.
  unfold g_gcsa_add_many. cbv zeta. destruct l as [|x r]; cbn [nonempty negb]; [reflexivity|].
  destruct (batch (x :: r)); reflexivity.
Qed.
Print Assumptions g_gcsa_add_many_eq.

(* the model's batch as one call: inr = an exception escaped while it was built or executed *)
Definition model_batch (a : astate) (l : list wev) : list wres + unit :=
  let '(b1, ok1) := tick (a_b a) in
  if negb ok1 then inr tt else
  match build_batch (with_b a b1) l [] with
  | (a2, None) => inr tt
  | (a2, Some reqs) =>
    let '(b3, ok3) := tick (a_b a2) in
    if negb ok3 then inr tt else inl (snd (exec_batch b3 reqs))
  end.

Theorem src_add_many_is_model (a : astate) (l : list wev) :
  g_gcsa_add_many (model_batch a) (fun _ => failed) l tt = RDone (snd (add_many a l)).
Proof.
  rewrite g_gcsa_add_many_eq. f_equal. unfold add_many, model_batch.
  destruct l as [|x r]; [reflexivity|].
  destruct (tick (a_b a)) as [b1 ok1]. destruct ok1; cbn [negb]; [|reflexivity].
  destruct (build_batch (with_b a b1) (x :: r) []) as [a2 [reqs|]]; [|reflexivity].
  destruct (tick (a_b a2)) as [b3 ok3]. destruct ok3; cbn [negb]; [|reflexivity].
  destruct (exec_batch b3 reqs). reflexivity.
Qed.
Print Assumptions src_add_many_is_model.

(* ========================================================================================== *)
(* P. the last statement of _add_many_batch: [results.get(str(i), Missing) for i in range(len(events_list))]
   — with the results held by position, the list comes back in the order of the input events *)
Lemma map_nth_seq {A} (d : A) : forall l : list A, map (fun k => nth k l d) (seq 0 (length l)) = l.
Proof.
  induction l as [|a l IH]; [reflexivity|].
  cbn [length seq map nth]. f_equal. rewrite <- seq_shift, map_map. exact IH.
Qed.

Theorem g_gcsa_add_many_batch_results_eq {I WR : Type} (missing : WR) (results : list WR) (events : list I) :
  length results = length events ->
  g_gcsa_add_many_batch_results (fun d i => nth (Z.to_nat i) d missing) results events = results.
Proof.
  intros Hlen. unfold g_gcsa_add_many_batch_results, zrange.
  rewrite Nat2Z.id, map_map, <- Hlen.
  rewrite <- (map_nth_seq missing results) at 2.
  apply map_ext. intros k. rewrite Nat2Z.id. reflexivity.
Qed.
Print Assumptions g_gcsa_add_many_batch_results_eq.

(* an id the callback never filled in gives the "Missing" result at that position, the others keep theirs *)
Example add_many_batch_results_example :
  g_gcsa_add_many_batch_results (IVLX := unit)
    (fun (d : list (Z * N)) i => match find (fun kv => fst kv =? i) d with Some kv => Some (snd kv) | None => None end)
    [(2, 30%N); (0, 10%N)] [tt; tt; tt]
  = [Some 10%N; None; Some 30%N].
Proof. reflexivity. Qed.
