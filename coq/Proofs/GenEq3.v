(* Proofs/GenEq3.v — tie C for calgebra/cache.py: the definitions generated from the source text of
   CachedTimeline._purge_sink, the clipping loop of _fill_gap and _evict_expired (Gen/Source.v)
   equal the model functions of Model/Cache.v the C09 / C10 theorems are stated about.
   self._sink / self._cover / self._expiry_heap are state variables; SortedList.add / remove and
   MemoryTimeline.fetch on a store without recurring patterns are the library models sl_add,
   sl_remove, fetch_static. *)
From CG Require Import Model.Loop Gen.Source Model.Cache Proofs.CacheInv.
From Coq Require Import Lia Permutation.

(* ---- generic facts about the loop combinators of Model/Loop.v ---- *)
(* a `for` loop of a procedure whose body always falls through is a left fold *)
Lemma iter_for_fold {S A R : Type} (body : S -> A -> step S R) (post : S -> R) (f : S -> A -> S) :
  (forall s x, body s x = SCont (f s x)) ->
  forall xs s, iter_for body post s xs = post (fold_left f xs s).
Proof.
  intros Hb. induction xs as [|x r IH]; intro s; cbn [iter_for fold_left]; [reflexivity|].
  rewrite Hb. apply IH.
Qed.

(* a `for` loop of a generator whose body always falls through and keeps no state *)
Lemma run_for_flat_map {A B : Type} (body : unit -> A -> list B * unit * ctl) (post : unit -> list B)
      (f : A -> list B) :
  (forall x, body tt x = (f x, tt, Cont)) ->
  forall xs, run_for body post tt xs = flat_map f xs ++ post tt.
Proof.
  intros Hb. induction xs as [|x r IH]; cbn [run_for flat_map]; [reflexivity|].
  rewrite Hb, IH, app_assoc. reflexivity.
Qed.

(* ---- _purge_sink ---- *)
Theorem g_cache_purge_sink_eq sk s e : g_cache_purge_sink sk s e = purge_sink sk s e.
Proof.
  unfold g_cache_purge_sink, purge_sink. cbv zeta.
  rewrite iter_for_fold with
      (f := fun sk0 i =>
              let sk1 := sl_remove i sk0 in
              let sk2 := match st i with
                         | Some x => if x <? s then sl_add (set_span i (st i) (Some s)) sk1 else sk1
                         | None => sk1
                         end in
              match en i with
              | Some y => if y >? e then sl_add (set_span i (Some e) (en i)) sk2 else sk2
              | None => sk2
              end); [reflexivity|].
  intros sk0 i. cbv zeta. unfold is_none, ozd.
  destruct (st i) as [x|], (en i) as [y|]; cbn [negb andb];
    repeat match goal with |- context [if ?c then _ else _] => destruct c end; reflexivity.
Qed.

(* ---- the clipping loop of _fill_gap ---- *)
Lemma set_span_same i : set_span i (st i) (en i) = i.
Proof. destruct i; reflexivity. Qed.

Lemma oZ_eqb_eq a b : oZ_eqb a b = true -> a = b.
Proof.
  destruct a, b; cbn; try discriminate; try reflexivity.
  intro H. apply Z.eqb_eq in H. subst. reflexivity.
Qed.

(* a procedure loop over (sink, other state) whose body always falls through, seen on the sink *)
Lemma iter_for_fst_fold {S2 A : Type} (body : list ivl * S2 -> A -> step (list ivl * S2) (list ivl * S2))
      (post : list ivl * S2 -> list ivl * S2) (f : list ivl -> A -> list ivl) :
  (forall s, fst (post s) = fst s) ->
  (forall sk s2 x, exists s2', body (sk, s2) x = SCont (f sk x, s2')) ->
  forall xs sk s2, fst (iter_for body post (sk, s2) xs) = fold_left f xs sk.
Proof.
  intros Hp Hb. induction xs as [|x r IH]; intros sk s2; cbn [iter_for fold_left]; [apply Hp|].
  destruct (Hb sk s2 x) as (s2' & ->). apply IH.
Qed.

Theorem g_cache_fill_gap_clip_eq {KEYS : Type} sk kv (kf : option KEYS) src gs ge :
  fst (g_cache_fill_gap_clip sk kv kf src gs ge) =
  fold_left (fun sk0 i => match clip_to_gap gs ge i with Some j => sl_add j sk0 | None => sk0 end)
            (src (Some gs) (Some ge) false) sk.
Proof.
  unfold g_cache_fill_gap_clip.
  apply iter_for_fst_fold with
      (f := fun sk0 i => match clip_to_gap gs ge i with Some j => sl_add j sk0 | None => sk0 end);
    [intros [? ?]; reflexivity|].
  intros sk0 kv0 [s e p]. cbv zeta. unfold clip_to_gap, set_span. cbn [st en pl].
  destruct s as [x|], e as [y|]; cbn [is_none ozd negb orb andb];
    repeat match goal with
           | |- context [?x <? gs] => destruct (x <? gs) eqn:?
           | |- context [?y >? ge] => destruct (y >? ge) eqn:?
           end; cbn [is_none ozd negb orb andb];
    match goal with
    | |- context [?a >=? ?b] => destruct (a >=? b) eqn:?
    end; cbn [oZ_eqb]; rewrite ?Z.eqb_refl; cbn [negb orb];
    repeat match goal with
           | |- context [if negb (?a =? ?b) then _ else _] => destruct (a =? b) eqn:?; cbn [negb orb]
           | |- context [if negb (?a =? ?b) || _ then _ else _] => destruct (a =? b) eqn:?; cbn [negb orb]
           end;
    repeat match goal with
           | H : (_ =? _) = true |- _ => apply Z.eqb_eq in H; subst
           end;
    eexists; reflexivity.
Qed.

(* the sink after the model's fill_gap = the two stitches applied to what the translated clipping
   loop leaves in the sink *)
Corollary fill_gap_sink_is_source {KEYS : Type} masked ttl tick evs gs ge s kv (kf : option KEYS) :
  sink (fill_gap masked ttl tick evs gs ge s) =
  stitch_at masked ge true
    (stitch_at masked gs false
       (fst (g_cache_fill_gap_clip (sink s) kv kf (fun _ _ _ => evs) gs ge))).
Proof. rewrite g_cache_fill_gap_clip_eq. reflexivity. Qed.

(* ---- _evict_expired ---- *)
Lemma py_index_0 {A : Type} (d x : A) r : py_index d (x :: r) 0 = x.
Proof.
  unfold py_index. cbn [length Z.ltb Z.compare]. cbn [Z.leb Z.compare andb].
  replace (0 <? Z.of_nat (S (length r))) with true by (symmetry; apply Z.ltb_lt; lia).
  reflexivity.
Qed.

(* HEADLINE: under the cache invariant "the heap entries are exactly the covers" (heap_inv's hi_bij,
   Proofs/CacheInv.v) the `except ValueError: continue` path is never taken and the translated
   _evict_expired, with fuel for every heap entry, computes the model's evict_go *)
Theorem g_cache_evict_expired_eq t : forall h fuel cv sk,
  (length h <= fuel)%nat ->
  Permutation (map h_cov h) cv ->
  g_cache_evict_expired fuel t h cv sk = RDone (evict_go t h cv sk).
Proof.
  unfold g_cache_evict_expired. cbv zeta.
  induction h as [|[[ex sq] c] r IH]; intros fuel cv sk Hf Hp.
  - destruct fuel; reflexivity.
  - cbn [length] in Hf. destruct fuel as [|f]; [lia|].
    cbn [iter_while evict_go nonempty andb]. rewrite py_index_0. cbn [fst hd tl].
    destruct (ex <=? t); [|reflexivity].
    assert (Hin : In c cv) by (eapply Permutation_in; [exact Hp|left; reflexivity]).
    replace (existsb (cov_eqb c) cv) with true.
    2:{ symmetry. apply existsb_exists. exists c. split; [exact Hin|apply cov_eqb_eq; reflexivity]. }
    rewrite g_cache_purge_sink_eq.
    apply IH; [lia|].
    cbn [map] in Hp. change (h_cov (ex, sq, c)) with c in Hp.
    apply Permutation_cons_inv with (a := c).
    eapply Permutation_trans; [exact Hp|]. apply cov_remove_perm. exact Hin.
Qed.

(* without the invariant: what the code does when a popped cover is absent (it skips the purge,
   where evict_go purges): the two differ only there *)
Example evict_absent_cover_differs :
  g_cache_evict_expired 1 10 [(5, 1%N, mkCov 0 4 0)] [] [mkI (Some 1) (Some 2) Plain]
  = RDone ([], [], [mkI (Some 1) (Some 2) Plain]) /\
  evict_go 10 [(5, 1%N, mkCov 0 4 0)] [] [mkI (Some 1) (Some 2) Plain] = ([], [], []).
Proof. split; vm_compute; reflexivity. Qed.

(* non-vacuity of the hypothesis *)
Example evict_hyp_ok : Permutation (map h_cov [(5, 1%N, mkCov 0 4 0)]) [mkCov 0 4 0].
Proof. apply Permutation_refl. Qed.

Print Assumptions g_cache_purge_sink_eq.
Print Assumptions g_cache_evict_expired_eq.
Print Assumptions g_cache_fill_gap_clip_eq.
Print Assumptions fill_gap_sink_is_source.

(* ------------------------------------------------------------------------------------------ *)
(* headline theorems of the property files restated on the GENERATED definitions              *)


Theorem src_evict_fresh_only : forall ttl t s fuel,
  heap_inv ttl s -> (length (heap s) <= fuel)%nat ->
  exists h1 cv1 sk1,
    g_cache_evict_expired fuel t (heap s) (cover s) (sink s) = RDone (h1, cv1, sk1) /\
    (forall c, In c cv1 -> In c (cover s) /\ t < cv_t c + ttl) /\
    (forall c, In c (cover s) -> ~ In c cv1 -> cv_t c + ttl <= t) /\
    (forall c, In c (cover s) -> (In c cv1 <-> t < cv_t c + ttl)).
Proof.
  intros ttl t s fuel Hi Hf.
  destruct (evict_go t (heap s) (cover s) (sink s)) as [[h1 cv1] sk1] eqn:E.
  exists h1, cv1, sk1. split.
  - rewrite g_cache_evict_expired_eq; [rewrite E; reflexivity|exact Hf|exact (hi_bij _ _ Hi)].
  - exact (fresh_covers_only ttl t s h1 cv1 sk1 Hi E).
Qed.
Print Assumptions src_evict_fresh_only.
