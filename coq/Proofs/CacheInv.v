(* Proofs/CacheInv.v — C10 for Model/Cache.v: the heap/cover invariant (T1), freshness of the
   covers that survive an eviction pass (T2) and economy of the source fetches (T3). *)
From CG Require Import Proofs.Defs Proofs.Stored Proofs.Diff Proofs.Merge Proofs.RefSpec Model.Cache.

(* ------------------------------------------------------------------------------------ *)
(* heap order *)

Definition h_exp (h : hent) : Z := fst (fst h).
Definition h_seq (h : hent) : N := snd (fst h).
Definition h_cov (h : hent) : cov := snd h.

Fixpoint heap_sorted (l : list hent) : Prop :=
  match l with
  | [] => True
  | x :: r => (forall y, In y r -> hent_le x y = true) /\ heap_sorted r
  end.

Lemma hent_le_spec x y :
  hent_le x y = true <->
  h_exp x < h_exp y \/ (h_exp x = h_exp y /\ (h_seq x <= h_seq y)%N).
Proof.
  destruct x as [[ex sx] cx], y as [[ey sy] cy]. unfold hent_le, h_exp, h_seq; simpl. lia.
Qed.

Lemma hent_le_total x y : hent_le x y = false -> hent_le y x = true.
Proof.
  intro H. apply hent_le_spec. destruct (hent_le y x) eqn:E.
  - apply hent_le_spec in E. exact E.
  - exfalso. assert (Hx : ~ (hent_le x y = true)) by congruence.
    assert (Hy : ~ (hent_le y x = true)) by congruence.
    rewrite hent_le_spec in Hx, Hy. lia.
Qed.

Lemma hent_le_trans x y z : hent_le x y = true -> hent_le y z = true -> hent_le x z = true.
Proof. rewrite !hent_le_spec. lia. Qed.

Lemma hent_le_exp x y : hent_le x y = true -> h_exp x <= h_exp y.
Proof. rewrite hent_le_spec. lia. Qed.

Lemma heap_push_perm h l : Permutation (heap_push h l) (h :: l).
Proof.
  induction l as [|y r IH]; simpl; [apply Permutation_refl|].
  destruct (hent_le y h) eqn:E; [|apply Permutation_refl].
  eapply Permutation_trans; [apply perm_skip, IH|apply perm_swap].
Qed.

Lemma heap_push_in h l z : In z (heap_push h l) <-> z = h \/ In z l.
Proof.
  split; intro H.
  - apply (Permutation_in _ (heap_push_perm h l)) in H. destruct H as [H|H]; auto.
  - apply (Permutation_in _ (Permutation_sym (heap_push_perm h l))). destruct H as [H|H]; [left|right]; auto.
Qed.

Lemma heap_push_sorted h l : heap_sorted l -> heap_sorted (heap_push h l).
Proof.
  induction l as [|y r IH]; simpl; intro Hs.
  - split; [intros z []|exact I].
  - destruct Hs as [Hy Hr]. destruct (hent_le y h) eqn:E.
    + split; [|auto]. intros z Hz. apply heap_push_in in Hz as [->|Hz]; auto.
    + apply hent_le_total in E. split; [|split; auto].
      intros z [<-|Hz]; [exact E|]. eapply hent_le_trans; eauto.
Qed.

(* ------------------------------------------------------------------------------------ *)
(* the cover list *)

Lemma cov_eqb_eq x y : cov_eqb x y = true <-> x = y.
Proof.
  destruct x as [a b c], y as [a' b' c']. unfold cov_eqb; simpl. split.
  - intro H. assert (a = a' /\ b = b' /\ c = c') as (-> & -> & ->) by lia. reflexivity.
  - intro H. inversion H; subst. lia.
Qed.

Lemma cov_remove_perm c l : In c l -> Permutation l (c :: cov_remove c l).
Proof.
  induction l as [|y r IH]; simpl; [intros []|]. intro H.
  destruct (cov_eqb c y) eqn:E.
  - apply cov_eqb_eq in E. subst. apply Permutation_refl.
  - destruct H as [->|H].
    + assert (cov_eqb c c = true) by (apply cov_eqb_eq; reflexivity). congruence.
    + eapply Permutation_trans; [apply perm_skip, IH, H|apply perm_swap].
Qed.

Lemma cov_remove_in c l z : In z (cov_remove c l) -> In z l.
Proof.
  induction l as [|y r IH]; simpl; [tauto|]. destruct (cov_eqb c y); simpl; [auto|].
  intros [->|H]; auto.
Qed.

(* sorted by start, pairwise disjoint: each cover ends before the later ones start *)
Fixpoint cov_chain (l : list cov) : Prop :=
  match l with
  | [] => True
  | x :: r => (forall y, In y r -> cv_e x <= cv_s y) /\ cov_chain r
  end.

Fixpoint cov_sorted (l : list cov) : Prop :=
  match l with
  | [] => True
  | x :: r => (forall y, In y r -> cov_key_le x y = true) /\ cov_sorted r
  end.

Lemma cov_chain_remove c l : cov_chain l -> cov_chain (cov_remove c l).
Proof.
  induction l as [|y r IH]; simpl; [tauto|]. intros [Hy Hr].
  destruct (cov_eqb c y); [exact Hr|]. split; [|auto].
  intros z Hz. apply Hy. eapply cov_remove_in; eauto.
Qed.

Lemma cov_add_perm c l : Permutation (cov_add c l) (c :: l).
Proof.
  induction l as [|y r IH]; simpl; [apply Permutation_refl|].
  destruct (cov_key_le y c); [|apply Permutation_refl].
  eapply Permutation_trans; [apply perm_skip, IH|apply perm_swap].
Qed.

Lemma cov_add_in c l z : In z (cov_add c l) <-> z = c \/ In z l.
Proof.
  split; intro H.
  - apply (Permutation_in _ (cov_add_perm c l)) in H. destruct H as [H|H]; auto.
  - apply (Permutation_in _ (Permutation_sym (cov_add_perm c l))). destruct H as [H|H]; [left|right]; auto.
Qed.

Lemma cov_add_chain c l :
  cv_s c < cv_e c -> (forall y, In y l -> cv_s y < cv_e y) ->
  (forall y, In y l -> cv_e y <= cv_s c \/ cv_e c <= cv_s y) ->
  cov_chain l -> cov_chain (cov_add c l).
Proof.
  intros Hc. induction l as [|y r IH]; simpl; intros Hpos Hd Hch.
  - split; [intros z []|exact I].
  - destruct Hch as [Hy Hr]. pose proof (Hpos y (or_introl eq_refl)) as Hyp.
    pose proof (Hd y (or_introl eq_refl)) as Hyd.
    destruct (cov_key_le y c) eqn:E; unfold cov_key_le in E.
    + split.
      * intros z Hz. apply cov_add_in in Hz as [->|Hz]; [lia|auto].
      * apply IH; auto.
    + split; [|split; auto]. intros z [<-|Hz]; [lia|]. specialize (Hy z Hz). lia.
Qed.

Lemma cov_chain_sorted l : (forall y, In y l -> cv_s y < cv_e y) -> cov_chain l -> cov_sorted l.
Proof.
  induction l as [|x r IH]; simpl; [tauto|]. intros Hpos [Hx Hr]. split; [|auto].
  intros y Hy. specialize (Hx y Hy). pose proof (Hpos x (or_introl eq_refl)).
  unfold cov_key_le. lia.
Qed.

Lemma cov_chain_disjoint l : cov_chain l -> (forall y, In y l -> cv_s y < cv_e y) ->
  forall x y, In x l -> In y l -> x = y \/ cv_e x <= cv_s y \/ cv_e y <= cv_s x.
Proof.
  induction l as [|z r IH]; simpl; [tauto|]. intros [Hz Hr] Hpos x y [<-|Hx] [<-|Hy]; auto.
Qed.

Lemma cov_chain_nodup l : cov_chain l -> (forall y, In y l -> cv_s y < cv_e y) -> NoDup l.
Proof.
  induction l as [|z r IH]; simpl; intros Hc Hpos; [constructor|]. destruct Hc as [Hz Hr].
  constructor; [|auto]. intro Hin. specialize (Hz z Hin). specialize (Hpos z (or_introl eq_refl)). lia.
Qed.

(* ------------------------------------------------------------------------------------ *)
(* (T1) the invariant *)

Record heap_inv (ttl : Z) (s : cstate) : Prop := mkHI {
  hi_sorted : heap_sorted (heap s);                               (* sorted by (expires, seq) *)
  hi_bij : Permutation (map h_cov (heap s)) (cover s);            (* heap entries <-> covers *)
  hi_exp : forall h, In h (heap s) ->
           h_exp h = cv_t (h_cov h) + ttl /\ (h_seq h <= hseq s)%N;
  hi_seqs : NoDup (map h_seq (heap s));                           (* distinct sequence numbers *)
  hi_span : forall c, In c (cover s) -> NEG_INF < cv_s c /\ cv_s c < cv_e c /\ cv_e c < POS_INF;
  hi_chain : cov_chain (cover s);                                 (* sorted, pairwise disjoint *)
  hi_time : forall c, In c (cover s) -> cv_t c <= now s
}.

Lemma heap_inv_pos ttl s : heap_inv ttl s -> forall c, In c (cover s) -> cv_s c < cv_e c.
Proof. intros H c Hc. apply (hi_span _ _ H) in Hc. lia. Qed.

(* the readable consequences *)
Theorem heap_inv_cover_sorted ttl s : heap_inv ttl s -> cov_sorted (cover s).
Proof. intro H. apply cov_chain_sorted; [apply (heap_inv_pos _ _ H)|apply (hi_chain _ _ H)]. Qed.

Theorem heap_inv_cover_disjoint ttl s : heap_inv ttl s ->
  forall x y, In x (cover s) -> In y (cover s) -> x = y \/ cv_e x <= cv_s y \/ cv_e y <= cv_s x.
Proof. intro H. apply cov_chain_disjoint; [apply (hi_chain _ _ H)|apply (heap_inv_pos _ _ H)]. Qed.

Theorem heap_inv_cover_nodup ttl s : heap_inv ttl s -> NoDup (cover s).
Proof. intro H. apply cov_chain_nodup; [apply (hi_chain _ _ H)|apply (heap_inv_pos _ _ H)]. Qed.

Theorem heap_inv_entry ttl s : heap_inv ttl s ->
  forall c, In c (cover s) <-> exists sq, In (cv_t c + ttl, sq, c) (heap s).
Proof.
  intros H c. split.
  - intro Hc. apply (Permutation_in _ (Permutation_sym (hi_bij _ _ H))) in Hc.
    apply in_map_iff in Hc as [[[ex sq] c'] [Hc' Hin]]. unfold h_cov in Hc'; simpl in Hc'. subst c'.
    exists sq. destruct (hi_exp _ _ H _ Hin) as [He _]. unfold h_exp, h_cov in He; simpl in He.
    subst ex. exact Hin.
  - intros [sq Hin]. apply (Permutation_in _ (hi_bij _ _ H)). apply in_map_iff.
    exists (cv_t c + ttl, sq, c). split; [reflexivity|exact Hin].
Qed.

Lemma heap_inv_init ttl t0 : heap_inv ttl (cinit t0).
Proof.
  constructor; simpl; try tauto; try constructor.
Qed.

(* ------------------------------------------------------------------------------------ *)
(* eviction *)

Lemma evict_go_spec t : forall h cv sk h1 cv1 sk1,
  heap_sorted h -> Permutation (map h_cov h) cv -> cov_chain cv ->
  evict_go t h cv sk = (h1, cv1, sk1) ->
  exists ev, h = ev ++ h1 /\
    (forall x, In x ev -> h_exp x <= t) /\ (forall x, In x h1 -> t < h_exp x) /\
    Permutation cv (map h_cov ev ++ cv1) /\ Permutation (map h_cov h1) cv1 /\
    cov_chain cv1 /\ heap_sorted h1.
Proof.
  induction h as [|[[ex sq] c] r IH]; intros cv sk h1 cv1 sk1 Hs Hp Hc He; simpl in He.
  - inversion He; subst. exists []. simpl. repeat split; auto; try (intros x []).
  - destruct Hs as [Hhd Hr]. destruct (ex <=? t) eqn:E.
    + simpl in Hp. assert (Hin : In c cv) by (eapply Permutation_in; [exact Hp|left; reflexivity]).
      pose proof (cov_remove_perm c cv Hin) as Hrm.
      assert (Hp' : Permutation (map h_cov r) (cov_remove c cv)).
      { eapply Permutation_cons_inv. eapply Permutation_trans; [exact Hp|exact Hrm]. }
      destruct (IH _ _ _ _ _ Hr Hp' (cov_chain_remove c cv Hc) He)
        as (ev & Hev & Hold & Hnew & Hpc & Hph & Hch & Hsh).
      exists ((ex, sq, c) :: ev). subst r. repeat split; auto.
      * intros x [<-|Hx]; [unfold h_exp; simpl; lia|auto].
      * simpl. eapply Permutation_trans; [exact Hrm|]. apply perm_skip. exact Hpc.
    + inversion He; subst. exists []. simpl. split; [reflexivity|]. split; [intros x []|].
      split; [|repeat split; auto].
      intros x [<-|Hx]; [unfold h_exp; simpl; lia|].
      apply Hhd in Hx. apply hent_le_exp in Hx. unfold h_exp in *; simpl in *. lia.
Qed.

Lemma NoDup_app_r {A} (l1 l2 : list A) : NoDup (l1 ++ l2) -> NoDup l2.
Proof. induction l1; simpl; auto. intro H. inversion H; auto. Qed.

(* the state the eviction pass of a query leaves *)
Lemma evict_inv ttl tick s h1 cv1 sk1 :
  tick >= 0 -> heap_inv ttl s ->
  evict_go (now s) (heap s) (cover s) (sink s) = (h1, cv1, sk1) ->
  heap_inv ttl (mkC sk1 cv1 h1 (hseq s) (now s + tick)).
Proof.
  intros Htick H He.
  destruct (evict_go_spec _ _ _ _ _ _ _ (hi_sorted _ _ H) (hi_bij _ _ H) (hi_chain _ _ H) He)
    as (ev & Hev & Hold & Hnew & Hpc & Hph & Hch & Hsh).
  assert (Hsub : forall c, In c cv1 -> In c (cover s)).
  { intros c Hc. apply (Permutation_in _ (Permutation_sym Hpc)). apply in_or_app; right; exact Hc. }
  constructor; simpl; auto.
  - intros h Hh. apply (hi_exp _ _ H). rewrite Hev. apply in_or_app; right; exact Hh.
  - pose proof (hi_seqs _ _ H) as Hn. rewrite Hev, map_app in Hn. eapply NoDup_app_r; eauto.
  - intros c Hc. apply (hi_span _ _ H); auto.
  - intros c Hc. pose proof (hi_time _ _ H c (Hsub c Hc)). lia.
Qed.

(* (T2) after the eviction pass at clock reading t: a cover survives iff it is younger than ttl *)
Theorem fresh_covers_only ttl t s h1 cv1 sk1 :
  heap_inv ttl s ->
  evict_go t (heap s) (cover s) (sink s) = (h1, cv1, sk1) ->
  (forall c, In c cv1 -> In c (cover s) /\ t < cv_t c + ttl) /\
  (forall c, In c (cover s) -> ~ In c cv1 -> cv_t c + ttl <= t) /\
  (forall c, In c (cover s) -> (In c cv1 <-> t < cv_t c + ttl)).
Proof.
  intros H He.
  destruct (evict_go_spec _ _ _ _ _ _ _ (hi_sorted _ _ H) (hi_bij _ _ H) (hi_chain _ _ H) He)
    as (ev & Hev & Hold & Hnew & Hpc & Hph & Hch & Hsh).
  assert (Hfresh : forall c, In c cv1 -> t < cv_t c + ttl).
  { intros c Hc. apply (Permutation_in _ (Permutation_sym Hph)) in Hc.
    apply in_map_iff in Hc as [h [<- Hh]]. pose proof (Hnew h Hh) as Hlt.
    assert (Hin : In h (heap s)) by (rewrite Hev; apply in_or_app; right; exact Hh).
    destruct (hi_exp _ _ H h Hin) as [Hx _]. lia. }
  assert (Hgone : forall c, In c (map h_cov ev) -> cv_t c + ttl <= t).
  { intros c Hc. apply in_map_iff in Hc as [h [<- Hh]]. pose proof (Hold h Hh) as Hle.
    assert (Hin : In h (heap s)) by (rewrite Hev; apply in_or_app; left; exact Hh).
    destruct (hi_exp _ _ H h Hin) as [Hx _]. lia. }
  assert (Hsplit : forall c, In c (cover s) -> In c (map h_cov ev) \/ In c cv1).
  { intros c Hc. apply (Permutation_in _ Hpc) in Hc. apply in_app_or in Hc. exact Hc. }
  repeat split.
  - apply (Permutation_in _ (Permutation_sym Hpc)). apply in_or_app; right; assumption.
  - auto.
  - intros c Hc Hn. destruct (Hsplit c Hc) as [Hg|Hk]; [auto|contradiction].
  - auto.
  - intro Hlt. destruct (Hsplit c H0) as [Hg|Hk]; [|exact Hk]. apply Hgone in Hg. lia.
Qed.

(* ------------------------------------------------------------------------------------ *)
(* filling one gap *)

Lemma fill_gap_inv masked ttl tick evs gs ge s :
  tick >= 0 -> heap_inv ttl s ->
  NEG_INF < gs -> gs < ge -> ge < POS_INF ->
  (forall c, In c (cover s) -> cv_e c <= gs \/ ge <= cv_s c) ->
  heap_inv ttl (fill_gap masked ttl tick evs gs ge s).
Proof.
  intros Htick H Hlo Hlt Hhi Hd. unfold fill_gap.
  set (c := mkCov gs ge (now s)). set (sq := N.succ (hseq s)).
  constructor; simpl.
  - apply heap_push_sorted, (hi_sorted _ _ H).
  - eapply Permutation_trans; [apply Permutation_map, heap_push_perm|]. simpl.
    eapply Permutation_trans; [|apply Permutation_sym, cov_add_perm].
    apply perm_skip, (hi_bij _ _ H).
  - intros h Hh. apply heap_push_in in Hh as [->|Hh].
    + unfold h_exp, h_seq, h_cov; simpl. split; lia.
    + destruct (hi_exp _ _ H h Hh) as [He Hq]. split; [exact He|]. unfold sq. lia.
  - eapply Permutation_NoDup; [apply Permutation_sym, Permutation_map, heap_push_perm|].
    simpl. constructor; [|apply (hi_seqs _ _ H)].
    intro Hin. apply in_map_iff in Hin as [h [Hq Hh]]. destruct (hi_exp _ _ H h Hh) as [_ Hle].
    unfold h_seq in Hq at 2; simpl in Hq. unfold sq in Hq. lia.
  - intros c' Hc'. apply cov_add_in in Hc' as [->|Hc']; [simpl; lia|apply (hi_span _ _ H); auto].
  - apply cov_add_chain; simpl; auto; [apply (heap_inv_pos _ _ H)|apply (hi_chain _ _ H)].
  - intros c' Hc'. apply cov_add_in in Hc' as [->|Hc']; [simpl; lia|].
    pose proof (hi_time _ _ H c' Hc'). lia.
Qed.

Lemma fill_gap_cover masked ttl tick evs gs ge s c :
  In c (cover (fill_gap masked ttl tick evs gs ge s)) <-> c = mkCov gs ge (now s) \/ In c (cover s).
Proof. unfold fill_gap; simpl. apply cov_add_in. Qed.

Lemma fill_gap_now masked ttl tick evs gs ge s :
  now (fill_gap masked ttl tick evs gs ge s) = now s + tick.
Proof. reflexivity. Qed.

(* the loop over the gaps *)
Definition fill_step (masked : bool) (ttl tick : Z) (src : Z -> Z -> list ivl)
           (acc : cstate * list (Z * Z * Z)) (g : ivl) : cstate * list (Z * Z * Z) :=
  let '(s0, lg) := acc in
  let gs := fstart g in let ge := fend g in
  (fill_gap masked ttl tick (src gs ge) gs ge s0, lg ++ [(now s0, gs, ge)]).

Fixpoint log_of (tick t : Z) (gaps : list ivl) : list (Z * Z * Z) :=
  match gaps with
  | [] => []
  | g :: r => (t, fstart g, fend g) :: log_of tick (t + tick) r
  end.

Definition gap_ok (g : ivl) : Prop := NEG_INF < fstart g /\ fstart g < fend g /\ fend g < POS_INF.

Lemma fill_fold_spec masked ttl tick src : tick >= 0 -> forall gaps s0 lg0 s2 lg2,
  fold_left (fill_step masked ttl tick src) gaps (s0, lg0) = (s2, lg2) ->
  heap_inv ttl s0 ->
  (forall g, In g gaps -> gap_ok g) -> disjoint_sorted gaps ->
  (forall g c, In g gaps -> In c (cover s0) -> cv_e c <= fstart g \/ fend g <= cv_s c) ->
  heap_inv ttl s2 /\
  lg2 = lg0 ++ log_of tick (now s0) gaps /\
  now s0 <= now s2 /\
  (forall c, In c (cover s2) ->
     In c (cover s0) \/ exists g, In g gaps /\ cv_s c = fstart g /\ cv_e c = fend g /\ now s0 <= cv_t c) /\
  (forall c, In c (cover s0) -> In c (cover s2)) /\
  (forall g, In g gaps -> exists c, In c (cover s2) /\ cv_s c = fstart g /\ cv_e c = fend g).
Proof.
  intro Htick. induction gaps as [|g r IH]; intros s0 lg0 s2 lg2 Hf H Hok Hds Hd; simpl in Hf.
  - inversion Hf; subst. split; [exact H|]. split; [simpl; rewrite app_nil_r; reflexivity|].
    split; [lia|]. split; [intros c Hc; left; exact Hc|]. split; [auto|intros g []].
  - simpl in Hds. destruct Hds as [Hg Hr].
    destruct (Hok g (or_introl eq_refl)) as (Hlo & Hlt & Hhi).
    set (s1 := fill_gap masked ttl tick (src (fstart g) (fend g)) (fstart g) (fend g) s0) in *.
    assert (H1 : heap_inv ttl s1).
    { apply fill_gap_inv; auto. intros c Hc. apply Hd; [left; reflexivity|exact Hc]. }
    assert (Hd1 : forall g' c, In g' r -> In c (cover s1) -> cv_e c <= fstart g' \/ fend g' <= cv_s c).
    { intros g' c Hg' Hc. apply fill_gap_cover in Hc as [->|Hc].
      - simpl. left. apply Hg; exact Hg'.
      - apply Hd; [right; exact Hg'|exact Hc]. }
    destruct (IH s1 _ _ _ Hf H1 (fun g' Hg' => Hok g' (or_intror Hg')) Hr Hd1)
      as (H2 & Hlg & Hnow & Hcov & Hkeep & Hnew).
    assert (Hn1 : now s1 = now s0 + tick) by reflexivity.
    split; [exact H2|]. split.
    { rewrite Hlg, <- app_assoc. reflexivity. }
    split; [lia|]. split.
    { intros c Hc. apply Hcov in Hc as [Hc|[g' (Hg' & Hs & He & Ht)]].
      - apply fill_gap_cover in Hc as [->|Hc]; [|left; exact Hc].
        right. exists g. split; [left; reflexivity|]. simpl. split; [reflexivity|]. split; [reflexivity|lia].
      - right. exists g'. split; [right; exact Hg'|]. split; [exact Hs|]. split; [exact He|lia]. }
    split.
    { intros c Hc. apply Hkeep. apply fill_gap_cover. right; exact Hc. }
    intros g' [<-|Hg']; [|auto].
    exists (mkCov (fstart g) (fend g) (now s0)). split; [|split; reflexivity].
    apply Hkeep. apply fill_gap_cover. left; reflexivity.
Qed.

(* ------------------------------------------------------------------------------------ *)
(* the gaps of a window: maximal parts not covered *)

Lemma inside_cov c x : inside (cov_ivl c) x = (cv_s c <=? x) && (x <? cv_e c).
Proof. reflexivity. Qed.

Lemma covers_cov_iff cv x :
  covers (map cov_ivl cv) x = true <-> exists c, In c cv /\ cv_s c <= x /\ x < cv_e c.
Proof.
  rewrite covers_true_iff. split.
  - intros [i [Hi Hx]]. apply in_map_iff in Hi as [c [<- Hc]]. rewrite inside_cov in Hx.
    exists c. split; [exact Hc|lia].
  - intros [c [Hc Hx]]. exists (cov_ivl c). split; [apply in_map; exact Hc|rewrite inside_cov; lia].
Qed.

Definition cov_span_ok (cv : list cov) : Prop :=
  forall c, In c cv -> NEG_INF < cv_s c /\ cv_s c < cv_e c /\ cv_e c < POS_INF.

Lemma cov_ivl_sorted cv : cov_span_ok cv -> cov_chain cv -> sorted_key (map cov_ivl cv) = true.
Proof.
  intros Hok Hch. apply sorted_key_P. induction cv as [|x r IH]; simpl; [exact I|].
  destruct Hch as [Hx Hr]. split.
  - intros y Hy. apply in_map_iff in Hy as [c [<- Hc]]. specialize (Hx c Hc).
    destruct (Hok x (or_introl eq_refl)) as (? & ? & ?).
    unfold key_le, cov_ivl, fstart, fend; simpl. lia.
  - apply IH; auto. intros c Hc. apply Hok. right; exact Hc.
Qed.

Lemma cov_ivl_wf c : NEG_INF < cv_s c /\ cv_s c < cv_e c /\ cv_e c < POS_INF -> wf_ivl (cov_ivl c).
Proof. intros (? & ? & ?). unfold wf_ivl, cov_ivl, fstart, fend; simpl. lia. Qed.

Definition window (a b : Z) : ivl := mkI (Some a) (Some b) Plain.

Lemma gaps_spec cv a b :
  NEG_INF < a -> a < b -> b < POS_INF -> cov_span_ok cv -> cov_chain cv ->
  (forall g, In g (gaps_of cv a b) -> a <= fstart g /\ fstart g < fend g /\ fend g <= b) /\
  separatedP (gaps_of cv a b) /\
  (forall x, covers (gaps_of cv a b) x = (a <=? x) && (x <? b) && negb (covers (map cov_ivl cv) x)).
Proof.
  intros Ha Hab Hb Hok Hch.
  pose proof (cov_ivl_sorted cv Hok Hch) as Hsk.
  set (subs := fetch_static (map cov_ivl cv) (Some a) (Some b) false).
  assert (Hwf : Forall wf_ivl subs).
  { apply Forall_forall. intros i Hi. apply fetch_static_in in Hi; [|exact Hsk].
    destruct Hi as [Hi _]. apply in_map_iff in Hi as [c [<- Hc]]. apply cov_ivl_wf, Hok, Hc. }
  assert (Hss : sorted_start subs).
  { apply sorted_key_sorted_start. apply fetch_static_sorted. exact Hsk. }
  assert (Hw : wf_ivl (window a b)).
  { unfold wf_ivl, window, fstart, fend; simpl. lia. }
  assert (Hcw : canon_ivl (window a b)).
  { unfold canon_ivl, window; simpl. split; intro H; inversion H; lia. }
  assert (Heq : gaps_of cv a b = minus_runs (window a b) subs).
  { unfold gaps_of, diff_sweep. rewrite merge_single. fold subs. fold (window a b).
    rewrite dsweep_minus_runs; auto.
    - simpl. apply app_nil_r.
    - simpl. split; [intros y []|exact I]. }
  rewrite Heq. destruct (minus_runs_spec (window a b) subs Hw Hcw) as (Hfr & Hsep & Hcov).
  split; [|split; [exact Hsep|]].
  - intros g Hg. destruct (Hfr g Hg) as (_ & (H1 & H2 & H3) & _).
    change (fstart (window a b)) with a in H1. change (fend (window a b)) with b in H3. lia.
  - intro x. rewrite Hcov. unfold inside at 1. unfold window, fstart, fend; simpl.
    destruct ((a <=? x) && (x <? b)) eqn:Ein; [|reflexivity]. simpl. f_equal.
    (* inside the window the fetched covers are all the covers *)
    unfold subs. destruct (fetch_static_spec (map cov_ivl cv) (Some a) (Some b) Hsk) as [-> _].
    destruct (covers (map cov_ivl cv) x) eqn:E.
    + apply covers_true_iff in E as [i [Hi Hx]]. apply covers_true_iff. exists i. split; [|exact Hx].
      apply filter_In. split; [exact Hi|]. unfold in_range. unfold inside in Hx. lia.
    + apply covers_false_iff. intros i Hi. apply filter_In in Hi as [Hi _].
      eapply (proj1 (covers_false_iff _ _)); eauto.
Qed.

(* consequences: a gap meets no cover, and it is maximal: on each side it ends at the window's
   edge or at a cover *)
Lemma gaps_disjoint_cover cv a b :
  NEG_INF < a -> a < b -> b < POS_INF -> cov_span_ok cv -> cov_chain cv ->
  forall g c, In g (gaps_of cv a b) -> In c cv -> cv_e c <= fstart g \/ fend g <= cv_s c.
Proof.
  intros Ha Hab Hb Hok Hch g c Hg Hc.
  destruct (gaps_spec cv a b Ha Hab Hb Hok Hch) as (Hin & Hsep & Hcov).
  destruct (Hin g Hg) as (G1 & G2 & G3). destruct (Hok c Hc) as (C1 & C2 & C3).
  destruct (Z_lt_le_dec (fstart g) (cv_e c)) as [L1|]; [|left; lia].
  destruct (Z_lt_le_dec (cv_s c) (fend g)) as [L2|]; [|right; lia].
  exfalso. set (x := Z.max (fstart g) (cv_s c)).
  assert (Hgx : covers (gaps_of cv a b) x = true).
  { apply covers_true_iff. exists g. split; [exact Hg|]. unfold inside, x. lia. }
  rewrite Hcov in Hgx.
  assert (Hcx : covers (map cov_ivl cv) x = true).
  { apply covers_cov_iff. exists c. split; [exact Hc|]. unfold x. lia. }
  rewrite Hcx in Hgx. rewrite andb_false_r in Hgx. discriminate.
Qed.

Lemma separated_other_gap gaps g x :
  separatedP gaps -> In g gaps -> (forall f, In f gaps -> fstart f < fend f) ->
  (x = fstart g - 1 \/ x = fend g) -> covers gaps x = false.
Proof.
  intros Hsep Hg Hpos Hx. apply covers_false_iff. intros f Hf.
  destruct (inside f x) eqn:E; [|reflexivity]. exfalso. unfold inside in E.
  pose proof (Hpos f Hf) as Pf. pose proof (Hpos g Hg) as Pg.
  revert Hg Hf. induction gaps as [|y r IH]; simpl; [tauto|]. destruct Hsep as [Hy Hr].
  intros [->|Hg] [->|Hf].
  - lia.
  - specialize (Hy f Hf). lia.
  - specialize (Hy g Hg). lia.
  - apply IH; auto. intros f' Hf'. apply Hpos. right; exact Hf'.
Qed.

Lemma gaps_maximal cv a b :
  NEG_INF < a -> a < b -> b < POS_INF -> cov_span_ok cv -> cov_chain cv ->
  forall g, In g (gaps_of cv a b) ->
  (fstart g = a \/ exists c, In c cv /\ cv_e c = fstart g) /\
  (fend g = b \/ exists c, In c cv /\ cv_s c = fend g).
Proof.
  intros Ha Hab Hb Hok Hch g Hg.
  destruct (gaps_spec cv a b Ha Hab Hb Hok Hch) as (Hin & Hsep & Hcov).
  destruct (Hin g Hg) as (G1 & G2 & G3).
  assert (Hpos : forall f, In f (gaps_of cv a b) -> fstart f < fend f).
  { intros f Hf. destruct (Hin f Hf) as (_ & ? & _). assumption. }
  split.
  - destruct (Z.eq_dec (fstart g) a) as [|Hne]; [left; assumption|right].
    pose proof (separated_other_gap _ g (fstart g - 1) Hsep Hg Hpos (or_introl eq_refl)) as Hx.
    rewrite Hcov in Hx.
    assert (Hc : covers (map cov_ivl cv) (fstart g - 1) = true).
    { destruct (covers (map cov_ivl cv) (fstart g - 1)); [reflexivity|]. exfalso. lia. }
    apply covers_cov_iff in Hc as [c (Hc & C1 & C2)]. exists c. split; [exact Hc|].
    destruct (gaps_disjoint_cover cv a b Ha Hab Hb Hok Hch g c Hg Hc); lia.
  - destruct (Z.eq_dec (fend g) b) as [|Hne]; [left; assumption|right].
    pose proof (separated_other_gap _ g (fend g) Hsep Hg Hpos (or_intror eq_refl)) as Hx.
    rewrite Hcov in Hx.
    assert (Hc : covers (map cov_ivl cv) (fend g) = true).
    { destruct (covers (map cov_ivl cv) (fend g)); [reflexivity|]. exfalso. lia. }
    apply covers_cov_iff in Hc as [c (Hc & C1 & C2)]. exists c. split; [exact Hc|].
    destruct (gaps_disjoint_cover cv a b Ha Hab Hb Hok Hch g c Hg Hc); lia.
Qed.

(* ------------------------------------------------------------------------------------ *)
(* one query *)

Lemma cquery_unfold masked ttl tick src s a b rv h1 cv1 sk1 s2 lg :
  evict_go (now s) (heap s) (cover s) (sink s) = (h1, cv1, sk1) ->
  fold_left (fill_step masked ttl tick src) (gaps_of cv1 a b)
            (mkC sk1 cv1 h1 (hseq s) (now s + tick), []) = (s2, lg) ->
  cquery masked ttl tick src s a b rv = (s2, fetch_static (sink s2) (Some a) (Some b) rv, lg).
Proof. intros He Hf. unfold cquery. rewrite He. unfold fill_step in Hf. rewrite Hf. reflexivity. Qed.

Lemma log_of_in tick t gaps t' gs ge : tick >= 0 ->
  In (t', gs, ge) (log_of tick t gaps) ->
  exists g, In g gaps /\ gs = fstart g /\ ge = fend g /\ t <= t'.
Proof.
  intro Htick. revert t. induction gaps as [|g r IH]; simpl; intros t Hin; [destruct Hin|].
  destruct Hin as [Heq|Hin].
  - inversion Heq; subst. exists g. repeat split; auto. lia.
  - destruct (IH _ Hin) as (g' & Hg' & -> & -> & Hle). exists g'. repeat split; auto. lia.
Qed.

Lemma log_of_has tick t gaps g :
  In g gaps -> exists t', In (t', fstart g, fend g) (log_of tick t gaps).
Proof.
  revert t. induction gaps as [|y r IH]; simpl; intros t Hin; [destruct Hin|].
  destruct Hin as [->|Hin].
  - exists t. left; reflexivity.
  - destruct (IH (t + tick) Hin) as [t' Ht']. exists t'. right; exact Ht'.
Qed.

(* sorted and never touching *)
Fixpoint log_sep (l : list (Z * Z * Z)) : Prop :=
  match l with
  | [] => True
  | x :: r => (forall y, In y r -> snd x < snd (fst y)) /\ log_sep r
  end.

Lemma log_of_sep tick t gaps : tick >= 0 -> separatedP gaps -> log_sep (log_of tick t gaps).
Proof.
  intro Htick. revert t. induction gaps as [|g r IH]; simpl; intros t Hs; [exact I|].
  destruct Hs as [Hg Hr]. split; [|apply IH; exact Hr].
  intros [[t' gs] ge] Hy. apply log_of_in in Hy; [|exact Htick].
  destruct Hy as (g' & Hg' & -> & -> & _). simpl. apply Hg; exact Hg'.
Qed.

(* (T3) economy: the source fetches of a query are exactly the maximal parts of its window that
   no surviving cover contains; afterwards the window is covered by covers younger than ttl *)
Theorem economy masked ttl tick src s a b rv s' out log :
  ttl > 0 -> tick >= 0 -> NEG_INF < a -> a < b -> b < POS_INF ->
  heap_inv ttl s ->
  cquery masked ttl tick src s a b rv = (s', out, log) ->
  exists h1 cv1 sk1,
    evict_go (now s) (heap s) (cover s) (sink s) = (h1, cv1, sk1) /\
    log = log_of tick (now s + tick) (gaps_of cv1 a b) /\
    (forall t' gs ge, In (t', gs, ge) log ->
       a <= gs /\ gs < ge /\ ge <= b /\ now s + tick <= t' /\
       (forall c, In c cv1 -> cv_e c <= gs \/ ge <= cv_s c) /\
       (gs = a \/ exists c, In c cv1 /\ cv_e c = gs) /\
       (ge = b \/ exists c, In c cv1 /\ cv_s c = ge)) /\
    log_sep log /\
    (forall x, a <= x < b ->
       (exists c, In c cv1 /\ cv_s c <= x < cv_e c) \/
       (exists t' gs ge, In (t', gs, ge) log /\ gs <= x < ge)) /\
    heap_inv ttl s' /\
    out = fetch_static (sink s') (Some a) (Some b) rv /\
    (forall x, a <= x < b -> exists c, In c (cover s') /\ cv_s c <= x < cv_e c) /\
    (forall c, In c (cover s') -> now s < cv_t c + ttl) /\
    (forall c, In c cv1 -> In c (cover s')).
Proof.
  intros Httl Htick Ha Hab Hb H Hq.
  destruct (evict_go (now s) (heap s) (cover s) (sink s)) as [[h1 cv1] sk1] eqn:He.
  set (s1 := mkC sk1 cv1 h1 (hseq s) (now s + tick)).
  destruct (fold_left (fill_step masked ttl tick src) (gaps_of cv1 a b) (s1, [])) as [s2 lg] eqn:Hf.
  rewrite (cquery_unfold _ _ _ _ _ _ _ _ _ _ _ _ _ He Hf) in Hq. inversion Hq; subst s' out log. clear Hq.
  exists h1, cv1, sk1. split; [reflexivity|].
  pose proof (evict_inv ttl tick s h1 cv1 sk1 Htick H He) as H1. fold s1 in H1.
  assert (Hok : cov_span_ok cv1) by (exact (hi_span _ _ H1)).
  assert (Hch : cov_chain cv1) by (exact (hi_chain _ _ H1)).
  destruct (gaps_spec cv1 a b Ha Hab Hb Hok Hch) as (Hin & Hsep & Hcov).
  pose proof (gaps_disjoint_cover cv1 a b Ha Hab Hb Hok Hch) as Hdis.
  pose proof (gaps_maximal cv1 a b Ha Hab Hb Hok Hch) as Hmax.
  assert (Hgok : forall g, In g (gaps_of cv1 a b) -> gap_ok g).
  { intros g Hg. destruct (Hin g Hg) as (? & ? & ?). unfold gap_ok. lia. }
  assert (Hds : disjoint_sorted (gaps_of cv1 a b)).
  { apply Diff.separatedP_disjoint; [|exact Hsep]. intros f Hf'. destruct (Hin f Hf') as (_ & ? & _). assumption. }
  destruct (fill_fold_spec masked ttl tick src Htick _ _ _ _ _ Hf H1 Hgok Hds
              (fun g c Hg Hc => Hdis g c Hg Hc)) as (H2 & Hlg & Hnow & Hcv & Hkeep & Hnew).
  simpl in Hlg. change (now s1) with (now s + tick) in *.
  destruct (fresh_covers_only ttl (now s) s h1 cv1 sk1 H He) as (Hfresh & _ & _).
  split; [exact Hlg|]. split.
  { intros t' gs ge Hl. rewrite Hlg in Hl. apply log_of_in in Hl; [|exact Htick].
    destruct Hl as (g & Hg & -> & -> & Ht). destruct (Hin g Hg) as (? & ? & ?).
    destruct (Hmax g Hg) as [M1 M2].
    repeat split; auto. }
  split; [rewrite Hlg; apply log_of_sep; auto|]. split.
  { intros x Hx. destruct (covers (map cov_ivl cv1) x) eqn:E.
    - left. apply covers_cov_iff in E as (c & Hc & ? & ?). exists c. split; [exact Hc|lia].
    - right. assert (Hg : covers (gaps_of cv1 a b) x = true) by (rewrite Hcov, E; lia).
      apply covers_true_iff in Hg as (g & Hg & Hi). unfold inside in Hi.
      destruct (log_of_has tick (now s + tick) _ g Hg) as [t' Ht'].
      exists t', (fstart g), (fend g). rewrite Hlg. split; [exact Ht'|lia]. }
  split; [exact H2|]. split; [reflexivity|]. split.
  { intros x Hx. destruct (covers (map cov_ivl cv1) x) eqn:E.
    - apply covers_cov_iff in E as (c & Hc & ? & ?). exists c. split; [apply Hkeep; exact Hc|lia].
    - assert (Hg : covers (gaps_of cv1 a b) x = true) by (rewrite Hcov, E; lia).
      apply covers_true_iff in Hg as (g & Hg & Hi). unfold inside in Hi.
      destruct (Hnew g Hg) as (c & Hc & Hs & Hee). exists c. split; [exact Hc|lia]. }
  split; [|exact Hkeep].
  intros c Hc. apply Hcv in Hc as [Hc|(g & _ & _ & _ & Ht)].
  - apply Hfresh; exact Hc.
  - lia.
Qed.

(* no source fetch while the window is covered by covers younger than ttl *)
Theorem no_refetch_while_fresh masked ttl tick src s a b rv s' out log :
  ttl > 0 -> tick >= 0 -> NEG_INF < a -> a < b -> b < POS_INF ->
  heap_inv ttl s ->
  (forall x, a <= x < b ->
     exists c, In c (cover s) /\ cv_s c <= x < cv_e c /\ now s < cv_t c + ttl) ->
  cquery masked ttl tick src s a b rv = (s', out, log) ->
  log = [].
Proof.
  intros Httl Htick Ha Hab Hb H Hfr Hq.
  destruct (economy _ _ _ _ _ _ _ _ _ _ _ Httl Htick Ha Hab Hb H Hq)
    as (h1 & cv1 & sk1 & He & Hlg & Hl & _).
  destruct log as [|[[t' gs] ge] r]; [reflexivity|exfalso].
  destruct (Hl t' gs ge (or_introl eq_refl)) as (G1 & G2 & G3 & _ & Hd & _).
  destruct (Hfr gs ltac:(lia)) as (c & Hc & Hx & Hy).
  destruct (fresh_covers_only ttl (now s) s h1 cv1 sk1 H He) as (_ & _ & Hiff).
  apply (Hiff c Hc) in Hy. destruct (Hd c Hy); lia.
Qed.

(* ------------------------------------------------------------------------------------ *)
(* histories *)

Definition op_ok (o : cop) : Prop :=
  match o with
  | CQuery a b _ => NEG_INF < a /\ a < b /\ b < POS_INF
  | CAdvance d => 0 <= d
  | CMutate => True
  end.

Lemma cstep_inv masked ttl tick evs r o :
  ttl > 0 -> tick >= 0 -> op_ok o -> heap_inv ttl (r_state r) ->
  heap_inv ttl (r_state (cstep masked ttl tick evs r o)).
Proof.
  intros Httl Htick Ho H. destruct o as [a b rv|d|]; simpl in *.
  - destruct Ho as (Ha & Hab & Hb).
    destruct (cquery masked ttl tick (src_of evs (r_ver r)) (r_state r) a b rv) as [[s' out] lg] eqn:Hq.
    simpl. destruct (economy _ _ _ _ _ _ _ _ _ _ _ Httl Htick Ha Hab Hb H Hq)
      as (h1 & cv1 & sk1 & _ & _ & _ & _ & _ & H' & _). exact H'.
  - destruct H as [A B C D E F G]. constructor; simpl; auto.
    intros c Hc. specialize (G c Hc). lia.
  - exact H.
Qed.

Lemma crun_from_inv masked ttl tick evs : ttl > 0 -> tick >= 0 -> forall ops r,
  Forall op_ok ops -> heap_inv ttl (r_state r) ->
  heap_inv ttl (r_state (fold_left (cstep masked ttl tick evs) ops r)).
Proof.
  intros Httl Htick. induction ops as [|o ops IH]; intros r Hops H; simpl; [exact H|].
  inversion Hops; subst. apply IH; [assumption|]. apply cstep_inv; assumption.
Qed.

(* (T1) the invariant holds in every reachable state *)
Theorem heap_inv_reachable masked ttl tick t0 evs ops :
  ttl > 0 -> tick >= 0 -> Forall op_ok ops ->
  heap_inv ttl (r_state (crun_all masked ttl tick t0 evs ops)).
Proof.
  intros Httl Htick Hops. unfold crun_all. apply crun_from_inv; auto. simpl. apply heap_inv_init.
Qed.

(* (T2)+(T3) for a query made in any reachable state (any source, masked or keyed, with or
   without mutations) *)
Theorem C10_reachable masked ttl tick t0 evs ops src a b rv s' out log :
  ttl > 0 -> tick >= 0 -> Forall op_ok ops -> NEG_INF < a -> a < b -> b < POS_INF ->
  let s := r_state (crun_all masked ttl tick t0 evs ops) in
  cquery masked ttl tick src s a b rv = (s', out, log) ->
  exists h1 cv1 sk1,
    evict_go (now s) (heap s) (cover s) (sink s) = (h1, cv1, sk1) /\
    (* freshness *)
    (forall c, In c (cover s) -> (In c cv1 <-> now s < cv_t c + ttl)) /\
    (* economy *)
    log = log_of tick (now s + tick) (gaps_of cv1 a b) /\
    (forall t' gs ge, In (t', gs, ge) log ->
       a <= gs /\ gs < ge /\ ge <= b /\ now s + tick <= t' /\
       (forall c, In c cv1 -> cv_e c <= gs \/ ge <= cv_s c) /\
       (gs = a \/ exists c, In c cv1 /\ cv_e c = gs) /\
       (ge = b \/ exists c, In c cv1 /\ cv_s c = ge)) /\
    log_sep log /\
    (forall x, a <= x < b ->
       (exists c, In c cv1 /\ cv_s c <= x < cv_e c) \/
       (exists t' gs ge, In (t', gs, ge) log /\ gs <= x < ge)) /\
    (* afterwards *)
    heap_inv ttl s' /\
    (forall x, a <= x < b -> exists c, In c (cover s') /\ cv_s c <= x < cv_e c) /\
    (forall c, In c (cover s') -> now s < cv_t c + ttl).
Proof.
  intros Httl Htick Hops Ha Hab Hb s Hq.
  pose proof (heap_inv_reachable masked ttl tick t0 evs ops Httl Htick Hops) as H. fold s in H.
  destruct (economy _ _ _ _ _ _ _ _ _ _ _ Httl Htick Ha Hab Hb H Hq)
    as (h1 & cv1 & sk1 & He & Hlg & Hl & Hsep & Hcov & H' & _ & Hwin & Hfr & _).
  exists h1, cv1, sk1. destruct (fresh_covers_only ttl (now s) s h1 cv1 sk1 H He) as (_ & _ & Hiff).
  split; [exact He|]. split; [exact Hiff|]. split; [exact Hlg|]. split; [exact Hl|].
  split; [exact Hsep|]. split; [exact Hcov|]. split; [exact H'|]. split; [exact Hwin|exact Hfr].
Qed.

Print Assumptions heap_inv_reachable.
Print Assumptions fresh_covers_only.
Print Assumptions economy.
Print Assumptions no_refetch_while_fresh.
Print Assumptions C10_reachable.
