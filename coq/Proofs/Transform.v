(* Proofs/Transform.v — property C17: merge_within and buffer (calgebra/transform.py,
   models mw_go / mw / buf_shift and the Buf / MergeW cases of fetch).

   (a) merge_within.  For a source stream sorted by start, of well-formed canonically encoded
       events, and a gap g >= 0, [mw g src] satisfies the declarative oracle [mw_spec_ok]
       (Spec/TransformSpec.v).  The Prop-level content is stated directly as well: the result
       is a partition of the source into consecutive groups [mw_groups]; successive (indeed
       any two) outputs are more than g apart; every source event lies inside exactly one
       output; an output spans from the start of the first event of its group to the furthest
       end of the group, keeps the first event's [st] and payload, and inside a group every
       event starts within g of the furthest end reached by its predecessors; outputs are
       sorted, well formed, canonically encoded and cover every instant the source covers.
       Unbounded events need no extra hypothesis: for well-formed events the code's test
       (current.end is None or interval.start is None or start - end <= gap) IS
       [fstart x - fend c <= g] on the sentinel values (lemma [can_spec]); only g >= 0 is used,
       no bound such as g < 2^62.
   (b) buffer.  [buf_shift] keeps the payload and moves the two bounds; the fetch of a
       buffered stored timeline is, as a list, the shifted store filtered by the widened
       window; every stored event whose SHIFTED span meets the window is returned (reach-in),
       nothing else is; after clipping the result is exactly the clipped shifted store. *)
From CG Require Import Proofs.Defs.
From CG Require Import Spec.TransformSpec Proofs.Stored Proofs.RefSpec.

(* ------------------------------------------------------------------------------------ *)
(* small facts on bounds *)

Lemma fstart_some i z : st i = Some z -> fstart i = z.
Proof. intro H. unfold fstart. rewrite H. reflexivity. Qed.
Lemma fstart_none i : st i = None -> fstart i = NEG_INF.
Proof. intro H. unfold fstart. rewrite H. reflexivity. Qed.
Lemma fend_some i z : en i = Some z -> fend i = z.
Proof. intro H. unfold fend. rewrite H. reflexivity. Qed.
Lemma fend_none i : en i = None -> fend i = POS_INF.
Proof. intro H. unfold fend. rewrite H. reflexivity. Qed.
Lemma fstart_st_eq i j : st i = st j -> fstart i = fstart j.
Proof. intro H. unfold fstart. rewrite H. reflexivity. Qed.

Lemma filter_all {A} (f : A -> bool) l : (forall z, In z l -> f z = true) -> filter f l = l.
Proof.
  induction l as [|x r IH]; simpl; intro H; [reflexivity|].
  rewrite (H x (or_introl eq_refl)). f_equal. apply IH. intros z Hz. apply H. right; exact Hz.
Qed.

Lemma sorted_start_app_r' l1 l2 : sorted_start (l1 ++ l2) -> sorted_start l2.
Proof. induction l1 as [|x r IH]; simpl; [tauto|]. intros [_ H]. auto. Qed.

Lemma sorted_start_app_cross l1 l2 a b :
  sorted_start (l1 ++ l2) -> In a l1 -> In b l2 -> fstart a <= fstart b.
Proof.
  induction l1 as [|x r IH]; simpl; [tauto|]. intros [H1 H2] [<-|Ha] Hb.
  - apply H1. apply in_or_app. right; exact Hb.
  - apply IH; auto.
Qed.

(* ------------------------------------------------------------------------------------ *)
(* (a) merge_within *)

(* new_end of the merge step *)
Definition merged_end (c x : ivl) : option Z :=
  match en c, en x with Some ce, Some xe => Some (Z.max ce xe) | _, _ => None end.

Lemma mw_go_cons g c x r :
  mw_go g c (x :: r) =
  if (match en c, st x with Some ce, Some xs => xs - ce <=? g | _, _ => true end)
  then mw_go g (set_span c (st c) (merged_end c x)) r
  else c :: mw_go g x r.
Proof. reflexivity. Qed.

(* The code's can_merge test is the spec's chain test on the sentinel values.  Needs only
   that the events are well formed (fstart x < POS_INF, NEG_INF < fend c) and g >= 0. *)
Lemma can_spec g c x : 0 <= g -> wf_ivl c -> wf_ivl x ->
  match en c, st x with Some ce, Some xs => xs - ce <=? g | _, _ => true end
  = (fstart x - fend c <=? g).
Proof.
  intros Hg (C1 & C2 & C3 & C4 & C5) (X1 & X2 & X3 & X4 & X5).
  destruct (en c) as [ce|] eqn:Ec; destruct (st x) as [xs|] eqn:Ex.
  - rewrite (fend_some c ce Ec), (fstart_some x xs Ex). reflexivity.
  - rewrite (fend_some c ce Ec) in *. rewrite (fstart_none x Ex) in *. symmetry. lia.
  - rewrite (fend_none c Ec) in *. symmetry. lia.
  - rewrite (fend_none c Ec) in *. symmetry. lia.
Qed.

Lemma fend_merged c x : fend c <= POS_INF -> fend x <= POS_INF ->
  fend (set_span c (st c) (merged_end c x)) = Z.max (fend c) (fend x).
Proof.
  intros Hc Hx. unfold merged_end.
  destruct (en c) as [ce|] eqn:Ec; destruct (en x) as [xe|] eqn:Ex.
  - rewrite (fend_some c ce Ec), (fend_some x xe Ex). reflexivity.
  - rewrite (fend_none x Ex) in *. change (POS_INF = Z.max (fend c) POS_INF). lia.
  - rewrite (fend_none c Ec) in *. change (POS_INF = Z.max POS_INF (fend x)). lia.
  - rewrite (fend_none c Ec), (fend_none x Ex). change (POS_INF = Z.max POS_INF POS_INF). lia.
Qed.

Lemma merged_wf c x : wf_ivl c -> wf_ivl x -> wf_ivl (set_span c (st c) (merged_end c x)).
Proof.
  intros Hc Hx. pose proof Hc as (C1 & C2 & C3 & C4 & C5). pose proof Hx as (X1 & X2 & X3 & X4 & X5).
  unfold wf_ivl. rewrite fend_merged by assumption.
  change (fstart (set_span c (st c) (merged_end c x))) with (fstart c). lia.
Qed.

Lemma merged_canon_end c x :
  en c <> Some POS_INF -> en x <> Some POS_INF -> merged_end c x <> Some POS_INF.
Proof.
  intros Hc Hx. unfold merged_end. destruct (en c) as [ce|]; [|discriminate].
  destruct (en x) as [xe|]; [|discriminate]. intro H. injection H as H.
  destruct (Z.max_spec ce xe) as [[_ E]|[_ E]]; rewrite E in H; subst; congruence.
Qed.

(* furthest end *)
Lemma max_end_cons x l d : max_end (x :: l) d = max_end l (Z.max d (fend x)).
Proof. reflexivity. Qed.

Lemma max_end_ge l : forall d, d <= max_end l d.
Proof.
  induction l as [|x r IH]; intro d; [apply Z.le_refl|]. rewrite max_end_cons.
  specialize (IH (Z.max d (fend x))). lia.
Qed.

Lemma max_end_mono l : forall d d', d <= d' -> max_end l d <= max_end l d'.
Proof.
  induction l as [|x r IH]; intros d d' H; [exact H|]. rewrite !max_end_cons. apply IH. lia.
Qed.

Lemma max_end_in l : forall d x, In x l -> fend x <= max_end l d.
Proof.
  induction l as [|y r IH]; intros d x []; rewrite max_end_cons.
  - subst y. pose proof (max_end_ge r (Z.max d (fend x))). lia.
  - apply IH; assumption.
Qed.

Lemma max_end_app l1 l2 d : max_end (l1 ++ l2) d = max_end l2 (max_end l1 d).
Proof. unfold max_end. apply fold_left_app. Qed.

Lemma max_end_le l B : forall d, d <= B -> (forall x, In x l -> fend x <= B) -> max_end l d <= B.
Proof.
  induction l as [|y r IH]; intros d Hd H; [exact Hd|]. rewrite max_end_cons. apply IH.
  - specialize (H y (or_introl eq_refl)). lia.
  - intros x Hx. apply H. right; exact Hx.
Qed.

(* the Prop reading of chain_ok: every event of the group starts within g of the furthest end
   reached by its predecessors (the first event of the group included, through [reach]) *)
Lemma chain_ok_iff g : forall grp reach,
  chain_ok g reach grp = true <->
  (forall l1 y l2, grp = l1 ++ y :: l2 -> fstart y - max_end l1 reach <= g).
Proof.
  induction grp as [|x r IH]; intro reach; cbn [chain_ok].
  - split; [|reflexivity]. intros _ l1 y l2 H. destruct l1; discriminate.
  - rewrite andb_true_iff, IH. split.
    + intros [H1 H2] l1 y l2 E. destruct l1 as [|z l1]; cbn [app] in E; injection E as -> ->.
      * cbn [max_end fold_left]. lia.
      * rewrite max_end_cons. apply (H2 l1 y l2). reflexivity.
    + intro H. split.
      * specialize (H [] x r eq_refl). cbn [max_end fold_left] in H. lia.
      * intros l1 y l2 E. specialize (H (x :: l1) y l2). rewrite max_end_cons in H.
        apply H. rewrite E. reflexivity.
Qed.

(* one run of the loop: the current interval absorbs a prefix [grp] of the stream, the next
   event (if any) is more than g beyond the furthest end, and the loop restarts there *)
Lemma mw_go_split g : 0 <= g -> forall l c, wf_ivl c -> Forall wf_ivl l ->
  exists grp rest o,
    l = grp ++ rest /\ mw_go g c l = o :: mw g rest /\
    chain_ok g (fend c) grp = true /\ st o = st c /\ pl o = pl c /\
    fend o = max_end grp (fend c) /\
    (en c <> Some POS_INF -> Forall canon_ivl grp -> en o <> Some POS_INF) /\
    (forall y r, rest = y :: r -> g < fstart y - fend o).
Proof.
  intros Hg. induction l as [|x r IH]; intros c Hc Hl.
  - exists [], [], c. repeat split; auto. intros y r H; discriminate.
  - inversion Hl as [|? ? Hx Hr]; subst. rewrite mw_go_cons, (can_spec g c x Hg Hc Hx).
    destruct (fstart x - fend c <=? g) eqn:E.
    + destruct (IH (set_span c (st c) (merged_end c x)) (merged_wf c x Hc Hx) Hr)
        as (grp & rest & o & E1 & E2 & K & So & Po & Fo & Co & Far).
      assert (Fm : fend (set_span c (st c) (merged_end c x)) = Z.max (fend c) (fend x)).
      { destruct Hc as (_ & _ & C3 & _). destruct Hx as (_ & _ & X3 & _). apply fend_merged; assumption. }
      exists (x :: grp), rest, o. rewrite Fm in K, Fo.
      split; [rewrite E1; reflexivity|]. split; [exact E2|].
      split; [cbn [chain_ok]; rewrite K; lia|]. split; [exact So|]. split; [exact Po|].
      split; [rewrite max_end_cons; exact Fo|]. split; [|exact Far].
      intros Cc Cg. inversion Cg as [|? ? [_ Cx] Cg']; subst. apply Co; [|exact Cg'].
      apply merged_canon_end; assumption.
    + exists [], (x :: r), c. repeat split; auto.
      intros y r' H. injection H as <- <-. cbn [max_end fold_left]. lia.
Qed.

(* the result as a partition of the source into consecutive groups *)
Inductive mw_groups (g : Z) : list ivl -> list ivl -> Prop :=
| MG_nil : mw_groups g [] []
| MG_cons x grp rest o out :
    chain_ok g (fend x) grp = true ->
    st o = st x -> pl o = pl x -> fend o = max_end grp (fend x) ->
    en o <> Some POS_INF ->
    (forall y r, rest = y :: r -> g < fstart y - fend o) ->
    mw_groups g rest out ->
    mw_groups g (x :: grp ++ rest) (o :: out).

Lemma mw_groups_len g : 0 <= g -> forall n src, (length src <= n)%nat ->
  Forall wf_ivl src -> Forall canon_ivl src -> mw_groups g src (mw g src).
Proof.
  intros Hg. induction n as [|n IH]; intros src Hn Hwf Hcan.
  - destruct src; [constructor|simpl in Hn; lia].
  - destruct src as [|x l]; [constructor|].
    inversion Hwf as [|? ? Hx Hl]; subst. inversion Hcan as [|? ? [_ Cx] Cl]; subst.
    destruct (mw_go_split g Hg l x Hx Hl) as (grp & rest & o & E1 & E2 & K & So & Po & Fo & Co & Far).
    cbn [mw]. rewrite E2. subst l. apply Forall_app in Hl as [_ Hl]. apply Forall_app in Cl as [Cg Cl].
    constructor; auto. apply IH; auto.
    simpl in Hn. rewrite app_length in Hn. lia.
Qed.

Theorem mw_groups_mw g src : 0 <= g -> Forall wf_ivl src -> Forall canon_ivl src ->
  mw_groups g src (mw g src).
Proof. intros Hg. apply (mw_groups_len g Hg (length src)). apply Nat.le_refl. Qed.

(* every output starts where some event of the stream starts *)
Lemma mw_groups_starts g cur out : mw_groups g cur out ->
  forall o, In o out -> exists y, In y cur /\ st o = st y.
Proof.
  induction 1 as [|x grp rest o out K So Po Fo Co Far M IH]; intros o' []; subst.
  - exists x. split; [left; reflexivity|exact So].
  - destruct (IH o' H) as (y & Hy & E). exists y. split; [|exact E].
    right. apply in_or_app. right; exact Hy.
Qed.

Lemma rest_far g E rest : sorted_start rest ->
  (forall y r, rest = y :: r -> g < fstart y - E) -> forall y, In y rest -> g < fstart y - E.
Proof.
  intros Hs H y Hy. destruct rest as [|z r]; [destruct Hy|].
  specialize (H z r eq_refl). destruct Hs as [Hs _]. destruct Hy as [<-|Hy]; [exact H|].
  specialize (Hs y Hy). lia.
Qed.

(* facts about one group, used several times *)
Lemma group_facts g x grp rest o : 0 <= g ->
  Forall wf_ivl (x :: grp ++ rest) -> sorted_start (x :: grp ++ rest) ->
  st o = st x -> fend o = max_end grp (fend x) ->
  (forall y r, rest = y :: r -> g < fstart y - fend o) ->
  (forall y, In y (x :: grp) -> inside_ivl o y = true) /\
  (forall y, In y rest -> g < fstart y - fend o) /\
  (forall y, In y rest -> inside_ivl o y = false) /\
  (forall y, In y (x :: grp) -> fstart y < fend y /\ fend y <= fend o).
Proof.
  intros Hg Hwf Hs So Fo Far. rewrite Forall_forall in Hwf.
  assert (Fs : fstart o = fstart x) by (apply fstart_st_eq; exact So).
  assert (R : forall y, In y rest -> g < fstart y - fend o).
  { apply rest_far; [|exact Far]. change (x :: grp ++ rest) with ((x :: grp) ++ rest) in Hs.
    eapply sorted_start_app_r'; exact Hs. }
  assert (G : forall y, In y (x :: grp) -> fstart y < fend y /\ fend y <= fend o).
  { intros y Hy. assert (Wy : wf_ivl y).
    { apply Hwf. destruct Hy as [<-|Hy]; [left; reflexivity|right; apply in_or_app; left; exact Hy]. }
    destruct Wy as (_ & W & _). split; [exact W|]. rewrite Fo. destruct Hy as [<-|Hy].
    - apply max_end_ge.
    - apply max_end_in; exact Hy. }
  split; [|split; [exact R|split; [|exact G]]].
  - intros y Hy. destruct (G y Hy) as [_ G2]. unfold inside_ivl. rewrite Fs.
    destruct Hs as [Hs _]. destruct Hy as [<-|Hy]; [lia|].
    specialize (Hs y (in_or_app _ _ _ (or_introl Hy))). lia.
  - intros y Hy. specialize (R y Hy).
    assert (Wy : wf_ivl y) by (apply Hwf; right; apply in_or_app; right; exact Hy).
    destruct Wy as (_ & W & _). unfold inside_ivl. lia.
Qed.

(* any two outputs are more than g apart (pairwise, not only successive ones) *)
Fixpoint far_apartP (g : Z) (out : list ivl) : Prop :=
  match out with
  | [] => True
  | o :: r => (forall o', In o' r -> fend o + g < fstart o') /\ far_apartP g r
  end.

Lemma mw_groups_far g : 0 <= g -> forall cur out, mw_groups g cur out ->
  Forall wf_ivl cur -> sorted_start cur -> far_apartP g out.
Proof.
  intros Hg cur out M. induction M as [|x grp rest o out K So Po Fo Co Far M IH]; intros Hwf Hs.
  - exact I.
  - destruct (group_facts g x grp rest o Hg Hwf Hs So Fo Far) as (_ & R & _ & _).
    assert (Hs' : sorted_start rest).
    { change (x :: grp ++ rest) with ((x :: grp) ++ rest) in Hs. eapply sorted_start_app_r'; exact Hs. }
    assert (Hwf' : Forall wf_ivl rest).
    { change (x :: grp ++ rest) with ((x :: grp) ++ rest) in Hwf. apply Forall_app in Hwf. tauto. }
    split; [|apply IH; assumption].
    intros o' Ho'. destruct (mw_groups_starts g rest out M o' Ho') as (y & Hy & E).
    rewrite (fstart_st_eq o' y E). specialize (R y Hy). lia.
Qed.

Lemma far_apartP_far_apart g out : far_apartP g out -> far_apart g out = true.
Proof.
  induction out as [|o r IH]; [reflexivity|]. intros [H1 H2]. cbn [far_apart].
  destruct r as [|o' r']; [reflexivity|]. rewrite (IH H2), andb_true_r.
  specialize (H1 o' (or_introl eq_refl)). lia.
Qed.

(* every source event lies inside exactly one output *)
Lemma mw_groups_one g : 0 <= g -> forall cur out, mw_groups g cur out ->
  Forall wf_ivl cur -> sorted_start cur ->
  forall y, In y cur -> filter (fun o => inside_ivl o y) out <> [] /\
                        length (filter (fun o => inside_ivl o y) out) = 1%nat.
Proof.
  intros Hg cur out M. induction M as [|x grp rest o out K So Po Fo Co Far M IH]; intros Hwf Hs y Hy.
  - destruct Hy.
  - destruct (group_facts g x grp rest o Hg Hwf Hs So Fo Far) as (G1 & R & R2 & G2).
    assert (Hs' : sorted_start rest).
    { change (x :: grp ++ rest) with ((x :: grp) ++ rest) in Hs. eapply sorted_start_app_r'; exact Hs. }
    assert (Hwf' : Forall wf_ivl rest).
    { change (x :: grp ++ rest) with ((x :: grp) ++ rest) in Hwf. apply Forall_app in Hwf. tauto. }
    change (x :: grp ++ rest) with ((x :: grp) ++ rest) in Hy. apply in_app_or in Hy as [Hy|Hy].
    + cbn [filter]. rewrite (G1 y Hy).
      rewrite (filter_nil (fun o0 => inside_ivl o0 y) out); [split; [discriminate|reflexivity]|].
      intros o' Ho'. destruct (mw_groups_starts g rest out M o' Ho') as (z & Hz & E).
      unfold inside_ivl. rewrite (fstart_st_eq o' z E). specialize (R z Hz).
      destruct (G2 y Hy) as [A B]. lia.
    + cbn [filter]. rewrite (R2 y Hy). apply IH; assumption.
Qed.

(* every output is the merge of its group: the events inside it are exactly the group *)
Lemma mw_groups_group_ok g : 0 <= g -> forall cur out, mw_groups g cur out ->
  forall pre, Forall wf_ivl (pre ++ cur) -> sorted_start (pre ++ cur) ->
  (forall p o, In p pre -> In o out -> inside_ivl o p = false) ->
  forallb (group_ok g (pre ++ cur)) out = true.
Proof.
  intros Hg cur out M. induction M as [|x grp rest o out K So Po Fo Co Far M IH]; intros pre Hwf Hs Hpre.
  - reflexivity.
  - assert (Hwf0 : Forall wf_ivl (x :: grp ++ rest)) by (apply Forall_app in Hwf; tauto).
    assert (Hs0 : sorted_start (x :: grp ++ rest)) by (eapply sorted_start_app_r'; exact Hs).
    destruct (group_facts g x grp rest o Hg Hwf0 Hs0 So Fo Far) as (G1 & R & R2 & G2).
    cbn [forallb]. apply andb_true_iff. split.
    + unfold group_ok. change (x :: grp ++ rest) with ((x :: grp) ++ rest).
      rewrite !filter_app.
      rewrite (filter_nil (inside_ivl o) pre) by (intros p Hp; apply Hpre; [exact Hp|left; reflexivity]).
      rewrite (filter_nil (inside_ivl o) rest) by exact R2.
      rewrite (filter_all (inside_ivl o) (x :: grp)) by exact G1.
      rewrite app_nil_r. cbn [app].
      rewrite (fstart_st_eq o x So), Po, So, Fo, K.
      rewrite (proj2 (pl_eqb_eq (pl x) (pl x)) eq_refl), (proj2 (oZ_eqb_eq (st x) (st x)) eq_refl).
      rewrite !Z.eqb_refl. reflexivity.
    + change (x :: grp ++ rest) with ((x :: grp) ++ rest) in *. rewrite app_assoc in *.
      apply IH; [exact Hwf|exact Hs|].
      intros p o' Hp Ho'. apply in_app_or in Hp as [Hp|Hp].
      * apply Hpre; [exact Hp|right; exact Ho'].
      * destruct (mw_groups_starts g rest out M o' Ho') as (z & Hz & E).
        unfold inside_ivl. rewrite (fstart_st_eq o' z E). specialize (R z Hz).
        destruct (G2 p Hp) as [A B]. lia.
Qed.

Lemma mw_groups_no_sentinel g cur out : mw_groups g cur out ->
  Forall wf_ivl cur -> Forall canon_ivl cur -> forallb no_sentinel out = true.
Proof.
  intro M. induction M as [|x grp rest o out K So Po Fo Co Far M IH]; intros Hwf Hcan; [reflexivity|].
  inversion Hwf as [|? ? Hx Hl]; subst. inversion Hcan as [|? ? [Cx _] Cl]; subst.
  apply Forall_app in Hl as [_ Hl]. apply Forall_app in Cl as [_ Cl].
  cbn [forallb]. rewrite (IH Hl Cl), andb_true_r.
  destruct Hx as (X1 & X2 & X3 & X4 & X5).
  pose proof (max_end_ge grp (fend x)) as Hge. rewrite <- Fo in Hge.
  unfold no_sentinel. rewrite So.
  assert (E1 : oZ_eqb (st x) (Some NEG_INF) = false).
  { destruct (oZ_eqb (st x) (Some NEG_INF)) eqn:E; [|reflexivity]. apply oZ_eqb_eq in E. contradiction. }
  assert (E2 : oZ_eqb (en o) (Some POS_INF) = false).
  { destruct (oZ_eqb (en o) (Some POS_INF)) eqn:E; [|reflexivity]. apply oZ_eqb_eq in E. contradiction. }
  assert (E3 : oZ_eqb (st x) (Some POS_INF) = false).
  { destruct (oZ_eqb (st x) (Some POS_INF)) eqn:E; [|reflexivity]. apply oZ_eqb_eq in E.
    rewrite (fstart_some x POS_INF E) in X4. lia. }
  assert (E4 : oZ_eqb (en o) (Some NEG_INF) = false).
  { destruct (oZ_eqb (en o) (Some NEG_INF)) eqn:E; [|reflexivity]. apply oZ_eqb_eq in E.
    rewrite (fend_some o NEG_INF E) in Hge. lia. }
  rewrite E1, E2, E3, E4. reflexivity.
Qed.

(* ---- the main theorem: merge_within meets its declarative specification ---- *)
Theorem mw_spec g src :
  0 <= g -> Forall wf_ivl src -> Forall canon_ivl src -> sorted_start src ->
  mw_spec_ok g src (mw g src) = true.
Proof.
  intros Hg Hwf Hcan Hs. pose proof (mw_groups_mw g src Hg Hwf Hcan) as M.
  unfold mw_spec_ok. repeat (apply andb_true_iff; split).
  - apply far_apartP_far_apart. apply (mw_groups_far g Hg src); assumption.
  - apply (mw_groups_group_ok g Hg src (mw g src) M []); auto.
    intros p o [].
  - apply forallb_forall. intros y Hy.
    destruct (mw_groups_one g Hg src (mw g src) M Hwf Hs y Hy) as [_ H]. rewrite H. reflexivity.
  - apply (mw_groups_no_sentinel g src); assumption.
Qed.

(* ---- the same content, stated directly ---- *)

(* events further than gap apart are never joined: any two outputs are more than g apart *)
Theorem mw_far_apart g src :
  0 <= g -> Forall wf_ivl src -> Forall canon_ivl src -> sorted_start src ->
  far_apartP g (mw g src).
Proof. intros Hg Hwf Hcan Hs. apply (mw_groups_far g Hg src); auto. apply mw_groups_mw; auto. Qed.

Corollary mw_far_apart_adjacent g src l1 o o' l2 :
  0 <= g -> Forall wf_ivl src -> Forall canon_ivl src -> sorted_start src ->
  mw g src = l1 ++ o :: o' :: l2 -> fend o + g < fstart o'.
Proof.
  intros Hg Hwf Hcan Hs E. pose proof (mw_far_apart g src Hg Hwf Hcan Hs) as F. rewrite E in F.
  clear E. induction l1 as [|z l1 IH]; cbn [app far_apartP] in F.
  - destruct F as [F _]. apply F. left; reflexivity.
  - apply IH. tauto.
Qed.

(* every source event lies inside exactly one output *)
Theorem mw_inside_one g src x :
  0 <= g -> Forall wf_ivl src -> Forall canon_ivl src -> sorted_start src -> In x src ->
  exists o, In o (mw g src) /\ inside_ivl o x = true /\
            filter (fun o' => inside_ivl o' x) (mw g src) = [o].
Proof.
  intros Hg Hwf Hcan Hs Hx. pose proof (mw_groups_mw g src Hg Hwf Hcan) as M.
  destruct (mw_groups_one g Hg src (mw g src) M Hwf Hs x Hx) as [_ H].
  destruct (filter (fun o' => inside_ivl o' x) (mw g src)) as [|o [|o2 r]] eqn:E; try discriminate.
  exists o. assert (Ho : In o (filter (fun o' => inside_ivl o' x) (mw g src))) by (rewrite E; left; reflexivity).
  apply filter_In in Ho as [Ho1 Ho2]. auto.
Qed.

Corollary mw_inside_unique g src x o1 o2 :
  0 <= g -> Forall wf_ivl src -> Forall canon_ivl src -> sorted_start src -> In x src ->
  In o1 (mw g src) -> In o2 (mw g src) -> inside_ivl o1 x = true -> inside_ivl o2 x = true -> o1 = o2.
Proof.
  intros Hg Hwf Hcan Hs Hx H1 H2 I1 I2.
  destruct (mw_inside_one g src x Hg Hwf Hcan Hs Hx) as (o & _ & _ & E).
  assert (A : In o1 [o]) by (rewrite <- E; apply filter_In; auto).
  assert (B : In o2 [o]) by (rewrite <- E; apply filter_In; auto).
  destruct A as [<-|[]]. destruct B as [<-|[]]. reflexivity.
Qed.

(* the shape of an output: first event's start, [st] and payload; furthest end of its group;
   the group is linked by a chain of steps of at most g *)
Theorem mw_group_shape g src o :
  0 <= g -> Forall wf_ivl src -> Forall canon_ivl src -> sorted_start src -> In o (mw g src) ->
  exists x grp,
    filter (inside_ivl o) src = x :: grp /\
    st o = st x /\ fstart o = fstart x /\ pl o = pl x /\
    fend o = max_end grp (fend x) /\
    (forall y, In y grp -> fend y <= fend o) /\
    (forall l1 y l2, grp = l1 ++ y :: l2 -> fstart y - max_end l1 (fend x) <= g).
Proof.
  intros Hg Hwf Hcan Hs Ho. pose proof (mw_spec g src Hg Hwf Hcan Hs) as S.
  unfold mw_spec_ok in S. rewrite !andb_true_iff in S. destruct S as [[[_ S] _] _].
  rewrite forallb_forall in S. specialize (S o Ho). unfold group_ok in S.
  destruct (filter (inside_ivl o) src) as [|x grp]; [discriminate|].
  rewrite !andb_true_iff in S. destruct S as [[[[S1 S2] S3] S4] S5].
  exists x, grp. apply pl_eqb_eq in S2. apply oZ_eqb_eq in S3.
  split; [reflexivity|]. split; [exact S3|]. split; [lia|]. split; [exact S2|].
  assert (Fo : fend o = max_end grp (fend x)) by lia.
  split; [exact Fo|]. split.
  - intros y Hy. rewrite Fo. apply max_end_in; exact Hy.
  - apply chain_ok_iff; exact S5.
Qed.

(* outputs are sorted by start, well formed and canonically encoded *)
Lemma mw_groups_out_wf g cur out : mw_groups g cur out ->
  Forall wf_ivl cur -> Forall canon_ivl cur -> Forall wf_ivl out /\ Forall canon_ivl out.
Proof.
  intro M. induction M as [|x grp rest o out K So Po Fo Co Far M IH]; intros Hwf Hcan; [split; constructor|].
  inversion Hwf as [|? ? Hx Hl]; subst. inversion Hcan as [|? ? [Cx _] Cl]; subst.
  apply Forall_app in Hl as [Hg Hl]. apply Forall_app in Cl as [_ Cl].
  destruct (IH Hl Cl) as [A B]. split; constructor; auto.
  - destruct Hx as (X1 & X2 & X3 & X4 & X5).
    pose proof (max_end_ge grp (fend x)) as Hge.
    assert (Hle : max_end grp (fend x) <= POS_INF).
    { apply max_end_le; [exact X3|]. intros y Hy. rewrite Forall_forall in Hg.
      destruct (Hg y Hy) as (_ & _ & Y3 & _). exact Y3. }
    unfold wf_ivl. rewrite (fstart_st_eq o x So), Fo. lia.
  - split; [rewrite So; exact Cx|exact Co].
Qed.

Theorem mw_out_wf g src :
  0 <= g -> Forall wf_ivl src -> Forall canon_ivl src ->
  Forall wf_ivl (mw g src) /\ Forall canon_ivl (mw g src).
Proof. intros Hg Hwf Hcan. apply (mw_groups_out_wf g src); auto. apply mw_groups_mw; auto. Qed.

Theorem mw_sorted g src :
  0 <= g -> Forall wf_ivl src -> Forall canon_ivl src -> sorted_start src ->
  sorted_start (mw g src) /\ separatedP (mw g src).
Proof.
  intros Hg Hwf Hcan Hs. pose proof (mw_far_apart g src Hg Hwf Hcan Hs) as F.
  destruct (mw_out_wf g src Hg Hwf Hcan) as [W _].
  induction (mw g src) as [|o r IH]; [split; exact I|].
  destruct F as [F1 F2]. inversion W as [|? ? Wo Wr]; subst. destruct (IH F2 Wr) as [A B].
  destruct Wo as (_ & Wo & _).
  split; (split; [|assumption]); intros o' Ho'; specialize (F1 o' Ho'); lia.
Qed.

(* nothing the source covers is lost *)
Theorem mw_covers g src t :
  0 <= g -> Forall wf_ivl src -> Forall canon_ivl src -> sorted_start src ->
  covers src t = true -> covers (mw g src) t = true.
Proof.
  intros Hg Hwf Hcan Hs Hc. apply covers_true_iff in Hc as (x & Hx & Hi).
  destruct (mw_inside_one g src x Hg Hwf Hcan Hs Hx) as (o & Ho & Io & _).
  apply covers_true_iff. exists o. split; [exact Ho|]. unfold inside_ivl in Io. unfold inside in *. lia.
Qed.

(* ---- windows ---- *)
(* the MergeW case of fetch: merge of whatever the source returns for the window *)
Lemma fetch_mergew env s g a b :
  fetch env (MergeW s g) a b false = mw g (fetch env s a b false) /\
  fetch env (MergeW s g) a b true = rev (mw g (fetch env s a b false)).
Proof. split; reflexivity. Qed.

(* the result depends on the window only through the source events returned: if the window
   contains all events, the result is the global merge *)
Theorem mw_window_global env s g a b :
  fetch env s a b false = fetch env s None None false ->
  fetch env (MergeW s g) a b false = fetch env (MergeW s g) None None false /\
  fetch env (MergeW s g) a b true = fetch env (MergeW s g) None None true.
Proof. intro H. cbn [fetch]. rewrite H. split; reflexivity. Qed.

(* for a stored source: a window meeting every event returns the global merge of the store *)
Corollary mw_window_global_stored env evs g a b :
  (forall x, In x evs -> in_range a b x = true) ->
  fetch env (MergeW (Stored evs) g) a b false = mw g (sl_build evs).
Proof.
  intro H. cbn [fetch]. rewrite (proj1 (fetch_static_spec (sl_build evs) a b (sl_build_sorted evs))).
  rewrite filter_all; [reflexivity|]. intros z Hz. apply H. apply sl_build_in; exact Hz.
Qed.

(* merge_within of a stored timeline meets the specification on every window *)
Corollary mw_fetch_stored_spec env evs g a b :
  0 <= g -> Forall wf_ivl evs -> Forall canon_ivl evs ->
  mw_spec_ok g (fetch env (Stored evs) a b false) (fetch env (MergeW (Stored evs) g) a b false) = true.
Proof.
  intros Hg Hwf Hcan. cbn [fetch].
  assert (Hin : forall x, In x (fetch_static (sl_build evs) a b false) -> In x evs).
  { intros x Hx. apply fetch_static_in in Hx; [|apply sl_build_sorted]. apply sl_build_in. tauto. }
  apply mw_spec; auto.
  - rewrite Forall_forall in *. auto.
  - rewrite Forall_forall in *. auto.
  - apply sorted_key_sorted_start, fetch_static_sorted, sl_build_sorted.
Qed.

(* ------------------------------------------------------------------------------------ *)
(* (b) buffer *)

Lemma buf_shift_pl before after x : pl (buf_shift before after x) = pl x.
Proof. reflexivity. Qed.

Lemma buf_shift_st before after x : st (buf_shift before after x) = addO (st x) (- before).
Proof. reflexivity. Qed.

Lemma buf_shift_en before after x : en (buf_shift before after x) = addO (en x) after.
Proof. reflexivity. Qed.

(* a bounded start moves back by [before]; an unbounded one stays unbounded *)
Lemma fstart_buf_shift before after x :
  st x <> None -> fstart (buf_shift before after x) = fstart x - before.
Proof.
  intro H. unfold fstart. rewrite buf_shift_st. destruct (st x) as [z|]; [|contradiction].
  cbn [addO]. lia.
Qed.

Lemma fstart_buf_shift_none before after x :
  st x = None -> fstart (buf_shift before after x) = NEG_INF.
Proof. intro H. unfold fstart. rewrite buf_shift_st, H. reflexivity. Qed.

(* a bounded end moves forward by [after]; an unbounded one stays unbounded *)
Lemma fend_buf_shift before after x :
  en x <> None -> fend (buf_shift before after x) = fend x + after.
Proof.
  intro H. unfold fend. rewrite buf_shift_en. destruct (en x) as [z|]; [|contradiction].
  reflexivity.
Qed.

Lemma fend_buf_shift_none before after x :
  en x = None -> fend (buf_shift before after x) = POS_INF.
Proof. intro H. unfold fend. rewrite buf_shift_en, H. reflexivity. Qed.

(* shifting by nothing changes nothing *)
Lemma buf_shift_0 x : buf_shift 0 0 x = x.
Proof.
  destruct x as [s e p]. unfold buf_shift, set_span. cbn [st en pl]. f_equal.
  - destruct s as [z|]; [|reflexivity]. cbn [addO]. f_equal. lia.
  - destruct e as [z|]; [|reflexivity]. cbn [addO]. f_equal. lia.
Qed.

(* a well-formed event extended by non-negative amounts keeps a positive length *)
Lemma buf_shift_pos_len before after x :
  0 <= before -> 0 <= after -> wf_ivl x -> fstart (buf_shift before after x) < fend (buf_shift before after x).
Proof.
  intros Hb Ha (W1 & W2 & W3 & W4 & W5).
  destruct (st x) as [s|] eqn:Es; destruct (en x) as [e|] eqn:Ee.
  - rewrite fstart_buf_shift, fend_buf_shift by congruence. lia.
  - rewrite fstart_buf_shift, fend_buf_shift_none by congruence. lia.
  - rewrite fstart_buf_shift_none, fend_buf_shift by congruence. lia.
  - rewrite fstart_buf_shift_none, fend_buf_shift_none by congruence. lia.
Qed.

(* the Buf case of fetch over a stored timeline: the source is queried on the widened window
   [a - after, b + before) and every returned event is extended *)
Theorem fetch_buf_stored env evs before after a b :
  fetch env (Buf (Stored evs) before after) a b false =
  map (buf_shift before after) (fetch env (Stored evs) (addO a (- after)) (addO b before) false).
Proof. reflexivity. Qed.

Theorem fetch_buf_stored_filter env evs before after a b :
  fetch env (Buf (Stored evs) before after) a b false =
  map (buf_shift before after)
      (filter (in_range (addO a (- after)) (addO b before)) (sl_build evs)).
Proof.
  rewrite fetch_buf_stored. rewrite (proj1 (fetch_stored_spec env evs _ _)). reflexivity.
Qed.

(* the widened window test never rejects an event whose extension meets the window ... *)
Lemma widened_range_complete before after a b x :
  0 <= before -> 0 <= after ->
  in_range (addO a (- after)) (addO b before) x = false ->
  Z.min (fend (buf_shift before after x)) (bnd_hi b) <= Z.max (fstart (buf_shift before after x)) (bnd_lo a).
Proof.
  intros Hb Ha Hr. unfold in_range in Hr. apply andb_false_iff in Hr as [Hr|Hr].
  - destruct b as [e|]; [|discriminate]. cbn [addO bnd_hi] in *.
    destruct (st x) as [s|] eqn:Es.
    + rewrite fstart_buf_shift by congruence. rewrite (fstart_some x s Es) in *. lia.
    + rewrite fstart_buf_shift_none by exact Es. rewrite (fstart_none x Es) in *. lia.
  - destruct a as [s|]; [|discriminate]. cbn [addO bnd_lo] in *.
    destruct (en x) as [e|] eqn:Ee.
    + rewrite fend_buf_shift by congruence. rewrite (fend_some x e Ee) in *. lia.
    + rewrite fend_buf_shift_none by exact Ee. rewrite (fend_none x Ee) in *. lia.
Qed.

(* reach-in: a stored event lying outside the window whose EXTENDED span meets the window is
   returned (extended); stated with [overlaps_win] of Proofs/Stored.v on the shifted event *)
Theorem buf_reach_in env evs before after a b rv x :
  0 <= before -> 0 <= after -> In x evs -> wf_ivl x ->
  overlaps_win a b (buf_shift before after x) ->
  In (buf_shift before after x) (fetch env (Buf (Stored evs) before after) a b rv).
Proof.
  intros Hb Ha Hx Hwf Ho. cbn [fetch]. apply in_map.
  apply fetch_static_complete; [apply sl_build_sorted|apply sl_build_in; exact Hx|exact Hwf|].
  unfold overlaps_win in *. destruct Hwf as (W1 & W2 & W3 & W4 & W5).
  assert (Hlo : bnd_lo (addO a (- after)) <= bnd_lo a) by (destruct a; cbn [addO bnd_lo]; lia).
  assert (Hhi : bnd_hi b <= bnd_hi (addO b before)) by (destruct b; cbn [addO bnd_hi]; lia).
  assert (Hlo' : bnd_lo (addO a (- after)) = NEG_INF \/ bnd_lo (addO a (- after)) = bnd_lo a - after)
    by (destruct a; cbn [addO bnd_lo]; [right|left]; lia).
  assert (Hhi' : bnd_hi (addO b before) = POS_INF \/ bnd_hi (addO b before) = bnd_hi b + before)
    by (destruct b; cbn [addO bnd_hi]; [right|left]; lia).
  destruct (st x) as [s|] eqn:Es; destruct (en x) as [e|] eqn:Ee.
  - rewrite fstart_buf_shift, fend_buf_shift in Ho by congruence. lia.
  - rewrite fstart_buf_shift, fend_buf_shift_none in Ho by congruence.
    rewrite (fend_none x Ee) in *. lia.
  - rewrite fstart_buf_shift_none, fend_buf_shift in Ho by congruence.
    rewrite (fstart_none x Es) in *. lia.
  - rewrite fstart_buf_shift_none, fend_buf_shift_none in Ho by congruence.
    rewrite (fstart_none x Es), (fend_none x Ee) in *. lia.
Qed.

(* conversely every returned element is the extension of a stored event *)
Theorem buf_fetch_sound env evs before after a b rv y :
  In y (fetch env (Buf (Stored evs) before after) a b rv) ->
  exists x, In x evs /\ y = buf_shift before after x.
Proof.
  cbn [fetch]. intro H. apply in_map_iff in H as (x & <- & Hx).
  apply fetch_static_sound in Hx; [|apply sl_build_sorted]. destruct Hx as [Hx _].
  exists x. split; [apply sl_build_in; exact Hx|reflexivity].
Qed.

Lemma flat_map_filter_skip {A B} (f : A -> list B) (p : A -> bool) l :
  (forall x, In x l -> p x = false -> f x = []) -> flat_map f (filter p l) = flat_map f l.
Proof.
  induction l as [|x r IH]; intro H; [reflexivity|]. cbn [filter flat_map].
  assert (IH' : flat_map f (filter p r) = flat_map f r) by (apply IH; intros z Hz; apply H; right; exact Hz).
  destruct (p x) eqn:E.
  - cbn [flat_map]. rewrite IH'. reflexivity.
  - rewrite (H x (or_introl eq_refl) E), IH'. reflexivity.
Qed.

(* after clipping, the slice of a buffered stored timeline is exactly (as a list, in store
   order) the clip of every extended stored event: nothing that reaches into the window after
   extension is missed and nothing else contributes.  No hypothesis on the events. *)
Theorem buf_clip_exact env evs before after a b :
  0 <= before -> 0 <= after ->
  flat_map (clipW a b) (fetch env (Buf (Stored evs) before after) a b false) =
  flat_map (clipW a b) (map (buf_shift before after) (sl_build evs)).
Proof.
  intros Hb Ha. rewrite fetch_buf_stored_filter.
  rewrite !flat_map_concat_map, !map_map, <- !flat_map_concat_map.
  apply flat_map_filter_skip. intros x _ Hr.
  pose proof (widened_range_complete before after a b x Hb Ha Hr) as H.
  unfold clipW. destruct (Z.max _ _ <? Z.min _ _) eqn:E; [lia|reflexivity].
Qed.

Lemma filter_pos_len_all evs : (forall x, In x evs -> pos_len x = true) -> filter pos_len evs = evs.
Proof. apply filter_all. Qed.

(* against the reference semantics ([expected] = clip of [ref]): same events, up to the order
   of the store, when the stored events have positive length *)
Theorem buf_fetch_expected env evs before after a b :
  0 <= before -> 0 <= after -> (forall x, In x evs -> pos_len x = true) ->
  Permutation (flat_map (clipW a b) (fetch env (Buf (Stored evs) before after) a b false))
              (expected env (Buf (Stored evs) before after) a b).
Proof.
  intros Hb Ha Hp. rewrite buf_clip_exact by assumption.
  unfold expected. cbn [ref]. rewrite (filter_pos_len_all evs Hp).
  apply Permutation_flat_map, Permutation_map, sl_build_perm.
Qed.

(* the reverse fetch is the forward one reversed *)
Theorem fetch_buf_stored_rev env evs before after a b :
  fetch env (Buf (Stored evs) before after) a b true =
  rev (fetch env (Buf (Stored evs) before after) a b false).
Proof.
  cbn [fetch]. rewrite (proj2 (fetch_static_spec (sl_build evs) _ _ (sl_build_sorted evs))).
  apply map_rev.
Qed.

Print Assumptions mw_spec.
Print Assumptions mw_groups_mw.
Print Assumptions mw_far_apart.
Print Assumptions mw_far_apart_adjacent.
Print Assumptions mw_inside_one.
Print Assumptions mw_inside_unique.
Print Assumptions mw_group_shape.
Print Assumptions mw_out_wf.
Print Assumptions mw_sorted.
Print Assumptions mw_covers.
Print Assumptions mw_window_global.
Print Assumptions mw_window_global_stored.
Print Assumptions mw_fetch_stored_spec.
Print Assumptions can_spec.
Print Assumptions fetch_buf_stored.
Print Assumptions buf_reach_in.
Print Assumptions buf_fetch_sound.
Print Assumptions buf_clip_exact.
Print Assumptions buf_fetch_expected.
Print Assumptions fetch_buf_stored_rev.
