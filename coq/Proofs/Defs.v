(* Proofs/Defs.v — Prop-level predicates and small lemmas shared by the proof files. *)
From Coq Require Export ZArith List Bool Lia ZifyBool Permutation.
From CG Require Export Spec.Sets.
Export ListNotations.
Open Scope Z_scope.

(* The intervals the properties quantify over: bounds strictly between the sentinels (None
   stands for the sentinel itself), positive length. *)
Definition wf_ivl (i : ivl) : Prop :=
  NEG_INF <= fstart i /\ fstart i < fend i /\ fend i <= POS_INF /\
  fstart i < POS_INF /\ NEG_INF < fend i.

(* canonical option encoding: a stored bound is never the sentinel value itself *)
Definition canon_ivl (i : ivl) : Prop :=
  st i <> Some NEG_INF /\ en i <> Some POS_INF.

(* sorted by finite_start *)
Fixpoint sorted_start (l : list ivl) : Prop :=
  match l with
  | [] => True
  | x :: r => (forall y, In y r -> fstart x <= fstart y) /\ sorted_start r
  end.

(* sorted by start and pairwise non-overlapping (touching allowed) *)
Fixpoint disjoint_sorted (l : list ivl) : Prop :=
  match l with
  | [] => True
  | x :: r => (forall y, In y r -> fend x <= fstart y) /\ disjoint_sorted r
  end.

(* strictly separated: never touching *)
Fixpoint separatedP (l : list ivl) : Prop :=
  match l with
  | [] => True
  | x :: r => (forall y, In y r -> fend x < fstart y) /\ separatedP r
  end.

Lemma covers_app l1 l2 t : covers (l1 ++ l2) t = covers l1 t || covers l2 t.
Proof. unfold covers. apply existsb_app. Qed.

Lemma covers_cons x l t : covers (x :: l) t = inside x t || covers l t.
Proof. reflexivity. Qed.

Lemma covers_nil t : covers [] t = false.
Proof. reflexivity. Qed.

Lemma covers_true_iff l t : covers l t = true <-> exists x, In x l /\ inside x t = true.
Proof. unfold covers. apply existsb_exists. Qed.

Lemma covers_false_iff l t : covers l t = false <-> forall x, In x l -> inside x t = false.
Proof.
  split.
  - intros H x Hx. destruct (inside x t) eqn:E; [|reflexivity].
    assert (covers l t = true) by (apply covers_true_iff; eauto). congruence.
  - intros H. destruct (covers l t) eqn:E; [|reflexivity].
    apply covers_true_iff in E as [x [Hx Hi]]. rewrite (H x Hx) in Hi. discriminate.
Qed.

Lemma covers_perm l1 l2 t : Permutation l1 l2 -> covers l1 t = covers l2 t.
Proof.
  intro P. destruct (covers l1 t) eqn:E1; symmetry.
  - apply covers_true_iff in E1 as [x [Hx Hi]]. apply covers_true_iff. exists x; split; [|exact Hi].
    eapply Permutation_in; eauto.
  - apply covers_false_iff. intros x Hx. eapply (proj1 (covers_false_iff l1 t)); eauto.
    eapply Permutation_in; [apply Permutation_sym|]; eauto.
Qed.

Lemma sorted_start_tail x l : sorted_start (x :: l) -> sorted_start l.
Proof. intros [_ H]; exact H. Qed.

Lemma disjoint_sorted_sorted l : Forall wf_ivl l -> disjoint_sorted l -> sorted_start l.
Proof.
  induction l as [|x r IH]; simpl; [tauto|]. intros Hwf [Hx Hr]. inversion Hwf; subst.
  split; [|auto]. intros y Hy. specialize (Hx y Hy).
  match goal with H : wf_ivl x |- _ => destruct H as (? & ? & _) end. lia.
Qed.

Lemma fstart_unS z b p : fstart (mkI (unS z) b p) = z.
Proof. unfold fstart, unS; simpl. destruct (z =? NEG_INF) eqn:E; simpl; lia. Qed.

Lemma fend_unE a z p : fend (mkI a (unE z) p) = z.
Proof. unfold fend, unE; simpl. destruct (z =? POS_INF) eqn:E; simpl; lia. Qed.
