(* Proofs/GenEq_gcsa3.v — tie C for calgebra/gcsa.py (tag gcsa), part 3: the write path of one event
     H. g_gcsa_convert_timestamps      _convert_timestamps_to_datetime  (dates in the calendar's zone / UTC datetimes)
     I. g_gcsa_prepare_event_for_add   _prepare_event_for_add           } together = Model/Gcsa.v prepare,
        g_gcsa_build_gcsa_event        _build_gcsa_event                } and add_interval is their composition
        g_gcsa_build_result_event      _build_result_event              } with the backend call
   Instantiation (TRUSTED reading R10 of srcspecs_gcsa.py): an Event handed to add() is the model's wev
   (it has passed _validate_event and has finite bounds); a _PreparedEvent / WriteResult is the type pw. *)
From CG Require Import Model.Loop Gen.Source Model.Gcsa.
From CG Require Proofs.GcsaP Proofs.GenEq_gcsa Proofs.GenEq_gcsa2.
From Coq Require Import ZArith List Bool Lia ZifyBool.
Import ListNotations.
Local Open Scope Z_scope.
Ltac Zify.zify_post_hook ::= Z.to_euclidean_division_equations.
Import GenEq_gcsa GenEq_gcsa2.

(* datetime.fromtimestamp(t, tz=z) and x.date() on the values of GenEq_gcsa2 *)
Definition dv_fromtimestamp (t : Z) (z : zone) : dv := DDt (PZone z (utc_to_wall z t) (fold_of z t)).
Definition dv_date (v : dv) : dv := match v with DDt p => DDate (p_wall p / DAY) | _ => v end.
(* what the backend stores for a start / end: the day number of a date, the instant of a datetime *)
Definition dv_val (v : dv) : Z := match v with DDate d => d | DDt p => p_instant p | DNone => 0 end.
Definition dv_is_plain_date (v : dv) : bool := match v with DDate _ => true | _ => false end.

Lemma fold_of_utc t : fold_of utc_zone t = false.
Proof. unfold fold_of. rewrite utc_wall, utc_back. rewrite Z.eqb_refl. reflexivity. Qed.

(* ========================================================================================== *)
(* H. _convert_timestamps_to_datetime                                                           *)
Definition src_convert_timestamps (s e : Z) (ad : bool) (ctz : option zone) : dv * dv :=
  g_gcsa_convert_timestamps utc_zone dv_fromtimestamp dv_date s e ad ctz.

Theorem g_gcsa_convert_timestamps_eq (s e : Z) (ad : bool) (ctz : option zone) :
  src_convert_timestamps s e ad ctz =
  if ad then (DDate (local_date ctz s), DDate (local_date ctz e))
  else (DDt (PZone utc_zone s false), DDt (PZone utc_zone e false)).
Proof.
  unfold src_convert_timestamps, g_gcsa_convert_timestamps, g_gcsa_ts_to_dt, dv_fromtimestamp, local_date, tz_or_utc.
  destruct ad; cbv zeta; cbn [dv_date p_wall].
  - destruct ctz; reflexivity.
  - rewrite !utc_wall, !fold_of_utc. reflexivity.
Qed.
Print Assumptions g_gcsa_convert_timestamps_eq.

(* ========================================================================================== *)
(* I. _prepare_event_for_add, _build_gcsa_event, _build_result_event                            *)
Inductive pw :=
| PWPrepared (w : wev) (s e : Z) (ad : bool) (sdt edt : dv)     (* _PreparedEvent(...) *)
| PWResult (r : wres)                                           (* a WriteResult *)
| PWAssertion.                                                  (* `assert event is not None` failed *)

Definition wev0 : wev := mkW 0%N None None None 0 0.
Definition pw_event (p : pw) : wev := match p with PWPrepared w _ _ _ _ _ => w | _ => wev0 end.
Definition pw_start (p : pw) : Z := match p with PWPrepared _ s _ _ _ _ => s | _ => 0 end.
Definition pw_end (p : pw) : Z := match p with PWPrepared _ _ e _ _ _ => e | _ => 0 end.
Definition pw_is_all_day (p : pw) : bool := match p with PWPrepared _ _ _ ad _ _ => ad | _ => false end.
Definition pw_start_dt (p : pw) : dv := match p with PWPrepared _ _ _ _ x _ => x | _ => DNone end.
Definition pw_end_dt (p : pw) : dv := match p with PWPrepared _ _ _ _ _ x => x | _ => DNone end.

Definition src_prepare (ctz : option zone) (w : wev) : pw :=
  g_gcsa_prepare_event_for_add (ERRS := unit) (CID := unit) (CSUM := unit)
    utc_zone gz_fromtimestamp gz_time 0 gz_neb (fun s => s) gz_of_days gz_of_hours gz_td_days Z.sub Z.gtb
    dv_fromtimestamp dv_date
    (fun w => (Some w, None)) (fun _ => PWResult failed) PWAssertion (fun _ => PWResult failed)
    (fun w => Some (v_s w)) (fun w => Some (v_e w)) v_allday (fun w _ _ => w) PWPrepared
    w tt tt ctz.

Definition all_day_of (ctz : option zone) (w : wev) : bool :=
  match v_allday w with Some x => x | None => infer_all_day (v_s w) (v_e w) ctz end.

Theorem g_gcsa_prepare_event_for_add_eq (ctz : option zone) (w : wev) :
  src_prepare ctz w =
  let ad := all_day_of ctz w in
  PWPrepared w (v_s w) (v_e w) ad (fst (src_convert_timestamps (v_s w) (v_e w) ad ctz))
             (snd (src_convert_timestamps (v_s w) (v_e w) ad ctz)).
Proof.
  unfold src_prepare, g_gcsa_prepare_event_for_add, all_day_of. cbv zeta. cbn [is_none orb ozd].
  fold (src_infer_is_all_day (v_s w) (v_e w) ctz). rewrite g_gcsa_infer_is_all_day_eq.
  set (ad := match v_allday w with Some x => x | None => _ end).
  fold (src_convert_timestamps (v_s w) (v_e w) ad ctz).
  destruct (src_convert_timestamps (v_s w) (v_e w) ad ctz). reflexivity.
Qed.
Print Assumptions g_gcsa_prepare_event_for_add_eq.

(* GcsaEvent(summary=, start=, end=, timezone=, description=, reminders=) as the request the simulated
   backend receives; _convert_reminders_to_gcsa: None -> no reminders *)
Definition mk_gcsa_event (sm : N) (sdt edt : dv) (tz : option zone) (desc : option N) (rems : list reminder) : wreq :=
  mkQ (Some sm) desc tz rems (dv_is_plain_date sdt) (dv_val sdt) (dv_val edt) None.
Definition grems (o : option (list reminder)) : list reminder := match o with Some l => l | None => [] end.

Definition src_build_gcsa_event (p : pw) : wreq :=
  g_gcsa_build_gcsa_event pw_event pw_start_dt pw_end_dt pw_is_all_day v_sum v_desc v_rem mk_gcsa_event grems
    utc_zone p.

(* HEADLINE I: what the source text sends to the backend for an event = the model's prepare *)
Theorem g_gcsa_prepare_build_eq (ctz : option zone) (w : wev) :
  src_build_gcsa_event (src_prepare ctz w) = prepare ctz w.
Proof.
  rewrite g_gcsa_prepare_event_for_add_eq. cbv zeta. rewrite g_gcsa_convert_timestamps_eq.
  unfold src_build_gcsa_event, g_gcsa_build_gcsa_event, prepare, all_day_of, mk_gcsa_event, grems.
  cbv zeta. cbn [pw_event pw_start_dt pw_end_dt pw_is_all_day].
  destruct (match v_allday w with Some x => x | None => _ end);
    cbn [fst snd negb dv_is_plain_date dv_val p_instant pres_ts]; rewrite ?utc_back; reflexivity.
Qed.
Print Assumptions g_gcsa_prepare_build_eq.

(* Event(id=event_id, ..., is_all_day=prepared.is_all_day, start=prepared.start, end=prepared.end) as the
   model's WriteResult payload *)
Definition mk_result_event (id : N) (_ _ : unit) (sm : N) (desc : option N) (rid : option N) (ad : bool)
           (rems : option (list reminder)) (s e : Z) : wres := (true, Some (EId id, s, e, ad)).

Definition src_build_result_event (p : pw) (id : N) : wres :=
  g_gcsa_build_result_event (DV := dv) pw_event pw_start_dt pw_end_dt pw_is_all_day v_sum v_desc v_rem
    (fun _ => tt) (fun _ => tt) pw_start pw_end mk_result_event p id.

Theorem g_gcsa_build_result_event_eq (ctz : option zone) (w : wev) (id : N) :
  src_build_result_event (src_prepare ctz w) id = (true, Some (EId id, v_s w, v_e w, q_allday (prepare ctz w))).
Proof.
  rewrite g_gcsa_prepare_event_for_add_eq. cbv zeta.
  unfold src_build_result_event, g_gcsa_build_result_event, mk_result_event, prepare, all_day_of.
  cbn [pw_event pw_start pw_end pw_is_all_day].
  destruct (match v_allday w with Some x => x | None => _ end); reflexivity.
Qed.
Print Assumptions g_gcsa_build_result_event_eq.

(* so the model's Calendar._add_interval is: prepare, build, one backend call, build the result — each
   of them the generated text (in every state whose calendar zone has been fetched) *)
Theorem src_add_interval_is_model (a : astate) (ctz : option zone) (w : wev) :
  a_tz a = Some ctz ->
  add_interval a w =
  let p := src_prepare ctz w in
  let '(b2, ok) := tick (a_b a) in
  if ok then
    match b_store b2 (src_build_gcsa_event p) with
    | (b3, Some id) => (with_b a b3, [src_build_result_event p id])
    | (_, None) => (with_b a b2, [failed])
    end
  else (with_b a b2, [failed]).
Proof.
  intros Htz. unfold add_interval, cal_tz. rewrite Htz. cbv zeta.
  rewrite g_gcsa_prepare_build_eq.
  destruct (tick (a_b a)) as [b2 ok]. destruct ok; [|reflexivity].
  destruct (b_store b2 (prepare ctz w)) as [b3 [id|]]; [|reflexivity].
  rewrite g_gcsa_build_result_event_eq. reflexivity.
Qed.
Print Assumptions src_add_interval_is_model.

Example prepare_examples :
  let la := mkZone (-28800) [(1710064800, -25200); (1730624400, -28800)] in
  (* midnight to midnight in Los Angeles, nothing declared: written as an all-day event with local dates *)
  src_build_gcsa_event (src_prepare (Some la) (mkW 1%N None None None 1718002800 1718089200))
  = mkQ (Some 1%N) None None [] true 19884 19885 None /\
  (* declared timed: UTC datetimes *)
  src_build_gcsa_event (src_prepare (Some la) (mkW 1%N None None (Some false) 1718002800 1718089200))
  = mkQ (Some 1%N) None (Some utc_zone) [] false 1718002800 1718089200 None.
Proof. vm_compute. split; reflexivity. Qed.
