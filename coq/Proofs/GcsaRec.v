(* Proofs/GcsaRec.v — a recurring pattern written by Calendar._add_recurring reads back with the
   pattern's own occurrences (Model/Gcsa.v: add_recurring, instances).

   Declarative series (section 0): rp_fires p d (the rule fires on local day d), rp_occ p d (the
   occurrence of day d: starts at wall_to_utc z (d*DAY + sod) false, ends when the local clock has
   advanced by p_dur), rp_series p n (the first n days from the anchor's day, ascending), rp_read p lo hi n
   (those meeting [lo, hi) and not excluded).

   Headlines (each followed by Print Assumptions):
     add_recurring_reads_back_timed     daily/weekly, any interval, BYDAY list, exdates; master timed
     add_recurring_reads_back_allday    the same when the master is written as dates (whole local days)
     add_recurring_rows_convert         each row is converted exactly by the read path (GcsaP.read_span_exact)
     rp_read_ascending / add_recurring_rows_ascending    strictly ascending starts: each occurrence once
     wall_ok_no_gap                     checkable criterion for the zone hypothesis on a full table
   Hypotheses that cannot be dropped (witnesses by vm_compute):
     reads_back_timed_gap_start_refuted     an occurrence whose start reading falls into a DST gap
     reads_back_timed_gap_end_refuted       a master whose END reading falls into a DST gap: every later
                                            occurrence is stretched by the size of the gap
     reads_back_allday_gap_midnight_refuted all-day in a zone that changes at midnight (Havana) *)
From CG Require Import Model.Gcsa Proofs.GcsaP Proofs.CivilP Spec.ZoneTables.
From Coq Require Import ZArith List Bool Lia ZifyBool.
Import ListNotations.
Local Open Scope list_scope.
Local Open Scope Z_scope.
Ltac Zify.zify_post_hook ::= Z.to_euclidean_division_equations.

(* ========================================================================================== *)
(* 0. the declarative series of a pattern                                                      *)

(* the anchor's local day and local time of day, on the clock of the pattern's zone *)
Definition rp_day0 (p : wpat) : Z := utc_to_wall (p_zone p) (p_anchor p) / DAY.
Definition rp_sod (p : wpat) : Z := utc_to_wall (p_zone p) (p_anchor p) mod DAY.

(* Monday-based week number of a day (day -3 = 1969-12-29 is a Monday) *)
Definition rp_week (d : Z) : Z := (d + 3) / 7.
(* the weekdays of a weekly rule: the listed ones, by default the anchor's *)
Definition rp_weekdays (p : wpat) : list Z :=
  match p_byday p with [] => [weekday (rp_day0 p)] | l => l end.

(* the rule fires on local day d: every p_interval-th day counted from the anchor's day / the listed
   weekdays of every p_interval-th week counted from the anchor's week *)
Definition rp_fires (p : wpat) (d : Z) : bool :=
  if p_weekly p
  then inZ (weekday d) (rp_weekdays p) && ((rp_week d - rp_week (rp_day0 p)) mod p_interval p =? 0)
  else (d - rp_day0 p) mod p_interval p =? 0.

(* the occurrence of local day d: starts when the local clock shows (d, sod) (fold = 0), ends when
   the local clock has advanced by the duration (Spec/RecurSpec.v occurrence) *)
Definition rp_start (p : wpat) (d : Z) : Z := wall_to_utc (p_zone p) (d * DAY + rp_sod p) false.
Definition rp_occ (p : wpat) (d : Z) : Z * Z :=
  let s := rp_start p d in
  (s, wall_to_utc (p_zone p) (utc_to_wall (p_zone p) s + p_dur p) false).

Fixpoint days_from (d : Z) (n : nat) : list Z :=
  match n with O => [] | S n' => d :: days_from (d + 1) n' end.

(* the first n days of the series, from the anchor's local day on, ascending *)
Definition rp_series (p : wpat) (n : nat) : list (Z * Z) :=
  map (rp_occ p) (filter (rp_fires p) (days_from (rp_day0 p) n)).

(* what a read of [lo, hi) keeps: overlap (end > lo, start < hi), not excluded *)
Definition rp_keep (p : wpat) (lo hi : Z) (o : Z * Z) : bool :=
  (lo <? snd o) && (fst o <? hi) && negb (inZ (fst o) (p_ex p)).
Definition rp_read (p : wpat) (lo hi : Z) (n : nat) : list (Z * Z) :=
  filter (rp_keep p lo hi) (rp_series p n).

(* ========================================================================================== *)
(* 1. zone hypotheses                                                                          *)

(* the wall-clock reading w exists in z (it does not fall into a gap) *)
Definition wall_ok (z : zone) (w : Z) : Prop := utc_to_wall z (wall_to_utc z w false) = w.

(* all UTC offsets of the table are within a day (IANA: -12 h .. +14 h) *)
Definition zone_bounded (z : zone) : bool :=
  (Z.abs (off0 z) <=? DAY) && forallb (fun x => Z.abs (snd x) <=? DAY) (trans z).

Lemma offset_at_go_bounded tr : forall cur t,
  Z.abs cur <= DAY -> forallb (fun x => Z.abs (snd x) <=? DAY) tr = true ->
  Z.abs (offset_at_go cur tr t) <= DAY.
Proof.
  induction tr as [|[T o] r IH]; intros cur t Hc H; cbn [offset_at_go]; [exact Hc|].
  cbn [forallb snd] in H. apply andb_true_iff in H. destruct H as [H1 H2].
  destruct (T <=? t); [|exact Hc]. apply IH; [|exact H2]. apply Z.leb_le. exact H1.
Qed.

Lemma wall_offset_go_bounded tr : forall cur w f,
  Z.abs cur <= DAY -> forallb (fun x => Z.abs (snd x) <=? DAY) tr = true ->
  Z.abs (wall_offset_go cur tr w f) <= DAY.
Proof.
  induction tr as [|[T o] r IH]; intros cur w f Hc H; cbn [wall_offset_go]; [exact Hc|].
  cbn [forallb snd] in H. apply andb_true_iff in H. destruct H as [H1 H2]. cbv zeta.
  match goal with |- context [if ?c then _ else _] => destruct c end; [|exact Hc].
  apply IH; [|exact H2]. apply Z.leb_le. exact H1.
Qed.

Lemma utc_to_wall_bounded z t : zone_bounded z = true -> t - DAY <= utc_to_wall z t <= t + DAY.
Proof.
  unfold zone_bounded. intro H. apply andb_true_iff in H. destruct H as [H0 H1].
  pose proof (offset_at_go_bounded (trans z) (off0 z) t ltac:(apply Z.leb_le; exact H0) H1) as B.
  unfold utc_to_wall, offset_at. lia.
Qed.

Lemma wall_to_utc_bounded z w f : zone_bounded z = true -> w - DAY <= wall_to_utc z w f <= w + DAY.
Proof.
  unfold zone_bounded. intro H. apply andb_true_iff in H. destruct H as [H0 H1].
  pose proof (wall_offset_go_bounded (trans z) (off0 z) w f ltac:(apply Z.leb_le; exact H0) H1) as B.
  unfold wall_to_utc, wall_offset. lia.
Qed.

(* ========================================================================================== *)
(* 2. list lemmas                                                                              *)

Lemma days_from_app : forall n1 n2 d,
  days_from d (n1 + n2) = days_from d n1 ++ days_from (d + Z.of_nat n1) n2.
Proof.
  induction n1 as [|n1 IH]; intros n2 d.
  - cbn [Nat.add days_from app]. f_equal. lia.
  - cbn [Nat.add days_from app]. rewrite IH. do 3 f_equal. lia.
Qed.

Lemma In_days_from : forall n d x, In x (days_from d n) <-> d <= x < d + Z.of_nat n.
Proof.
  induction n as [|n IH]; intros d x; cbn [days_from In].
  - split; [tauto|lia].
  - rewrite IH. lia.
Qed.

Lemma flat_map_number_on {A} (on : Z -> bool) (F : Z -> list A) : forall n d k,
  flat_map (fun dk => F (fst dk)) (number_on on d n k) = flat_map F (filter on (days_from d n)).
Proof.
  induction n as [|n IH]; intros d k; [reflexivity|].
  cbn [number_on days_from filter]. destruct (on d).
  - cbn [flat_map fst]. rewrite IH. reflexivity.
  - apply IH.
Qed.

Lemma flat_map_if {A B} (g : A -> bool) (f : A -> B) (F : A -> list B) (l : list A) :
  (forall x, In x l -> F x = if g x then [f x] else []) -> flat_map F l = map f (filter g l).
Proof.
  induction l as [|x r IH]; intro H; [reflexivity|].
  cbn [flat_map filter]. rewrite (H x (or_introl eq_refl)).
  rewrite IH by (intros y Hy; apply H; right; exact Hy).
  destruct (g x); reflexivity.
Qed.

Lemma filter_filter {A} (f g : A -> bool) (l : list A) :
  filter f (filter g l) = filter (fun x => g x && f x) l.
Proof.
  induction l as [|x r IH]; simpl; [reflexivity|].
  destruct (g x); simpl; [destruct (f x)|]; rewrite IH; reflexivity.
Qed.

Lemma filter_map_comm {A B} (P : B -> bool) (f : A -> B) (l : list A) :
  filter P (map f l) = map f (filter (fun x => P (f x)) l).
Proof.
  induction l as [|x r IH]; simpl; [reflexivity|]. destruct (P (f x)); simpl; rewrite IH; reflexivity.
Qed.

Lemma filter_nil_in {A} (g : A -> bool) (l : list A) : (forall x, In x l -> g x = false) -> filter g l = [].
Proof.
  induction l as [|x r IH]; simpl; intro H; [reflexivity|].
  rewrite (H x (or_introl eq_refl)). apply IH. intros y Hy. apply H. right; exact Hy.
Qed.

(* a filter over a run of days sees only the part of the run where the predicate can hold *)
Lemma filter_days_restrict (g : Z -> bool) (a : Z) (n : nat) (first last : Z) :
  a <= first -> last < a + Z.of_nat n ->
  (forall d, a <= d -> g d = true -> first <= d <= last) ->
  filter g (days_from a n) = filter g (days_from first (Z.to_nat (last - first + 1))).
Proof.
  intros Ha Hl Hg.
  destruct (Z_lt_le_dec last first) as [Hlt|Hle].
  - replace (Z.to_nat (last - first + 1)) with O by lia. cbn [days_from filter].
    apply filter_nil_in. intros d Hd. apply In_days_from in Hd.
    destruct (g d) eqn:E; [|reflexivity]. specialize (Hg d ltac:(lia) E). lia.
  - set (n1 := Z.to_nat (first - a)). set (m := Z.to_nat (last - first + 1)).
    set (n3 := Z.to_nat (a + Z.of_nat n - last - 1)).
    replace n with (n1 + (m + n3))%nat by lia.
    rewrite !days_from_app, !filter_app.
    rewrite (filter_nil_in g (days_from a n1)).
    2:{ intros d Hd. apply In_days_from in Hd. destruct (g d) eqn:E; [|reflexivity].
        specialize (Hg d ltac:(lia) E). lia. }
    rewrite (filter_nil_in g (days_from (a + Z.of_nat n1 + Z.of_nat m) n3)).
    2:{ intros d Hd. apply In_days_from in Hd. destruct (g d) eqn:E; [|reflexivity].
        specialize (Hg d ltac:(lia) E). lia. }
    rewrite app_nil_l, app_nil_r. do 2 f_equal. lia.
Qed.

(* ========================================================================================== *)
(* 3. the backend's expansion of an unbounded master, as a filter over a run of days           *)

Definition inst_z (b : bstate) (st : sev) : zone := ev_zone b st.
Definition inst_w0 (b : bstate) (st : sev) : Z := utc_to_wall (inst_z b st) (s_s st).
Definition inst_day0 (b : bstate) (st : sev) : Z := if s_allday st then s_s st else inst_w0 b st / DAY.
Definition inst_dur (st : sev) : Z := oget (s_e st) (s_s st) - s_s st.
Definition inst_wdur (b : bstate) (st : sev) : Z :=
  utc_to_wall (inst_z b st) (oget (s_e st) (s_s st)) - inst_w0 b st.
Definition inst_S (b : bstate) (st : sev) (d : Z) : Z :=
  if s_allday st then midnight (bs_zone b) d
  else wall_to_utc (inst_z b st) (d * DAY + inst_w0 b st mod DAY) false.
Definition inst_E (b : bstate) (st : sev) (d : Z) : Z :=
  if s_allday st then midnight (bs_zone b) (d + inst_dur st)
  else wall_to_utc (inst_z b st) (d * DAY + inst_w0 b st mod DAY + inst_wdur b st) false.
Definition inst_on (b : bstate) (st : sev) (r : srec) (d : Z) : bool :=
  let day0 := inst_day0 b st in
  let wd := (d + 3) mod 7 in
  if r_weekly r
  then inZ wd (match r_byday r with [] => [(day0 + 3) mod 7] | l => l end) &&
       (((d - wd - (day0 - (day0 + 3) mod 7)) / 7) mod r_interval r =? 0)
  else ((d - day0) mod r_interval r =? 0).
Definition inst_first (b : bstate) (st : sev) (lo : Z) : Z :=
  Z.max (inst_day0 b st) (lo / DAY - (if s_allday st then inst_dur st else inst_dur st / DAY + 2) - 2).
Definition inst_row (b : bstate) (st : sev) (d : Z) : row :=
  let s := inst_S b st d in let e := inst_E b st d in
  mkRow st (match s_id st with Some n => Some (EInst n s) | None => None end) (s_id st)
        s (Some e) (if s_allday st then d else s) (Some (if s_allday st then d + inst_dur st else e)).
Definition inst_body (b : bstate) (st : sev) (r : srec) (lo hi : Z) (d : Z) : list row :=
  if inZ (inst_S b st d) (rec_ex r) then []
  else if in_window (Some lo) (Some hi) (inst_S b st d) (inst_E b st d) then [inst_row b st d] else [].
Definition inst_sel (b : bstate) (st : sev) (r : srec) (lo hi : Z) (d : Z) : bool :=
  negb (inZ (inst_S b st d) (rec_ex r)) && ((lo <? inst_E b st d) && (inst_S b st d <? hi)).

Lemma instances_unbounded b st r lo hi :
  rec_count r = None -> rec_until_t r = None -> rec_until_d r = None ->
  instances b st r (Some lo) (Some hi) =
  map (inst_row b st)
      (filter (fun d => inst_on b st r d && inst_sel b st r lo hi d)
              (days_from (inst_first b st lo) (Z.to_nat (hi / DAY + 2 - inst_first b st lo + 1)))).
Proof.
  intros Hc Ht Hd.
  rewrite <- filter_filter.
  rewrite <- (flat_map_if (inst_sel b st r lo hi) (inst_row b st) (inst_body b st r lo hi)).
  2:{ intros d _. unfold inst_body, inst_sel, in_window.
      destruct (inZ (inst_S b st d) (rec_ex r)); reflexivity. }
  rewrite <- (flat_map_number_on (inst_on b st r) (inst_body b st r lo hi) _ _ 0).
  unfold instances. rewrite Hc, Ht, Hd. reflexivity.
Qed.

(* ========================================================================================== *)
(* 4. the RRULE line the adapter writes: no bound, and exactly the pattern's exclusions         *)

Definition rp_base (p : wpat) : list tok :=
  TRule :: (if p_interval p =? 1 then [] else [TRule]) ++ (match p_byday p with [] => [] | _ => [TRule] end).
Definition rp_line (p : wpat) : list tok :=
  fold_left (fun l t => add_exdate l (format_exdate t)) (sort_uniq (p_ex p)) (rp_base p).
Definition rp_rec (p : wpat) : srec := mkR (p_weekly p) (p_interval p) (p_byday p) (rp_line p) [].

Definition line_ok (l : list tok) : Prop :=
  single_ex l = true /\ is_ex (hd TRule l) = false /\ l <> [].

Lemma has_ex_false_filter l : has_ex l = false -> filter is_ex l = [].
Proof.
  unfold has_ex. induction l as [|t r IH]; intro H; [reflexivity|].
  cbn [existsb] in H. apply orb_false_iff in H. destruct H as [H1 H2].
  cbn [filter]. rewrite H1. apply IH. exact H2.
Qed.

Lemma filter_is_ex_neg r : filter is_ex (filter (fun x => negb (is_ex x)) r) = [].
Proof.
  induction r as [|t r IH]; [reflexivity|]. cbn [filter].
  destruct (is_ex t) eqn:E; cbn [negb]; [exact IH|]. cbn [filter]. rewrite E. exact IH.
Qed.

Lemma line_ok_app_ex t r e : is_ex t = false -> filter is_ex r = [] -> line_ok ((t :: r) ++ [TEx e]).
Proof.
  intros H1 H2. unfold line_ok, single_ex. cbn [app hd]. repeat split; [|exact H1|congruence].
  cbn [filter]. rewrite H1, filter_app, H2. reflexivity.
Qed.

Lemma add_exdate_line_ok l x : line_ok l -> line_ok (add_exdate l x).
Proof.
  intros (H1 & H2 & H3). destruct l as [|t r]; [congruence|]. cbn [hd] in H2.
  unfold add_exdate, parse_exdates.
  destruct (has_ex (t :: r)) eqn:Hex.
  - cbn [strip_ex]. apply line_ok_app_ex; [exact H2|apply filter_is_ex_neg].
  - apply line_ok_app_ex; [exact H2|].
    apply has_ex_false_filter in Hex. cbn [filter] in Hex. rewrite H2 in Hex. exact Hex.
Qed.

Lemma fold_add_line_ok xs : forall l, line_ok l ->
  line_ok (fold_left (fun l t => add_exdate l (format_exdate t)) xs l).
Proof.
  induction xs as [|x r IH]; intros l H; [exact H|]. cbn [fold_left]. apply IH. apply add_exdate_line_ok. exact H.
Qed.

Lemma fold_add_rule_toks xs : forall l,
  rule_toks (fold_left (fun l t => add_exdate l (format_exdate t)) xs l) = rule_toks l.
Proof.
  induction xs as [|x r IH]; intros l; [reflexivity|]. cbn [fold_left]. rewrite IH. apply add_exdate_rule_toks.
Qed.

Lemma inZ_cons s x l : inZ s (x :: l) = (s =? x) || inZ s l.
Proof. reflexivity. Qed.

Lemma fold_add_excludes s xs : forall l, line_ok l ->
  inZ s (map parse_exd (ex_of_line (fold_left (fun l t => add_exdate l (format_exdate t)) xs l))) =
  inZ s (map parse_exd (ex_of_line l)) || inZ s xs.
Proof.
  induction xs as [|x r IH]; intros l H.
  - cbn [fold_left]. unfold inZ at 3. cbn [existsb]. rewrite orb_false_r. reflexivity.
  - cbn [fold_left]. rewrite IH by (apply add_exdate_line_ok; exact H).
    destruct H as (H1 & H2 & _).
    rewrite (add_exdate_excludes _ _ _ H1 H2), parse_format_exdate, inZ_cons, orb_assoc. reflexivity.
Qed.

Lemma inZ_ins_by s x : forall acc, inZ s (ins_by (fun z => z) x acc) = (s =? x) || inZ s acc.
Proof.
  induction acc as [|y r IH]; cbn [ins_by]; [reflexivity|].
  destruct (x <=? y); [reflexivity|]. rewrite !inZ_cons, IH.
  destruct (s =? x); destruct (s =? y); reflexivity.
Qed.

Lemma inZ_true_iff s l : inZ s l = true <-> In s l.
Proof.
  unfold inZ. rewrite existsb_exists. split.
  - intros (y & Hy & E). apply Z.eqb_eq in E. subst. exact Hy.
  - intro H. exists s. split; [exact H|apply Z.eqb_refl].
Qed.

Lemma inZ_sort_uniq s : forall l, inZ s (sort_uniq l) = inZ s l.
Proof.
  induction l as [|x r IH]; [reflexivity|].
  unfold sort_uniq in *. cbn [fold_right]. rewrite inZ_cons.
  set (acc := fold_right (fun x acc => if inZ x acc then acc else ins_by (fun z => z) x acc) [] r) in *.
  destruct (inZ x acc) eqn:E.
  - rewrite <- IH. destruct (Z.eqb_spec s x) as [->|_]; [rewrite E|]; reflexivity.
  - rewrite inZ_ins_by, IH. reflexivity.
Qed.

Lemma rp_base_ok p : line_ok (rp_base p).
Proof.
  unfold rp_base, line_ok, single_ex.
  destruct (p_interval p =? 1); destruct (p_byday p); cbn; repeat split; congruence.
Qed.

Lemma rp_rec_ex p s : inZ s (rec_ex (rp_rec p)) = inZ s (p_ex p).
Proof.
  unfold rec_ex, rp_rec. cbn [r_line r_extra]. rewrite app_nil_r.
  fold (ex_of_line (rp_line p)). unfold rp_line.
  rewrite (fold_add_excludes s _ _ (rp_base_ok p)), inZ_sort_uniq.
  replace (ex_of_line (rp_base p)) with (@nil exd); [reflexivity|].
  unfold rp_base. destruct (p_interval p =? 1); destruct (p_byday p); reflexivity.
Qed.

Lemma rp_rec_unbounded p :
  rec_count (rp_rec p) = None /\ rec_until_t (rp_rec p) = None /\ rec_until_d (rp_rec p) = None.
Proof.
  unfold rec_count, rec_until_t, rec_until_d, rp_rec. cbn [r_line].
  rewrite !(find_tok_rule_toks _ (rp_line p)) by reflexivity.
  unfold rp_line. rewrite fold_add_rule_toks. unfold rp_base.
  destruct (p_interval p =? 1); destruct (p_byday p); repeat split; reflexivity.
Qed.

(* ========================================================================================== *)
(* 5. what a successful _add_recurring leaves in the store                                     *)

Definition rp_end (p : wpat) : Z :=
  wall_to_utc (p_zone p) (utc_to_wall (p_zone p) (p_anchor p) + p_dur p) false.
Definition rp_ctz (a : astate) (p : wpat) : option zone :=
  if p_dur p =? DAY then (match a_tz a with Some v => v | None => Some (bs_zone (a_b a)) end) else None.
Definition rp_allday (a : astate) (p : wpat) : bool :=
  (p_dur p =? DAY) && zone_eqb (p_zone p) (tz_or_utc (rp_ctz a p)) &&
  infer_all_day (p_anchor p) (rp_end p) (rp_ctz a p).
Definition rp_master (a : astate) (p : wpat) (id : N) : sev :=
  if rp_allday a p
  then mkSev (Some id) (Some (p_sum p)) None None [] false true (local_date (rp_ctz a p) (p_anchor p))
             (Some (local_date (rp_ctz a p) (rp_end p))) KZone (Some (rp_rec p))
  else mkSev (Some id) (Some (p_sum p)) None (Some (p_zone p)) [] false false (p_anchor p)
             (Some (rp_end p)) KZone (Some (rp_rec p)).


Lemma store_tail (a1 : astate) (b2 : bstate) (q : wreq) (s e : Z) (fl : bool) a' id' s' e' ad' :
  (let '(b3, o) := b_store b2 q in
   match o with
   | Some id => (with_b a1 b3, [(true, Some (EId id, s, e, fl))])
   | None => (with_b a1 b2, [failed])
   end) = (a', [(true, Some (EId id', s', e', ad'))]) ->
  s' = s /\ e' = e /\ ad' = fl /\
  bs_zone (a_b a') = bs_zone b2 /\
  bs_store (a_b a') = bs_store b2 ++ [mkSev (Some id') (q_sum q) (q_desc q) (q_tz q) (q_rem q) false (q_allday q)
                                           (q_s q) (Some (q_e q)) KZone (q_rec q)].
Proof.
  unfold b_store. destruct (if q_allday q then q_e q <=? q_s q else q_e q <? q_s q); [discriminate|].
  intro H. injection H as <- <- <- <- <-. cbn. repeat split; reflexivity.
Qed.

Lemma add_recurring_success a p a' id s e ad :
  add_recurring a p = (a', [(true, Some (EId id, s, e, ad))]) ->
  s = p_anchor p /\ e = rp_end p /\ ad = rp_allday a p /\
  bs_zone (a_b a') = bs_zone (a_b a) /\
  bs_store (a_b a') = bs_store (a_b a) ++ [rp_master a p id].
Proof.
  intro H. unfold add_recurring in H.
  fold (rp_base p) in H. fold (rp_line p) in H. fold (rp_rec p) in H. fold (rp_end p) in H.
  unfold rp_master, rp_allday, rp_ctz.
  destruct (p_dur p =? DAY) eqn:Ed.
  - unfold cal_tz in H. destruct (a_tz a) as [v|] eqn:Etz.
    + unfold tick in H. cbv beta iota in H.
      destruct (negb (existsb (Nat.eqb (bs_calls (a_b a))) (bs_fail (a_b a)))); [|discriminate].
      apply store_tail in H. cbn [bs_zone bs_store] in H.
      destruct (true && zone_eqb (p_zone p) (tz_or_utc v) && infer_all_day (p_anchor p) (rp_end p) v);
        exact H.
    + unfold tick in H. cbv beta iota in H.
      destruct (negb (existsb (Nat.eqb (bs_calls (a_b a))) (bs_fail (a_b a)))); [|discriminate].
      cbn [a_b bs_zone bs_calls bs_fail bs_store bs_next] in H.
      match type of H with (if ?c then _ else _) = _ => destruct c end; [|discriminate].
      apply store_tail in H. cbn [bs_zone bs_store] in H.
      destruct (true && zone_eqb (p_zone p) (tz_or_utc (Some (bs_zone (a_b a)))) &&
                infer_all_day (p_anchor p) (rp_end p) (Some (bs_zone (a_b a)))); exact H.
  - unfold tick in H. cbv beta iota in H.
    destruct (negb (existsb (Nat.eqb (bs_calls (a_b a))) (bs_fail (a_b a)))); [|discriminate].
    apply store_tail in H. cbn [bs_zone bs_store andb] in H. cbn [andb]. exact H.
Qed.

(* ========================================================================================== *)
(* 6. the timed case                                                                           *)

Lemma week_diff d d0 :
  (d - (d + 3) mod 7 - (d0 - (d0 + 3) mod 7)) / 7 = (d + 3) / 7 - (d0 + 3) / 7.
Proof. lia. Qed.

Lemma inst_on_fires b st p d :
  inst_day0 b st = rp_day0 p -> inst_on b st (rp_rec p) d = rp_fires p d.
Proof.
  intro H0. unfold inst_on, rp_fires, rp_weekdays, rp_week, weekday. cbv zeta. rewrite H0.
  cbn [rp_rec r_weekly r_byday r_interval]. rewrite week_diff. reflexivity.
Qed.

Definition span_of_row (w : row) : Z * option Z := (w_s w, w_e w).
Definition span_some (o : Z * Z) : Z * option Z := (fst o, Some (snd o)).

(* the series in the backend's terms = the declarative one, once starts, ends and firing days agree *)
Lemma read_as_series b st p lo hi n :
  inst_day0 b st = rp_day0 p ->
  (forall d, rp_day0 p <= d -> rp_fires p d = true -> (inst_S b st d, inst_E b st d) = rp_occ p d) ->
  map span_of_row
      (map (inst_row b st)
           (filter (fun d => inst_on b st (rp_rec p) d && inst_sel b st (rp_rec p) lo hi d)
                   (days_from (rp_day0 p) n))) =
  map span_some (rp_read p lo hi n).
Proof.
  intros H0 Hocc. unfold rp_read, rp_series.
  rewrite filter_map_comm, filter_filter, !map_map.
  rewrite (filter_ext_in (fun d => inst_on b st (rp_rec p) d && inst_sel b st (rp_rec p) lo hi d)
                         (fun d => rp_fires p d && rp_keep p lo hi (rp_occ p d))).
  2:{ intros d Hd. apply In_days_from in Hd. rewrite (inst_on_fires b st p d H0).
      destruct (rp_fires p d) eqn:Ef; [|reflexivity]. cbn [andb].
      specialize (Hocc d ltac:(lia) Ef). unfold inst_sel, rp_keep. rewrite <- Hocc. cbn [fst snd].
      rewrite rp_rec_ex.
      destruct (inZ (inst_S b st d) (p_ex p)); destruct (lo <? inst_E b st d); destruct (inst_S b st d <? hi);
        reflexivity. }
  apply map_ext_in. intros d Hd. apply filter_In in Hd. destruct Hd as [Hd Hf].
  apply In_days_from in Hd. apply andb_true_iff in Hf. destruct Hf as [Hf _].
  specialize (Hocc d ltac:(lia) Hf). unfold span_of_row, span_some, inst_row. cbn [w_s w_e].
  rewrite <- Hocc. reflexivity.
Qed.

(* nothing outside the days the backend looks at can meet the window (timed master) *)
Lemma timed_days_bound b st lo hi d :
  s_allday st = false -> zone_bounded (inst_z b st) = true ->
  lo < inst_E b st d -> inst_S b st d < hi ->
  lo / DAY - (inst_dur st / DAY + 2) - 2 <= d <= hi / DAY + 2.
Proof.
  intros Had Hb H1 H2. unfold inst_E, inst_S, inst_wdur, inst_w0, inst_dur in *. rewrite Had in *.
  set (z := inst_z b st) in *. set (s0 := s_s st) in *. set (e0 := oget (s_e st) s0) in *.
  pose proof (utc_to_wall_bounded z s0 Hb) as B1.
  pose proof (utc_to_wall_bounded z e0 Hb) as B2.
  pose proof (wall_to_utc_bounded z (d * DAY + utc_to_wall z s0 mod DAY) false Hb) as B3.
  pose proof (wall_to_utc_bounded z (d * DAY + utc_to_wall z s0 mod DAY + (utc_to_wall z e0 - utc_to_wall z s0)) false Hb) as B4.
  pose proof (Z.mod_pos_bound (utc_to_wall z s0) DAY ltac:(unfold DAY; lia)) as B5.
  set (sod := utc_to_wall z s0 mod DAY) in *.
  set (X := wall_to_utc z (d * DAY + sod) false) in *.
  set (Y := wall_to_utc z (d * DAY + sod + (utc_to_wall z e0 - utc_to_wall z s0)) false) in *.
  set (u := utc_to_wall z s0) in *. set (v := utc_to_wall z e0) in *.
  unfold DAY in *. lia.
Qed.

(* the rows of the new master, in the backend's terms, over the first n days of the series *)
Lemma instances_over_series b st p lo hi n :
  s_allday st = false -> zone_bounded (inst_z b st) = true ->
  inst_day0 b st = rp_day0 p ->
  hi / DAY + 3 - rp_day0 p <= Z.of_nat n ->
  instances b st (rp_rec p) (Some lo) (Some hi) =
  map (inst_row b st)
      (filter (fun d => inst_on b st (rp_rec p) d && inst_sel b st (rp_rec p) lo hi d)
              (days_from (rp_day0 p) n)).
Proof.
  intros Had Hb H0 Hn.
  destruct (rp_rec_unbounded p) as (Hc & Ht & Hd).
  rewrite (instances_unbounded b st (rp_rec p) lo hi Hc Ht Hd). f_equal. symmetry.
  apply filter_days_restrict.
  - unfold inst_first. rewrite H0. lia.
  - lia.
  - intros d Hd0 Hg. apply andb_true_iff in Hg. destruct Hg as [_ Hg]. unfold inst_sel in Hg.
    apply andb_true_iff in Hg. destruct Hg as [_ Hg]. apply andb_true_iff in Hg. destruct Hg as [G1 G2].
    pose proof (timed_days_bound b st lo hi d Had Hb ltac:(lia) ltac:(lia)) as B.
    unfold inst_first. rewrite Had, H0. lia.
Qed.

(* HEADLINE 1: the timed case.  Hypotheses:
     - the add reported success, and the master was written as a timed event (is_all_day = false);
     - zone_bounded: the offsets of the pattern's zone are within a day (the backend looks at the days
       from the window's first day minus the duration minus a margin to its last day plus two);
     - the local reading "anchor + duration" exists in the zone (does not fall into a DST gap): the
       master's end is written as that reading, and the backend repeats the master's wall-clock span;
     - on every firing day the local reading (day, anchor's time of day) exists in the zone;
   for every window [lo, hi) and every horizon n reaching past the window. *)
Theorem add_recurring_reads_back_timed (a a' : astate) (p : wpat) (id : N) (s e : Z) (lo hi : Z) (n : nat) :
  add_recurring a p = (a', [(true, Some (EId id, s, e, false))]) ->
  zone_bounded (p_zone p) = true ->
  wall_ok (p_zone p) (utc_to_wall (p_zone p) (p_anchor p) + p_dur p) ->
  (forall d, rp_day0 p <= d -> rp_fires p d = true -> wall_ok (p_zone p) (d * DAY + rp_sod p)) ->
  hi / DAY + 3 - rp_day0 p <= Z.of_nat n ->
  exists st,
    st = rp_master a p id /\ bs_store (a_b a') = bs_store (a_b a) ++ [st] /\
    s_id st = Some id /\ s_rec st = Some (rp_rec p) /\ s_allday st = false /\
    map span_of_row (instances (a_b a') st (rp_rec p) (Some lo) (Some hi)) = map span_some (rp_read p lo hi n) /\
    (forall w, In w (instances (a_b a') st (rp_rec p) (Some lo) (Some hi)) ->
               w_id w = Some (EInst id (w_s w)) /\ w_rid w = Some id /\ w_ev w = st /\
               w_k0 w = w_s w /\ w_k1 w = w_e w).
Proof.
  intros H Hb Hend Hstart Hn.
  destruct (add_recurring_success a p a' id s e false H) as (_ & _ & Had & Hz & Hst).
  unfold rp_master in Hst. rewrite <- Had in Hst.
  set (st := mkSev (Some id) (Some (p_sum p)) None (Some (p_zone p)) [] false false (p_anchor p)
                   (Some (rp_end p)) KZone (Some (rp_rec p))) in *.
  set (b := a_b a') in *.
  exists st. split; [unfold rp_master; rewrite <- Had; reflexivity|].
  split; [exact Hst|]. split; [reflexivity|]. split; [reflexivity|]. split; [reflexivity|].
  assert (H0 : inst_day0 b st = rp_day0 p) by reflexivity.
  split.
  - rewrite (instances_over_series b st p lo hi n eq_refl Hb H0 Hn).
    apply read_as_series; [exact H0|].
    intros d Hd Hf. unfold inst_S, inst_E, inst_wdur, inst_w0, rp_occ, rp_start.
    change (inst_z b st) with (p_zone p). cbn [st s_allday s_s s_e oget].
    fold (rp_sod p). specialize (Hstart d Hd Hf). unfold wall_ok in Hstart, Hend.
    rewrite Hstart. unfold rp_end. rewrite Hend. f_equal. f_equal. lia.
  - intros w Hw. rewrite (instances_over_series b st p lo hi n eq_refl Hb H0 Hn) in Hw.
    apply in_map_iff in Hw. destruct Hw as (d & <- & _). unfold inst_row. cbn. repeat split; reflexivity.
Qed.
Print Assumptions add_recurring_reads_back_timed.

(* ========================================================================================== *)
(* 7. the hypotheses are satisfiable; they cannot be dropped                                    *)

(* Los Angeles, the two transitions of 2024 (excerpt of Spec/ZoneTables.v la): the only gap of the
   table is 2024-03-10 02:00-03:00 local = wall seconds [1710036000, 1710039600) *)
Definition la24 : zone := mkZone (-28800) [(1710064800, -25200); (1730624400, -28800)].

Lemma la24_wall_ok w : ~ (1710036000 <= w < 1710039600) -> wall_ok la24 w.
Proof.
  intro H. unfold wall_ok, utc_to_wall, wall_to_utc, wall_offset, offset_at, la24.
  cbn [off0 trans wall_offset_go offset_at_go].
  destruct (1710064800 + Z.max (-28800) (-25200) <=? w) eqn:E1;
    [destruct (1730624400 + Z.max (-25200) (-28800) <=? w) eqn:E2|];
    repeat match goal with |- context [if ?c then _ else _] => destruct c eqn:? end; lia.
Qed.

(* every second day 09:00-10:00 from Friday 2024-03-01 (day 19783), the occurrence of 03-05 excluded *)
Definition ex_p1 : wpat :=
  mkP false 2 [] (19783 * DAY + 9 * HOUR + 28800) HOUR la24 7%N [19787 * DAY + 9 * HOUR + 28800].

Example timed_hyps_daily :
  let p := ex_p1 in
  zone_bounded (p_zone p) = true /\
  wall_ok (p_zone p) (utc_to_wall (p_zone p) (p_anchor p) + p_dur p) /\
  (forall d, rp_day0 p <= d -> rp_fires p d = true -> wall_ok (p_zone p) (d * DAY + rp_sod p)).
Proof.
  cbv zeta. split; [vm_compute; reflexivity|]. split; [vm_compute; reflexivity|].
  intros d _ _. apply la24_wall_ok.
  replace (rp_sod ex_p1) with 32400 by (vm_compute; reflexivity). unfold DAY. lia.
Qed.

(* the theorem at work: window 2024-03-03 .. 2024-03-13 across the spring change *)
Example timed_daily_instance :
  let a := init la24 [] 1%N [] in
  let res := add_recurring a ex_p1 in
  snd res = [(true, Some (EId 1%N, 1709312400, 1709316000, false))] /\
  rp_read ex_p1 (19785 * DAY) (19795 * DAY) 20 =
    [(1709485200, 1709488800); (1709830800, 1709834400); (1710003600, 1710007200);
     (1710172800, 1710176400)].
Proof. vm_compute. split; reflexivity. Qed.


Example timed_daily_rows :
  let a := init la24 [] 1%N [] in
  let b := a_b (fst (add_recurring a ex_p1)) in
  exists st, bs_store b = [st] /\
    map span_of_row (instances b st (rp_rec ex_p1) (Some (19785 * DAY)) (Some (19795 * DAY))) =
    [(1709485200, Some 1709488800); (1709830800, Some 1709834400); (1710003600, Some 1710007200);
     (1710172800, Some 1710176400)].
Proof. cbv zeta. exists (rp_master (init la24 [] 1%N []) ex_p1 1%N). split; vm_compute; reflexivity. Qed.

(* (R1) the hypothesis on the firing days cannot be dropped: daily 02:30-03:30 from 2024-03-08.  On
   2024-03-10 the reading 02:30 falls into the gap.  The pattern's own occurrence starts at 10:30Z
   (03:30 PDT) and lasts the hour; the backend ends it at the reading 03:30 = 10:30Z: an EMPTY
   occurrence [1710066600, 1710066600). *)
Definition ex_p_gap_start : wpat := mkP false 1 [] (19790 * DAY + 9000 + 28800) HOUR la24 7%N [].

Theorem reads_back_timed_gap_start_refuted :
  exists (a : astate) (p : wpat) (lo hi : Z) (n : nat),
    let res := add_recurring a p in
    snd res = [(true, Some (EId 1%N, p_anchor p, rp_end p, false))] /\
    zone_bounded (p_zone p) = true /\
    wall_ok (p_zone p) (utc_to_wall (p_zone p) (p_anchor p) + p_dur p) /\
    hi / DAY + 3 - rp_day0 p <= Z.of_nat n /\
    exists st, bs_store (a_b (fst res)) = [st] /\ s_rec st = Some (rp_rec p) /\
      map span_of_row (instances (a_b (fst res)) st (rp_rec p) (Some lo) (Some hi)) =
        [(1710066600, Some 1710066600)] /\
      map span_some (rp_read p lo hi n) = [(1710066600, Some 1710070200)].
Proof.
  exists (init la24 [] 1%N []), ex_p_gap_start, (19792 * DAY + 8 * HOUR), (19793 * DAY), 10%nat.
  cbv zeta. split; [vm_compute; reflexivity|]. split; [vm_compute; reflexivity|].
  split; [vm_compute; reflexivity|]. split; [vm_compute; discriminate|].
  exists (rp_master (init la24 [] 1%N []) ex_p_gap_start 1%N).
  split; [vm_compute; reflexivity|]. split; [vm_compute; reflexivity|].
  split; vm_compute; reflexivity.
Qed.
Print Assumptions reads_back_timed_gap_start_refuted.

(* (R2) the hypothesis on the master's end cannot be dropped: every second day, 24 h from 02:30, from
   2024-03-09 (a calendar in another zone, so the master is timed).  The master ends at the reading
   "2024-03-10 02:30", which does not exist: the adapter writes the end as 03:30 PDT, a span of 25 h on
   the wall clock, and the backend repeats 25 h on every later occurrence; the pattern's own
   occurrences last 24 h on the wall clock.  All firing days (03-09, 03-11, ...) have their 02:30. *)
Definition ex_p_gap_end : wpat := mkP false 2 [] (19791 * DAY + 9000 + 28800) DAY la24 7%N [].

Theorem reads_back_timed_gap_end_refuted :
  exists (a : astate) (p : wpat) (lo hi : Z) (n : nat),
    let res := add_recurring a p in
    snd res = [(true, Some (EId 1%N, p_anchor p, rp_end p, false))] /\
    zone_bounded (p_zone p) = true /\
    (forall d, rp_day0 p <= d -> rp_fires p d = true -> wall_ok (p_zone p) (d * DAY + rp_sod p)) /\
    hi / DAY + 3 - rp_day0 p <= Z.of_nat n /\
    exists st, bs_store (a_b (fst res)) = [st] /\ s_rec st = Some (rp_rec p) /\
      map span_of_row (instances (a_b (fst res)) st (rp_rec p) (Some lo) (Some hi)) =
        [(1710149400, Some 1710239400); (1710322200, Some 1710412200)] /\
      map span_some (rp_read p lo hi n) =
        [(1710149400, Some 1710235800); (1710322200, Some 1710408600)].
Proof.
  exists (init utc_zone [] 1%N []), ex_p_gap_end, (19793 * DAY), (19797 * DAY), 10%nat.
  cbv zeta. split; [vm_compute; reflexivity|]. split; [vm_compute; reflexivity|].
  split.
  { intros d Hd Hf. apply la24_wall_ok. unfold rp_fires in Hf. cbn [ex_p_gap_end p_weekly p_interval] in Hf.
    replace (rp_day0 ex_p_gap_end) with 19791 in * by (vm_compute; reflexivity).
    replace (rp_sod ex_p_gap_end) with 9000 by (vm_compute; reflexivity). unfold DAY. lia. }
  split; [vm_compute; discriminate|].
  exists (rp_master (init utc_zone [] 1%N []) ex_p_gap_end 1%N).
  split; [vm_compute; reflexivity|]. split; [vm_compute; reflexivity|].
  split; vm_compute; reflexivity.
Qed.
Print Assumptions reads_back_timed_gap_end_refuted.

(* ========================================================================================== *)
(* 8. the all-day case                                                                         *)

Lemma zone_eqb_eq z1 z2 : zone_eqb z1 z2 = true -> z1 = z2.
Proof.
  destruct z1 as [o1 t1], z2 as [o2 t2]. unfold zone_eqb. cbn [off0 trans]. intro H.
  apply andb_true_iff in H. destruct H as [H1 H2]. apply Z.eqb_eq in H1. subst o2. f_equal.
  revert t2 H2. induction t1 as [|[a b] r IH]; intros [|[c d] r2] H; try discriminate; [reflexivity|].
  apply andb_true_iff in H. destruct H as [H H3]. apply andb_true_iff in H. destruct H as [Ha Hb].
  apply Z.eqb_eq in Ha. apply Z.eqb_eq in Hb. subst. f_equal. apply IH. exact H3.
Qed.

Lemma allday_days_bound b st lo hi d :
  s_allday st = true -> zone_bounded (bs_zone b) = true ->
  lo < inst_E b st d -> inst_S b st d < hi ->
  lo / DAY - inst_dur st - 2 <= d <= hi / DAY + 2.
Proof.
  intros Had Hb H1 H2. unfold inst_E, inst_S, midnight in *. rewrite Had in *.
  pose proof (wall_to_utc_bounded (bs_zone b) (d * DAY) false Hb) as B3.
  pose proof (wall_to_utc_bounded (bs_zone b) ((d + inst_dur st) * DAY) false Hb) as B4.
  set (X := wall_to_utc (bs_zone b) (d * DAY) false) in *.
  set (Y := wall_to_utc (bs_zone b) ((d + inst_dur st) * DAY) false) in *.
  set (k := inst_dur st) in *.
  unfold DAY in *. lia.
Qed.

Lemma instances_over_series_allday b st p lo hi n :
  s_allday st = true -> zone_bounded (bs_zone b) = true ->
  inst_day0 b st = rp_day0 p ->
  hi / DAY + 3 - rp_day0 p <= Z.of_nat n ->
  instances b st (rp_rec p) (Some lo) (Some hi) =
  map (inst_row b st)
      (filter (fun d => inst_on b st (rp_rec p) d && inst_sel b st (rp_rec p) lo hi d)
              (days_from (rp_day0 p) n)).
Proof.
  intros Had Hb H0 Hn.
  destruct (rp_rec_unbounded p) as (Hc & Ht & Hd).
  rewrite (instances_unbounded b st (rp_rec p) lo hi Hc Ht Hd). f_equal. symmetry.
  apply filter_days_restrict.
  - unfold inst_first. rewrite H0. lia.
  - lia.
  - intros d Hd0 Hg. apply andb_true_iff in Hg. destruct Hg as [_ Hg]. unfold inst_sel in Hg.
    apply andb_true_iff in Hg. destruct Hg as [_ Hg]. apply andb_true_iff in Hg. destruct Hg as [G1 G2].
    pose proof (allday_days_bound b st lo hi d Had Hb ltac:(lia) ltac:(lia)) as B.
    unfold inst_first. rewrite Had, H0. lia.
Qed.

(* the adapter's view of the calendar zone agrees with the backend (not fetched yet, or fetched) *)
Definition tz_consistent (a : astate) : Prop :=
  a_tz a = None \/ a_tz a = Some (Some (bs_zone (a_b a))).

(* HEADLINE 2: the all-day case (the add reported is_all_day = true: a 24 h pattern in the calendar's
   own zone anchored at a local midnight).  The occurrences are whole local days of the calendar zone:
   rows held as dates (w_k0 = d, w_k1 = d + 1) whose true instants are the local midnights, and these
   are the pattern's own occurrences.  Hypotheses as in the timed case: offsets within a day; the
   reading "anchor + 24 h" (the next local midnight) exists; the local midnight of every firing day
   exists. *)
Theorem add_recurring_reads_back_allday (a a' : astate) (p : wpat) (id : N) (s e : Z) (lo hi : Z) (n : nat) :
  add_recurring a p = (a', [(true, Some (EId id, s, e, true))]) ->
  tz_consistent a ->
  zone_bounded (p_zone p) = true ->
  wall_ok (p_zone p) (utc_to_wall (p_zone p) (p_anchor p) + p_dur p) ->
  (forall d, rp_day0 p <= d -> rp_fires p d = true -> wall_ok (p_zone p) (d * DAY + rp_sod p)) ->
  hi / DAY + 3 - rp_day0 p <= Z.of_nat n ->
  p_zone p = bs_zone (a_b a) /\ p_dur p = DAY /\ rp_sod p = 0 /\
  exists st,
    st = rp_master a p id /\ bs_store (a_b a') = bs_store (a_b a) ++ [st] /\
    s_id st = Some id /\ s_rec st = Some (rp_rec p) /\ s_allday st = true /\
    map span_of_row (instances (a_b a') st (rp_rec p) (Some lo) (Some hi)) = map span_some (rp_read p lo hi n) /\
    (forall w, In w (instances (a_b a') st (rp_rec p) (Some lo) (Some hi)) ->
               w_id w = Some (EInst id (w_s w)) /\ w_rid w = Some id /\ w_ev w = st /\
               row_wf (a_b a') w /\
               exists d, w_k0 w = d /\ w_k1 w = Some (d + 1) /\
                         w_s w = midnight (bs_zone (a_b a)) d /\ w_e w = Some (midnight (bs_zone (a_b a)) (d + 1))).
Proof.
  intros H Hcons Hb Hend Hstart Hn.
  destruct (add_recurring_success a p a' id s e true H) as (_ & _ & Had & Hz & Hst).
  symmetry in Had. unfold rp_master in Hst. rewrite Had in Hst.
  assert (Hm : rp_master a p id =
               mkSev (Some id) (Some (p_sum p)) None None [] false true (local_date (rp_ctz a p) (p_anchor p))
                     (Some (local_date (rp_ctz a p) (rp_end p))) KZone (Some (rp_rec p)))
    by (unfold rp_master; rewrite Had; reflexivity).
  unfold rp_allday in Had. apply andb_true_iff in Had. destruct Had as [Had Hinf].
  apply andb_true_iff in Had. destruct Had as [Hdur Hzeq].
  assert (Hctz : rp_ctz a p = Some (bs_zone (a_b a))).
  { unfold rp_ctz. rewrite Hdur. destruct Hcons as [-> | ->]; reflexivity. }
  rewrite Hctz in *. cbn [tz_or_utc] in Hzeq. apply zone_eqb_eq in Hzeq.
  apply Z.eqb_eq in Hdur.
  set (cz := bs_zone (a_b a)) in *.
  assert (Hsod : rp_sod p = 0).
  { unfold infer_all_day in Hinf. cbn [tz_or_utc] in Hinf. unfold rp_sod. rewrite Hzeq.
    destruct (utc_to_wall cz (p_anchor p) mod DAY =? 0) eqn:E; [lia|]. cbn in Hinf. discriminate. }
  split; [exact Hzeq|]. split; [exact Hdur|]. split; [exact Hsod|].
  assert (Hw1 : utc_to_wall cz (rp_end p) = utc_to_wall cz (p_anchor p) + DAY).
  { unfold wall_ok in Hend. unfold rp_end. rewrite Hzeq, Hdur in *. exact Hend. }
  set (st := mkSev (Some id) (Some (p_sum p)) None None [] false true (local_date (Some cz) (p_anchor p))
                   (Some (local_date (Some cz) (rp_end p))) KZone (Some (rp_rec p))) in *.
  set (b := a_b a') in *.
  assert (H0 : inst_day0 b st = rp_day0 p).
  { unfold inst_day0, rp_day0. cbn [st s_allday s_s]. unfold local_date. cbn [tz_or_utc]. rewrite Hzeq. reflexivity. }
  assert (Hd1 : inst_dur st = 1).
  { unfold inst_dur. cbn [st s_s s_e oget]. unfold local_date. cbn [tz_or_utc]. rewrite Hw1.
    unfold DAY. lia. }
  assert (Hbz : zone_bounded (bs_zone b) = true) by (rewrite Hz; fold cz; rewrite <- Hzeq; exact Hb).
  pose proof (instances_over_series_allday b st p lo hi n eq_refl Hbz H0 Hn) as Hinst.
  exists st. split; [symmetry; exact Hm|].
  split; [exact Hst|]. split; [reflexivity|]. split; [reflexivity|]. split; [reflexivity|].
  split.
  - rewrite Hinst. apply read_as_series; [exact H0|].
    intros d Hd Hf. unfold inst_S, inst_E, rp_occ, rp_start, midnight.
    replace (s_allday st) with true by reflexivity. cbv iota. rewrite Hd1, Hz. fold cz.
    specialize (Hstart d Hd Hf). unfold wall_ok in Hstart. rewrite Hzeq, Hsod, Hdur in *.
    rewrite Hstart. f_equal; f_equal; lia.
  - intros w Hw. rewrite Hinst in Hw.
    apply in_map_iff in Hw. destruct Hw as (d & <- & _). unfold inst_row, row_wf.
    cbn [w_id w_rid w_ev w_s w_e w_k0 w_k1 st s_allday s_id]. fold st.
    unfold inst_S, inst_E. replace (s_allday st) with true by reflexivity. cbv iota.
    rewrite Hd1, Hz. fold cz. cbn [option_map].
    split; [reflexivity|]. split; [reflexivity|]. split; [reflexivity|]. split; [split; reflexivity|].
    exists d. repeat split; reflexivity.
Qed.
Print Assumptions add_recurring_reads_back_allday.

(* ========================================================================================== *)
(* 9. examples for the weekly and the all-day case                                             *)

(* weekly, every second week on Tuesday and Friday, 18:00 for 26 h, from Friday 2024-03-01, on a UTC
   calendar: all hypotheses of HEADLINE 1 hold, for every window and horizon *)
Definition ex_p4 : wpat := mkP true 2 [1; 4] (19783 * DAY + 18 * HOUR + 28800) (26 * HOUR) la24 7%N [].

Example timed_weekly_instance (lo hi : Z) (n : nat) :
  hi / DAY + 3 - 19783 <= Z.of_nat n ->
  let a := init utc_zone [] 1%N [] in
  let res := add_recurring a ex_p4 in
  exists st, bs_store (a_b (fst res)) = [st] /\
    map span_of_row (instances (a_b (fst res)) st (rp_rec ex_p4) (Some lo) (Some hi)) =
    map span_some (rp_read ex_p4 lo hi n).
Proof.
  intro Hn. cbv zeta.
  destruct (add_recurring_reads_back_timed (init utc_zone [] 1%N []) (fst (add_recurring (init utc_zone [] 1%N []) ex_p4))
              ex_p4 1%N 1709344800 1709438400 lo hi n) as (st & _ & H1 & _ & _ & _ & H2 & _).
  - vm_compute. reflexivity.
  - vm_compute. reflexivity.
  - vm_compute. reflexivity.
  - intros d _ _. apply la24_wall_ok.
    replace (rp_sod ex_p4) with 64800 by (vm_compute; reflexivity). unfold DAY. lia.
  - replace (rp_day0 ex_p4) with 19783 by (vm_compute; reflexivity). exact Hn.
  - exists st. split; [exact H1|exact H2].
Qed.

Example timed_weekly_values :
  rp_read ex_p4 (19785 * DAY) (19815 * DAY) 40 =
  [(1709344800, 1709438400); (1710291600, 1710385200); (1710550800, 1710644400); (1711501200, 1711594800);
   (1711760400, 1711854000)].
Proof. vm_compute. reflexivity. Qed.

(* all-day: whole days of a Los Angeles calendar, every second week on Monday, Wednesday and Friday from
   Friday 2024-03-08 (local midnight), Monday 2024-03-18 excluded: all hypotheses of HEADLINE 2 hold *)
Definition ex_p2 : wpat := mkP true 2 [0; 2; 4] (19790 * DAY + 28800) DAY la24 7%N [19800 * DAY + 25200].

Example allday_weekly_instance (lo hi : Z) (n : nat) :
  hi / DAY + 3 - 19790 <= Z.of_nat n ->
  let a := init la24 [] 1%N [] in
  let res := add_recurring a ex_p2 in
  snd res = [(true, Some (EId 1%N, 1709884800, 1709971200, true))] /\
  exists st, bs_store (a_b (fst res)) = [st] /\ s_allday st = true /\
    map span_of_row (instances (a_b (fst res)) st (rp_rec ex_p2) (Some lo) (Some hi)) =
    map span_some (rp_read ex_p2 lo hi n).
Proof.
  intro Hn. cbv zeta. split; [vm_compute; reflexivity|].
  destruct (add_recurring_reads_back_allday (init la24 [] 1%N []) (fst (add_recurring (init la24 [] 1%N []) ex_p2))
              ex_p2 1%N 1709884800 1709971200 lo hi n) as (_ & _ & _ & st & _ & H1 & _ & _ & H3 & H2 & _).
  - vm_compute. reflexivity.
  - left. reflexivity.
  - vm_compute. reflexivity.
  - vm_compute. reflexivity.
  - intros d _ _. apply la24_wall_ok.
    replace (rp_sod ex_p2) with 0 by (vm_compute; reflexivity). unfold DAY. lia.
  - replace (rp_day0 ex_p2) with 19790 by (vm_compute; reflexivity). exact Hn.
  - exists st. split; [exact H1|]. split; [exact H3|exact H2].
Qed.

Example allday_weekly_values :
  rp_read ex_p2 (19785 * DAY) (19815 * DAY) 40 =
  [(1709884800, 1709971200); (1710918000, 1711004400); (1711090800, 1711177200); (1711954800, 1712041200)].
Proof. vm_compute. reflexivity. Qed.

(* (R3) all-day, the hypothesis on the firing days cannot be dropped, with a real table: in Havana the
   clocks go from 00:00 to 01:00 on 2024-03-10 (day 19792), so that local midnight does not exist.
   Daily whole days from 2024-03-08 on a Havana calendar.  The backend's day 03-10 runs from its first
   instant (05:00Z = 01:00 CDT) to the next local midnight (23 h); the pattern's own occurrence of
   that day lasts 24 h on the wall clock: 01:00 to 01:00 of 03-11. *)
Definition ex_p3 : wpat := mkP false 1 [] (19790 * DAY + 18000) DAY havana 7%N [].

Theorem reads_back_allday_gap_midnight_refuted :
  exists (a : astate) (p : wpat) (lo hi : Z) (n : nat),
    let res := add_recurring a p in
    snd res = [(true, Some (EId 1%N, p_anchor p, rp_end p, true))] /\
    tz_consistent a /\
    zone_bounded (p_zone p) = true /\
    wall_ok (p_zone p) (utc_to_wall (p_zone p) (p_anchor p) + p_dur p) /\
    hi / DAY + 3 - rp_day0 p <= Z.of_nat n /\
    exists st, bs_store (a_b (fst res)) = [st] /\ s_rec st = Some (rp_rec p) /\
      map span_of_row (instances (a_b (fst res)) st (rp_rec p) (Some lo) (Some hi)) =
        [(1709960400, Some 1710046800); (1710046800, Some 1710129600); (1710129600, Some 1710216000)] /\
      map span_some (rp_read p lo hi n) =
        [(1709960400, Some 1710046800); (1710046800, Some 1710133200); (1710129600, Some 1710216000)].
Proof.
  exists (init havana [] 1%N []), ex_p3, (19791 * DAY + 12 * HOUR), (19794 * DAY), 10%nat.
  cbv zeta. split; [vm_compute; reflexivity|]. split; [left; reflexivity|].
  split; [vm_compute; reflexivity|]. split; [vm_compute; reflexivity|]. split; [vm_compute; discriminate|].
  exists (rp_master (init havana [] 1%N []) ex_p3 1%N).
  split; [vm_compute; reflexivity|]. split; [vm_compute; reflexivity|].
  split; vm_compute; reflexivity.
Qed.
Print Assumptions reads_back_allday_gap_midnight_refuted.

(* ========================================================================================== *)
(* 10. from the backend's rows to the adapter's events                                         *)

Lemma inst_row_wf b st d : row_wf b (inst_row b st d).
Proof.
  unfold row_wf, inst_row. cbn [w_ev w_s w_e w_k0 w_k1]. unfold inst_S, inst_E.
  destruct (s_allday st); split; reflexivity.
Qed.

Lemma in_instances_row b st r lo hi w :
  rec_count r = None -> rec_until_t r = None -> rec_until_d r = None ->
  In w (instances b st r (Some lo) (Some hi)) -> exists d, w = inst_row b st d.
Proof.
  intros Hc Ht Hd Hw. rewrite (instances_unbounded b st r lo hi Hc Ht Hd) in Hw.
  apply in_map_iff in Hw. destruct Hw as (d & <- & _). exists d. reflexivity.
Qed.

(* every row of the new series is converted exactly by the read path (one iteration of the loop of
   _fetch_forward): span, instance id, series link, summary.  Hypothesis zone_rt (GcsaP.v) on the
   pattern's zone: a timed occurrence is handed out as a wall clock with fold in that zone. *)
Theorem add_recurring_rows_convert (a a' : astate) (p : wpat) (id : N) (s e : Z) (ad : bool)
        (lo hi : Z) (w : row) (a2 a3 : astate) (ev : aev) :
  add_recurring a p = (a', [(true, Some (EId id, s, e, ad))]) ->
  zone_rt (p_zone p) ->
  In w (instances (a_b a') (rp_master a p id) (rp_rec p) (Some lo) (Some hi)) ->
  a_b a2 = a_b a' -> a_tz a2 = Some (Some (bs_zone (a_b a'))) ->
  convert a2 (present (a_b a2) w) = (a3, Some (Some ev)) ->
  e_s ev = w_s w /\ Some (e_e ev) = w_e w /\ e_id ev = EInst id (w_s w) /\ e_rid ev = Some id /\
  e_sum ev = p_sum p /\ (ad = true -> e_allday ev = true).
Proof.
  intros H Hrt Hw Hb Htz Hc.
  destruct (add_recurring_success a p a' id s e ad H) as (_ & _ & Had & _ & _).
  destruct (rp_rec_unbounded p) as (Hc1 & Ht1 & Hd1).
  destruct (in_instances_row _ _ _ _ _ _ Hc1 Ht1 Hd1 Hw) as (d & ->).
  set (st := rp_master a p id) in *.
  assert (Hid : s_id st = Some id) by (unfold st, rp_master; destruct (rp_allday a p); reflexivity).
  assert (Hsum : s_sum st = Some (p_sum p)) by (unfold st, rp_master; destruct (rp_allday a p); reflexivity).
  assert (Hpres : s_pres st = KZone) by (unfold st, rp_master; destruct (rp_allday a p); reflexivity).
  assert (Hall : s_allday st = ad) by (unfold st, rp_master; rewrite Had; destruct (rp_allday a p); reflexivity).
  assert (Hzone : s_allday st = false -> ev_zone (a_b a2) st = p_zone p).
  { unfold st, rp_master. destruct (rp_allday a p); [discriminate|reflexivity]. }
  destruct (read_span_exact a2 a3 (inst_row (a_b a') st d) ev) as (R1 & R2 & R3 & R4 & R5 & _ & R7).
  - rewrite Htz, Hb. reflexivity.
  - rewrite Hb. apply inst_row_wf.
  - intro Hf. unfold pres_ok. cbn [inst_row w_ev]. rewrite Hpres, (Hzone Hf). exact Hrt.
  - intros _ Hk. cbn [inst_row w_ev] in Hk. rewrite Hpres in Hk. discriminate.
  - exact Hc.
  - cbn [inst_row w_ev w_id w_rid w_s w_e] in *. rewrite Hid in R3, R5. rewrite Hsum in R4.
    injection R3 as R3. injection R4 as R4.
    split; [exact R1|]. split; [exact R2|]. split; [exact R3|]. split; [exact R5|]. split; [exact R4|].
    intro E. apply R7. rewrite Hall. exact E.
Qed.
Print Assumptions add_recurring_rows_convert.

From Coq Require Import Sorting.Sorted.

(* ========================================================================================== *)
(* 11. ascending in instants, each occurrence once                                             *)

(* any two offsets of the table differ by less than a day *)
Definition off_list (z : zone) : list Z := off0 z :: map snd (trans z).
Definition zone_narrow (z : zone) : bool :=
  forallb (fun x => forallb (fun y => x - y <? DAY) (off_list z)) (off_list z).

Lemma offset_at_go_in tr : forall cur t, In (offset_at_go cur tr t) (cur :: map snd tr).
Proof.
  induction tr as [|[T o] r IH]; intros cur t; cbn [offset_at_go map snd]; [left; reflexivity|].
  destruct (T <=? t); [right; apply IH|left; reflexivity].
Qed.

Lemma zone_narrow_offsets z t1 t2 : zone_narrow z = true -> offset_at z t2 - offset_at z t1 < DAY.
Proof.
  unfold zone_narrow. intro H. rewrite forallb_forall in H.
  specialize (H _ (offset_at_go_in (trans z) (off0 z) t2)). rewrite forallb_forall in H.
  specialize (H _ (offset_at_go_in (trans z) (off0 z) t1)). unfold offset_at. lia.
Qed.

Lemma rp_start_ascending p d1 d2 :
  zone_narrow (p_zone p) = true ->
  wall_ok (p_zone p) (d1 * DAY + rp_sod p) -> wall_ok (p_zone p) (d2 * DAY + rp_sod p) ->
  d1 < d2 -> rp_start p d1 < rp_start p d2.
Proof.
  intros Hn H1 H2 Hlt. unfold wall_ok, utc_to_wall in H1, H2. fold (rp_start p d1) in H1. fold (rp_start p d2) in H2.
  pose proof (zone_narrow_offsets (p_zone p) (rp_start p d1) (rp_start p d2) Hn) as B.
  unfold DAY in *. lia.
Qed.

Lemma days_from_sorted : forall n d, StronglySorted Z.lt (days_from d n).
Proof.
  induction n as [|n IH]; intro d; cbn [days_from]; constructor; [apply IH|].
  apply Forall_forall. intros x Hx. apply In_days_from in Hx. lia.
Qed.

Lemma sorted_filter {A} (R : A -> A -> Prop) (g : A -> bool) (l : list A) :
  StronglySorted R l -> StronglySorted R (filter g l).
Proof.
  induction 1 as [|x r Hs IH Hall]; cbn [filter]; [constructor|].
  destruct (g x); [|exact IH]. constructor; [exact IH|].
  apply Forall_forall. intros y Hy. apply filter_In in Hy. rewrite Forall_forall in Hall. apply Hall, Hy.
Qed.

Lemma sorted_map_in {A B} (R : A -> A -> Prop) (Q : B -> B -> Prop) (f : A -> B) (l : list A) :
  (forall x y, In x l -> In y l -> R x y -> Q (f x) (f y)) ->
  StronglySorted R l -> StronglySorted Q (map f l).
Proof.
  intros Hf Hs. induction Hs as [|x r Hs IH Hall]; cbn [map]; [constructor|].
  constructor.
  - apply IH. intros a b Ha Hb. apply Hf; right; assumption.
  - apply Forall_forall. intros y Hy. apply in_map_iff in Hy. destruct Hy as (d & <- & Hd).
    rewrite Forall_forall in Hall. apply Hf; [left; reflexivity|right; exact Hd|apply Hall, Hd].
Qed.

(* the declarative read is strictly ascending in start instants: in particular no occurrence twice *)
Theorem rp_read_ascending (p : wpat) (lo hi : Z) (n : nat) :
  zone_narrow (p_zone p) = true ->
  (forall d, rp_day0 p <= d -> rp_fires p d = true -> wall_ok (p_zone p) (d * DAY + rp_sod p)) ->
  StronglySorted (fun x y => fst x < fst y) (rp_read p lo hi n).
Proof.
  intros Hn Hstart. unfold rp_read, rp_series. apply sorted_filter.
  apply (sorted_map_in Z.lt).
  - intros d1 d2 H1 H2 Hlt. apply filter_In in H1, H2. destruct H1 as [I1 F1], H2 as [I2 F2].
    apply In_days_from in I1, I2. cbn [rp_occ fst].
    apply rp_start_ascending; [exact Hn|apply Hstart; [lia|exact F1]|apply Hstart; [lia|exact F2]|exact Hlt].
  - apply sorted_filter. apply days_from_sorted.
Qed.
Print Assumptions rp_read_ascending.

(* hence the backend's rows of the new master come out in strictly ascending order of start *)
Corollary add_recurring_rows_ascending (a a' : astate) (p : wpat) (id : N) (s e : Z) (ad : bool) (lo hi : Z) :
  add_recurring a p = (a', [(true, Some (EId id, s, e, ad))]) ->
  (ad = true -> tz_consistent a) ->
  zone_bounded (p_zone p) = true -> zone_narrow (p_zone p) = true ->
  wall_ok (p_zone p) (utc_to_wall (p_zone p) (p_anchor p) + p_dur p) ->
  (forall d, rp_day0 p <= d -> rp_fires p d = true -> wall_ok (p_zone p) (d * DAY + rp_sod p)) ->
  StronglySorted Z.lt (map w_s (instances (a_b a') (rp_master a p id) (rp_rec p) (Some lo) (Some hi))).
Proof.
  intros H Hcons Hb Hn Hend Hstart.
  set (n := Z.to_nat (hi / DAY + 3 - rp_day0 p)).
  assert (Hh : hi / DAY + 3 - rp_day0 p <= Z.of_nat n) by lia.
  assert (E : map span_of_row (instances (a_b a') (rp_master a p id) (rp_rec p) (Some lo) (Some hi)) =
              map span_some (rp_read p lo hi n)).
  { destruct ad.
    - destruct (add_recurring_reads_back_allday a a' p id s e lo hi n H (Hcons eq_refl) Hb Hend Hstart Hh)
        as (_ & _ & _ & st & -> & _ & _ & _ & _ & E & _). exact E.
    - destruct (add_recurring_reads_back_timed a a' p id s e lo hi n H Hb Hend Hstart Hh)
        as (st & -> & _ & _ & _ & _ & E & _). exact E. }
  apply (f_equal (map fst)) in E. rewrite !map_map in E. cbn [span_of_row span_some fst] in E.
  change (map (fun x : row => w_s x)) with (map w_s) in E. rewrite E.
  pose proof (rp_read_ascending p lo hi n Hn Hstart) as S.
  apply (sorted_map_in (fun x y : Z * Z => fst x < fst y) Z.lt fst); [|exact S].
  intros x y _ _ Hxy. exact Hxy.
Qed.
Print Assumptions add_recurring_rows_ascending.

Example zone_narrow_tables :
  zone_narrow la24 = true /\ zone_narrow la = true /\ zone_narrow havana = true /\ zone_narrow chatham = true /\
  zone_bounded la = true /\ zone_bounded havana = true /\ zone_bounded chatham = true /\ zone_bounded troll = true.
Proof. vm_compute. repeat split; reflexivity. Qed.

From CG Require Proofs.GenEq10.

(* ========================================================================================== *)
(* 12. a checkable criterion for wall_ok on a full transition table                            *)

(* w lies in no gap of the table: a transition at T from offset c to a larger offset o skips the
   readings [T + c, T + o) *)
Fixpoint no_gap_at (cur : Z) (tr : list (Z * Z)) (w : Z) : Prop :=
  match tr with
  | [] => True
  | (T, o) :: r => ~ (T + cur <= w < T + o) /\ no_gap_at o r w
  end.

Lemma wall_low : forall tr cur T o w,
  GenEq10.rt_wf_go cur ((T, o) :: tr) = true -> T + Z.max cur o <= w ->
  T <= w - wall_offset_go o tr w false.
Proof.
  induction tr as [|[T' o'] r IH]; intros cur T o w Hwf Hw.
  - cbn [wall_offset_go]. lia.
  - cbn [GenEq10.rt_wf_go] in Hwf. apply andb_true_iff in Hwf. destruct Hwf as [H1 H2].
    cbn [wall_offset_go]. cbv zeta. destruct (T' + Z.max o o' <=? w) eqn:E.
    + pose proof (IH o T' o' w H2 ltac:(lia)). lia.
    + lia.
Qed.

Lemma wall_ok_go : forall tr cur w,
  GenEq10.rt_wf_go cur tr = true -> no_gap_at cur tr w ->
  w - wall_offset_go cur tr w false + offset_at_go cur tr (w - wall_offset_go cur tr w false) = w.
Proof.
  induction tr as [|[T o] r IH]; intros cur w Hwf Hg.
  - cbn [wall_offset_go offset_at_go]. lia.
  - pose proof Hwf as Hwf0. cbn [GenEq10.rt_wf_go] in Hwf. apply andb_true_iff in Hwf. destruct Hwf as [_ H2].
    cbn [no_gap_at] in Hg. destruct Hg as [G1 G2].
    cbn [wall_offset_go]. cbv zeta. destruct (T + Z.max cur o <=? w) eqn:E.
    + pose proof (wall_low r cur T o w Hwf0 ltac:(lia)) as L.
      cbn [offset_at_go]. replace (T <=? w - wall_offset_go o r w false) with true by lia.
      apply IH; assumption.
    + cbn [offset_at_go]. replace (T <=? w - cur) with false by lia. lia.
Qed.

Theorem wall_ok_no_gap z w : GenEq10.rt_wf z = true -> no_gap_at (off0 z) (trans z) w -> wall_ok z w.
Proof.
  intros H G. unfold wall_ok, utc_to_wall, wall_to_utc, wall_offset, offset_at.
  exact (wall_ok_go (trans z) (off0 z) w H G).
Qed.
Print Assumptions wall_ok_no_gap.

(* the full Los Angeles table 2020-2025 of Spec/ZoneTables.v: 09:00 exists on every day *)
Example la_nine_oclock d : wall_ok la (d * DAY + 9 * HOUR).
Proof.
  apply wall_ok_no_gap; [vm_compute; reflexivity|].
  unfold la, DAY, HOUR. cbn [off0 trans no_gap_at]. repeat split; lia.
Qed.

(* HEADLINE 1 instantiated on the full table: daily 09:00-10:00 Los Angeles from 2024-03-01 on a
   Havana calendar, every window, every horizon *)
Definition ex_p5 : wpat := mkP false 1 [] (19783 * DAY + 9 * HOUR + 28800) HOUR la 7%N [].

Example timed_daily_full_table (lo hi : Z) (n : nat) :
  hi / DAY + 3 - 19783 <= Z.of_nat n ->
  let a := init havana [] 1%N [] in
  let res := add_recurring a ex_p5 in
  let st := rp_master a ex_p5 1%N in
  bs_store (a_b (fst res)) = [st] /\
  map span_of_row (instances (a_b (fst res)) st (rp_rec ex_p5) (Some lo) (Some hi)) =
  map span_some (rp_read ex_p5 lo hi n) /\
  StronglySorted Z.lt (map w_s (instances (a_b (fst res)) st (rp_rec ex_p5) (Some lo) (Some hi))) /\
  zone_rt (p_zone ex_p5).
Proof.
  intro Hn. cbv zeta.
  assert (Hs : forall d, rp_day0 ex_p5 <= d -> rp_fires ex_p5 d = true ->
                         wall_ok (p_zone ex_p5) (d * DAY + rp_sod ex_p5)).
  { intros d _ _. replace (rp_sod ex_p5) with (9 * HOUR) by (vm_compute; reflexivity). apply la_nine_oclock. }
  assert (He : wall_ok (p_zone ex_p5) (utc_to_wall (p_zone ex_p5) (p_anchor ex_p5) + p_dur ex_p5))
    by (vm_compute; reflexivity).
  assert (Hadd : add_recurring (init havana [] 1%N []) ex_p5 =
                 (fst (add_recurring (init havana [] 1%N []) ex_p5),
                  [(true, Some (EId 1%N, 1709312400, 1709316000, false))])) by (vm_compute; reflexivity).
  destruct (add_recurring_reads_back_timed _ _ ex_p5 1%N _ _ lo hi n Hadd) as (st & -> & H1 & _ & _ & _ & H2 & _);
    [vm_compute; reflexivity|exact He|exact Hs|
     replace (rp_day0 ex_p5) with 19783 by (vm_compute; reflexivity); exact Hn|].
  split; [exact H1|]. split; [exact H2|]. split.
  - apply (add_recurring_rows_ascending _ _ ex_p5 1%N _ _ false lo hi Hadd); try assumption;
      try (vm_compute; reflexivity). intro; discriminate.
  - apply GenEq10.zone_rt_wf. vm_compute. reflexivity.
Qed.

(* the series of the backend starts at the master: the pattern itself (calgebra's RecurringPattern is
   phase-aligned to its anchor in BOTH directions, Spec/RecurSpec.v) also fires before the anchor's day,
   but nothing is stored for those days; "the pattern's own occurrences" above are those from the
   anchor's local day on (what the test oracle of C20 assumes too) *)
Example nothing_before_the_anchor :
  let a := init la24 [] 1%N [] in
  let b := a_b (fst (add_recurring a ex_p1)) in
  rp_fires ex_p1 (rp_day0 ex_p1 - 2) = true /\
  instances b (rp_master a ex_p1 1%N) (rp_rec ex_p1) (Some ((rp_day0 ex_p1 - 4) * DAY)) (Some ((rp_day0 ex_p1 - 1) * DAY)) = [].
Proof. vm_compute. split; reflexivity. Qed.
