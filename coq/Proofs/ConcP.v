(* Proofs/ConcP.v — C11: lock-protected critical sections are serializable, for every number of
   threads, every program and EVERY schedule; no deadlock; instantiation with the cache
   (CachedTimeline.fetch) and the consequences of C09 for concurrent use. *)
From Coq Require Import List Arith ZArith Lia Bool Permutation.
Import ListNotations.
From CG Require Import Model.Conc.

(* ------------------------------------------------------------------------------------ *)
(* list update *)

Lemma upd_length {A} i (x : A) l : length (upd i x l) = length l.
Proof. revert i; induction l as [|y l IH]; intros [|i]; simpl; auto. Qed.

Lemma nth_error_upd_eq {A} i (x : A) l t :
  nth_error l i = Some t -> nth_error (upd i x l) i = Some x.
Proof.
  revert i; induction l as [|y l IH]; intros [|i]; simpl; intros H; try discriminate; auto.
Qed.

Lemma nth_error_upd_neq {A} i j (x : A) l : i <> j -> nth_error (upd i x l) j = nth_error l j.
Proof.
  revert i j; induction l as [|y l IH]; intros [|i] [|j] H; simpl; auto; try congruence.
Qed.

Lemma list_sum_upd {A} (f : A -> nat) i x l t :
  nth_error l i = Some t ->
  list_sum (map f (upd i x l)) + f t = list_sum (map f l) + f x.
Proof.
  revert i; induction l as [|y l IH]; intros [|i]; simpl; intros H; try discriminate.
  - inversion H; subst. lia.
  - specialize (IH i H). lia.
Qed.

(* the entries of a log that belong to thread i *)
Definition by_thread {A} (i : nat) (l : list (nat * A)) : list A :=
  map snd (filter (fun x => fst x =? i) l).

Lemma by_thread_snoc {A} i j (x : A) l :
  by_thread i (l ++ [(j, x)]) = by_thread i l ++ (if j =? i then [x] else []).
Proof.
  unfold by_thread. rewrite filter_app, map_app. simpl. destruct (j =? i); reflexivity.
Qed.

Ltac upd_cases i j H :=
  destruct (Nat.eq_dec i j) as [?E|?E];
  [ subst; erewrite nth_error_upd_eq in H by eassumption; inversion H; subst; clear H
  | rewrite nth_error_upd_neq in H by assumption ].

(* ------------------------------------------------------------------------------------ *)
Section Generic.
Variables (St R : Type).
Notation crit := (crit St R).
Notation prog := (prog St R).
Notation thread := (thread St R).
Notation config := (config St R).

Definition in_crit (t : thread) : Prop :=
  match t_st t with Inside _ _ _ => True | Outside _ => False end.
(* what remains of the program after the current critical section, if any *)
Definition rest (t : thread) : prog :=
  match t_st t with Outside p => p | Inside _ _ p => p end.
Definition crits_of (p : prog) : list crit :=
  flat_map (fun x => match x with Local => [] | Crit k => [k] end) p.
(* the critical sections that have been executed completely: all acquisitions but, when the
   lock is held, the last one *)
Definition completed (c : config) : list (nat * crit) :=
  match holder c with None => acq c | Some _ => removelast (acq c) end.

Definition reachable (s0 : St) (ps : list prog) (c : config) : Prop :=
  exists sch, c = run (init s0 ps) sch.

(* serial, one more critical section at the end *)
Lemma serial_snoc (s : St) (l : list (nat * crit)) i (k : crit) :
  serial s (l ++ [(i, k)]) =
  (exec (c_steps k) (fst (serial s l)),
   snd (serial s l) ++ [(i, c_read k (exec (c_steps k) (fst (serial s l))))]).
Proof.
  revert s; induction l as [|[j k'] l IH]; intros s.
  - reflexivity.
  - simpl. rewrite IH. destruct (serial (exec (c_steps k') s) l) as [s2 rs]. reflexivity.
Qed.

Lemma exec_app fs gs (s : St) : exec (fs ++ gs) s = exec gs (exec fs s).
Proof. unfold exec. apply fold_left_app. Qed.

(* ---------------------------------------------------------------------------------- *)
(* THE invariant of every reachable configuration *)
Record inv (s0 : St) (ps : list prog) (c : config) : Prop := mkInv {
  (* the threads are those of the programs *)
  i_len : length (threads c) = length ps;
  (* a thread is inside a critical section iff it holds the lock *)
  i_excl : forall i t, nth_error (threads c) i = Some t -> (in_crit t <-> holder c = Some i);
  (* the results released so far are those of the serial execution of the completed sections *)
  i_rel : rel c = snd (serial s0 (completed c));
  (* the shared state is the serial execution of the completed sections followed by the
     already executed prefix [done] of the holder's micro-steps *)
  i_sh : match holder c with
         | None => sh c = fst (serial s0 (acq c))
         | Some h => exists pre k done todo p res,
             acq c = pre ++ [(h, k)] /\
             nth_error (threads c) h = Some (mkT (Inside todo (c_read k) p) res) /\
             c_steps k = done ++ todo /\
             sh c = exec done (fst (serial s0 pre))
         end;
  (* each thread has collected exactly its own released results *)
  i_res : forall i t, nth_error (threads c) i = Some t -> t_res t = by_thread i (rel c);
  (* each thread's acquisitions are, in order, the critical sections of its program that it
     no longer has ahead of it *)
  i_prog : forall i t p, nth_error (threads c) i = Some t -> nth_error ps i = Some p ->
             crits_of p = by_thread i (acq c) ++ crits_of (rest t);
  (* every acquisition is that of a critical section of the acquiring thread's program *)
  i_acq : forall i k, In (i, k) (acq c) -> exists p, nth_error ps i = Some p /\ In k (crits_of p)
}.

Lemma inv_init s0 ps : inv s0 ps (init s0 ps).
Proof.
  constructor; simpl.
  - apply map_length.
  - intros i t H. rewrite nth_error_map in H. destruct (nth_error ps i); inversion H; subst.
    unfold in_crit; simpl. split; [tauto|discriminate].
  - reflexivity.
  - reflexivity.
  - intros i t H. rewrite nth_error_map in H. destruct (nth_error ps i); inversion H; subst.
    reflexivity.
  - intros i t p H Hp. rewrite nth_error_map, Hp in H. inversion H; subst. reflexivity.
  - intros i k [].
Qed.

Lemma inv_step s0 ps c i c' : inv s0 ps c -> step c i = Some c' -> inv s0 ps c'.
Proof.
  intros [Hlen Hex Hrel Hsh Hres Hprog Hacq] Hstep. unfold step in Hstep.
  destruct (nth_error (threads c) i) as [t|] eqn:Hi; [|discriminate].
  destruct t as [st res]. simpl in Hstep.
  destruct st as [[|[|k] p]|[|f todo] rd p].
  - discriminate.
  - (* a local step *)
    inversion Hstep; subst c'; clear Hstep.
    assert (Hni : holder c <> Some i).
    { intro Hh. apply (Hex i _ Hi) in Hh. exact Hh. }
    constructor; simpl.
    + rewrite upd_length. exact Hlen.
    + intros j t Hj. upd_cases i j Hj.
      * unfold in_crit; simpl. split; [tauto|]. intro Hh. exact (Hni Hh).
      * apply Hex. exact Hj.
    + exact Hrel.
    + destruct (holder c) as [h|] eqn:Hh; [|exact Hsh].
      destruct Hsh as (pre & k & done & todo & p' & res' & Ha & Hn & Hs & Hx).
      exists pre, k, done, todo, p', res'. repeat split; try assumption.
      rewrite nth_error_upd_neq; [exact Hn|]. intro; subst h. congruence.
    + intros j t Hj. upd_cases i j Hj.
      * simpl. apply (Hres _ _ Hi).
      * apply Hres. exact Hj.
    + intros j t q Hj Hq. upd_cases i j Hj.
      * apply (Hprog _ _ q Hi Hq).
      * apply (Hprog _ _ q Hj Hq).
    + exact Hacq.
  - (* acquisition *)
    destruct (holder c) as [h|] eqn:Hh; [discriminate|].
    inversion Hstep; subst c'; clear Hstep.
    constructor; simpl.
    + rewrite upd_length. exact Hlen.
    + intros j t Hj. upd_cases i j Hj.
      * unfold in_crit; simpl. tauto.
      * split.
        -- intro Hin. apply (Hex j _ Hj) in Hin. discriminate.
        -- intro Hj'. inversion Hj'. congruence.
    + unfold completed in *; simpl. rewrite Hh in Hrel. rewrite removelast_last. exact Hrel.
    + exists (acq c), k, [], (c_steps k), p, res. repeat split.
      * erewrite nth_error_upd_eq by eassumption. reflexivity.
      * exact Hsh.
    + intros j t Hj. upd_cases i j Hj.
      * simpl. apply (Hres _ _ Hi).
      * apply Hres. exact Hj.
    + intros j t q Hj Hq. rewrite by_thread_snoc. upd_cases i j Hj.
      * rewrite Nat.eqb_refl. specialize (Hprog _ _ q Hi Hq). unfold rest in *; simpl in *.
        rewrite <- app_assoc. exact Hprog.
      * apply Nat.eqb_neq in E. rewrite E, app_nil_r. apply (Hprog _ _ q Hj Hq).
    + intros j k' Hin. apply in_app_or in Hin. destruct Hin as [Hin|[Hin|[]]]; [exact (Hacq _ _ Hin)|].
      inversion Hin; subst j k'; clear Hin.
      assert (Hlt : i < length ps). { rewrite <- Hlen. apply nth_error_Some. congruence. }
      destruct (nth_error ps i) as [q|] eqn:Hq; [|apply nth_error_None in Hq; lia].
      exists q. split; [reflexivity|]. rewrite (Hprog _ _ q Hi Hq). apply in_or_app. right.
      unfold rest; simpl. left; reflexivity.
  - (* release, with the read-out *)
    assert (Hh : holder c = Some i). { apply (Hex i _ Hi). exact I. }
    inversion Hstep; subst c'; clear Hstep.
    rewrite Hh in Hsh. destruct Hsh as (pre & k & done & todo & p' & res' & Ha & Hn & Hs & Hx).
    rewrite Hi in Hn. inversion Hn; subst todo rd p' res'; clear Hn.
    rewrite app_nil_r in Hs.
    assert (Hfin : serial s0 (acq c) = (sh c, rel c ++ [(i, c_read k (sh c))])).
    { rewrite Ha, serial_snoc, Hs, <- Hx. f_equal. f_equal.
      unfold completed in Hrel. rewrite Hh, Ha, removelast_last in Hrel. symmetry; exact Hrel. }
    constructor; simpl.
    + rewrite upd_length. exact Hlen.
    + intros j t Hj. split; [|discriminate]. upd_cases i j Hj.
      * unfold in_crit; simpl. tauto.
      * intro Hin. apply (Hex j _ Hj) in Hin. congruence.
    + unfold completed; simpl. rewrite Hfin. reflexivity.
    + rewrite Hfin. reflexivity.
    + intros j t Hj. rewrite by_thread_snoc. upd_cases i j Hj.
      * simpl. rewrite Nat.eqb_refl. f_equal. apply (Hres _ _ Hi).
      * apply Nat.eqb_neq in E. rewrite E, app_nil_r. apply Hres. exact Hj.
    + intros j t q Hj Hq. upd_cases i j Hj.
      * apply (Hprog _ _ q Hi Hq).
      * apply (Hprog _ _ q Hj Hq).
    + exact Hacq.
  - (* one statement inside the critical section *)
    assert (Hh : holder c = Some i). { apply (Hex i _ Hi). exact I. }
    inversion Hstep; subst c'; clear Hstep.
    rewrite Hh in Hsh. destruct Hsh as (pre & k & done & todo' & p' & res' & Ha & Hn & Hs & Hx).
    rewrite Hi in Hn. inversion Hn; subst todo' rd p' res'; clear Hn.
    constructor; simpl.
    + rewrite upd_length. exact Hlen.
    + intros j t Hj. upd_cases i j Hj.
      * unfold in_crit; simpl. tauto.
      * apply Hex. exact Hj.
    + exact Hrel.
    + rewrite Hh. exists pre, k, (done ++ [f]), todo, p, res. repeat split.
      * exact Ha.
      * erewrite nth_error_upd_eq by eassumption. reflexivity.
      * rewrite <- app_assoc. exact Hs.
      * rewrite exec_app, <- Hx. reflexivity.
    + intros j t Hj. upd_cases i j Hj.
      * simpl. apply (Hres _ _ Hi).
      * apply Hres. exact Hj.
    + intros j t q Hj Hq. upd_cases i j Hj.
      * apply (Hprog _ _ q Hi Hq).
      * apply (Hprog _ _ q Hj Hq).
    + exact Hacq.
Qed.

Lemma inv_run s0 ps sch : forall c, inv s0 ps c -> inv s0 ps (run c sch).
Proof.
  induction sch as [|i sch IH]; intros c H; simpl; [exact H|].
  apply IH. destruct (step c i) as [c'|] eqn:Hs; [|exact H]. exact (inv_step _ _ _ _ _ H Hs).
Qed.

Lemma inv_reachable s0 ps c : reachable s0 ps c -> inv s0 ps c.
Proof. intros [sch ->]. apply inv_run, inv_init. Qed.


(* ---------------------------------------------------------------------------------- *)
(* mutual exclusion: in every reachable configuration at most one thread is inside a critical
   section, it is the lock holder, and the lock is never held by a thread outside one *)
Theorem mutual_exclusion s0 ps sch :
  let c := run (init s0 ps) sch in
  (forall i j ti tj,
     nth_error (threads c) i = Some ti -> nth_error (threads c) j = Some tj ->
     in_crit ti -> in_crit tj -> i = j /\ holder c = Some i) /\
  (forall h, holder c = Some h -> exists t, nth_error (threads c) h = Some t /\ in_crit t).
Proof.
  intros c.
  assert (Hinv : inv s0 ps c) by (apply inv_run, inv_init).
  destruct Hinv as [Hlen Hex Hrel Hsh Hres Hprog Hacq].
  split.
  - intros i j ti tj Hi Hj Ii Ij. apply (Hex _ _ Hi) in Ii. apply (Hex _ _ Hj) in Ij.
    split; [congruence|exact Ii].
  - intros h Hh. rewrite Hh in Hsh. destruct Hsh as (pre & k & done & todo & p & res & _ & Hn & _).
    eexists; split; [exact Hn|exact I].
Qed.

(* serializability, at statement granularity, in EVERY reachable configuration (no completion
   needed): the released results are those of the serial execution of the completed critical
   sections in acquisition order, and the shared state is that serial execution followed by
   the already executed prefix of the holder's micro-steps *)
Theorem C11_prefix_invariant s0 ps sch :
  let c := run (init s0 ps) sch in
  rel c = snd (serial s0 (completed c)) /\
  match holder c with
  | None => sh c = fst (serial s0 (completed c))
  | Some h => exists k done todo p res,
      acq c = completed c ++ [(h, k)] /\
      nth_error (threads c) h = Some (mkT (Inside todo (c_read k) p) res) /\
      c_steps k = done ++ todo /\
      sh c = exec done (fst (serial s0 (completed c)))
  end.
Proof.
  intros c.
  assert (Hinv : inv s0 ps c) by (apply inv_run, inv_init).
  destruct Hinv as [Hlen Hex Hrel Hsh Hres Hprog Hacq].
  split; [exact Hrel|]. unfold completed. destruct (holder c) as [h|]; [|exact Hsh].
  destruct Hsh as (pre & k & done & todo & p & res & Ha & Hn & Hs & Hx).
  exists k, done, todo, p, res. rewrite Ha, removelast_last. auto.
Qed.

Lemma forallb_false_nth {A} (f : A -> bool) l :
  forallb f l = false -> exists i t, nth_error l i = Some t /\ f t = false.
Proof.
  induction l as [|x l IH]; simpl; [discriminate|]. destruct (f x) eqn:Hx; simpl.
  - intros H. destruct (IH H) as (i & t & Hi & Ht). exists (S i), t. auto.
  - intros _. exists 0, x. auto.
Qed.

Lemma forallb_nth {A} (f : A -> bool) l i t :
  forallb f l = true -> nth_error l i = Some t -> f t = true.
Proof. intros H Hi. rewrite forallb_forall in H. apply H. eapply nth_error_In; eauto. Qed.

Lemma inv_done_free s0 ps c : inv s0 ps c -> all_done c = true -> holder c = None.
Proof.
  intros [Hlen Hex Hrel Hsh Hres Hprog Hacq] Hd. destruct (holder c) as [h|]; [|reflexivity].
  destruct Hsh as (pre & k & done & todo & p & res & _ & Hn & _).
  apply (forallb_nth _ _ _ _ Hd) in Hn. discriminate.
Qed.

(* serializability of complete runs: for EVERY schedule that lets all threads finish, the lock
   is free, the final shared state and the results are those of the serial execution of the
   critical sections in the order in which they acquired the lock, every thread has collected
   exactly its own results of that serial execution, and that order is an interleaving of the
   programs (restricted to a thread it is the thread's own sequence of critical sections) *)
Theorem C11_serializable s0 ps sch :
  let c := run (init s0 ps) sch in
  all_done c = true ->
  holder c = None /\
  sh c = fst (serial s0 (acq c)) /\
  rel c = snd (serial s0 (acq c)) /\
  (forall i t, nth_error (threads c) i = Some t ->
     t_res t = by_thread i (snd (serial s0 (acq c)))) /\
  (forall i p, nth_error ps i = Some p -> by_thread i (acq c) = crits_of p).
Proof.
  intros c Hd.
  assert (Hinv : inv s0 ps c) by (apply inv_run, inv_init).
  pose proof (inv_done_free _ _ _ Hinv Hd) as Hfree.
  destruct Hinv as [Hlen Hex Hrel Hsh Hres Hprog Hacq].
  unfold completed in Hrel. rewrite Hfree in Hrel, Hsh.
  split; [exact Hfree|]. split; [exact Hsh|]. split; [exact Hrel|]. split.
  - intros i t Hi. rewrite <- Hrel. apply Hres. exact Hi.
  - intros i p Hp.
    destruct (nth_error (threads c) i) as [t|] eqn:Hi.
    + rewrite (Hprog _ _ _ Hi Hp).
      apply (forallb_nth _ _ _ _ Hd) in Hi. unfold finished in Hi. unfold rest.
      destruct (t_st t) as [[|x q]|]; try discriminate. simpl. rewrite app_nil_r. reflexivity.
    + apply nth_error_None in Hi. assert (i < length ps) by (apply nth_error_Some; congruence). lia.
Qed.

(* ---------------------------------------------------------------------------------- *)
(* no deadlock *)

Lemma inv_progress s0 ps c : inv s0 ps c -> all_done c = false ->
  match holder c with
  | Some h => step c h <> None
  | None => forall i t, nth_error (threads c) i = Some t -> finished t = false -> step c i <> None
  end /\
  exists i, i < length ps /\ step c i <> None.
Proof.
  intros [Hlen Hex Hrel Hsh Hres Hprog Hacq] Hd.
  assert (Hfree : holder c = None ->
            forall i t, nth_error (threads c) i = Some t -> finished t = false -> step c i <> None).
  { intros Hh i t Hi Hf. unfold step. rewrite Hi, Hh.
    pose proof (Hex _ _ Hi) as Hin. unfold in_crit, finished in *.
    destruct (t_st t) as [[|[|k] p]|todo rd p]; try discriminate.
    rewrite Hh in Hin. destruct Hin as [Hin _]. specialize (Hin I). discriminate. }
  destruct (holder c) as [h|] eqn:Hh.
  - destruct Hsh as (pre & k & done & todo & p & res & _ & Hn & _).
    assert (Hs : step c h <> None).
    { unfold step. rewrite Hn. simpl. destruct todo; discriminate. }
    split; [exact Hs|]. exists h. split; [|exact Hs].
    rewrite <- Hlen. apply nth_error_Some. congruence.
  - split; [apply Hfree; reflexivity|].
    destruct (forallb_false_nth _ _ Hd) as (i & t & Hi & Hf).
    exists i. split; [|exact (Hfree eq_refl _ _ Hi Hf)].
    rewrite <- Hlen. apply nth_error_Some. congruence.
Qed.

(* in every reachable configuration in which some thread has not finished, some thread can take
   a step: the holder if the lock is held, otherwise every unfinished thread *)
Theorem no_deadlock (s0 : St) (ps : list prog) sch :
  let c := run (init s0 ps) sch in
  all_done c = false ->
  match holder c with
  | Some h => step c h <> None
  | None => forall i t, nth_error (threads c) i = Some t -> finished t = false -> step c i <> None
  end /\
  exists i, i < length ps /\ step c i <> None.
Proof. intros c. apply (inv_progress s0 ps). apply inv_run, inv_init. Qed.

(* the measure: local steps + acquisitions + micro-steps + releases still to be executed *)
Definition imeasure (x : instr St R) : nat :=
  match x with Local => 1 | Crit k => 2 + length (c_steps k) end.
Definition pmeasure (p : prog) : nat := list_sum (map imeasure p).
Definition tmeasure (t : thread) : nat :=
  match t_st t with
  | Outside p => pmeasure p
  | Inside todo _ p => 1 + length todo + pmeasure p
  end.
Definition measure (c : config) : nat := list_sum (map tmeasure (threads c)).

Lemma tm_out p res : tmeasure (mkT (Outside p) res) = pmeasure p.
Proof. reflexivity. Qed.
Lemma tm_in todo rd p res : tmeasure (mkT (Inside todo rd p) res) = 1 + length todo + pmeasure p.
Proof. reflexivity. Qed.
Lemma pm_local p : pmeasure (Local :: p) = S (pmeasure p).
Proof. reflexivity. Qed.
Lemma pm_crit k p : pmeasure (Crit k :: p) = 2 + length (c_steps k) + pmeasure p.
Proof. reflexivity. Qed.

(* every successful step decreases the measure by exactly one (any configuration) *)
Theorem step_measure c i c' : step c i = Some c' -> measure c = S (measure c').
Proof.
  unfold step. destruct (nth_error (threads c) i) as [t|] eqn:Hi; [|discriminate].
  destruct t as [st res]. simpl.
  destruct st as [[|[|k] p]|[|f todo] rd p]; try discriminate;
    [ | destruct (holder c); [discriminate|] | | ];
    intros H; inversion H; subst; clear H; unfold measure; simpl;
    match goal with |- context [upd i ?x _] =>
      pose proof (list_sum_upd tmeasure i x _ _ Hi) as E end;
    rewrite ?tm_out, ?tm_in, ?pm_local, ?pm_crit in E; simpl in E; lia.
Qed.

Lemma measure_done c : measure c = 0 <-> all_done c = true.
Proof.
  unfold measure, all_done. induction (threads c) as [|t l IH]; simpl; [tauto|].
  rewrite andb_true_iff, <- IH.
  assert (Ht : tmeasure t = 0 <-> finished t = true).
  { unfold tmeasure, finished. destruct (t_st t) as [[|[|k] p]|todo rd p]; simpl; split; intros; try reflexivity; try discriminate; lia. }
  rewrite <- Ht. lia.
Qed.

Lemma done_stuck (c : config) i : all_done c = true -> step c i = None.
Proof.
  intros Hd. apply measure_done in Hd. destruct (step c i) as [c'|] eqn:Hs; [|reflexivity].
  apply step_measure in Hs. lia.
Qed.

Lemma run_done sch : forall c : config, all_done c = true -> run c sch = c.
Proof. induction sch as [|i sch IH]; intros c Hd; simpl; [reflexivity|]. rewrite (done_stuck c i Hd). apply IH, Hd. Qed.

(* the number of picks of a schedule that actually step *)
Fixpoint successes (c : config) (sch : list nat) : nat :=
  match sch with
  | [] => 0
  | i :: sch' => match step c i with Some c' => S (successes c' sch') | None => successes c sch' end
  end.

Lemma run_measure sch : forall c, measure (run c sch) + successes c sch = measure c.
Proof.
  induction sch as [|i sch IH]; intros c; simpl; [lia|].
  destruct (step c i) as [c'|] eqn:Hs; [|apply IH]. apply step_measure in Hs. specialize (IH c'). lia.
Qed.

(* under EVERY schedule at most [measure init] picks step: nothing can run forever *)
Theorem no_deadlock_bounded c sch : successes c sch <= measure c.
Proof. pose proof (run_measure sch c). lia. Qed.

(* a schedule that keeps picking enabled threads (as long as some thread is unfinished) *)
Fixpoint picks_enabled (c : config) (sch : list nat) : Prop :=
  match sch with
  | [] => True
  | i :: sch' => match step c i with Some c' => picks_enabled c' sch' | None => all_done c = true end
  end.

(* ... reaches all_done within [measure c] steps *)
Theorem no_deadlock_terminates sch : forall c,
  picks_enabled c sch -> measure c <= length sch -> all_done (run c sch) = true.
Proof.
  induction sch as [|i sch IH]; intros c Hp Hm; simpl in *.
  - apply measure_done. lia.
  - destruct (step c i) as [c'|] eqn:Hs.
    + apply IH; [exact Hp|]. apply step_measure in Hs. lia.
    + rewrite (run_done sch c Hp). exact Hp.
Qed.

(* ... and such a schedule exists from every reachable configuration: every reachable
   configuration can be run to completion (no deadlock in the strong sense) *)
Lemma inv_completable s0 ps n : forall c, inv s0 ps c -> measure c = n ->
  exists sch, length sch = n /\ picks_enabled c sch /\ all_done (run c sch) = true.
Proof.
  induction n as [|n IH]; intros c Hinv Hm.
  - exists []. simpl. split; [reflexivity|]. split; [exact I|]. apply measure_done. exact Hm.
  - destruct (all_done c) eqn:Hd; [apply measure_done in Hd; lia|].
    destruct (inv_progress _ _ _ Hinv Hd) as (_ & i & _ & Hs).
    destruct (step c i) as [c'|] eqn:Hs'; [|congruence].
    pose proof (step_measure _ _ _ Hs') as Hm'.
    destruct (IH c' (inv_step _ _ _ _ _ Hinv Hs') ltac:(lia)) as (sch & Hl & Hp & Hdone).
    exists (i :: sch). simpl. rewrite Hs'. split; [lia|]. split; assumption.
Qed.

Theorem no_deadlock_completable (s0 : St) (ps : list prog) sch :
  let c := run (init s0 ps) sch in
  exists sch', length sch' = measure c /\ picks_enabled c sch' /\ all_done (run c sch') = true.
Proof. intros c. apply (inv_completable s0 ps). apply inv_run, inv_init. reflexivity. Qed.

(* fair schedules: a sequence of rounds, each of which picks every thread at least once (in any
   order, any number of times, e.g. round-robin).  Every round makes progress, so [measure]
   rounds suffice *)
Lemma run_app l1 : forall l2 (c : config), run c (l1 ++ l2) = run (run c l1) l2.
Proof. induction l1 as [|i l1 IH]; intros l2 c; simpl; [reflexivity|]. apply IH. Qed.

Lemma successes_app l1 : forall l2 c, successes c (l1 ++ l2) = successes c l1 + successes (run c l1) l2.
Proof.
  induction l1 as [|i l1 IH]; intros l2 c; simpl; [reflexivity|].
  destruct (step c i); rewrite IH; reflexivity.
Qed.

Lemma successes_0_run l : forall c, successes c l = 0 -> run c l = c.
Proof.
  induction l as [|i l IH]; intros c H; simpl in *; [reflexivity|].
  destruct (step c i); [discriminate|]. apply IH, H.
Qed.

Lemma fair_round s0 ps c r : inv s0 ps c -> all_done c = false ->
  (forall i, i < length ps -> In i r) -> 1 <= successes c r.
Proof.
  intros Hinv Hd Hr. destruct (inv_progress _ _ _ Hinv Hd) as (_ & i & Hi & Hs).
  destruct (in_split _ _ (Hr i Hi)) as (l1 & l2 & ->).
  rewrite successes_app. destruct (successes c l1) eqn:H1; [|lia].
  rewrite (successes_0_run _ _ H1). simpl. destruct (step c i); [lia|congruence].
Qed.

Lemma inv_fair s0 ps rounds : forall c, inv s0 ps c ->
  Forall (fun r => forall i, i < length ps -> In i r) rounds ->
  measure c <= length rounds -> all_done (run c (concat rounds)) = true.
Proof.
  induction rounds as [|r rounds IH]; intros c Hinv Hf Hm; simpl in *.
  - apply measure_done. lia.
  - inversion Hf as [|? ? Hr Hf']; subst. rewrite run_app.
    destruct (all_done c) eqn:Hd.
    + rewrite (run_done r c Hd), (run_done _ c Hd). exact Hd.
    + apply IH; [apply inv_run; exact Hinv|exact Hf'|].
      pose proof (fair_round _ _ _ _ Hinv Hd Hr). pose proof (run_measure r c). lia.
Qed.

Theorem no_deadlock_fair (s0 : St) (ps : list prog) rounds :
  Forall (fun r => forall i, i < length ps -> In i r) rounds ->
  measure (init s0 ps) <= length rounds ->
  all_done (run (init s0 ps) (concat rounds)) = true.
Proof. intros Hf Hm. apply (inv_fair s0 ps); [apply inv_init|exact Hf|exact Hm]. Qed.

End Generic.

Arguments in_crit {St R}. Arguments rest {St R}. Arguments crits_of {St R}.
Arguments completed {St R}. Arguments measure {St R}. Arguments successes {St R}.
Arguments picks_enabled {St R}.

(* two logs with the same thread ids, related entry by entry: so are their restrictions to a
   thread *)
Lemma by_thread_Forall2 {A B} (P : A -> B -> Prop) i (l : list (nat * A)) (l' : list (nat * B)) :
  Forall2 (fun x y => fst x = fst y /\ P (snd x) (snd y)) l l' ->
  Forall2 P (by_thread i l) (by_thread i l').
Proof.
  unfold by_thread. induction 1 as [|[j x] [j' y] l l' [Hj Hp] _ IH]; simpl; [constructor|].
  simpl in Hj, Hp. subst j'. destruct (j =? i); simpl; [constructor; assumption|assumption].
Qed.

(* ------------------------------------------------------------------------------------ *)
(* exhaustive exploration of a concrete initial configuration (used by the examples below):
   every configuration reachable within n successful steps; picks that cannot step change
   nothing, so this covers every schedule with at most n successful picks — and by
   [no_deadlock_bounded] no schedule has more than [measure] of them *)
Fixpoint explore {St R} (n : nat) (ids : list nat) (chk : config St R -> bool) (c : config St R) : bool :=
  chk c &&
  match n with
  | O => true
  | S n' => forallb (fun i => match step c i with Some c' => explore n' ids chk c' | None => true end) ids
  end.

Lemma step_length {St R} (c : config St R) i c' :
  step c i = Some c' -> length (threads c') = length (threads c) /\ i < length (threads c).
Proof.
  unfold step. destruct (nth_error (threads c) i) as [t|] eqn:Hi; [|discriminate].
  assert (Hlt : i < length (threads c)) by (apply nth_error_Some; congruence).
  destruct (t_st t) as [[|[|k] p]|[|f todo] rd p]; try discriminate;
    [ | destruct (holder c); [discriminate|] | | ];
    intros H; inversion H; subst; clear H; simpl; rewrite upd_length; auto.
Qed.

Lemma explore_sound {St R} ids (chk : config St R -> bool) sch : forall n c,
  explore n ids chk c = true ->
  (forall i, i < length (threads c) -> In i ids) ->
  successes c sch <= n -> chk (run c sch) = true.
Proof.
  induction sch as [|i sch IH]; intros n c He Hids Hn; simpl in *.
  - destruct n; simpl in He; apply andb_true_iff in He; tauto.
  - destruct (step c i) as [c'|] eqn:Hs; [|exact (IH n c He Hids Hn)].
    destruct n as [|n]; [lia|]. simpl in He. apply andb_true_iff in He. destruct He as [_ He].
    destruct (step_length _ _ _ Hs) as [Hlen Hlt].
    rewrite forallb_forall in He. specialize (He i (Hids i Hlt)). rewrite Hs in He.
    apply (IH n c' He); [rewrite Hlen; exact Hids|lia].
Qed.

Lemma explore_all {St R} ids (chk : config St R -> bool) (c : config St R) :
  explore (measure c) ids chk c = true ->
  (forall i, i < length (threads c) -> In i ids) ->
  forall sch, chk (run c sch) = true.
Proof.
  intros He Hids sch. apply (explore_sound ids chk sch _ c He Hids). apply no_deadlock_bounded.
Qed.

(* ==================================================================================== *)
(* Instantiation: the shared state is the cache (Model/Cache.v), a critical section is the
   body of `with self._lock:` in CachedTimeline.fetch.                                      *)
From CG Require Import Proofs.Defs Model.Cache Proofs.CacheInv Proofs.CacheInv2.

Section CacheInst.
Variables (evs : list ivl) (ttl tick t0 : Z).

Definition query : Type := (Z * Z * bool)%type.
Definition bounded (q : query) : Prop := let '(a, b, _) := q in NEG_INF < a /\ a < b /\ b < POS_INF.

(* the sequential model of the locked block of one fetch(a, b, reverse=rv): new state, result *)
Definition cq (q : query) (s : cstate) : cstate * list ivl :=
  let '(a, b, rv) := q in fst (cquery false ttl tick (src_of evs 0) s a b rv).

(* A critical section implements query q if ANY decomposition into micro-steps and read-out
   composes to the sequential model: the statements may be split at any granularity *)
Definition implements (k : crit cstate (list ivl)) (q : query) : Prop :=
  forall s, run_crit k s = cq q s.

(* the decomposition at the granularity of the statements of `fetch`:
     self._evict_expired() ; for gap in (query - self._cover).fetch(a, b): self._fill_gap(...) ;
     result = list(self._fetch_sink(a, b, reverse=rv)) *)
Definition evict_stmt (s : cstate) : cstate :=
  let t := now s in
  let '(h1, cv1, sk1) := evict_go t (heap s) (cover s) (sink s) in
  mkC sk1 cv1 h1 (hseq s) (t + tick).
Definition fill_stmt (a b : Z) (s : cstate) : cstate :=
  fold_left (fun s0 g => fill_gap false ttl tick (src_of evs 0 (fstart g) (fend g)) (fstart g) (fend g) s0)
            (gaps_of (cover s) a b) s.
Definition read_stmt (a b : Z) (rv : bool) (s : cstate) : list ivl :=
  fetch_static (sink s) (Some a) (Some b) rv.
Definition fetch_crit (q : query) : crit cstate (list ivl) :=
  let '(a, b, rv) := q in mkCrit [evict_stmt; fill_stmt a b] (read_stmt a b rv).

Lemma fill_fold_fst gaps : forall s (lg : list (Z * Z * Z)),
  fst (fold_left (fun acc g =>
                    let '(s0, lg) := acc in
                    let gs := fstart g in let ge := fend g in
                    (fill_gap false ttl tick (src_of evs 0 gs ge) gs ge s0, lg ++ [(now s0, gs, ge)]))
                 gaps (s, lg)) =
  fold_left (fun s0 g => fill_gap false ttl tick (src_of evs 0 (fstart g) (fend g)) (fstart g) (fend g) s0)
            gaps s.
Proof. induction gaps as [|g gaps IH]; intros s lg; simpl; [reflexivity|]. apply IH. Qed.

Lemma fetch_crit_implements q : implements (fetch_crit q) q.
Proof.
  destruct q as [[a b] rv]. intros s. unfold run_crit, cq, cquery, fetch_crit, exec. simpl.
  unfold evict_stmt, fill_stmt, read_stmt.
  destruct (evict_go (now s) (heap s) (cover s) (sink s)) as [[h1 cv1] sk1]. simpl.
  rewrite <- (fill_fold_fst (gaps_of cv1 a b) _ []).
  destruct (fold_left _ (gaps_of cv1 a b) _) as [s2 log]. reflexivity.
Qed.

(* programs of fetching threads: each fetch names its query and carries the critical section
   executed for it *)
Inductive qinstr := QLocal | QFetch (q : query) (k : crit cstate (list ivl)).
Definition compile (p : list qinstr) : prog cstate (list ivl) :=
  map (fun x => match x with QLocal => Local | QFetch _ k => Crit k end) p.
Definition fetches (p : list qinstr) : list query :=
  flat_map (fun x => match x with QLocal => [] | QFetch q _ => [q] end) p.
Definition qwf (x : qinstr) : Prop :=
  match x with QLocal => True | QFetch q k => bounded q /\ implements k q end.

Definition cinit_cfg (qps : list (list qinstr)) : config cstate (list ivl) :=
  init (cinit t0) (map compile qps).

Hypothesis Hsrc : src_ok evs.
Hypothesis Httl : ttl > 0.
Hypothesis Htick : tick >= 0.

Lemma cstep_query r a b rv : r_ver r = 0%N ->
  let r' := cstep false ttl tick evs r (CQuery a b rv) in
  r_state r' = fst (cq (a, b, rv) (r_state r)) /\
  r_outs r' = r_outs r ++ [snd (cq (a, b, rv) (r_state r))].
Proof.
  intros Hv. simpl. rewrite Hv.
  destruct (cquery false ttl tick (src_of evs 0) (r_state r) a b rv) as [[s' out] lg]. simpl. auto.
Qed.

(* the serial execution of critical sections implementing bounded queries IS a history of the
   sequential cache model: same states, same outputs *)
Lemma serial_history l : forall r,
  run_inv evs ttl r ->
  Forall (fun ik : nat * crit cstate (list ivl) => exists q, bounded q /\ implements (snd ik) q) l ->
  exists ops, Forall static_op ops /\
    Forall2 (fun ik q => bounded q /\ implements (snd ik) q) l (queries ops) /\
    let r' := fold_left (cstep false ttl tick evs) ops r in
    fst (serial (r_state r) l) = r_state r' /\
    r_outs r' = r_outs r ++ map snd (snd (serial (r_state r) l)).
Proof.
  induction l as [|[i k] l IH]; intros r Hri Hl.
  - exists []. simpl. rewrite app_nil_r. repeat split; constructor.
  - inversion Hl as [|? ? ([[a b] rv] & Hb & Himp) Hl']; subst. simpl in Hb, Himp.
    assert (Hop : static_op (CQuery a b rv)). { split; [exact Hb|discriminate]. }
    pose proof (cstep_run_inv evs ttl tick r _ Hsrc Httl Htick Hop Hri) as Hri1.
    destruct (cstep_query r a b rv (ri_ver _ _ _ Hri)) as [Hst Hout].
    set (r1 := cstep false ttl tick evs r (CQuery a b rv)) in *.
    destruct (IH r1 Hri1 Hl') as (ops & Hops & Hq & Hs & Ho).
    exists (CQuery a b rv :: ops). split; [constructor; assumption|]. split.
    + change (queries (CQuery a b rv :: ops)) with ((a, b, rv) :: queries ops).
      constructor; [split; assumption|exact Hq].
    + change (fold_left (cstep false ttl tick evs) (CQuery a b rv :: ops) r)
        with (fold_left (cstep false ttl tick evs) ops r1).
      cbn [serial]. rewrite (Himp (r_state r)).
      destruct (cq (a, b, rv) (r_state r)) as [s1 out1] eqn:Hcq. simpl in Hst, Hout.
      rewrite <- Hst. destruct (serial (r_state r1) l) as [s2 rs] eqn:Hser.
      simpl in *. split; [exact Hs|]. rewrite Ho, Hout, <- app_assoc. reflexivity.
Qed.

(* every critical section that acquired the lock implements a bounded query *)
Lemma acq_implements qps sch :
  Forall (Forall qwf) qps ->
  Forall (fun ik : nat * crit cstate (list ivl) => exists q, bounded q /\ implements (snd ik) q)
         (acq (run (cinit_cfg qps) sch)).
Proof.
  intros Hwf. apply Forall_forall. intros [i k] Hin.
  pose proof (inv_run _ _ _ _ sch _ (inv_init _ _ (cinit t0) (map compile qps))) as Hinv.
  destruct (i_acq _ _ _ _ _ Hinv i k Hin) as (p & Hp & Hk).
  rewrite nth_error_map in Hp. destruct (nth_error qps i) as [qp|] eqn:Hqp; [|discriminate].
  inversion Hp; subst p; clear Hp.
  assert (Hq : Forall qwf qp). { rewrite Forall_forall in Hwf. apply Hwf. eapply nth_error_In; eauto. }
  clear - Hk Hq. simpl. induction qp as [|x qp IH]; simpl in Hk; [contradiction|].
  inversion Hq; subst. destruct x as [|q k']; simpl in Hk.
  - apply IH; assumption.
  - destruct Hk as [<-|Hk]; [exists q; assumption|apply IH; assumption].
Qed.

Lemma removelast_Forall {A} (P : A -> Prop) l : Forall P l -> Forall P (removelast l).
Proof.
  intros H. apply Forall_forall. intros x Hx. rewrite Forall_forall in H. apply H.
  destruct l as [|y l]; [contradiction|].
  rewrite (app_removelast_last y (l := y :: l)) by discriminate. apply in_or_app. left. exact Hx.
Qed.

(* LINEARIZABILITY of the concurrent cache.  For every number of threads, all programs of
   fetches, EVERY schedule, at every moment: there is a history [ops] of the sequential model
   (queries only) whose j-th query is implemented by the j-th completed critical section in
   lock-acquisition order, which returns exactly the results released so far, in order, and —
   whenever the lock is free — ends in exactly the current shared state. *)
Theorem C11_cache_linearizable qps sch :
  Forall (Forall qwf) qps ->
  let c := run (cinit_cfg qps) sch in
  exists ops, Forall static_op ops /\
    Forall2 (fun ik q => bounded q /\ implements (snd ik) q) (completed c) (queries ops) /\
    map snd (rel c) = r_outs (crun_all false ttl tick t0 evs ops) /\
    (holder c = None -> sh c = r_state (crun_all false ttl tick t0 evs ops)).
Proof.
  intros Hwf c.
  assert (Hc : Forall (fun ik : nat * crit cstate (list ivl) =>
                         exists q, bounded q /\ implements (snd ik) q) (completed c)).
  { pose proof (acq_implements qps sch Hwf) as H. fold c in H. unfold completed.
    destruct (holder c); [apply removelast_Forall|]; exact H. }
  destruct (serial_history (completed c) _ (run_inv_init evs ttl t0) Hc) as (ops & Hops & Hq & Hs & Ho).
  simpl in Hs, Ho. fold (crun_all false ttl tick t0 evs ops) in Hs, Ho.
  destruct (C11_prefix_invariant _ _ (cinit t0) (map compile qps) sch) as [Hrel Hsh].
  fold (cinit_cfg qps) in Hrel, Hsh. fold c in Hrel, Hsh.
  exists ops. split; [exact Hops|]. split; [exact Hq|]. split.
  - rewrite Ho, Hrel. reflexivity.
  - intros Hh. rewrite Hh in Hsh. rewrite Hsh. exact Hs.
Qed.

(* what C09 gives for a critical section run in a state of the sequential model *)
Definition good (s : cstate) : Prop := heap_inv ttl s /\ sink_inv evs s.
Definition res_ok (k : crit cstate (list ivl)) (out : list ivl) : Prop :=
  forall q, bounded q -> implements k q -> c09_result evs q out.

Lemma serial_results l : forall s, good s ->
  Forall (fun ik : nat * crit cstate (list ivl) => exists q, bounded q /\ implements (snd ik) q) l ->
  good (fst (serial s l)) /\
  Forall2 (fun ik ir => fst ik = fst ir /\ res_ok (snd ik) (snd ir)) l (snd (serial s l)).
Proof.
  induction l as [|[i k] l IH]; intros s Hg Hl.
  - simpl. split; [exact Hg|constructor].
  - inversion Hl as [|? ? ([[a b] rv] & Hb & Himp) Hl']; subst. simpl in Hb, Himp.
    destruct Hg as [Hh Hsi]. destruct Hb as (Ha & Hab & Hb).
    assert (Hg1 : good (fst (run_crit k s))).
    { rewrite (Himp s). unfold cq.
      destruct (cquery false ttl tick (src_of evs 0) s a b rv) as [[s' out] lg] eqn:Hq.
      destruct (cquery_c09 evs ttl tick s a b rv s' out lg Hsrc Httl Htick Ha Hab Hb Hh Hsi Hq) as (H1 & H2 & _).
      split; assumption. }
    assert (Hr : res_ok k (snd (run_crit k s))).
    { intros [[a' b'] rv'] (Ha' & Hab' & Hb') Himp'. rewrite (Himp' s). unfold cq.
      destruct (cquery false ttl tick (src_of evs 0) s a' b' rv') as [[s' out] lg] eqn:Hq.
      destruct (cquery_c09 evs ttl tick s a' b' rv' s' out lg Hsrc Httl Htick Ha' Hab' Hb' Hh Hsi Hq) as (_ & _ & H3).
      exact H3. }
    cbn [serial]. destruct (run_crit k s) as [s1 r1]. simpl in Hg1, Hr.
    destruct (IH s1 Hg1 Hl') as [Hg2 Hf]. destruct (serial s1 l) as [s2 rs]. simpl in *.
    split; [exact Hg2|]. constructor; [split; [reflexivity|exact Hr]|exact Hf].
Qed.

Lemma good_init : good (cinit t0).
Proof. split; [apply heap_inv_init|apply sink_inv_init]. Qed.

Lemma results_of_program qp : forall outs, Forall qwf qp ->
  Forall2 res_ok (crits_of (compile qp)) outs -> Forall2 (c09_result evs) (fetches qp) outs.
Proof.
  induction qp as [|x qp IH]; intros outs Hq Hf; simpl in *.
  - inversion Hf. constructor.
  - inversion Hq as [|? ? Hx Hq']; subst. destruct x as [|q k]; simpl in *.
    + apply IH; assumption.
    + inversion Hf as [|? o ? outs' Hk Hf']; subst. destruct Hx as [Hb Himp].
      constructor; [apply Hk; assumption|apply IH; assumption].
Qed.

(* C11, results: for every number of threads, all programs, EVERY schedule that lets all threads
   finish, every result of every thread is the source's slice for the query it was issued for
   (as in C09: after clipping to the window a permutation of the source's clipped events, in
   (start,end) order, newest first when reversed) *)
Theorem C11_results_eq_source qps sch :
  Forall (Forall qwf) qps ->
  let c := run (cinit_cfg qps) sch in
  all_done c = true ->
  forall i qp t, nth_error qps i = Some qp -> nth_error (threads c) i = Some t ->
    Forall2 (c09_result evs) (fetches qp) (t_res t).
Proof.
  intros Hwf c Hd i qp t Hqp Ht.
  destruct (C11_serializable _ _ (cinit t0) (map compile qps) sch Hd) as (_ & _ & _ & Hres & Hprog).
  fold (cinit_cfg qps) in Hres, Hprog. fold c in Hres, Hprog.
  pose proof (acq_implements qps sch Hwf) as Himp. fold c in Himp.
  destruct (serial_results (acq c) (cinit t0) good_init Himp) as [_ Hf].
  apply results_of_program.
  - rewrite Forall_forall in Hwf. apply Hwf. eapply nth_error_In; eauto.
  - rewrite (Hres _ _ Ht). rewrite <- (Hprog i (compile qp)).
    + apply by_thread_Forall2. exact Hf.
    + rewrite nth_error_map, Hqp. reflexivity.
Qed.

(* ... and at every moment, under EVERY schedule, finished or not (other threads may be slow,
   blocked or never scheduled again): the results a thread has collected so far are the
   source's slices for the first of its fetches, in program order *)
Lemma results_of_prefix qp : forall pre suf outs, Forall qwf qp ->
  crits_of (compile qp) = pre ++ suf -> Forall2 res_ok pre outs ->
  exists qs qs', fetches qp = qs ++ qs' /\ Forall2 (c09_result evs) qs outs.
Proof.
  induction qp as [|x qp IH]; intros pre suf outs Hq He Hf; simpl in *.
  - symmetry in He. apply app_eq_nil in He. destruct He as [-> _]. inversion Hf; subst.
    exists [], []. split; [reflexivity|constructor].
  - inversion Hq as [|? ? Hx Hq']; subst. destruct x as [|q k]; simpl in *.
    + exact (IH pre suf outs Hq' He Hf).
    + destruct pre as [|k' pre].
      * inversion Hf; subst. exists [], (q :: fetches qp). split; [reflexivity|constructor].
      * simpl in He. inversion He; subst k'. inversion Hf as [|? o ? outs' Hk Hf']; subst.
        destruct (IH pre suf outs' Hq' H1 Hf') as (qs & qs' & Hqs & Hall).
        exists (q :: qs), qs'. split; [simpl; rewrite Hqs; reflexivity|].
        destruct Hx as [Hb Himp]. constructor; [apply Hk; assumption|exact Hall].
Qed.

Theorem C11_results_anytime qps sch :
  Forall (Forall qwf) qps ->
  let c := run (cinit_cfg qps) sch in
  forall i qp t, nth_error qps i = Some qp -> nth_error (threads c) i = Some t ->
    exists qs qs', fetches qp = qs ++ qs' /\ Forall2 (c09_result evs) qs (t_res t).
Proof.
  intros Hwf c i qp t Hqp Ht.
  assert (Hinv : inv _ _ (cinit t0) (map compile qps) c) by (apply inv_run, inv_init).
  assert (Hc : Forall (fun ik : nat * crit cstate (list ivl) =>
                         exists q, bounded q /\ implements (snd ik) q) (completed c)).
  { pose proof (acq_implements qps sch Hwf) as H. fold c in H. unfold completed.
    destruct (holder c); [apply removelast_Forall|]; exact H. }
  destruct (serial_results (completed c) (cinit t0) good_init Hc) as [_ Hf].
  apply (by_thread_Forall2 res_ok i) in Hf.
  rewrite <- (i_rel _ _ _ _ _ Hinv), <- (i_res _ _ _ _ _ Hinv i t Ht) in Hf.
  assert (Hp : exists suf, crits_of (compile qp) = by_thread i (completed c) ++ suf).
  { assert (Hcq : nth_error (map compile qps) i = Some (compile qp)) by (rewrite nth_error_map, Hqp; reflexivity).
    rewrite (i_prog _ _ _ _ _ Hinv i t _ Ht Hcq).
    destruct (C11_prefix_invariant _ _ (cinit t0) (map compile qps) sch) as [_ Hsh].
    fold (cinit_cfg qps) in Hsh. fold c in Hsh. unfold completed in *.
    destruct (holder c) as [h|].
    - destruct Hsh as (k & done & todo & p & res & Ha & _).
      set (cm := removelast (acq c)) in *. rewrite Ha.
      rewrite by_thread_snoc, <- app_assoc. eexists; reflexivity.
    - eexists; reflexivity. }
  destruct Hp as [suf Hp].
  apply (results_of_prefix qp (by_thread i (completed c)) suf); [|exact Hp|exact Hf].
  rewrite Forall_forall in Hwf. apply Hwf. eapply nth_error_In; eauto.
Qed.

(* C11, afterwards: once all threads have finished (under any schedule), the cache still answers
   every bounded query with the source's slice *)
Theorem C11_afterwards_correct qps sch :
  Forall (Forall qwf) qps ->
  let c := run (cinit_cfg qps) sch in
  all_done c = true ->
  forall a b rv s' out log,
    NEG_INF < a -> a < b -> b < POS_INF ->
    cquery false ttl tick (src_of evs 0) (sh c) a b rv = (s', out, log) ->
    c09_result evs (a, b, rv) out.
Proof.
  intros Hwf c Hd a b rv s' out log Ha Hab Hb Hq.
  destruct (C11_cache_linearizable qps sch Hwf) as (ops & Hops & _ & _ & Hsh). fold c in Hsh.
  assert (Hfree : holder c = None).
  { eapply inv_done_free; [|exact Hd]. apply inv_run, inv_init. }
  rewrite (Hsh Hfree) in Hq.
  exact (C09_observational evs ttl tick t0 ops a b rv s' out log Hsrc Httl Htick Hops Ha Hab Hb Hq).
Qed.

End CacheInst.

(* ==================================================================================== *)
(* Non-vacuity: concrete programs, ALL schedules of a bounded length, by computation.      *)

(* the same semantics WITHOUT the lock discipline: a critical section is entered whether or
   not the lock is held (everything else as in [step]) *)
Definition step_nolock {St R} (c : config St R) (i : nat) : option (config St R) :=
  match nth_error (threads c) i with
  | None => None
  | Some t =>
    let set st res := upd i (mkT st res) (threads c) in
    match t_st t with
    | Outside [] => None
    | Outside (Local :: p) =>
        Some (mkCfg (sh c) (holder c) (set (Outside p) (t_res t)) (acq c) (rel c))
    | Outside (Crit k :: p) =>
        Some (mkCfg (sh c) (Some i) (set (Inside (c_steps k) (c_read k) p) (t_res t))
                    (acq c ++ [(i, k)]) (rel c))
    | Inside (f :: todo) rd p =>
        Some (mkCfg (f (sh c)) (holder c) (set (Inside todo rd p) (t_res t)) (acq c) (rel c))
    | Inside [] rd p =>
        let r := rd (sh c) in
        Some (mkCfg (sh c) None (set (Outside p) (t_res t ++ [r])) (acq c) (rel c ++ [(i, r)]))
    end
  end.
Fixpoint run_nolock {St R} (c : config St R) (sch : list nat) : config St R :=
  match sch with
  | [] => c
  | i :: sch' => run_nolock (match step_nolock c i with Some c' => c' | None => c end) sch'
  end.

Module Ex.
(* shared state: a counter x and, for the read-modify-write sequences, one temporary per thread
   (the temporaries are only touched by their own thread; they live in the shared record so that
   each micro-step is a function of the state) *)
Definition st3 : Type := (Z * Z * Z)%type.
Definition getx (s : st3) : Z := fst (fst s).
Definition ld0 : st3 -> st3 := fun '(x, a, b) => (x, x, b).                 (* t0 = x *)
Definition op0 (f : Z -> Z) : st3 -> st3 := fun '(x, a, b) => (x, f a, b).  (* t0 = f(t0) *)
Definition wr0 : st3 -> st3 := fun '(x, a, b) => (a, a, b).                 (* x = t0 *)
Definition ld1 : st3 -> st3 := fun '(x, a, b) => (x, a, x).
Definition op1 (f : Z -> Z) : st3 -> st3 := fun '(x, a, b) => (x, a, f b).
Definition wr1 : st3 -> st3 := fun '(x, a, b) => (b, a, b).

Definition A1 : crit st3 Z := mkCrit [ld0; op0 (Z.add 1); wr0] getx.                 (* x += 1 *)
Definition A2 : crit st3 Z := mkCrit [ld0; fun '(x, a, b) => (2 * a, a, b)] getx.    (* x = 2 * x *)
Definition B : crit st3 Z := mkCrit [ld1; op1 (fun v => 3 * v + 10); wr1] getx.      (* x = 3 * x + 10 *)
Definition progs : list (prog st3 Z) := [ [Crit A1; Local; Crit A2]; [Local; Crit B] ].
Definition s0 : st3 := (1, 0, 0).

Fixpoint all_scheds (n : nat) : list (list nat) :=
  match n with
  | O => [[]]
  | S n' => flat_map (fun s => [0%nat :: s; 1%nat :: s]) (all_scheds n')
  end.

Definition nz_eqb (x y : nat * Z) : bool := Nat.eqb (fst x) (fst y) && Z.eqb (snd x) (snd y).
Definition st3_eqb (x y : st3) : bool :=
  let '(a, b, c) := x in let '(a', b', c') := y in Z.eqb a a' && Z.eqb b b' && Z.eqb c c'.
Fixpoint zip_idx {A} (n : nat) (l : list A) : list (nat * A) :=
  match l with [] => [] | x :: r => (n, x) :: zip_idx (S n) r end.

(* what C11_prefix_invariant and C11_serializable say, as a boolean test of one configuration *)
Definition ser_check (c : config st3 Z) : bool :=
  list_eqb nz_eqb (rel c) (snd (serial s0 (completed c))) &&
  (if all_done c then
     match holder c with None => true | Some _ => false end &&
     st3_eqb (sh c) (fst (serial s0 (acq c))) &&
     forallb (fun it => list_eqb Z.eqb (t_res (snd it)) (by_thread (fst it) (snd (serial s0 (acq c)))))
             (zip_idx 0 (threads c))
   else true).
End Ex.
Import Ex.

Example ex_measure : measure (init s0 progs) = 16%nat.
Proof. reflexivity. Qed.

(* ALL 2^18 schedules of length 18 (16 steps are needed to finish): in every final configuration
   the released results are the serial ones, and whenever all threads are done the lock is
   free and the state and every thread's results are those of the serial execution in
   acquisition order *)
Example ex_all_schedules_18 :
  N.of_nat (length (all_scheds 18)) = 262144%N /\
  forallb (fun sch => ser_check (run (init s0 progs) sch)) (all_scheds 18) = true.
Proof. split; vm_compute; reflexivity. Qed.

(* ... 3343 of them let both threads finish, and each of the three serial orders allowed by the
   programs is realised by some schedule: A1;A2;B gives x = 22, B;A1;A2 gives 28, A1;B;A2 gives 32 *)
Example ex_serial_orders :
  map (fun l => getx (fst (serial s0 l)))
      [ [(0, A1); (0, A2); (1, B)]; [(1, B); (0, A1); (0, A2)]; [(0, A1); (1, B); (0, A2)] ]%nat
  = [22; 28; 32].
Proof. reflexivity. Qed.

Example ex_completing_schedules :
  length (filter (fun sch => all_done (run (init s0 progs) sch)) (all_scheds 18)) = 3343%nat /\
  forallb (fun v => existsb (fun sch => let c := run (init s0 progs) sch in
                                        all_done c && (getx (sh c) =? v)) (all_scheds 18))
          [22; 28; 32] = true.
Proof. split; vm_compute; reflexivity. Qed.

(* in fact EVERY schedule, of any length (exhaustive exploration + explore_all) *)
Example ex_every_schedule : forall sch, ser_check (run (init s0 progs) sch) = true.
Proof.
  apply (explore_all [0; 1]%nat).
  - vm_compute. reflexivity.
  - simpl. intros i Hi. destruct i as [|[|i]]; simpl; auto. lia.
Qed.

(* Contrast: the same programs without the lock discipline.  Thread 0 enters A1 and reads x = 1;
   thread 1 enters B and reads x = 1 too; A1 writes 2; B writes 3*1+10 = 13 over it; A2 doubles:
   x = 26.  Both threads finish, but A1's update is lost: no order of the three critical
   sections (not even one violating program order) produces 26.  Under [step] the same
   schedule is harmless (ex_every_schedule). *)
Definition bad : list nat := [0; 0; 1; 1; 1; 0; 0; 0; 1; 1; 1; 0; 0; 0; 0; 0]%nat.
Example ex_lost_update :
  let c := run_nolock (init s0 progs) bad in
  all_done c = true /\ getx (sh c) = 26 /\
  map (@t_res _ _) (threads c) = [[2; 26]; [13]] /\
  forallb (fun l => negb (getx (fst (serial s0 l)) =? 26))
    [ [(0, A1); (0, A2); (1, B)]; [(0, A1); (1, B); (0, A2)]; [(1, B); (0, A1); (0, A2)];
      [(0, A2); (0, A1); (1, B)]; [(0, A2); (1, B); (0, A1)]; [(1, B); (0, A2); (0, A1)] ]%nat = true /\
  (* mutual exclusion is violated on the way: after 5 picks both threads are inside *)
  map (fun t => match t_st t with Inside _ _ _ => true | Outside _ => false end)
      (threads (run_nolock (init s0 progs) (firstn 5 bad))) = [true; true].
Proof. vm_compute. repeat split; reflexivity. Qed.

(* ---------------------------------------------------------------------------------- *)
(* the cache, concretely: the source of the C09 examples (events across segment edges, one
   unbounded), ttl 5, tick 1 (segments expire while the threads run), two threads, two
   fetches each, overlapping windows *)
Module ExCache.
Definition fq (a b : Z) (rv : bool) : qinstr := QFetch (a, b, rv) (fetch_crit ex_evs 5 1 (a, b, rv)).
Definition qprogs : list (list qinstr) :=
  [ [QLocal; fq 0 10 false; fq 8 12 true]; [fq 10 20 false; QLocal; fq 0 20 false] ].
Definition c0 : config cstate (list ivl) := cinit_cfg 0 qprogs.

Definition slice_ok (q : query) (out : list ivl) : bool :=
  let '(a, b, rv) := q in
  mset_eqb (flat_map (clipW (Some a) (Some b)) out)
           (flat_map (clipW (Some a) (Some b)) (filter pos_len ex_evs)).
Fixpoint all2 {A B} (f : A -> B -> bool) (l : list A) (l' : list B) : bool :=
  match l, l' with
  | [], [] => true
  | x :: r, y :: r' => f x y && all2 f r r'
  | _, _ => false
  end.
(* when all threads are done: every thread has one result per fetch and each is, after clipping
   to the window, the source's clipped slice *)
Definition chk (c : config cstate (list ivl)) : bool :=
  if all_done c then all2 (fun qp t => all2 slice_ok (fetches qp) (t_res t)) qprogs (threads c)
  else true.
(* the number of distinct complete interleavings *)
Fixpoint leaves {St R} (n : nat) (ids : list nat) (c : config St R) : nat :=
  if all_done c then 1%nat else
  match n with
  | O => 0%nat
  | S n' => list_sum (map (fun i => match step c i with Some c' => leaves n' ids c' | None => 0%nat end) ids)
  end.
End ExCache.
Import ExCache.

(* the hypotheses of the C11 cache theorems are satisfiable *)
Example ex_qwf : Forall (Forall (qwf ex_evs 5 1)) qprogs.
Proof.
  unfold qprogs, fq. repeat constructor; try apply fetch_crit_implements;
    unfold NEG_INF, POS_INF; lia.
Qed.

Example ex_cache_thm : forall sch,
  all_done (run c0 sch) = true ->
  forall i qp t, nth_error qprogs i = Some qp -> nth_error (threads (run c0 sch)) i = Some t ->
    Forall2 (c09_result ex_evs) (fetches qp) (t_res t).
Proof.
  intros sch. apply (C11_results_eq_source ex_evs 5 1 0 ex_src_ok); [lia|lia|exact ex_qwf].
Qed.

(* by computation, independently of the theorems: EVERY schedule (89 distinct complete
   interleavings of the 18 steps) gives every thread the source's slices *)
Example ex_cache_every_schedule :
  measure c0 = 18%nat /\ leaves 18 [0; 1]%nat c0 = 89%nat /\ forall sch, chk (run c0 sch) = true.
Proof.
  split; [reflexivity|]. split; [vm_compute; reflexivity|].
  apply (explore_all [0; 1]%nat).
  - vm_compute. reflexivity.
  - simpl. intros i Hi. destruct i as [|[|i]]; simpl; auto. lia.
Qed.

(* the raw results do depend on the schedule (which fragments happen to be cached and stitched):
   thread 0 running first gets key 1 cut at its window's edge, running last it gets the stitched
   fragment; both are the source's slice after clipping *)
Example ex_cache_two_schedules :
  let first0 := run c0 (repeat 0 9 ++ repeat 1 9)%nat in
  let first1 := run c0 (repeat 1 9 ++ repeat 0 9)%nat in
  all_done first0 = true /\ all_done first1 = true /\
  map (fun t => hd [] (t_res t)) (threads first0) = [ [I3 0 8 3; I3 5 10 1]; [I3 5 20 1; I3 12 18 2] ] /\
  map (fun t => hd [] (t_res t)) (threads first1) = [ [I3 0 8 3; I3 5 20 1]; [I3 10 20 1; I3 12 18 2] ] /\
  chk first0 = true /\ chk first1 = true.
Proof. vm_compute. repeat split; reflexivity. Qed.

(* ---------------------------------------------------------------------------------- *)
Print Assumptions mutual_exclusion.
Print Assumptions C11_prefix_invariant.
Print Assumptions C11_serializable.
Print Assumptions no_deadlock.
Print Assumptions step_measure.
Print Assumptions no_deadlock_bounded.
Print Assumptions no_deadlock_terminates.
Print Assumptions no_deadlock_completable.
Print Assumptions no_deadlock_fair.
Print Assumptions fetch_crit_implements.
Print Assumptions C11_cache_linearizable.
Print Assumptions C11_results_eq_source.
Print Assumptions C11_results_anytime.
Print Assumptions C11_afterwards_correct.
Print Assumptions ex_every_schedule.
Print Assumptions ex_lost_update.
Print Assumptions ex_cache_every_schedule.
