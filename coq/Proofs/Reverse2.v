(* Proofs/Reverse2.v — property C04 (reverse iteration), continued: the k-way intersection under
   time negation, the window clip in reverse, whole expression trees.

   Part 1  the intersection sweep mirrored: on internally disjoint operands
           neg (sweep (neg (rev s_i))) is a permutation of sweep (s_i), for every emitter
           selection, and it is ordered newest first in the strongest true sense: two results
           either have the same span (the copies one region yields for several emitters, which
           come in emitter order in BOTH directions) or the later one ends before the earlier
           one starts.  Hence non-increasing starts AND non-increasing ends; with the single
           emitter it is the exact [rev].
   Part 2  operand & window in reverse: the 2-way sweep against the mirrored window is per-event
           clipping as soon as the negated stream is sorted by start (monotone ends) or no
           event lies entirely before the window start.
   Part 3  expression trees: domain [rgood], theorem [fetch_rev_ok], [C04_rev_eq_fwd].
   Part 4  last-n corollaries at slice level, examples, refuting witnesses.

   Main statements
     inter_sweep_reverse_perm(_sel), inter_sweep_reverse_order_sel, inter_sweep_reverse,
     inter_sweep_reverse_single, inter_ref'_mirror, inter_ref_mirror            (Part 1)
     clip_sweep_reverse_iff, clip_sweep_reverse, clip_sweep_reverse_rev            (Part 2)
     rgood, chain, fetch_rev_ok, fetch_rev_dj, fetch_rev_eq, slice_rev_ok,
     C04_rev_eq_fwd, C03_reverse_wf, C04_rev_is_rev, sgood'_sound, C04_syntactic  (Part 3)
     C04_last_n_dj, C04_last_n, C04_last_n_keys, C04_last_n_stored/_compl/_diff_stored,
     Examples3.C04_top_nested_refuted                                              (Part 4)
   Outside the domain the statement is false: nested events under a negated sweep
   (Reverse.C04_nested_refuted) and, new here, an event entirely before the window under the
   final (& solid) sweep (Examples3.C04_top_nested_refuted). *)
From CG Require Import Proofs.Defs Proofs.Negate Proofs.Stored Proofs.Merge Proofs.Compl Proofs.Canon
  Proofs.Diff Proofs.InterDisjoint Proofs.Clip Proofs.RefSpec Proofs.InterFuel Proofs.Reverse
  Proofs.Assembly Proofs.Assembly2.

(* ==================================================================================== *)
(* Part 1.  Intersection under time negation                                            *)
(* ==================================================================================== *)

(* ---------- the option encoding commutes with negation (NEG_INF = - POS_INF) ---------- *)

Lemma negO_unE z : negO (unE z) = unS (- z).
Proof.
  unfold unE, unS. destruct (z =? POS_INF) eqn:E1; destruct (- z =? NEG_INF) eqn:E2; cbn [negO];
    try reflexivity; exfalso; rewrite sentinels_opp in E2; lia.
Qed.

Lemma negO_unS z : negO (unS z) = unE (- z).
Proof.
  unfold unE, unS. destruct (z =? NEG_INF) eqn:E1; destruct (- z =? POS_INF) eqn:E2; cbn [negO];
    try reflexivity; exfalso; rewrite sentinels_opp in E1; lia.
Qed.

(* trimming to [os,oe) then mirroring = mirroring then trimming to [-oe,-os) *)
Lemma neg_set_span c os oe :
  neg_ivl (set_span c (unS os) (unE oe)) = set_span (neg_ivl c) (unS (- oe)) (unE (- os)).
Proof. unfold neg_ivl, set_span. cbn [st en pl]. rewrite negO_unE, negO_unS. reflexivity. Qed.

(* ---------- max_start / min_end swap ---------- *)

Lemma fold_max_neg z l :
  fold_right Z.max (- z) (map Z.opp l) = - fold_right Z.min z l.
Proof. induction l as [|a l IH]; [reflexivity|]. cbn [map fold_right]. rewrite IH. lia. Qed.

Lemma fold_min_neg z l :
  fold_right Z.min (- z) (map Z.opp l) = - fold_right Z.max z l.
Proof. induction l as [|a l IH]; [reflexivity|]. cbn [map fold_right]. rewrite IH. lia. Qed.

Lemma map_fstart_neg l : map fstart (neg_stream l) = map Z.opp (map fend l).
Proof. unfold neg_stream. rewrite !map_map. apply map_ext. intro x. apply fstart_neg. Qed.

Lemma map_fend_neg l : map fend (neg_stream l) = map Z.opp (map fstart l).
Proof. unfold neg_stream. rewrite !map_map. apply map_ext. intro x. apply fend_neg. Qed.

Lemma max_start_neg cs : max_start (neg_stream cs) = - min_end cs.
Proof.
  destruct cs as [|a r]; [reflexivity|]. unfold max_start, min_end.
  change (neg_stream (a :: r)) with (neg_ivl a :: neg_stream r). cbv iota beta.
  rewrite fstart_neg, map_fstart_neg. apply fold_max_neg.
Qed.

Lemma min_end_neg cs : min_end (neg_stream cs) = - max_start cs.
Proof.
  destruct cs as [|a r]; [reflexivity|]. unfold max_start, min_end.
  change (neg_stream (a :: r)) with (neg_ivl a :: neg_stream r). cbv iota beta.
  rewrite fend_neg, map_fend_neg. apply fold_min_neg.
Qed.

(* ---------- the tuple reference mirrored ---------- *)

Lemma tup_emit_neg os oe sel : forall cs i,
  tup_emit (- oe) (- os) sel i (neg_stream cs) = neg_stream (tup_emit os oe sel i cs).
Proof.
  induction cs as [|c r IH]; intro i; [reflexivity|].
  change (neg_stream (c :: r)) with (neg_ivl c :: neg_stream r).
  cbn [tup_emit]. rewrite neg_stream_app, IH. f_equal.
  destruct (sel i); [|reflexivity]. cbn [neg_stream map]. rewrite neg_set_span. reflexivity.
Qed.

Lemma ref_tuple_neg sel cs : ref_tuple sel (neg_stream cs) = neg_stream (ref_tuple sel cs).
Proof.
  unfold ref_tuple. rewrite max_start_neg, min_end_neg.
  destruct (max_start cs <? min_end cs) eqn:E.
  - replace (- min_end cs <? - max_start cs) with true by lia. apply tup_emit_neg.
  - replace (- min_end cs <? - max_start cs) with false by lia. reflexivity.
Qed.

Lemma choices_neg : forall L, choices (map neg_stream L) = map neg_stream (choices L).
Proof.
  induction L as [|l R IH]; [reflexivity|]. cbn [map choices]. rewrite IH.
  change (neg_stream l) with (map neg_ivl l). rewrite flat_map_comp, map_flat_map.
  apply flat_map_ext. intro x. rewrite !map_map. reflexivity.
Qed.

Lemma G_neg (f : list ivl -> list ivl) L :
  (forall cs, f (neg_stream cs) = neg_stream (f cs)) ->
  G f (map neg_stream L) = neg_stream (G f L).
Proof.
  intro H. unfold G. rewrite choices_neg, flat_map_comp. unfold neg_stream at 2.
  rewrite map_flat_map. apply flat_map_ext. intro cs. apply H.
Qed.

Lemma Forall2_rev_perm (L : list (list ivl)) : Forall2 (@Permutation ivl) (map (@rev ivl) L) L.
Proof.
  induction L as [|l R IH]; cbn [map]; constructor; [apply Permutation_sym, Permutation_rev|exact IH].
Qed.

Lemma map_neg_rev (ss : list (list ivl)) :
  map (fun s => neg_stream (rev s)) ss = map neg_stream (map (@rev ivl) ss).
Proof. rewrite map_map. reflexivity. Qed.

(* the mirror lemma for the reference: any streams, any selection *)
Theorem inter_ref'_mirror sel ss :
  Permutation (inter_ref' sel (map (fun s => neg_stream (rev s)) ss))
              (neg_stream (inter_ref' sel ss)).
Proof.
  unfold inter_ref'. fold (G (ref_tuple sel) (map (fun s => neg_stream (rev s)) ss)).
  fold (G (ref_tuple sel) ss). rewrite map_neg_rev, (G_neg _ _ (ref_tuple_neg sel)).
  apply Permutation_map. apply G_perm. apply Forall2_rev_perm.
Qed.

(* ---------- operands stay in the domain of the sweep theorems ---------- *)

Lemma neg_rev_streams_ok ss :
  Forall (Forall wf_ivl) ss -> Forall disjoint_sorted ss ->
  Forall (Forall wf_ivl) (map (fun s => neg_stream (rev s)) ss) /\
  Forall disjoint_sorted (map (fun s => neg_stream (rev s)) ss) /\
  Forall sorted_start (map (fun s => neg_stream (rev s)) ss).
Proof.
  intros Hw Hd.
  assert (H : forall s, In s ss ->
            disjoint_sorted (neg_stream (rev s)) /\ Forall wf_ivl (neg_stream (rev s)) /\
            sorted_start (neg_stream (rev s))).
  { intros s Hs. apply (neg_rev_disjoint_sorted (rev s) s eq_refl).
    - exact (proj1 (Forall_forall _ _) Hw s Hs).
    - exact (proj1 (Forall_forall _ _) Hd s Hs). }
  repeat split; apply Forall_forall; intros l Hl; apply in_map_iff in Hl as (s & <- & Hs);
    apply (H s Hs).
Qed.

Lemma Permutation_neg l l' : Permutation l l' -> Permutation (neg_stream l) (neg_stream l').
Proof. apply Permutation_map. Qed.

(* GOAL 1, multiset part: for every selection function, in particular [emit_sel masks] *)
Theorem inter_sweep_reverse_perm_sel sel ss :
  (2 <= length ss)%nat -> Forall (Forall wf_ivl) ss -> Forall disjoint_sorted ss ->
  Permutation (neg_stream (inter_sweep (map (fun s => neg_stream (rev s)) ss) sel))
              (inter_sweep ss sel).
Proof.
  intros Hk Hw Hd. destruct (neg_rev_streams_ok ss Hw Hd) as (W' & D' & _).
  eapply Permutation_trans.
  { apply Permutation_neg. eapply Permutation_trans.
    - apply inter_sweep_exact; [rewrite map_length; exact Hk|exact W'|exact D'].
    - apply inter_ref'_mirror. }
  rewrite neg_stream_involutive. apply Permutation_sym. apply inter_sweep_exact; assumption.
Qed.

Theorem inter_sweep_reverse_perm masks ss :
  (2 <= length ss)%nat -> Forall (Forall wf_ivl) ss -> Forall disjoint_sorted ss ->
  Permutation (neg_stream (inter_sweep (map (fun s => neg_stream (rev s)) ss) (emit_sel masks)))
              (inter_sweep ss (emit_sel masks)).
Proof. apply inter_sweep_reverse_perm_sel. Qed.

(* the same statement against the per-event reference semantics of Spec/Sets.v *)
Corollary inter_sweep_reverse_is_ref masks ss :
  (2 <= length ss)%nat -> Forall (Forall wf_ivl) ss -> Forall disjoint_sorted ss ->
  Permutation (neg_stream (inter_sweep (map (fun s => neg_stream (rev s)) ss) (emit_sel masks)))
              (inter_ref masks ss).
Proof.
  intros Hk Hw Hd. eapply Permutation_trans; [apply inter_sweep_reverse_perm; assumption|].
  apply inter_sweep_is_ref; assumption.
Qed.

(* and the mirror lemma for Spec.inter_ref itself *)
Corollary inter_ref_mirror masks ss :
  Forall (Forall wf_ivl) ss -> Forall disjoint_sorted ss ->
  Permutation (inter_ref masks (map (fun s => neg_stream (rev s)) ss))
              (neg_stream (inter_ref masks ss)).
Proof.
  intros Hw Hd. destruct (neg_rev_streams_ok ss Hw Hd) as (W' & D' & _).
  rewrite !inter_ref_is_sel.
  eapply Permutation_trans; [apply Permutation_sym, inter_ref_perm; assumption|].
  eapply Permutation_trans; [apply inter_ref'_mirror|].
  apply Permutation_neg. apply inter_ref_perm; assumption.
Qed.

(* ---------- order ---------- *)

(* two emissions of a sweep over internally disjoint operands have equal or disjoint spans *)
Lemma tuple_regions L cs cs' :
  Forall (Forall wf_ivl) L -> Forall disjoint_sorted L ->
  tuple_in cs L -> tuple_in cs' L ->
  Z.max (max_start cs) (max_start cs') < Z.min (min_end cs) (min_end cs') -> cs = cs'.
Proof.
  intros Hw Hd Hc Hc' Hlt.
  apply (tuple_unique L Hw Hd cs cs' (Z.max (max_start cs) (max_start cs')) Hc Hc').
  - intros y Hy. pose proof (max_start_ge cs y Hy). pose proof (min_end_le cs y Hy).
    unfold inside. lia.
  - intros y Hy. pose proof (max_start_ge cs' y Hy). pose proof (min_end_le cs' y Hy).
    unfold inside. lia.
Qed.

Definition same_or_before (x y : ivl) : Prop :=
  (fstart x = fstart y /\ fend x = fend y) \/ fend x <= fstart y.

Lemma emissions_same_or_apart streams sel x y :
  Forall (Forall wf_ivl) streams -> Forall disjoint_sorted streams ->
  emission_ok streams sel x -> emission_ok streams sel y ->
  (fstart x = fstart y /\ fend x = fend y) \/ fend x <= fstart y \/ fend y <= fstart x.
Proof.
  intros Hw Hd (i & cs & c & _ & _ & Hcs & _ & Hlt & ->) (j & cs' & c' & _ & _ & Hcs' & _ & Hlt' & ->).
  rewrite !fstart_set_span, !fend_set_span.
  destruct (Z_lt_dec (Z.max (max_start cs) (max_start cs')) (Z.min (min_end cs) (min_end cs'))) as [H|H].
  - left. rewrite (tuple_regions streams cs cs' Hw Hd Hcs Hcs' H). split; reflexivity.
  - right. lia.
Qed.

(* forward order of the k-way sweep, any selection: spans equal, or strictly one after the other *)
Theorem inter_sweep_weak_disjoint streams sel :
  (2 <= length streams)%nat -> Forall (Forall wf_ivl) streams -> Forall disjoint_sorted streams ->
  pairwiseP same_or_before (inter_sweep streams sel).
Proof.
  intros Hk Hw Hd.
  assert (Hso : sorted_start (inter_sweep streams sel)).
  { apply inter_sweep_sorted; [exact Hk|].
    apply Forall_forall. intros l Hl. apply disjoint_sorted_sorted.
    - exact (proj1 (Forall_forall _ _) Hw l Hl).
    - exact (proj1 (Forall_forall _ _) Hd l Hl). }
  assert (Hem : forall x, In x (inter_sweep streams sel) -> emission_ok streams sel x).
  { intros x Hx. apply inter_sweep_sound; assumption. }
  revert Hso Hem. generalize (inter_sweep streams sel). intro out.
  induction out as [|x r IH]; intros Hso Hem; [exact I|].
  destruct Hso as [Hx Hr]. cbn [pairwiseP]. split.
  - intros y Hy. specialize (Hx y Hy).
    pose proof (Hem x (or_introl eq_refl)) as Ex. pose proof (Hem y (or_intror Hy)) as Ey.
    destruct (emission_ok_span _ _ _ Ey) as [Py _].
    destruct (emissions_same_or_apart streams sel x y Hw Hd Ex Ey) as [H|[H|H]].
    + left. exact H.
    + right. exact H.
    + exfalso. lia.
  - apply IH; [exact Hr|]. intros y Hy. apply Hem. right. exact Hy.
Qed.

(* newest first, strongest form: a later result has the same span or lies entirely before *)
Definition same_or_after (x y : ivl) : Prop :=
  (fstart x = fstart y /\ fend x = fend y) \/ fend y <= fstart x.

Lemma neg_same_or_before l :
  pairwiseP same_or_before l -> pairwiseP same_or_after (neg_stream l).
Proof.
  intro H. unfold neg_stream. rewrite pairwiseP_map. revert H. apply pairwiseP_impl.
  intros x y _ _ [[E1 E2]|E]; unfold same_or_after; rewrite !fstart_neg, !fend_neg; [left|right]; lia.
Qed.

Lemma pos_all_neg l : (forall x, In x l -> fstart x < fend x) ->
  forall x, In x (neg_stream l) -> fstart x < fend x.
Proof.
  intros H x Hx. apply in_map_iff in Hx as (y & <- & Hy). rewrite fstart_neg, fend_neg.
  specialize (H y Hy). lia.
Qed.

(* what [same_or_after] gives for positive-length results *)
Lemma same_or_after_desc l :
  (forall x, In x l -> fstart x < fend x) -> pairwiseP same_or_after l ->
  desc_key l /\ mono_ends_desc l /\ pairwiseP (fun x y => fstart y <= fstart x) l.
Proof.
  intros Hp H. unfold desc_key, mono_ends_desc.
  assert (K : forall x y, In x l -> In y l -> same_or_after x y ->
                          key_le y x = true /\ fend y <= fend x /\ fstart y <= fstart x).
  { intros x y Hx Hy [[E1 E2]|E]; pose proof (Hp x Hx); pose proof (Hp y Hy); unfold key_le; lia. }
  repeat split; (eapply pairwiseP_impl; [|exact H]); intros x y Hx Hy S; apply (K x y Hx Hy S).
Qed.

Lemma pairwise_ge_sorted_by : forall l,
  pairwiseP (fun x y => fstart y <= fstart x) l -> sorted_by Z.geb l = true.
Proof.
  induction l as [|x r IH]; [reflexivity|]. intros [Hx Hr]. destruct r as [|y r']; [reflexivity|].
  change (sorted_by Z.geb (x :: y :: r')) with ((fstart x >=? fstart y) && sorted_by Z.geb (y :: r')).
  rewrite (IH Hr), andb_true_r. specialize (Hx y (or_introl eq_refl)). lia.
Qed.

(* GOAL 1, order part *)
Theorem inter_sweep_reverse_order_sel sel ss :
  (2 <= length ss)%nat -> Forall (Forall wf_ivl) ss -> Forall disjoint_sorted ss ->
  let r := neg_stream (inter_sweep (map (fun s => neg_stream (rev s)) ss) sel) in
  pairwiseP same_or_after r /\
  desc_key r /\ mono_ends_desc r /\ sorted_by Z.geb r = true.
Proof.
  intros Hk Hw Hd r. destruct (neg_rev_streams_ok ss Hw Hd) as (W' & D' & _).
  assert (Hk' : (2 <= length (map (fun s => neg_stream (rev s)) ss))%nat)
    by (rewrite map_length; exact Hk).
  assert (S : pairwiseP same_or_after r).
  { unfold r. apply neg_same_or_before. apply inter_sweep_weak_disjoint; assumption. }
  assert (P : forall x, In x r -> fstart x < fend x).
  { unfold r. apply pos_all_neg. intros x Hx.
    exact (proj1 (emission_ok_span _ _ _ (inter_sweep_sound _ _ _ Hk' Hx))). }
  destruct (same_or_after_desc r P S) as (K & M & G'). split; [exact S|]. split; [exact K|].
  split; [exact M|]. apply pairwise_ge_sorted_by. exact G'.
Qed.

Theorem inter_sweep_reverse masks ss :
  (2 <= length ss)%nat -> Forall (Forall wf_ivl) ss -> Forall disjoint_sorted ss ->
  let r := neg_stream (inter_sweep (map (fun s => neg_stream (rev s)) ss) (emit_sel masks)) in
  Permutation r (inter_sweep ss (emit_sel masks)) /\
  pairwiseP same_or_after r /\ sorted_by Z.geb r = true.
Proof.
  intros Hk Hw Hd r. split; [apply inter_sweep_reverse_perm; assumption|].
  destruct (inter_sweep_reverse_order_sel (emit_sel masks) ss Hk Hw Hd) as (S & _ & _ & B).
  split; [exact S|exact B].
Qed.

(* ---------- when the result is the exact [rev] ---------- *)

(* a descending rearrangement of a disjoint stream is its reversal (starts are distinct) *)
Lemma perm_desc_disjoint_rev r f :
  Forall wf_ivl f -> disjoint_sorted f -> Permutation r f ->
  pairwiseP (fun x y => fstart y <= fstart x) r -> r = rev f.
Proof.
  intros Hw Hd P S.
  apply (sorted_perm_unique (fun a b => fstart b <=? fstart a)).
  - intros a b Ha Hb H1 H2.
    assert (Ha' : In a f) by (eapply Permutation_in; [exact P|exact Ha]).
    assert (Hb' : In b f) by (eapply Permutation_in; [exact P|exact Hb]).
    destruct (proj1 (Forall_forall _ _) Hw a Ha') as (_ & Wa & _).
    destruct (proj1 (Forall_forall _ _) Hw b Hb') as (_ & Wb & _).
    apply (disjoint_unique f Hw Hd a b (fstart a) Ha' Hb'); unfold inside; lia.
  - apply sorted_le_pw. revert S. apply pairwiseP_impl. intros x y _ _ H. lia.
  - apply sorted_le_pw. rewrite pairwiseP_rev.
    pose proof (disjoint_sorted_sorted f Hw Hd) as Hs. apply sorted_start_pw in Hs.
    revert Hs. apply pairwiseP_impl. intros x y _ _ H. lia.
  - eapply Permutation_trans; [exact P|apply Permutation_rev].
Qed.

Lemma desc_key_starts l : desc_key l -> pairwiseP (fun x y => fstart y <= fstart x) l.
Proof.
  unfold desc_key. apply pairwiseP_impl. intros x y _ _ H. apply Merge.key_le_fstart. exact H.
Qed.

Lemma inter_sweep_wf streams sel :
  (2 <= length streams)%nat -> Forall (Forall wf_ivl) streams -> Forall wf_ivl (inter_sweep streams sel).
Proof.
  intros Hk Hw. apply Forall_forall. intros x Hx.
  destruct (inter_sweep_out streams sel x Hk Hx) as (Hlt & _ & Hin).
  destruct streams as [|xs r]; [cbn [length] in Hk; lia|].
  destruct (Hin xs (or_introl eq_refl)) as (c & Hcl & B1 & B2).
  inversion Hw as [|? ? Hwxs _]; subst.
  destruct (proj1 (Forall_forall _ _) Hwxs c Hcl) as (W1 & W2 & W3 & W4 & W5). unfold wf_ivl. lia.
Qed.

(* single emitter (all operands masks): the reverse sweep IS the reversed forward sweep *)
Theorem inter_sweep_reverse_single ss :
  (2 <= length ss)%nat -> Forall (Forall wf_ivl) ss -> Forall disjoint_sorted ss ->
  neg_stream (inter_sweep (map (fun s => neg_stream (rev s)) ss) sel0) = rev (inter_sweep ss sel0).
Proof.
  intros Hk Hw Hd. apply perm_desc_disjoint_rev.
  - apply inter_sweep_wf; assumption.
  - apply inter_sweep_single_disjoint; assumption.
  - apply inter_sweep_reverse_perm_sel; assumption.
  - apply desc_key_starts. exact (proj1 (proj2 (inter_sweep_reverse_order_sel sel0 ss Hk Hw Hd))).
Qed.

(* several emitters: equal regions repeat in emitter order in both directions, so the reverse
   sweep is NOT the reversed forward sweep *)
Example inter_multi_emitter_not_reversed :
  let A := [mkI (Some 0) (Some 10) (Rich 1)] in
  let B := [mkI (Some 5) (Some 15) (Rich 2)] in
  let sel := emit_sel [false; false] in
  inter_sweep [A; B] sel = [mkI (Some 5) (Some 10) (Rich 1); mkI (Some 5) (Some 10) (Rich 2)] /\
  neg_stream (inter_sweep (map (fun s => neg_stream (rev s)) [A; B]) sel) = inter_sweep [A; B] sel /\
  neg_stream (inter_sweep (map (fun s => neg_stream (rev s)) [A; B]) sel) <> rev (inter_sweep [A; B] sel).
Proof. vm_compute. repeat split; try reflexivity. intro H. discriminate H. Qed.

(* ==================================================================================== *)
(* Part 2.  operand & window in reverse                                                  *)
(* ==================================================================================== *)

Lemma clipW_neg a b x : clipW (negO b) (negO a) (neg_ivl x) = neg_stream (clipW a b x).
Proof.
  unfold clipW. cbv zeta. rewrite fstart_neg, fend_neg, bnd_lo_negO, bnd_hi_negO.
  replace (Z.max (- fend x) (- bnd_hi b)) with (- Z.min (fend x) (bnd_hi b)) by lia.
  replace (Z.min (- fstart x) (- bnd_lo a)) with (- Z.max (fstart x) (bnd_lo a)) by lia.
  destruct (Z.max (fstart x) (bnd_lo a) <? Z.min (fend x) (bnd_hi b)) eqn:E.
  - replace (- Z.min (fend x) (bnd_hi b) <? - Z.max (fstart x) (bnd_lo a)) with true by lia.
    cbn [neg_stream map]. rewrite neg_set_span. reflexivity.
  - replace (- Z.min (fend x) (bnd_hi b) <? - Z.max (fstart x) (bnd_lo a)) with false by lia.
    reflexivity.
Qed.

Lemma flat_clip_neg a b l :
  flat_map (clipW (negO b) (negO a)) (neg_stream l) = neg_stream (flat_map (clipW a b) l).
Proof.
  induction l as [|x r IH]; [reflexivity|].
  change (neg_stream (x :: r)) with (neg_ivl x :: neg_stream r).
  cbn [flat_map]. rewrite neg_stream_app, IH, clipW_neg. reflexivity.
Qed.

(* GOAL 2: the 2-way sweep against the mirrored window, for ANY reverse stream r, with the exact
   condition under which it is per-event clipping *)
Theorem clip_sweep_reverse_iff sel r a b :
  sel 0%nat = true -> sel 1%nat = false ->
  (neg_stream (inter_sweep [neg_stream r; [neg_ivl (mkI a b Plain)]] sel) = flat_map (clipW a b) r
   <-> stop_ok (negO b) (negO a) (neg_stream r)).
Proof.
  intros H0 H1. change (neg_ivl (mkI a b Plain)) with (mkI (negO b) (negO a) Plain).
  rewrite <- (clip_sweep_iff sel (neg_stream r) (negO b) (negO a) H0 H1), flat_clip_neg.
  split; intro E.
  - apply (f_equal neg_stream) in E. rewrite neg_stream_involutive in E. exact E.
  - rewrite E. apply neg_stream_involutive.
Qed.

(* an event lying entirely before the window start: what the negated sweep stops at *)
Definition before_win (a b : option Z) (x : ivl) : bool :=
  (fstart x <? bnd_lo a) && (Z.min (fend x) (bnd_hi b) <=? bnd_lo a).

Lemma beyond_neg a b x : beyond (negO b) (negO a) (neg_ivl x) = before_win a b x.
Proof.
  unfold beyond, before_win. rewrite fstart_neg, fend_neg, bnd_lo_negO, bnd_hi_negO. lia.
Qed.

Lemma no_beyond_stop_ok a b : forall xs,
  (forall x, In x xs -> beyond a b x = false) -> stop_ok a b xs.
Proof.
  induction xs as [|x r IH]; intro H; [exact I|]. cbn [stop_ok]. split.
  - intro E. rewrite (H x (or_introl eq_refl)) in E. discriminate E.
  - apply IH. intros y Hy. apply H. right. exact Hy.
Qed.

(* sufficient condition 1: ends never increase along the reverse stream *)
Lemma stop_ok_neg_mono a b r : mono_ends_desc r -> stop_ok (negO b) (negO a) (neg_stream r).
Proof. intro H. apply sorted_stop_ok. apply negate_sorted_iff_monotone_ends_gen. exact H. Qed.

(* sufficient condition 2: no event lies entirely before the window start *)
Lemma stop_ok_neg_late a b r :
  (forall x, In x r -> before_win a b x = false) -> stop_ok (negO b) (negO a) (neg_stream r).
Proof.
  intro H. apply no_beyond_stop_ok. intros y Hy. apply in_map_iff in Hy as (x & <- & Hx).
  rewrite beyond_neg. apply H, Hx.
Qed.

Theorem clip_sweep_reverse sel r a b :
  sel 0%nat = true -> sel 1%nat = false ->
  mono_ends_desc r \/ (forall x, In x r -> before_win a b x = false) ->
  neg_stream (inter_sweep [neg_stream r; [neg_ivl (mkI a b Plain)]] sel) = flat_map (clipW a b) r.
Proof.
  intros H0 H1 H. apply clip_sweep_reverse_iff; [exact H0|exact H1|].
  destruct H as [H|H]; [apply stop_ok_neg_mono|apply stop_ok_neg_late]; exact H.
Qed.

(* the reverse stream of a disjoint forward stream, clipped: exactly the reversed forward clip *)
Lemma flat_map_rev {A B} (g : A -> list B) l :
  (forall x, (length (g x) <= 1)%nat) -> flat_map g (rev l) = rev (flat_map g l).
Proof.
  intro H1. induction l as [|x r IH]; [reflexivity|].
  cbn [rev flat_map]. rewrite flat_map_app, IH, rev_app_distr. cbn [flat_map]. rewrite app_nil_r.
  f_equal. specialize (H1 x). destruct (g x) as [|y [|z t]]; [reflexivity|reflexivity|].
  cbn [length] in H1. lia.
Qed.

Lemma clipW_len a b x : (length (clipW a b x) <= 1)%nat.
Proof. unfold clipW. cbv zeta. destruct (_ <? _); cbn [length]; lia. Qed.

Corollary clip_sweep_reverse_rev sel f a b :
  sel 0%nat = true -> sel 1%nat = false -> sorted_start f -> mono_ends_desc (rev f) ->
  neg_stream (inter_sweep [neg_stream (rev f); [neg_ivl (mkI a b Plain)]] sel) =
  rev (inter_sweep [f; [mkI a b Plain]] sel).
Proof.
  intros H0 H1 Hs Hm. rewrite (clip_sweep_reverse sel (rev f) a b H0 H1 (or_introl Hm)).
  rewrite (clip_sweep_sel sel f a b H0 H1 Hs). apply flat_map_rev. apply clipW_len.
Qed.

(* clipping keeps "newest first" *)
Lemma clip_desc a b : forall l,
  pairwiseP (fun x y => fstart y <= fstart x) l ->
  pairwiseP (fun x y => fstart y <= fstart x) (flat_map (clipW a b) l).
Proof.
  induction l as [|x r IH]; [intros _; exact I|]. intros [Hx Hr]. cbn [flat_map].
  apply pairwiseP_app. split; [|split; [apply IH; exact Hr|]].
  - pose proof (clipW_len a b x) as L. destruct (clipW a b x) as [|g [|g' t]]; cbn [length] in L; [exact I| |lia].
    cbn [pairwiseP]. split; [intros ? []|exact I].
  - intros g h Hg Hh. apply in_flat_map in Hh as (y & Hy & Hh).
    apply clipW_shape in Hg as (_ & Gs & _). apply clipW_shape in Hh as (_ & Hs' & _).
    specialize (Hx y Hy). lia.
Qed.

(* the window-restricted reverse fetch of a non-intersection node *)
Lemma fetch_clip_rev env e a b :
  fetch env (Inter [e; Solid]) a b true =
  neg_stream (inter_sweep [neg_stream (fetch env e a b true); [neg_ivl (mkI a b Plain)]]
                          (emit_sel [is_mask e; true])).
Proof. reflexivity. Qed.

(* the one-operand intersection (len(states) == 1) is the identity in both directions *)
Lemma inter_single_reverse r sel : neg_stream (inter_sweep [neg_stream r] sel) = r.
Proof. rewrite inter_sweep_one. apply neg_stream_involutive. Qed.

(* ==================================================================================== *)
(* Part 3.  Whole expression trees                                                       *)
(* ==================================================================================== *)

(* ---------- the domain ---------- *)

(* no event is outlasted by one that starts strictly earlier.  This is a property of the multiset of
   events; for a stream sorted descending by (start, end) it is exactly "ends never increase",
   i.e. the negated stream is sorted by start (Negate.negate_sorted_iff_monotone_ends) *)
Definition chain (l : list ivl) : Prop :=
  forall x y, In x l -> In y l -> fstart x < fstart y -> fend x <= fend y.

Definition chain_e (env : fenv) (e : expr) : Prop :=
  forall a b, wf_win a b -> chain (fetch env e a b false).

(* [good] (Assembly.v) + every stream that enters a negated sweep without being internally
   disjoint — the subtractors of a Difference, the source of a Complement — is a chain *)
Inductive rgood (env : fenv) : expr -> Prop :=
| rg_stored evs : Forall wf_ivl evs -> Forall canon_ivl evs -> rgood env (Stored evs)
| rg_solid : rgood env Solid
| rg_union es : Forall (rgood env) es -> rgood env (Union es)
| rg_inter es : es <> [] -> Forall (rgood env) es -> Forall (dj env) es -> rgood env (Inter es)
| rg_diff s subs : rgood env s -> Forall (rgood env) subs -> dj env s ->
                   Forall (chain_e env) subs -> rgood env (Diff s subs)
| rg_compl s : rgood env s -> chain_e env s -> rgood env (Compl s)
| rg_filt evs f : Forall wf_ivl evs -> Forall canon_ivl evs -> rgood env (Filt (Stored evs) f).

Ltac inv_rgood H :=
  inversion H as [? Hwf Hcn | | ? Hgs | ? Hne Hgs Hdj | ? ? Hgs Hgsubs Hdj Hch | ? Hgs Hch | ? ? Hwf Hcn];
  subst.

Theorem rgood_good env e : rgood env e -> good env e.
Proof.
  induction e as [evs| |es IH|es IH|s subs IHs IHsubs|s IHs|s f IHs|s x y IHs|s g IHs] using expr_ind';
    intro H; inv_rgood H.
  - apply g_stored; assumption.
  - apply g_solid.
  - apply g_union. eapply Forall_mp; [exact IH|exact Hgs].
  - apply g_inter; [exact Hne| |exact Hdj]. eapply Forall_mp; [exact IH|exact Hgs].
  - apply g_diff; [apply IHs; exact Hgs| |exact Hdj]. eapply Forall_mp; [exact IHsubs|exact Hgsubs].
  - apply g_compl. apply IHs. exact Hgs.
  - apply g_filt; assumption.
Qed.

(* ---------- chains ---------- *)

Lemma chain_perm l l' : Permutation l l' -> chain l -> chain l'.
Proof.
  intros P C x y Hx Hy. apply C; eapply Permutation_in; try apply Permutation_sym; eauto.
Qed.

Lemma chain_incl l l' : (forall x, In x l' -> In x l) -> chain l -> chain l'.
Proof. intros H C x y Hx Hy. apply C; apply H; assumption. Qed.

Lemma disjoint_chain l : Forall wf_ivl l -> disjoint_sorted l -> chain l.
Proof.
  intros Hw Hd. apply disjoint_sorted_pw in Hd.
  induction l as [|z r IH]; intros x y Hx Hy Hlt; [destruct Hx|].
  destruct Hd as [Hz Hr]. inversion Hw as [|? ? Wz Wr]; subst.
  destruct Hx as [<-|Hx]; destruct Hy as [<-|Hy].
  - lia.
  - specialize (Hz y Hy). destruct (proj1 (Forall_forall _ _) Wr y Hy) as (_ & W & _). lia.
  - specialize (Hz x Hx). destruct Wz as (_ & W & _). lia.
  - apply IH; assumption.
Qed.

(* a descending (by key) arrangement of a chain has monotone ends *)
Lemma perm_desc_chain_mono r f :
  Permutation r f -> desc_key r -> chain f -> mono_ends_desc r.
Proof.
  intros P K C. unfold mono_ends_desc. revert K. unfold desc_key. apply pairwiseP_impl.
  intros x y Hx Hy H. unfold key_le in H.
  destruct (Z_lt_dec (fstart y) (fstart x)) as [L|L]; [|lia].
  apply C; [eapply Permutation_in; [exact P|exact Hy]|eapply Permutation_in; [exact P|exact Hx]|exact L].
Qed.

(* and conversely: monotone ends of a descending arrangement make the multiset a chain *)
Lemma mono_desc_chain r : desc_key r -> mono_ends_desc r -> chain r.
Proof.
  intros K M. pose proof (pairwiseP_and _ _ r K M) as KM. clear K M.
  induction r as [|z r IH]; intros x y Hx Hy Hlt; [destruct Hx|].
  destruct KM as [Hz Hr].
  destruct Hx as [<-|Hx]; destruct Hy as [<-|Hy].
  - lia.
  - destruct (Hz y Hy) as [K _]. unfold key_le in K. lia.
  - destruct (Hz x Hx) as [_ M]. exact M.
  - apply IH; assumption.
Qed.

Lemma dj_chain_e env e : good env e -> dj env e -> chain_e env e.
Proof.
  intros Hg Hd a b Hw. apply disjoint_chain; [exact (proj1 (fetch_ok env e Hg a b Hw))|exact (Hd a b Hw)].
Qed.

(* ---------- unfolding lemmas for the reverse [fetch] ---------- *)

Lemma fetch_union_rev env es a b :
  fetch env (Union es) a b true = merge_by lt_rev (map (fun s => fetch env s a b true) es).
Proof. reflexivity. Qed.

Lemma fetch_inter_rev env e es a b :
  fetch env (Inter (e :: es)) a b true =
  neg_stream (inter_sweep (map (fun s => neg_stream (fetch env s a b true)) (e :: es))
                          (emit_sel (map is_mask (e :: es)))).
Proof. reflexivity. Qed.

Lemma fetch_diff_nil_rev env s a b : fetch env (Diff s []) a b true = fetch env s a b true.
Proof. reflexivity. Qed.

Lemma fetch_diff_rev env s u us a b :
  fetch env (Diff s (u :: us)) a b true =
  neg_stream (diff_sweep (neg_stream (fetch env s a b true))
                         (map (fun v => neg_stream (fetch env v a b true)) (u :: us))).
Proof. reflexivity. Qed.

Lemma fetch_compl_rev env s a b :
  fetch env (Compl s) a b true =
  neg_stream (compl_sweep (neg_stream (fetch env s a b true)) (negO b) (negO a)).
Proof. reflexivity. Qed.

(* ---------- the invariant of the reverse fetch ---------- *)

(* same multiset as the forward fetch, descending by (start, end) *)
Definition rev_ok (env : fenv) (e : expr) (a b : option Z) : Prop :=
  Permutation (fetch env e a b true) (fetch env e a b false) /\ desc_key (fetch env e a b true).

Lemma rev_ok_dj env e a b :
  good env e -> dj env e -> wf_win a b -> rev_ok env e a b ->
  fetch env e a b true = rev (fetch env e a b false).
Proof.
  intros Hg Hd Hw [P K]. apply perm_desc_disjoint_rev.
  - exact (proj1 (fetch_ok env e Hg a b Hw)).
  - exact (Hd a b Hw).
  - exact P.
  - apply desc_key_starts, K.
Qed.

Lemma rev_eq_rev_ok env e a b :
  good env e -> dj env e -> wf_win a b ->
  fetch env e a b true = rev (fetch env e a b false) -> rev_ok env e a b.
Proof.
  intros Hg Hd Hw E. split; rewrite E.
  - apply Permutation_sym, Permutation_rev.
  - apply rev_disjoint_desc_key; [exact (proj1 (fetch_ok env e Hg a b Hw))|exact (Hd a b Hw)].
Qed.

Lemma rev_ok_mono env e a b :
  rev_ok env e a b -> chain (fetch env e a b false) -> mono_ends_desc (fetch env e a b true).
Proof. intros [P K] C. eapply perm_desc_chain_mono; eauto. Qed.

(* [chain] is not only sufficient: for a reverse stream satisfying the invariant it is EQUIVALENT to
   "the negated stream is sorted by start", the precondition of the complement and difference sweeps *)
Lemma rev_ok_mono_iff env e a b :
  rev_ok env e a b ->
  (sorted_start (neg_stream (fetch env e a b true)) <-> chain (fetch env e a b false)).
Proof.
  intros [P K]. rewrite negate_sorted_iff_monotone_ends_gen. split.
  - intro M. eapply chain_perm; [exact P|]. apply mono_desc_chain; assumption.
  - intro C. eapply perm_desc_chain_mono; eauto.
Qed.

Lemma concat_map_perm {A} (f g : A -> list ivl) es :
  Forall (fun s => Permutation (f s) (g s)) es -> Permutation (concat (map f es)) (concat (map g es)).
Proof.
  induction 1 as [|s r Hs _ IH]; [constructor|]. cbn [map concat]. apply Permutation_app; assumption.
Qed.

Lemma Forall_wf_perm l l' : Permutation l l' -> Forall wf_ivl l' -> Forall wf_ivl l.
Proof.
  intros P H. apply Forall_forall. intros x Hx. apply (proj1 (Forall_forall _ _) H).
  eapply Permutation_in; eauto.
Qed.

(* the complement in reverse for any rearrangement of the source whose negation is sorted *)
Theorem compl_reverse_gen xs r a b :
  wf_win a b -> Forall wf_ivl xs -> sorted_start xs ->
  Forall wf_ivl r -> sorted_start (neg_stream r) -> (forall t, covers r t = covers xs t) ->
  neg_stream (compl_sweep (neg_stream r) (negO b) (negO a)) = rev (compl_sweep xs a b).
Proof.
  intros Hw Hwf Hs Hwr Hs' Hcov.
  set (L := compl_sweep (neg_stream r) (negO b) (negO a)).
  assert (Hw' := wf_win_neg a b Hw).
  assert (Hwf' : Forall wf_ivl (neg_stream r)) by (apply neg_stream_wf; exact Hwr).
  assert (E : rev (neg_stream L) = compl_sweep xs a b).
  { apply (canonical_unique (bnd_lo a) (bnd_hi b)).
    - apply canonP_neg_rev. rewrite <- bnd_lo_negO, <- bnd_hi_negO.
      apply compl_canonP; assumption.
    - apply compl_canonP; assumption.
    - intros t Ht. rewrite covers_rev, covers_neg_stream. unfold L.
      rewrite compl_cover; auto.
      + rewrite covers_neg_stream, Hcov. rewrite compl_cover; auto.
        do 2 f_equal. lia.
      + rewrite bnd_lo_negO, bnd_hi_negO. lia. }
  rewrite <- E. rewrite rev_involutive. reflexivity.
Qed.

(* ---------- GOAL 3: the reverse fetch over the domain ---------- *)

Theorem fetch_rev_ok env e :
  rgood env e -> forall a b, wf_win a b -> rev_ok env e a b.
Proof.
  induction e as [evs| |es IH|es IH|s subs IHs IHsubs|s IHs|s f IHs|s x y IHs|s g IHs] using expr_ind';
    intros Hrg a b Hw; pose proof (rgood_good env _ Hrg) as Hg; inv_rgood Hrg.
  - (* Stored *)
    split.
    + rewrite stored_reverse. apply Permutation_sym, Permutation_rev.
    + rewrite stored_reverse. unfold desc_key. rewrite pairwiseP_rev.
      apply (proj1 (sorted_le_pw key_le _)). rewrite fetch_stored.
      apply sortedP_sorted_le, Stored.sortedP_filter, Stored.sorted_key_P, Stored.sl_build_sorted.
  - (* Solid *)
    split; [apply Permutation_refl|]. cbn [fetch]. unfold desc_key. cbn [pairwiseP].
    split; [intros ? []|exact I].
  - (* Union *)
    assert (Hall : Forall (fun s => rev_ok env s a b) es).
    { eapply Forall_mp; [|exact Hgs]. eapply Forall_impl; [|exact IH].
      intros s Hs Hgs'. exact (Hs Hgs' a b Hw). }
    unfold rev_ok. rewrite fetch_union_rev, fetch_union. split.
    + eapply Permutation_trans; [apply merge_perm|].
      eapply Permutation_trans; [|apply Permutation_sym, merge_perm].
      apply concat_map_perm. eapply Forall_impl; [|exact Hall]. intros s Hs. exact (proj1 Hs).
    + apply (proj1 (sorted_le_pw key_ge _)). apply merge_rev_sorted.
      apply Forall_map_intro. eapply Forall_impl; [|exact Hall]. intros s Hs.
      apply (proj2 (sorted_le_pw key_ge _)). exact (proj2 Hs).
  - (* Inter *)
    destruct es as [|e0 es]; [congruence|].
    assert (Hgood : Forall (good env) (e0 :: es)).
    { eapply Forall_impl; [|exact Hgs]. intros s Hs. apply rgood_good, Hs. }
    assert (Hrev : forall s, In s (e0 :: es) -> fetch env s a b true = rev (fetch env s a b false)).
    { intros s Hs. apply rev_ok_dj; [|exact (proj1 (Forall_forall _ _) Hdj s Hs)|exact Hw|].
      - exact (proj1 (Forall_forall _ _) Hgood s Hs).
      - exact (proj1 (Forall_forall _ _) IH s Hs (proj1 (Forall_forall _ _) Hgs s Hs) a b Hw). }
    destruct es as [|e1 es].
    + (* one operand: the sweep is the identity *)
      unfold rev_ok. rewrite fetch_inter_rev, fetch_inter. cbn [map].
      rewrite !inter_sweep_one, neg_stream_involutive.
      inversion IH as [|? ? IH0 _]; subst. inversion Hgs as [|? ? Hg0 _]; subst.
      exact (IH0 Hg0 a b Hw).
    + set (ES := e0 :: e1 :: es) in *.
      set (streams := map (fun s => fetch env s a b false) ES).
      assert (Hk : (2 <= length streams)%nat) by (unfold streams, ES; cbn [map length]; lia).
      assert (Hws : Forall (Forall wf_ivl) streams).
      { apply Forall_map_intro. eapply Forall_impl; [|exact Hgood]. intros s Hs.
        exact (proj1 (fetch_ok env s Hs a b Hw)). }
      assert (Hds : Forall disjoint_sorted streams).
      { apply Forall_map_intro. eapply Forall_impl; [|exact Hdj]. intros s Hs. exact (Hs a b Hw). }
      assert (E : fetch env (Inter ES) a b true =
                  neg_stream (inter_sweep (map (fun l => neg_stream (rev l)) streams)
                                          (emit_sel (map is_mask ES)))).
      { unfold ES at 1. rewrite fetch_inter_rev. fold ES. f_equal. f_equal.
        unfold streams. rewrite map_map. apply map_ext_in. intros s Hs. rewrite (Hrev s Hs). reflexivity. }
      unfold rev_ok. rewrite E. unfold ES at 2. rewrite fetch_inter. fold ES. fold streams. split.
      * apply inter_sweep_reverse_perm_sel; assumption.
      * exact (proj1 (proj2 (inter_sweep_reverse_order_sel _ streams Hk Hws Hds))).
  - (* Diff *)
    assert (Hgs' : good env s) by (apply rgood_good; exact Hgs).
    pose proof (IHs Hgs a b Hw) as Rs.
    destruct subs as [|u us].
    + unfold rev_ok. rewrite fetch_diff_nil_rev, fetch_diff_nil. exact Rs.
    + apply rev_eq_rev_ok; [exact Hg| |exact Hw|].
      { apply dj_diff; [exact Hgs'| |exact Hdj].
        eapply Forall_impl; [|exact Hgsubs]. intros v Hv. apply rgood_good, Hv. }
      pose proof (rev_ok_dj env s a b Hgs' Hdj Hw Rs) as Es.
      destruct (fetch_ok env s Hgs' a b Hw) as (S1 & S2 & S3 & _).
      set (US := u :: us) in *.
      assert (Hall : Forall (fun v => rev_ok env v a b /\ good env v /\ chain_e env v) US).
      { apply Forall_forall. intros v Hv. split; [|split].
        - exact (proj1 (Forall_forall _ _) IHsubs v Hv (proj1 (Forall_forall _ _) Hgsubs v Hv) a b Hw).
        - apply rgood_good. exact (proj1 (Forall_forall _ _) Hgsubs v Hv).
        - exact (proj1 (Forall_forall _ _) Hch v Hv). }
      unfold US at 1. rewrite fetch_diff_rev. fold US. unfold US at 2. rewrite fetch_diff. fold US.
      unfold diff_sweep. rewrite Es. apply dsweep_reverse_gen.
      * exact S1.
      * exact S2.
      * exact (Hdj a b Hw).
      * apply Forall_merge, Forall_map_intro. eapply Forall_impl; [|exact Hall].
        intros v (_ & Hv & _). exact (proj1 (fetch_ok env v Hv a b Hw)).
      * apply merge_key_sorted_start, Forall_map_intro. eapply Forall_impl; [|exact Hall].
        intros v (_ & Hv & _). exact (proj1 (proj2 (proj2 (fetch_ok env v Hv a b Hw)))).
      * apply Forall_merge, Forall_map_intro. eapply Forall_impl; [|exact Hall].
        intros v (Rv & Hv & _). apply neg_stream_wf. eapply Forall_wf_perm; [exact (proj1 Rv)|].
        exact (proj1 (fetch_ok env v Hv a b Hw)).
      * apply merge_key_sorted_start, Forall_map_intro. eapply Forall_impl; [|exact Hall].
        intros v (Rv & Hv & Cv). apply negate_sorted_iff_monotone_ends_gen.
        apply rev_ok_mono; [exact Rv|exact (Cv a b Hw)].
      * intro t. rewrite !covers_merge, !existsb_map.
        clear - Hall. induction Hall as [|v r Hv _ IHr]; [reflexivity|]. cbn [existsb].
        rewrite IHr. f_equal. rewrite covers_neg_stream. apply covers_perm. exact (proj1 (proj1 Hv)).
  - (* Compl *)
    assert (Hgs' : good env s) by (apply rgood_good; exact Hgs).
    pose proof (IHs Hgs a b Hw) as Rs.
    apply rev_eq_rev_ok; [exact Hg|apply dj_compl; exact Hgs'|exact Hw|].
    destruct (fetch_ok env s Hgs' a b Hw) as (S1 & _ & S3 & _).
    rewrite fetch_compl_rev, fetch_compl. apply compl_reverse_gen; auto.
    + eapply Forall_wf_perm; [exact (proj1 Rs)|exact S1].
    + apply negate_sorted_iff_monotone_ends_gen. apply rev_ok_mono; [exact Rs|exact (Hch a b Hw)].
    + intro t. apply covers_perm. exact (proj1 Rs).
  - (* Filt (Stored evs) *)
    assert (E : fetch env (Filt (Stored evs) f) a b true = rev (fetch env (Filt (Stored evs) f) a b false)).
    { apply filt_reverse, stored_reverse. }
    split; rewrite E.
    + apply Permutation_sym, Permutation_rev.
    + unfold desc_key. rewrite pairwiseP_rev. apply (proj1 (sorted_le_pw key_le _)).
      rewrite fetch_filt, fetch_stored.
      apply sortedP_sorted_le, Stored.sortedP_filter, Stored.sortedP_filter, Stored.sorted_key_P,
        Stored.sl_build_sorted.
Qed.

(* where the stream is internally disjoint the reverse fetch is the reversed forward fetch *)
Theorem fetch_rev_dj env e a b :
  rgood env e -> dj env e -> wf_win a b ->
  fetch env e a b true = rev (fetch env e a b false).
Proof.
  intros Hr Hd Hw. apply rev_ok_dj; [apply rgood_good; exact Hr|exact Hd|exact Hw|].
  apply fetch_rev_ok; assumption.
Qed.

(* more generally: whenever the forward stream is sorted by key and events are identified by
   their key (no ties between different events, see union_tie_not_reversed) *)
Theorem fetch_rev_key_inj env e a b :
  rgood env e -> wf_win a b ->
  sorted_le key_le (fetch env e a b false) -> key_inj (fetch env e a b false) ->
  fetch env e a b true = rev (fetch env e a b false).
Proof.
  intros Hr Hw Hs Hk. destruct (fetch_rev_ok env e Hr a b Hw) as [P K].
  apply (sorted_perm_unique key_ge).
  - intros x y Hx Hy H1 H2. unfold key_ge in H1, H2.
    destruct (key_le_antisym y x H1 H2) as [E1 E2].
    apply Hk; [eapply Permutation_in; [exact P|exact Hx]|eapply Permutation_in; [exact P|exact Hy]|lia|lia].
  - apply (proj2 (sorted_le_pw key_ge _)). exact K.
  - apply sorted_key_le_rev. exact Hs.
  - eapply Permutation_trans; [exact P|apply Permutation_rev].
Qed.

(* ---------- slices ---------- *)

(* no fetched event ends at or before the window start *)
Definition late_e (env : fenv) (e : expr) : Prop :=
  forall a b, wf_win a b -> forall x, In x (fetch env e a b false) -> bnd_lo a < fend x.

(* the domain of C04 at slice level: the expression is in [rgood]; what it feeds into the final
   [& solid] sweep is a chain or starts no event entirely before the window *)
Definition good' (env : fenv) (e : expr) : Prop :=
  rgood env e /\ (chain_e env e \/ late_e env e).

(* [slice] in reverse on normalised bounds *)
Definition slice_r (env : fenv) (e : expr) (a b : option Z) : list ivl :=
  match a, b with
  | None, None => fetch env e None None true
  | _, _ => fetch env (and_ e Solid) a b true
  end.

Lemma slice_unfold_rev env e a b :
  slice env e a b true = slice_r env e (fst (norm_bounds a b)) (snd (norm_bounds a b)).
Proof. unfold slice, slice_r. destruct (norm_bounds a b) as [a' b']. reflexivity. Qed.

Lemma rgood_inter_solid env es : rgood env (Inter es) -> rgood env (Inter (es ++ [Solid])).
Proof.
  intro H. inv_rgood H. apply rg_inter.
  - destruct es; discriminate.
  - apply Forall_app. split; [exact Hgs|]. constructor; [apply rg_solid|constructor].
  - apply Forall_app. split; [exact Hdj|]. constructor; [apply dj_solid|constructor].
Qed.

Definition desc_start (l : list ivl) : Prop := pairwiseP (fun x y => fstart y <= fstart x) l.

Theorem slice_rev_ok env e a b :
  good' env e -> wf_win a b ->
  Permutation (slice_r env e a b) (slice_n env e a b) /\ desc_start (slice_r env e a b).
Proof.
  intros [Hr Htop] Hw. pose proof (rgood_good env e Hr) as Hg.
  assert (Hopen : Permutation (fetch env e a b true) (fetch env e a b false) /\
                  desc_start (fetch env e a b true)).
  { destruct (fetch_rev_ok env e Hr a b Hw) as [P K]. split; [exact P|apply desc_key_starts, K]. }
  assert (Hcl : Permutation (fetch env (and_ e Solid) a b true) (fetch env (and_ e Solid) a b false) /\
                desc_start (fetch env (and_ e Solid) a b true)).
  { destruct (and_solid_cases e) as [(es & -> & ->)| -> ].
    - destruct (fetch_rev_ok env _ (rgood_inter_solid env es Hr) a b Hw) as [P K].
      split; [exact P|apply desc_key_starts, K].
    - destruct (fetch_rev_ok env e Hr a b Hw) as [P K].
      destruct (fetch_ok env e Hg a b Hw) as (S1 & _ & S3 & _).
      destruct (emit_sel_masks (is_mask e)) as [H0 H1].
      rewrite fetch_clip_rev, fetch_clip, (clip_sweep_masks _ _ a b S3).
      rewrite (clip_sweep_reverse _ (fetch env e a b true) a b H0 H1).
      + split; [apply Permutation_flat_map; exact P|apply clip_desc, desc_key_starts, K].
      + destruct Htop as [C|L].
        * left. apply rev_ok_mono; [split; assumption|exact (C a b Hw)].
        * right. intros x Hx.
          assert (Hx' : In x (fetch env e a b false)) by (eapply Permutation_in; [exact P|exact Hx]).
          specialize (L a b Hw x Hx'). destruct Hw as (_ & _ & Hlt). unfold before_win. lia. }
  unfold slice_r, slice_n. destruct a as [x|], b as [y|]; try exact Hcl. exact Hopen.
Qed.

Lemma desc_start_sorted_by l : desc_start l -> sorted_by Z.geb l = true.
Proof. apply pairwise_ge_sorted_by. Qed.

(* GOAL 3, slice level *)
Theorem C04_rev_eq_fwd env e a b :
  good' env e -> wf_win' a b ->
  Permutation (slice env e a b true) (slice env e a b false) /\
  sorted_by Z.geb (slice env e a b true) = true.
Proof.
  intros Hg Hw. rewrite slice_unfold_rev, slice_unfold. unfold wf_win' in Hw.
  destruct (slice_rev_ok env e _ _ Hg Hw) as [P S]. split; [exact P|apply desc_start_sorted_by, S].
Qed.

(* hence the reverse slice is a well-formed reverse stream in the sense of C03 *)
Lemma forallb_perm {A} (p : A -> bool) l l' : Permutation l l' -> forallb p l' = true -> forallb p l = true.
Proof.
  intros P H. apply forallb_forall. intros x Hx. apply (proj1 (forallb_forall p l') H).
  eapply Permutation_in; eauto.
Qed.

Theorem C03_reverse_wf env e a b :
  good' env e -> wf_win' a b ->
  stream_wf (fst (norm_bounds a b)) (snd (norm_bounds a b)) true (slice env e a b true) = true.
Proof.
  intros Hg Hw. destruct (C04_rev_eq_fwd env e a b Hg Hw) as [P S].
  pose proof (C03_forward_wf env e a b (rgood_good env e (proj1 Hg)) Hw) as F.
  unfold stream_wf in *. apply andb_true_iff in F as [F _]. rewrite S, andb_true_r.
  eapply forallb_perm; [exact P|exact F].
Qed.

(* when the forward slice is internally disjoint, the reverse slice is its reversal *)
Theorem C04_rev_is_rev env e a b :
  good' env e -> wf_win' a b -> disjoint_sorted (slice env e a b false) ->
  slice env e a b true = rev (slice env e a b false).
Proof.
  intros Hg Hw Hd. rewrite slice_unfold_rev, slice_unfold in *. unfold wf_win' in Hw.
  destruct (slice_rev_ok env e _ _ Hg Hw) as [P S].
  destruct (slice_n_ok env e _ _ (rgood_good env e (proj1 Hg)) Hw) as ((S1 & _) & _).
  apply perm_desc_disjoint_rev; assumption.
Qed.

(* ---------- sufficient conditions for the side conditions of the domain ---------- *)

Lemma weak_disjoint_chain l :
  (forall x, In x l -> fstart x < fend x) -> pairwiseP same_or_before l -> chain l.
Proof.
  induction l as [|z r IH]; intros Hp Hs x y Hx Hy Hlt; [destruct Hx|].
  destruct Hs as [Hz Hr].
  destruct Hx as [<-|Hx]; destruct Hy as [<-|Hy].
  - lia.
  - pose proof (Hp y (or_intror Hy)). destruct (Hz y Hy) as [[E1 E2]|E]; lia.
  - pose proof (Hp z (or_introl eq_refl)). destruct (Hz x Hx) as [[E1 E2]|E]; lia.
  - apply IH; auto. intros w Hw. apply Hp. right. exact Hw.
Qed.

(* every intersection of the domain produces a chain *)
Lemma chain_e_inter env es : rgood env (Inter es) -> chain_e env (Inter es).
Proof.
  intros H a b Hw. inv_rgood H. destruct es as [|e0 [|e1 es]]; [congruence| |].
  - rewrite fetch_inter. cbn [map]. rewrite inter_sweep_one.
    inversion Hgs as [|? ? Hg0 _]; subst. inversion Hdj as [|? ? Hd0 _]; subst.
    exact (dj_chain_e env e0 (rgood_good env e0 Hg0) Hd0 a b Hw).
  - rewrite fetch_inter. set (ES := e0 :: e1 :: es) in *.
    set (streams := map (fun s => fetch env s a b false) ES).
    assert (Hk : (2 <= length streams)%nat) by (unfold streams, ES; cbn [map length]; lia).
    assert (Hws : Forall (Forall wf_ivl) streams).
    { apply Forall_map_intro. eapply Forall_impl; [|exact Hgs]. intros s Hs.
      exact (proj1 (fetch_ok env s (rgood_good env s Hs) a b Hw)). }
    assert (Hds : Forall disjoint_sorted streams).
    { apply Forall_map_intro. eapply Forall_impl; [|exact Hdj]. intros s Hs. exact (Hs a b Hw). }
    apply weak_disjoint_chain.
    + intros x Hx. exact (proj1 (emission_ok_span _ _ _ (inter_sweep_sound _ _ _ Hk Hx))).
    + apply inter_sweep_weak_disjoint; assumption.
Qed.

Lemma chain_e_stored env evs : chain evs -> chain_e env (Stored evs).
Proof.
  intros C a b _. rewrite fetch_stored. eapply chain_incl; [|exact C].
  intros x Hx. apply filter_In in Hx as [Hx _]. apply (Stored.sl_build_in evs x), Hx.
Qed.

Lemma chain_e_filt env s f : chain_e env s -> chain_e env (Filt s f).
Proof.
  intros C a b Hw. rewrite fetch_filt. eapply chain_incl; [|exact (C a b Hw)].
  intros x Hx. apply filter_In in Hx as [Hx _]. exact Hx.
Qed.

Lemma late_stored env evs : Forall wf_ivl evs -> late_e env (Stored evs).
Proof.
  intros Hwf a b _ x Hx. rewrite fetch_stored in Hx. apply filter_In in Hx as [Hx Hr].
  apply (Stored.sl_build_in evs x) in Hx.
  destruct (proj1 (Forall_forall _ _) Hwf x Hx) as (_ & _ & _ & _ & W5).
  unfold in_range in Hr. destruct a as [s|]; cbn [bnd_lo]; [lia|exact W5].
Qed.

Lemma late_filt env s f : late_e env s -> late_e env (Filt s f).
Proof.
  intros L a b Hw x Hx. rewrite fetch_filt in Hx. apply filter_In in Hx as [Hx _]. exact (L a b Hw x Hx).
Qed.

Lemma late_solid env : late_e env Solid.
Proof. intros a b (_ & _ & Hlt) x Hx. rewrite fetch_solid in Hx. destruct Hx as [<-|[]]. exact Hlt. Qed.

Lemma late_union env es : Forall (late_e env) es -> late_e env (Union es).
Proof.
  intros L a b Hw x Hx. rewrite fetch_union in Hx. apply merge_in in Hx as (l & Hl & Hxl).
  apply in_map_iff in Hl as (s & <- & Hs). exact (proj1 (Forall_forall _ _) L s Hs a b Hw x Hxl).
Qed.

Lemma Forall2_In_left {A B} (R : A -> B -> Prop) la lb a :
  Forall2 R la lb -> In a la -> exists b, In b lb /\ R a b.
Proof.
  induction 1 as [|a0 b0 la lb Hab Hl IH]; intros Ha; [destruct Ha|].
  destruct Ha as [<-|Ha].
  - exists b0. split; [left; reflexivity|exact Hab].
  - destruct (IH Ha) as (b & Hb & Hr). exists b. split; [right; exact Hb|exact Hr].
Qed.

Lemma late_inter env es : es <> [] -> Forall (late_e env) es -> late_e env (Inter es).
Proof.
  intros Hne L a b Hw x Hx. destruct es as [|e0 [|e1 es]]; [congruence| |].
  - rewrite fetch_inter in Hx. cbn [map] in Hx. rewrite inter_sweep_one in Hx.
    inversion L as [|? ? L0 _]; subst. exact (L0 a b Hw x Hx).
  - rewrite fetch_inter in Hx. set (ES := e0 :: e1 :: es) in *.
    apply inter_sweep_sound in Hx; [|unfold ES; cbn [map length]; lia].
    destruct Hx as (i & cs & c & _ & _ & Hcs & Hn & _ & ->). rewrite fend_set_span.
    assert (Hcne : cs <> []) by (intro E; subst cs; destruct i; discriminate Hn).
    destruct (min_end_in cs Hcne) as (c' & Hc' & <-).
    destruct (Forall2_In_left _ _ _ _ Hcs Hc') as (l & Hl & Hcl).
    apply in_map_iff in Hl as (s & <- & Hs). exact (proj1 (Forall_forall _ _) L s Hs a b Hw c' Hcl).
Qed.

Lemma late_compl env s : good env s -> late_e env (Compl s).
Proof.
  intros Hg a b Hw x Hx. rewrite fetch_compl in Hx.
  destruct (fetch_ok env s Hg a b Hw) as (S1 & _ & S3 & _).
  destruct (compl_sweep_spec _ a b Hw S1 S3) as (C1 & _ & _).
  destruct (C1 x Hx) as (_ & G1 & G2 & _). lia.
Qed.

(* ---------- syntactic versions ---------- *)

Definition chainb (l : list ivl) : bool :=
  forallb (fun x => forallb (fun y => negb (fstart x <? fstart y) || (fend x <=? fend y)) l) l.

Lemma chainb_ok l : chainb l = true -> chain l.
Proof.
  intros H x y Hx Hy Hlt. unfold chainb in H.
  pose proof (proj1 (forallb_forall _ _) H x Hx) as H1. cbv beta in H1.
  pose proof (proj1 (forallb_forall _ _) H1 y Hy) as H2. cbv beta in H2. lia.
Qed.

(* streams that are chains for syntactic reasons *)
Definition schain (e : expr) : bool :=
  sdj e ||
  match e with
  | Stored evs => chainb evs
  | Inter _ => true
  | Filt (Stored evs) _ => chainb evs
  | _ => false
  end.

Fixpoint srgood (e : expr) : bool :=
  match e with
  | Stored evs => stored_ok evs
  | Solid => true
  | Union es => forallb srgood es
  | Inter es => match es with [] => false | _ => forallb srgood es && forallb sdj es end
  | Diff s subs => srgood s && forallb srgood subs && sdj s && forallb schain subs
  | Compl s => srgood s && schain s
  | Filt s _ => match s with Stored evs => stored_ok evs | _ => false end
  | _ => false
  end.

(* streams none of whose events can lie entirely before the window, for syntactic reasons *)
Fixpoint slate (e : expr) : bool :=
  match e with
  | Stored _ => true
  | Solid => true
  | Compl _ => true
  | Filt s _ => slate s
  | Union es => forallb slate es
  | Inter es => match es with [] => false | _ => forallb slate es end
  | _ => false
  end.

Definition sgood' (e : expr) : bool := srgood e && (schain e || slate e).

Lemma forallb_impl_in {A} (p q : A -> bool) l :
  Forall (fun x => p x = true -> q x = true) l -> forallb p l = true -> forallb q l = true.
Proof.
  induction 1 as [|x r Hx _ IH]; intro H; [reflexivity|]. cbn [forallb] in *.
  apply andb_true_iff in H as [H1 H2]. rewrite (Hx H1), (IH H2). reflexivity.
Qed.

Lemma srgood_sgood e : srgood e = true -> sgood e = true.
Proof.
  induction e as [evs| |es IH|es IH|s subs IHs IHsubs|s IHs|s f IHs|s x y IHs|s g IHs] using expr_ind';
    cbn [srgood sgood]; intro H; try discriminate H; try exact H.
  - eapply forallb_impl_in; [exact IH|exact H].
  - destruct es as [|e0 es]; [discriminate H|]. apply andb_true_iff in H as [H1 H2].
    rewrite H2, andb_true_r. eapply forallb_impl_in; [exact IH|exact H1].
  - apply andb_true_iff in H as [H _]. apply andb_true_iff in H as [H H3].
    apply andb_true_iff in H as [H1 H2]. rewrite (IHs H1), H3, andb_true_r. cbn [andb].
    eapply forallb_impl_in; [exact IHsubs|exact H2].
  - apply andb_true_iff in H as [H1 _]. exact (IHs H1).
Qed.

Lemma schain_sound env e : rgood env e -> sgood e = true -> schain e = true -> chain_e env e.
Proof.
  intros Hr Hs H. unfold schain in H. apply orb_true_iff in H as [H|H].
  - apply dj_chain_e; [apply rgood_good; exact Hr|]. exact (proj2 (sgood_sound env e Hs) H).
  - destruct e as [evs| |es|es|s subs|s|s f|s x y|s g]; try discriminate H.
    + apply chain_e_stored, chainb_ok, H.
    + apply chain_e_inter, Hr.
    + destruct s as [evs| | | | | | | | ]; try discriminate H.
      apply chain_e_filt, chain_e_stored, chainb_ok, H.
Qed.

Theorem srgood_sound env e : srgood e = true -> rgood env e.
Proof.
  induction e as [evs| |es IH|es IH|s subs IHs IHsubs|s IHs|s f IHs|s x y IHs|s g IHs] using expr_ind';
    cbn [srgood]; intro H; try discriminate H.
  - destruct (stored_ok_ok evs H) as [Hw Hc]. apply rg_stored; assumption.
  - apply rg_solid.
  - apply rg_union. eapply Forall_forallb_mp; [exact IH|exact H].
  - destruct es as [|e0 es]; [discriminate H|]. apply andb_true_iff in H as [H1 H2].
    apply rg_inter; [discriminate|eapply Forall_forallb_mp; [exact IH|exact H1]|].
    apply Forall_forall. intros s Hs.
    pose proof (proj1 (forallb_forall _ _) H1 s Hs) as G1.
    pose proof (proj1 (forallb_forall _ _) H2 s Hs) as G2.
    exact (proj2 (sgood_sound env s (srgood_sgood s G1)) G2).
  - apply andb_true_iff in H as [H H4]. apply andb_true_iff in H as [H H3].
    apply andb_true_iff in H as [H1 H2].
    assert (Hsubs : Forall (rgood env) subs) by (eapply Forall_forallb_mp; [exact IHsubs|exact H2]).
    apply rg_diff; [exact (IHs H1)|exact Hsubs|exact (proj2 (sgood_sound env s (srgood_sgood s H1)) H3)|].
    apply Forall_forall. intros u Hu. apply schain_sound.
    + exact (proj1 (Forall_forall _ _) Hsubs u Hu).
    + apply srgood_sgood. exact (proj1 (forallb_forall _ _) H2 u Hu).
    + exact (proj1 (forallb_forall _ _) H4 u Hu).
  - apply andb_true_iff in H as [H1 H2]. apply rg_compl; [exact (IHs H1)|].
    apply schain_sound; [exact (IHs H1)|apply srgood_sgood; exact H1|exact H2].
  - destruct s; try discriminate H. destruct (stored_ok_ok evs H) as [Hw Hc]. apply rg_filt; assumption.
Qed.

Lemma slate_sound env e : rgood env e -> slate e = true -> late_e env e.
Proof.
  induction e as [evs| |es IH|es IH|s subs IHs IHsubs|s IHs|s f IHs|s x y IHs|s g IHs] using expr_ind';
    intros Hr H; cbn [slate] in H; try discriminate H; inv_rgood Hr.
  - apply late_stored; assumption.
  - apply late_solid.
  - apply late_union. apply Forall_forall. intros s Hs.
    exact (proj1 (Forall_forall _ _) IH s Hs (proj1 (Forall_forall _ _) Hgs s Hs)
                 (proj1 (forallb_forall _ _) H s Hs)).
  - destruct es as [|e0 es]; [discriminate H|]. apply late_inter; [discriminate|].
    apply Forall_forall. intros s Hs.
    exact (proj1 (Forall_forall _ _) IH s Hs (proj1 (Forall_forall _ _) Hgs s Hs)
                 (proj1 (forallb_forall _ _) H s Hs)).
  - apply late_compl, rgood_good, Hgs.
  - apply late_filt, late_stored. assumption.
Qed.

Theorem sgood'_sound env e : sgood' e = true -> good' env e.
Proof.
  unfold sgood'. intro H. apply andb_true_iff in H as [H1 H2].
  pose proof (srgood_sound env e H1) as Hr. split; [exact Hr|].
  apply orb_true_iff in H2 as [H2|H2].
  - left. apply schain_sound; [exact Hr|apply srgood_sgood; exact H1|exact H2].
  - right. apply slate_sound; assumption.
Qed.

(* C04 for syntactically recognised expressions *)
Corollary C04_syntactic env e a b :
  sgood' e = true -> wf_win' a b ->
  Permutation (slice env e a b true) (slice env e a b false) /\
  sorted_by Z.geb (slice env e a b true) = true.
Proof. intros H Hw. apply C04_rev_eq_fwd; [apply sgood'_sound; exact H|exact Hw]. Qed.

(* ==================================================================================== *)
(* Part 4.  "last n" at slice level, examples, witnesses                                 *)
(* ==================================================================================== *)

Lemma disjoint_sorted_clip a b : forall xs,
  disjoint_sorted xs -> disjoint_sorted (flat_map (clipW a b) xs).
Proof.
  induction xs as [|x r IH]; [auto|]. intros [Hx Hr]. cbn [flat_map].
  apply disjoint_sorted_pw, pairwiseP_app. split; [|split].
  - pose proof (clipW_len a b x) as L. destruct (clipW a b x) as [|g [|g' t]]; cbn [length] in L; [exact I| |lia].
    cbn [pairwiseP]. split; [intros ? []|exact I].
  - apply disjoint_sorted_pw, IH, Hr.
  - intros g h Hg Hh. apply in_flat_map in Hh as (y & Hy & Hh).
    apply clipW_shape in Hg as (_ & _ & Ge & _). apply clipW_shape in Hh as (_ & Hs' & _).
    specialize (Hx y Hy). lia.
Qed.

(* the forward slice of an internally disjoint, non-intersection expression is disjoint *)
Lemma dj_slice_n env e a b :
  good env e -> dj env e -> (forall es, e <> Inter es) -> wf_win a b ->
  disjoint_sorted (slice_n env e a b).
Proof.
  intros Hg Hd Hni Hw.
  assert (Hcl : disjoint_sorted (fetch env (and_ e Solid) a b false)).
  { destruct (and_solid_cases e) as [(es & E & _)| -> ]; [exfalso; exact (Hni es E)|].
    destruct (fetch_ok env e Hg a b Hw) as (_ & _ & S3 & _).
    rewrite fetch_clip, (clip_sweep_masks _ _ a b S3). apply disjoint_sorted_clip. exact (Hd a b Hw). }
  unfold slice_n. destruct a as [x|], b as [y|]; try exact Hcl. exact (Hd None None Hw).
Qed.

Lemma dj_good' env e : rgood env e -> dj env e -> good' env e.
Proof. intros Hr Hd. split; [exact Hr|]. left. apply dj_chain_e; [apply rgood_good; exact Hr|exact Hd]. Qed.

(* GOAL 4: for stored timelines without overlaps, complements, differences, filters of those:
   the reverse slice is the reversed forward slice, so its first n events are the last n *)
Theorem C04_last_n_dj env e a b n :
  rgood env e -> dj env e -> (forall es, e <> Inter es) -> wf_win' a b ->
  let r := slice env e a b true in
  let f := slice env e a b false in
  r = rev f /\ firstn n r = rev (skipn (length f - n) f).
Proof.
  intros Hr Hd Hni Hw. cbv zeta.
  assert (E : slice env e a b true = rev (slice env e a b false)).
  { apply C04_rev_is_rev; [apply dj_good'; assumption|exact Hw|].
    rewrite slice_unfold. apply dj_slice_n; [apply rgood_good; exact Hr|exact Hd|exact Hni|exact Hw]. }
  split; [exact E|apply last_n, E].
Qed.

(* in general: whenever the forward slice happens to be internally disjoint *)
Theorem C04_last_n env e a b n :
  good' env e -> wf_win' a b -> disjoint_sorted (slice env e a b false) ->
  let r := slice env e a b true in
  let f := slice env e a b false in
  firstn n r = rev (skipn (length f - n) f).
Proof. intros Hg Hw Hd. cbv zeta. apply last_n. apply C04_rev_is_rev; assumption. Qed.

Corollary C04_last_n_stored env evs a b n :
  Forall wf_ivl evs -> Forall canon_ivl evs -> disjoint_sorted (sl_build evs) -> wf_win' a b ->
  let r := slice env (Stored evs) a b true in
  let f := slice env (Stored evs) a b false in
  r = rev f /\ firstn n r = rev (skipn (length f - n) f).
Proof.
  intros Hw Hc Hd Hwin. apply C04_last_n_dj; [apply rg_stored; assumption|apply dj_stored; exact Hd| |exact Hwin].
  intros es E. discriminate E.
Qed.

Corollary C04_last_n_compl env s a b n :
  rgood env s -> chain_e env s -> wf_win' a b ->
  let r := slice env (Compl s) a b true in
  let f := slice env (Compl s) a b false in
  r = rev f /\ firstn n r = rev (skipn (length f - n) f).
Proof.
  intros Hr Hc Hwin. apply C04_last_n_dj; [apply rg_compl; assumption| | |exact Hwin].
  - apply dj_compl, rgood_good, Hr.
  - intros es E. discriminate E.
Qed.

(* A - B1 - ... - Bk on stored timelines: A without overlaps, every Bi without nested events *)
Corollary C04_last_n_diff_stored env evs subs a b n :
  Forall wf_ivl evs -> Forall canon_ivl evs -> disjoint_sorted (sl_build evs) ->
  Forall (fun s => Forall wf_ivl s /\ Forall canon_ivl s /\ chain s) subs -> wf_win' a b ->
  let r := slice env (Diff (Stored evs) (map Stored subs)) a b true in
  let f := slice env (Diff (Stored evs) (map Stored subs)) a b false in
  r = rev f /\ firstn n r = rev (skipn (length f - n) f).
Proof.
  intros Hw Hc Hd Hsubs Hwin.
  assert (Hgs : Forall (rgood env) (map Stored subs)).
  { apply Forall_map_intro. eapply Forall_impl; [|exact Hsubs]. intros s (W & C & _). apply rg_stored; assumption. }
  apply C04_last_n_dj; [| | |exact Hwin].
  - apply rg_diff; [apply rg_stored; assumption|exact Hgs|apply dj_stored; exact Hd|].
    apply Forall_map_intro. eapply Forall_impl; [|exact Hsubs]. intros s (_ & _ & C). apply chain_e_stored, C.
  - apply dj_diff; [apply g_stored; assumption| |apply dj_stored; exact Hd].
    eapply Forall_impl; [|exact Hgs]. intros u Hu. apply rgood_good, Hu.
  - intros es E. discriminate E.
Qed.

(* ---------- exact reversal beyond disjoint streams: no two different events share a key ---------- *)

Lemma disjoint_key_sorted l : Forall wf_ivl l -> disjoint_sorted l -> sorted_le key_le l.
Proof.
  intros Hw Hd. apply (proj2 (sorted_le_pw key_le _)). apply disjoint_sorted_pw in Hd.
  revert Hd. apply pairwiseP_impl. intros x y Hx _ H.
  destruct (proj1 (Forall_forall _ _) Hw x Hx) as (_ & W & _). unfold key_le. lia.
Qed.

Lemma sorted_le_filter le p l : sorted_le le l -> sorted_le le (filter p l).
Proof.
  induction l as [|x r IH]; [auto|]. intros [Hx Hr]. cbn [filter]. destruct (p x); [|exact (IH Hr)].
  split; [|exact (IH Hr)]. intros y Hy. apply filter_In in Hy as [Hy _]. exact (Hx y Hy).
Qed.

(* every forward stream of the domain [good] is sorted by (start, end) *)
Theorem fetch_fwd_key_sorted env e :
  good env e -> forall a b, wf_win a b -> sorted_le key_le (fetch env e a b false).
Proof.
  induction e as [evs| |es IH|es IH|s subs IHs IHsubs|s IHs|s f IHs|s x y IHs|s g IHs] using expr_ind';
    intros Hg a b Hw; pose proof Hg as Hg0; inv_good Hg.
  - rewrite fetch_stored.
    apply sortedP_sorted_le, Stored.sortedP_filter, Stored.sorted_key_P, Stored.sl_build_sorted.
  - rewrite fetch_solid. cbn [sorted_le]. split; [intros ? []|exact I].
  - rewrite fetch_union. apply merge_fwd_sorted. apply Forall_map_intro.
    eapply Forall_mp; [|exact Hgs]. eapply Forall_impl; [|exact IH]. intros s Hs Hgs'. exact (Hs Hgs' a b Hw).
  - destruct es as [|e0 [|e1 es]]; [congruence| |].
    + rewrite fetch_inter. cbn [map]. rewrite inter_sweep_one.
      inversion IH as [|? ? IH0 _]; subst. inversion Hgs as [|? ? Hg1 _]; subst. exact (IH0 Hg1 a b Hw).
    + rewrite fetch_inter. set (ES := e0 :: e1 :: es) in *.
      set (streams := map (fun s => fetch env s a b false) ES).
      assert (Hk : (2 <= length streams)%nat) by (unfold streams, ES; cbn [map length]; lia).
      assert (Hws : Forall (Forall wf_ivl) streams).
      { apply Forall_map_intro. eapply Forall_impl; [|exact Hgs]. intros s Hs.
        exact (proj1 (fetch_ok env s Hs a b Hw)). }
      assert (Hds : Forall disjoint_sorted streams).
      { apply Forall_map_intro. eapply Forall_impl; [|exact Hdj]. intros s Hs. exact (Hs a b Hw). }
      apply (proj2 (sorted_le_pw key_le _)).
      pose proof (inter_sweep_weak_disjoint streams (emit_sel (map is_mask ES)) Hk Hws Hds) as S.
      revert S. apply pairwiseP_impl. intros u v Hu _ [[E1 E2]|E]; unfold key_le; [lia|].
      pose proof (proj1 (emission_ok_span _ _ _ (inter_sweep_sound _ _ _ Hk Hu))). lia.
  - apply disjoint_key_sorted; [exact (proj1 (fetch_ok env _ Hg0 a b Hw))|].
    exact (dj_diff env s subs Hgs Hgsubs Hdj a b Hw).
  - apply disjoint_key_sorted; [exact (proj1 (fetch_ok env _ Hg0 a b Hw))|].
    exact (dj_compl env s Hgs a b Hw).
  - rewrite fetch_filt, fetch_stored. apply sorted_le_filter.
    apply sortedP_sorted_le, Stored.sortedP_filter, Stored.sorted_key_P, Stored.sl_build_sorted.
Qed.

(* GOAL 3, equality form: the reverse fetch is the reversed forward fetch unless two DIFFERENT
   events of the result share (start, end) — the ties of union_tie_not_reversed and the equal
   regions of a multi-emitter intersection are the only obstruction *)
Theorem fetch_rev_eq env e a b :
  rgood env e -> wf_win a b -> key_inj (fetch env e a b false) ->
  fetch env e a b true = rev (fetch env e a b false).
Proof.
  intros Hr Hw Hk. apply fetch_rev_key_inj; [exact Hr|exact Hw| |exact Hk].
  apply fetch_fwd_key_sorted; [apply rgood_good; exact Hr|exact Hw].
Qed.

(* slices of non-intersection nodes: per-event clipping commutes with reversal *)
Theorem slice_rev_eq env e a b :
  good' env e -> (forall es, e <> Inter es) -> wf_win a b ->
  fetch env e a b true = rev (fetch env e a b false) ->
  slice_r env e a b = rev (slice_n env e a b).
Proof.
  intros [Hr Htop] Hni Hw E. pose proof (rgood_good env e Hr) as Hg.
  assert (Hcl : fetch env (and_ e Solid) a b true = rev (fetch env (and_ e Solid) a b false)).
  { destruct (and_solid_cases e) as [(es & E' & _)| -> ]; [exfalso; exact (Hni es E')|].
    destruct (fetch_rev_ok env e Hr a b Hw) as [P K].
    destruct (fetch_ok env e Hg a b Hw) as (S1 & _ & S3 & _).
    destruct (emit_sel_masks (is_mask e)) as [H0 H1].
    rewrite fetch_clip_rev, fetch_clip, (clip_sweep_masks _ _ a b S3).
    rewrite (clip_sweep_reverse _ (fetch env e a b true) a b H0 H1).
    - rewrite E. apply flat_map_rev, clipW_len.
    - destruct Htop as [C|L].
      + left. apply rev_ok_mono; [split; assumption|exact (C a b Hw)].
      + right. intros x Hx.
        assert (Hx' : In x (fetch env e a b false)) by (eapply Permutation_in; [exact P|exact Hx]).
        specialize (L a b Hw x Hx'). destruct Hw as (_ & _ & Hlt). unfold before_win. lia. }
  unfold slice_r, slice_n. destruct a as [x|], b as [y|]; try exact Hcl. exact E.
Qed.

(* "last n" for every non-intersection expression of the domain whose fetched events have
   pairwise different keys — e.g. unions of stored timelines with nested / overlapping events *)
Theorem C04_last_n_keys env e a b n :
  good' env e -> (forall es, e <> Inter es) -> wf_win' a b ->
  key_inj (fetch env e (fst (norm_bounds a b)) (snd (norm_bounds a b)) false) ->
  let r := slice env e a b true in
  let f := slice env e a b false in
  r = rev f /\ firstn n r = rev (skipn (length f - n) f).
Proof.
  intros Hg Hni Hw Hk. cbv zeta.
  assert (E : slice env e a b true = rev (slice env e a b false)).
  { rewrite slice_unfold_rev, slice_unfold. unfold wf_win' in Hw.
    apply slice_rev_eq; [exact Hg|exact Hni|exact Hw|].
    apply fetch_rev_eq; [exact (proj1 Hg)|exact Hw|exact Hk]. }
  split; [exact E|apply last_n, E].
Qed.

(* ---------- examples ---------- *)

Module Examples3.
  Definition ev (s e : Z) (id : N) : ivl := mkI (Some s) (Some e) (Rich id).
  Definition env0 : fenv := [].

  (* A has nested and tied events (fine under a top-level union); A2, B internally disjoint;
     C overlapping without nesting (fine as a subtractor); D unbounded to the right *)
  Definition A : list ivl := [ev 0 30 1; ev 2 4 2; ev 2 4 9].
  Definition A2 : list ivl := [ev 8 12 4; ev 1 6 3].
  Definition B : list ivl := [ev 3 9 5].
  Definition C : list ivl := [ev 5 7 6; ev 6 10 7].
  Definition D : list ivl := [ev 11 14 8; mkI (Some 12) None (Rich 10)].

  (* A | (A2 & ~(B - C)) | D[start >= 0] *)
  Definition ex : expr :=
    Union [Stored A; Inter [Stored A2; Compl (Diff (Stored B) [Stored C])];
           Filt (Stored D) (FCmp PStart Ge (VInt 0))].

  Example ex_in_domain : good' env0 ex.
  Proof. apply sgood'_sound. vm_compute. reflexivity. Qed.

  Lemma win_ok : wf_win' (Some 13) (Some 2).
  Proof. unfold wf_win', wf_win. cbn. unfold NEG_INF, POS_INF. repeat split; intros z E; injection E as <-; lia. Qed.

  Lemma win_open : wf_win' None None.
  Proof. unfold wf_win', wf_win. cbn. unfold NEG_INF, POS_INF. repeat split; try discriminate. Qed.

  Example ex_fwd :
    slice env0 ex (Some 13) (Some 2) false =
    [ev 2 13 1; ev 2 3 3; ev 2 4 2; ev 2 4 9; ev 5 6 3; ev 8 12 4; ev 11 13 8; ev 12 13 10].
  Proof. vm_compute. reflexivity. Qed.

  Example ex_rev :
    slice env0 ex (Some 13) (Some 2) true =
    [ev 12 13 10; ev 11 13 8; ev 8 12 4; ev 5 6 3; ev 2 4 9; ev 2 4 2; ev 2 3 3; ev 2 13 1].
  Proof. vm_compute. reflexivity. Qed.

  (* the theorem, instantiated (bounds given in the wrong order on purpose) *)
  Example ex_C04 :
    Permutation (slice env0 ex (Some 13) (Some 2) true) (slice env0 ex (Some 13) (Some 2) false) /\
    sorted_by Z.geb (slice env0 ex (Some 13) (Some 2) true) = true.
  Proof. exact (C04_rev_eq_fwd env0 ex (Some 13) (Some 2) ex_in_domain win_ok). Qed.

  Example ex_C04_open :
    Permutation (slice env0 ex None None true) (slice env0 ex None None false) /\
    sorted_by Z.geb (slice env0 ex None None true) = true.
  Proof. exact (C04_rev_eq_fwd env0 ex None None ex_in_domain win_open). Qed.

  Example ex_C03_rev : stream_wf (Some 2) (Some 13) true (slice env0 ex (Some 13) (Some 2) true) = true.
  Proof. exact (C03_reverse_wf env0 ex (Some 13) (Some 2) ex_in_domain win_ok). Qed.

  (* a difference: A2 - C - ~[0,20) ; exact reversal and "last n" *)
  Definition ex2 : expr := Diff (Stored A2) [Stored C; Compl (Stored [ev 0 20 5])].

  Example ex2_slices :
    slice env0 ex2 (Some 13) (Some 2) false = [ev 2 5 3; ev 10 12 4] /\
    slice env0 ex2 (Some 13) (Some 2) true = [ev 10 12 4; ev 2 5 3].
  Proof. vm_compute. split; reflexivity. Qed.

  Example ex2_last_n n :
    let r := slice env0 ex2 (Some 13) (Some 2) true in
    let f := slice env0 ex2 (Some 13) (Some 2) false in
    r = rev f /\ firstn n r = rev (skipn (length f - n) f).
  Proof.
    apply C04_last_n_dj; [| | |exact win_ok].
    - apply srgood_sound. vm_compute. reflexivity.
    - apply (proj2 (sgood_sound env0 ex2 eq_refl)). vm_compute. reflexivity.
    - intros es E. discriminate E.
  Qed.

  (* a union with nested events but pairwise different keys: exact reversal and "last n" *)
  Definition ex3 : expr := Union [Stored [ev 0 30 1; ev 2 4 2]; Stored [ev 1 6 3; ev 2 9 4]].

  Example ex3_last_n n :
    let r := slice env0 ex3 (Some 13) (Some 2) true in
    let f := slice env0 ex3 (Some 13) (Some 2) false in
    r = rev f /\ firstn n r = rev (skipn (length f - n) f).
  Proof.
    apply C04_last_n_keys; [| |exact win_ok|].
    - apply sgood'_sound. vm_compute. reflexivity.
    - intros es E. discriminate E.
    - apply NoDup_keys_inj. vm_compute.
      repeat (constructor; [intro H; repeat (destruct H as [H|H]; [discriminate H|]); destruct H|]).
      constructor.
  Qed.

  (* ---------- witnesses: what the side conditions exclude ---------- *)

  (* a tree of [good] (even of [rgood]) whose top-level stream [1,3) [0,30) is not a chain and has
     an event entirely before the window: the final (& solid) negated sweep meets the mirror
     image of [1,3) first, gives up, and the reverse slice loses [5,30) *)
  Definition bad : expr :=
    Union [Stored [ev 0 30 1]; Diff (Stored [ev 1 10 2]) [Stored [ev 3 20 3]]].

  Example C04_top_nested_refuted :
    sgood bad = true /\ srgood bad = true /\ sgood' bad = false /\
    slice env0 bad (Some 5) (Some 40) false = [ev 5 30 1] /\
    slice env0 bad (Some 5) (Some 40) true = [].
  Proof. vm_compute. repeat split; reflexivity. Qed.

  (* the same at the level of Part 2: the exact condition [stop_ok] fails *)
  Example C04_top_nested_stop :
    let r := fetch env0 bad (Some 5) (Some 40) true in
    r = [ev 1 3 2; ev 0 30 1] /\ ~ stop_ok (negO (Some 40)) (negO (Some 5)) (neg_stream r).
  Proof.
    cbv zeta. split; [vm_compute; reflexivity|].
    intro H.
    apply (proj2 (clip_sweep_reverse_iff (emit_sel [false; true]) _ (Some 5) (Some 40) eq_refl eq_refl)) in H.
    vm_compute in H. discriminate H.
  Qed.
End Examples3.

Print Assumptions inter_ref'_mirror.
Print Assumptions inter_ref_mirror.
Print Assumptions inter_sweep_reverse_perm_sel.
Print Assumptions inter_sweep_reverse_perm.
Print Assumptions inter_sweep_reverse_is_ref.
Print Assumptions inter_sweep_weak_disjoint.
Print Assumptions inter_sweep_reverse_order_sel.
Print Assumptions inter_sweep_reverse.
Print Assumptions inter_sweep_reverse_single.
Print Assumptions inter_multi_emitter_not_reversed.
Print Assumptions clip_sweep_reverse_iff.
Print Assumptions clip_sweep_reverse.
Print Assumptions clip_sweep_reverse_rev.
Print Assumptions inter_single_reverse.
Print Assumptions compl_reverse_gen.
Print Assumptions rev_ok_mono_iff.
Print Assumptions rgood_good.
Print Assumptions fetch_rev_ok.
Print Assumptions fetch_rev_dj.
Print Assumptions fetch_rev_key_inj.
Print Assumptions slice_rev_ok.
Print Assumptions C04_rev_eq_fwd.
Print Assumptions C03_reverse_wf.
Print Assumptions C04_rev_is_rev.
Print Assumptions srgood_sound.
Print Assumptions sgood'_sound.
Print Assumptions C04_syntactic.
Print Assumptions C04_last_n_dj.
Print Assumptions C04_last_n.
Print Assumptions C04_last_n_stored.
Print Assumptions C04_last_n_compl.
Print Assumptions C04_last_n_diff_stored.
Print Assumptions fetch_fwd_key_sorted.
Print Assumptions fetch_rev_eq.
Print Assumptions slice_rev_eq.
Print Assumptions C04_last_n_keys.
Print Assumptions Examples3.ex_C04.
Print Assumptions Examples3.ex_C04_open.
Print Assumptions Examples3.ex2_last_n.
Print Assumptions Examples3.ex3_last_n.
Print Assumptions Examples3.C04_top_nested_refuted.
Print Assumptions Examples3.C04_top_nested_stop.
