(* Proofs/Overlap2.v — property C16, continued: overlapping(p) on nested expressions.

   (1) Difference.overlapping for ANY source on which overlapping(p) is already exact (every
       [ov_leaf] expression of Proofs/Overlap.v, a complement, another difference) and
       subtractors that are arbitrary expressions whose windowed fetch is well formed, sorted
       by start and covers, inside the window, what the unbounded evaluation covers ([sub_ok];
       every [good] expression of Proofs/Assembly.v is one): the result is, for every source
       event containing p, the fragment of [minus_runs] (that event, ALL subtractor events)
       that contains p.
   (2) Complement.overlapping for any source whose forward fetch is sorted/well formed/exact
       in coverage and whose reverse fetch, negated, is sorted by start (monotone ends):
       nothing when p is covered, otherwise the entire maximal gap around p with None on an
       open side.  Every [rgood] complement (Proofs/Reverse2.v) qualifies.
   (2b) a buffered stored timeline as subtractor ([buf_stored_sub_ok]) and as complement source
       ([C16_complement_buf_stored]).
   (3) the inductive class [ovdom] closed under (1) and (2) and the oracle statement
       [mset_eqb (overlapping env e p) (ov_expected env e p) = true] on it.
   (4) refuted: the claim "for ANY expression".  Union / Intersection / Filter do not override
       overlapping(); their base implementation filters fetch(p, p+1), so a complement below
       a union comes out CLIPPED to [p, p+1) and a difference below a union is carved only by
       the subtractors that meet [p, p+1); merge_within merges only the events meeting
       [p, p+1) ([C16_merge_within_refuted]). *)
From CG Require Import Proofs.Defs.
From CG Require Import Spec.TransformSpec Proofs.Stored Proofs.RefSpec Proofs.Merge Proofs.Diff
     Proofs.Negate Proofs.Compl Proofs.Canon Proofs.Transform Proofs.Overlap Proofs.Reverse
     Proofs.Assembly Proofs.Assembly2 Proofs.Reverse2.

(* ------------------------------------------------------------------------------------ *)
(* streams that can be used as subtractors / complement sources *)

(* the forward fetch over [a,b): well formed, sorted by start, and inside the window it covers
   exactly what the unbounded evaluation covers *)
Definition fwd_ok (env : fenv) (u : expr) (a b : option Z) : Prop :=
  Forall wf_ivl (fetch env u a b false) /\ sorted_start (fetch env u a b false) /\
  forall t, inw a b t = true -> covers (fetch env u a b false) t = covers (ref env u) t.

Definition sub_ok (env : fenv) (u : expr) : Prop := forall a b, wf_win a b -> fwd_ok env u a b.

(* every expression of the domain of Proofs/Assembly.v *)
Theorem good_sub_ok env u : Assembly.good env u -> sub_ok env u.
Proof.
  intros Hg a b Hw. destruct (fetch_ok env u Hg a b Hw) as (S1 & _ & S3 & _).
  split; [exact S1|]. split; [exact S3|].
  intros t Ht. apply clip_eq_cover; [|exact Ht]. apply fetch_clip_exact; assumption.
Qed.

(* the window spanned by a well-formed, canonically encoded event *)
Lemma span_wf_win x : wf_ivl x -> canon_ivl x -> wf_win (st x) (en x).
Proof.
  intros (W1 & W2 & W3 & W4 & W5) [C1 C2]. unfold wf_win. split; [|split].
  - intros z E. rewrite (fstart_some x z E) in W1. assert (z <> NEG_INF) by congruence. lia.
  - intros z E. rewrite (fend_some x z E) in W3. assert (z <> POS_INF) by congruence. lia.
  - change (bnd_lo (st x)) with (fstart x). change (bnd_hi (en x)) with (fend x). exact W2.
Qed.

Lemma inside_inw x t : inside x t = inw (st x) (en x) t.
Proof. reflexivity. Qed.

(* ------------------------------------------------------------------------------------ *)
(* (1) difference *)

(* per source event: the sweep over the subtractors fetched on the event's own span gives the
   maximal runs of the event outside ALL subtractor events *)
Theorem diff_overlapping_event_gen env subs x p :
  wf_ivl x -> canon_ivl x -> Forall (sub_ok env) subs ->
  filter (contains p)
         (diff_sweep [x] (map (fun v => fetch env v (st x) (en x) false) subs)) =
  filter (contains p) (minus_runs x (flat_map (ref env) subs)).
Proof.
  intros Hw Hc Hs. pose proof (span_wf_win x Hw Hc) as Hwin.
  assert (Hall : Forall (fun v => fwd_ok env v (st x) (en x)) subs).
  { eapply Forall_impl; [|exact Hs]. intros v Hv. exact (Hv _ _ Hwin). }
  rewrite diff_sweep_single; auto.
  - f_equal. apply minus_runs_ext_local; auto. intros t Ht.
    rewrite Merge.covers_concat, covers_flat_ref. rewrite inside_inw in Ht.
    clear - Hall Ht. induction Hall as [|v r Hv _ IH]; [reflexivity|].
    cbn [map existsb]. rewrite IH. f_equal. exact (proj2 (proj2 Hv) t Ht).
  - apply merged_ok_intro; apply Forall_map_intro; (eapply Forall_impl; [|exact Hall]);
      intros v Hv; [exact (proj1 Hv)|exact (proj1 (proj2 Hv))].
Qed.

(* the statement: any source on which overlapping(p) is exact *)
Theorem diff_overlapping_general env s subs p :
  Permutation (overlapping env s p) (ov_expected env s p) ->
  (forall x, In x (ref env s) -> contains p x = true -> wf_ivl x /\ canon_ivl x) ->
  Forall (sub_ok env) subs ->
  Permutation (overlapping env (Diff s subs) p) (ov_expected env (Diff s subs) p).
Proof.
  intros HP Hok Hs. unfold ov_expected. cbn [ref].
  set (H := flat_map (ref env) subs). rewrite filter_flat_map.
  assert (E : Permutation (overlapping env (Diff s subs) p)
                (flat_map (fun x => filter (contains p) (minus_runs x H)) (ov_expected env s p))).
  { destruct subs as [|u us].
    - change (overlapping env (Diff s []) p) with (overlapping env s p).
      unfold H. cbn [flat_map].
      change (fun x => filter (contains p) (minus_runs x [])) with (fun x : ivl => filter (contains p) [x]).
      rewrite <- filter_flat_map, flat_map_singleton.
      unfold ov_expected. rewrite filter_filter_keep by auto. exact HP.
    - rewrite overlapping_diff_cons.
      eapply Permutation_trans; [apply Permutation_flat_map; exact HP|].
      rewrite (flat_map_ext_In
                 (fun src => filter (contains p)
                    (diff_sweep [src] (map (fun v => fetch env v (st src) (en src) false) (u :: us))))
                 (fun x => filter (contains p) (minus_runs x H))); [apply Permutation_refl|].
      intros x Hx. unfold ov_expected in Hx. apply filter_In in Hx as [Hx Hc].
      destruct (Hok x Hx Hc) as [Wx Cx]. apply diff_overlapping_event_gen; assumption. }
  eapply Permutation_trans; [exact E|]. unfold ov_expected.
  rewrite flat_map_filter_skip; [apply Permutation_refl|].
  intros x _ Hx. apply filter_nil. intros f Hf.
  destruct (contains p f) eqn:Ef; [|reflexivity].
  rewrite (minus_runs_contains x H p f Hf Ef) in Hx. discriminate.
Qed.

(* GOAL 1: an [ov_leaf] source (stored timelines, unions, leaf filters, buffers of stored
   timelines, nested in any way; events may overlap each other) and arbitrary [sub_ok]
   subtractors (in particular every [good] expression: unions, intersections, differences,
   complements ... of stored timelines) *)
Theorem C16_difference_general env s subs p :
  ov_leaf s = true -> ref_ok env s -> Forall (sub_ok env) subs ->
  Permutation (overlapping env (Diff s subs) p) (ov_expected env (Diff s subs) p).
Proof.
  intros Hl Hr Hs. apply diff_overlapping_general; [apply overlapping_leaf_spec; exact Hl| |exact Hs].
  intros x Hx _. exact (ref_ok_in env s x Hr Hx).
Qed.

Corollary C16_difference_good_subs env s subs p :
  ov_leaf s = true -> ref_ok env s -> Forall (Assembly.good env) subs ->
  Permutation (overlapping env (Diff s subs) p) (ov_expected env (Diff s subs) p).
Proof.
  intros Hl Hr Hs. apply C16_difference_general; auto.
  eapply Forall_impl; [|exact Hs]. intros u Hu. apply good_sub_ok, Hu.
Qed.

(* membership reading: "for each source event containing p, the fragment of minus_runs (that
   event, all subtractor events) that contains p" *)
Corollary C16_difference_general_in env s subs p f :
  ov_leaf s = true -> ref_ok env s -> Forall (sub_ok env) subs ->
  (In f (overlapping env (Diff s subs) p) <->
   exists x, In x (ref env s) /\ contains p x = true /\
             In f (minus_runs x (flat_map (ref env) subs)) /\ contains p f = true).
Proof.
  intros Hl Hr Hs. pose proof (C16_difference_general env s subs p Hl Hr Hs) as P.
  unfold ov_expected in P. cbn [ref] in P. split.
  - intro Hf. apply (Permutation_in _ P) in Hf. apply filter_In in Hf as [Hf Hc].
    apply in_flat_map in Hf as (x & Hx & Hf). exists x. repeat split; auto.
    eapply minus_runs_contains; eauto.
  - intros (x & Hx & _ & Hf & Hc). apply (Permutation_in _ (Permutation_sym P)).
    apply filter_In. split; [|exact Hc]. apply in_flat_map. exists x. auto.
Qed.

(* [ref_ok] of leaves: stored events well formed and canonically encoded; a buffered event
   must stay strictly between the sentinels *)
Fixpoint leaf_ok (env : fenv) (e : expr) : Prop :=
  match e with
  | Stored evs => Forall wf_ivl evs /\ Forall canon_ivl evs
  | Union es => (fix go (l : list expr) : Prop :=
                   match l with [] => True | x :: r => leaf_ok env x /\ go r end) es
  | Filt s _ => leaf_ok env s
  | Buf s before after =>
    Forall (fun x => wf_ivl (buf_shift before after x) /\ canon_ivl (buf_shift before after x)) (ref env s)
  | _ => False
  end.

Lemma leaf_ok_union env es : leaf_ok env (Union es) <-> Forall (leaf_ok env) es.
Proof.
  cbn [leaf_ok]. induction es as [|x r IH]; [split; [constructor|exact (fun _ => I)]|].
  rewrite IH. split; [intros [A B]; constructor; assumption|intro H; inversion H; subst; split; assumption].
Qed.

Theorem leaf_ref_ok env e : leaf_ok env e -> ref_ok env e.
Proof.
  induction e as [evs| |es IH|es IH|s subs IHs IHsubs|s IHs|s f IHs|s x y IHs|s g IHs] using expr_ind';
    intro H; try (destruct H; fail); apply ref_ok_intro; cbn [ref].
  - destruct H as [Hw Hc]. intros x Hx. apply filter_In in Hx as [Hx _].
    rewrite Forall_forall in Hw, Hc. auto.
  - apply leaf_ok_union in H. intros x Hx. apply in_flat_map in Hx as (s & Hs & Hx).
    rewrite Forall_forall in IH, H. exact (ref_ok_in env s x (IH s Hs (H s Hs)) Hx).
  - cbn [leaf_ok] in H. intros x Hx. apply filter_In in Hx as [Hx _].
    exact (ref_ok_in env s x (IHs H) Hx).
  - cbn [leaf_ok] in H. intros z Hz. apply in_map_iff in Hz as (x0 & <- & Hx0).
    rewrite Forall_forall in H. exact (H x0 Hx0).
Qed.

(* ------------------------------------------------------------------------------------ *)
(* (2) complement *)

(* the reverse fetch over [a,b): well formed, its negation sorted by start (i.e. ends never
   increase along the reverse stream), exact in coverage inside the window *)
Definition bwd_ok (env : fenv) (s : expr) (a b : option Z) : Prop :=
  Forall wf_ivl (fetch env s a b true) /\ sorted_start (neg_stream (fetch env s a b true)) /\
  forall t, inw a b t = true -> covers (fetch env s a b true) t = covers (ref env s) t.

Lemma overlapping_compl env s p :
  overlapping env (Compl s) p =
  if existsb (contains p) (fetch env s (Some p) (Some (p + 1)) false) then []
  else [mkI (join (first_some (contains p) st (fetch env (Compl s) None (Some (p + 1)) true)))
            (join (first_some (fun i => fstart i >? p) st (fetch env s (Some p) None false)))
            Plain].
Proof. reflexivity. Qed.

Lemma existsb_contains_covers p l : existsb (contains p) l = covers l p.
Proof. reflexivity. Qed.

(* the containment test *)
Lemma compl_ov_test_gen env s p :
  fwd_ok env s (Some p) (Some (p + 1)) ->
  existsb (contains p) (fetch env s (Some p) (Some (p + 1)) false) = covers (ref env s) p.
Proof.
  intros (_ & _ & C). rewrite existsb_contains_covers. apply C. unfold inw. cbn [bnd_lo bnd_hi]. lia.
Qed.

(* right edge: the first start after p in the forward stream from p, None if there is none *)
Lemma compl_ov_right_gen env s p :
  NEG_INF < p -> p < POS_INF -> fwd_ok env s (Some p) None -> covers (ref env s) p = false ->
  let right := join (first_some (fun i => fstart i >? p) st (fetch env s (Some p) None false)) in
  right_edge (ref env s) p (bnd_hi right) /\ (right = None <-> bnd_hi right = POS_INF).
Proof.
  intros Hp1 Hp2 (W & S & C) Hunc. cbv zeta. set (xs := fetch env s (Some p) None false) in *.
  rewrite Forall_forall in W.
  assert (Hw : forall t, p <= t < POS_INF -> inw (Some p) None t = true)
    by (intros t Ht; unfold inw; cbn [bnd_lo bnd_hi]; lia).
  assert (Hup : covers xs p = false) by (rewrite C by (apply Hw; lia); exact Hunc).
  (* an element starting at or before p ends at or before p *)
  assert (Hold : forall z t, In z xs -> fstart z <= p -> p <= t -> inside z t = false).
  { intros z t Hz Hzs Ht. pose proof (proj1 (covers_false_iff xs p) Hup z Hz) as Hi.
    unfold inside in *. lia. }
  pose proof (first_some_spec (fun i => fstart i >? p) st xs) as F.
  destruct (first_some (fun i => fstart i >? p) st xs) as [v|].
  - destruct F as (l1 & y & l2 & E & Fy & V & B).
    assert (Hy : In y xs) by (rewrite E; apply in_elt).
    destruct (W y Hy) as (Y1 & Y2 & Y3 & Y4 & Y5).
    destruct (st y) as [R|] eqn:Es; [|rewrite (fstart_none y Es) in Fy; lia].
    pose proof (fstart_some y R Es) as FR. subst v. cbn [join bnd_hi]. split.
    + split; [lia|]. split.
      * intros t Ht. rewrite <- C by (apply Hw; lia). apply covers_false_iff. intros z Hz.
        rewrite E in Hz, S. apply in_app_or in Hz as [Hz|[<-|Hz]].
        -- apply Hold; [rewrite E; apply in_or_app; left; exact Hz| |lia].
           specialize (B z Hz). cbv beta in B. lia.
        -- unfold inside. lia.
        -- apply sorted_start_app_r' in S. destruct S as [S _]. specialize (S z Hz).
           unfold inside. lia.
      * right. rewrite <- C by (apply Hw; lia). apply covers_true_iff. exists y.
        split; [exact Hy|]. unfold inside. lia.
    + split; [discriminate|lia].
  - cbn [join bnd_hi]. split; [|tauto]. split; [lia|]. split; [|left; reflexivity].
    intros t Ht. rewrite <- C by (apply Hw; lia). apply covers_false_iff. intros z Hz.
    apply Hold; [exact Hz| |lia]. specialize (F z Hz). cbv beta in F. lia.
Qed.

(* what the reverse complement fetch over (-inf, p+1) holds, in negated time *)
Lemma compl_rev_gaps_gen env s p :
  NEG_INF < p -> p + 1 < POS_INF -> bwd_ok env s None (Some (p + 1)) ->
  let G := compl_sweep (neg_stream (fetch env s None (Some (p + 1)) true)) (Some (- (p + 1))) None in
  (forall k, In k G -> good_gap (- p - 1) POS_INF k) /\ separatedP G /\
  (forall t, NEG_INF <= t <= p -> covers G (- t - 1) = negb (covers (ref env s) t)).
Proof.
  intros Hp1 Hp2 (W & S & C). cbv zeta. pose proof sentinels_opp as Hopp.
  assert (Hwin : wf_win (Some (- (p + 1))) None).
  { unfold wf_win. split; [|split].
    - intros z Hz. injection Hz as <-. lia.
    - intros z Hz. discriminate.
    - cbn [bnd_lo bnd_hi]. lia. }
  destruct (compl_sweep_spec _ (Some (- (p + 1))) None Hwin (neg_stream_wf _ W) S) as (GG & GS & GC).
  cbn [bnd_lo bnd_hi] in GG, GC. replace (- (p + 1)) with (- p - 1) in * by lia.
  split; [exact GG|]. split; [exact GS|].
  intros t Ht. rewrite GC by lia. f_equal. rewrite covers_neg_stream.
  replace (- (- t - 1) - 1) with t by lia. apply C. unfold inw. cbn [bnd_lo bnd_hi]. lia.
Qed.

Lemma bnd_lo_negO_en k : bnd_lo (negO (en k)) = - fend k.
Proof. unfold fend. destruct (en k) as [z|]; cbn [negO bnd_lo]; [reflexivity|]. reflexivity. Qed.

(* left edge: from the first gap of the reverse complement stream that contains p *)
Lemma compl_ov_left_gen env s p :
  NEG_INF < p -> p + 1 < POS_INF -> bwd_ok env s None (Some (p + 1)) ->
  covers (ref env s) p = false ->
  let left := join (first_some (contains p) st (fetch env (Compl s) None (Some (p + 1)) true)) in
  left_edge (ref env s) p (bnd_lo left) /\ (left = None <-> bnd_lo left = NEG_INF).
Proof.
  intros Hp1 Hp2 Hb Hunc. cbv zeta. rewrite fetch_compl_rev. cbn [negO].
  destruct (compl_rev_gaps_gen env s p Hp1 Hp2 Hb) as (GG & GS & HC).
  set (G := compl_sweep _ _ _) in *. pose proof sentinels_opp as Hopp.
  assert (Hex : exists k0, In k0 G /\ inside k0 (- p - 1) = true /\
                           join (first_some (contains p) st (neg_stream G)) = negO (en k0)).
  { unfold neg_stream. rewrite first_some_map.
    pose proof (first_some_spec (fun x => contains p (neg_ivl x)) (fun x => st (neg_ivl x)) G) as F.
    destruct (first_some (fun x => contains p (neg_ivl x)) (fun x => st (neg_ivl x)) G) as [v|].
    2:{ exfalso. assert (C0 : covers G (- p - 1) = false).
        { apply covers_false_iff. intros k Hk. specialize (F k Hk). cbv beta in F.
          rewrite contains_inside, inside_neg_reflect in F. exact F. }
        rewrite HC, Hunc in C0 by lia. discriminate. }
    destruct F as (l1 & k0 & l2 & EG & Fk & V & _). cbv beta in Fk.
    rewrite contains_inside, inside_neg_reflect in Fk.
    exists k0. split; [rewrite EG; apply in_elt|]. split; [exact Fk|]. subst v. reflexivity. }
  destruct Hex as (k0 & Hk0 & Fk & EL). rewrite EL. clear EL.
  destruct (GG k0 Hk0) as (_ & K1 & K2 & K3 & _ & [K4 K5]).
  assert (Ks : fstart k0 = - p - 1) by (unfold inside in Fk; lia).
  rewrite bnd_lo_negO_en.
  split.
  - split; [lia|]. split.
    + intros t Ht. assert (Cg : covers G (- t - 1) = true).
      { apply covers_true_iff. exists k0. split; [exact Hk0|]. unfold inside. lia. }
      rewrite HC in Cg by lia. destruct (covers (ref env s) t); [discriminate|reflexivity].
    + destruct (Z.eq_dec (fend k0) POS_INF) as [E|E]; [left; lia|right].
      assert (C1 : covers G (fend k0) = false).
      { apply covers_false_iff. intros k1 Hk1.
        destruct (separatedP_cases G k1 k0 GS Hk1 Hk0) as [->|[H|H]]; unfold inside; lia. }
      pose proof (HC (- fend k0 - 1)) as A. replace (- (- fend k0 - 1) - 1) with (fend k0) in A by lia.
      rewrite C1 in A. specialize (A ltac:(lia)).
      destruct (covers (ref env s) (- fend k0 - 1)); [reflexivity|discriminate].
  - split.
    + intro H. destruct (en k0) as [z|] eqn:Ee; [cbn [negO] in H; discriminate H|].
      rewrite (fend_none k0 Ee). lia.
    + intro H. assert (Fe : fend k0 = POS_INF) by lia. rewrite (K5 Fe). reflexivity.
Qed.

(* Complement.overlapping is the member of the reference complement that contains p *)
Theorem compl_overlapping_general env s p :
  NEG_INF < p -> p + 1 < POS_INF ->
  fwd_ok env s (Some p) (Some (p + 1)) -> fwd_ok env s (Some p) None ->
  bwd_ok env s None (Some (p + 1)) ->
  overlapping env (Compl s) p = ov_expected env (Compl s) p.
Proof.
  intros Hp1 Hp2 F1 F2 B. rewrite overlapping_compl, (compl_ov_test_gen env s p F1).
  unfold ov_expected. cbn [ref]. set (E := ref env s).
  destruct (minus_runs_spec full_line E wf_full_line canon_full_line) as (RF & RS & RC).
  destruct (covers E p) eqn:Ec.
  - symmetry. apply filter_nil. intros f Hf.
    destruct (contains p f) eqn:Ef; [|reflexivity].
    assert (C : covers (minus_runs full_line E) p = true)
      by (apply covers_true_iff; exists f; split; [exact Hf|exact Ef]).
    rewrite RC, Ec, andb_false_r in C. discriminate.
  - destruct (compl_ov_right_gen env s p Hp1 ltac:(lia) F2 Ec) as [SR SRn].
    destruct (compl_ov_left_gen env s p Hp1 Hp2 B Ec) as [SL SLn].
    cbv zeta in SR, SRn, SL, SLn.
    set (left := join (first_some (contains p) st (fetch env (Compl s) None (Some (p + 1)) true))) in *.
    set (right := join (first_some (fun i => fstart i >? p) st (fetch env s (Some p) None false))) in *.
    assert (C : covers (minus_runs full_line E) p = true).
    { rewrite RC, Ec, inside_full_line. lia. }
    apply covers_true_iff in C as (f & Hf & If). rewrite <- contains_inside in If.
    rewrite (filter_contains_separated _ p f RS Hf If). f_equal.
    destruct (run_edges E p f Hf If) as [FL FR].
    destruct (RF f Hf) as (Pf & _ & Ef1 & Ef2).
    apply ivl_ext.
    + split; [exact SLn|exact SRn].
    + split; [exact Ef1|exact Ef2].
    + rewrite Pf. reflexivity.
    + change (fstart (mkI left right Plain)) with (bnd_lo left). eapply left_edge_unique; eassumption.
    + change (fend (mkI left right Plain)) with (bnd_hi right). eapply right_edge_unique; eassumption.
Qed.

(* the descriptive reading: [] when p is covered, otherwise exactly one plain interval, the
   maximal uncovered stretch around p, with None exactly on an unbounded side *)
Corollary compl_overlapping_general_shape env s p :
  NEG_INF < p -> p + 1 < POS_INF ->
  fwd_ok env s (Some p) (Some (p + 1)) -> fwd_ok env s (Some p) None ->
  bwd_ok env s None (Some (p + 1)) ->
  (covers (ref env s) p = true -> overlapping env (Compl s) p = []) /\
  (covers (ref env s) p = false ->
   exists left right,
     overlapping env (Compl s) p = [mkI left right Plain] /\
     left_edge (ref env s) p (bnd_lo left) /\ (left = None <-> bnd_lo left = NEG_INF) /\
     right_edge (ref env s) p (bnd_hi right) /\ (right = None <-> bnd_hi right = POS_INF)).
Proof.
  intros Hp1 Hp2 F1 F2 B. rewrite overlapping_compl, (compl_ov_test_gen env s p F1). split.
  - intros ->. reflexivity.
  - intros Ec. rewrite Ec. eexists. eexists. split; [reflexivity|].
    destruct (compl_ov_right_gen env s p Hp1 ltac:(lia) F2 Ec) as [SR SRn].
    destruct (compl_ov_left_gen env s p Hp1 Hp2 B Ec) as [SL SLn]. auto.
Qed.

(* every source of the reverse-iteration domain of Proofs/Reverse2.v whose stream is a chain
   (no event outlasted by one that starts strictly earlier) qualifies *)
Lemma rgood_chain_bwd_ok env s a b :
  rgood env s -> chain_e env s -> wf_win a b -> bwd_ok env s a b.
Proof.
  intros Hr Hc Hw. pose proof (rgood_good env s Hr) as Hg.
  pose proof (fetch_rev_ok env s Hr a b Hw) as R. destruct R as [P K].
  destruct (good_sub_ok env s Hg a b Hw) as (S1 & _ & S4).
  split; [eapply Forall_wf_perm; [exact P|exact S1]|]. split.
  - apply negate_sorted_iff_monotone_ends_gen. apply rev_ok_mono; [split; assumption|exact (Hc a b Hw)].
  - intros t Ht. rewrite (covers_perm _ _ t P). exact (S4 t Ht).
Qed.

Lemma point_windows p : NEG_INF < p -> p + 1 < POS_INF ->
  wf_win (Some p) (Some (p + 1)) /\ wf_win (Some p) None /\ wf_win None (Some (p + 1)).
Proof.
  intros H1 H2. unfold wf_win. cbn [bnd_lo bnd_hi].
  repeat split; intros; try discriminate; try lia;
    match goal with H : Some _ = Some _ |- _ => injection H as <-; lia end.
Qed.

(* GOAL 2 *)
Theorem C16_complement_general env s p :
  rgood env (Compl s) -> NEG_INF < p -> p + 1 < POS_INF ->
  overlapping env (Compl s) p = ov_expected env (Compl s) p.
Proof.
  intros H Hp1 Hp2. inv_rgood H. destruct (point_windows p Hp1 Hp2) as (W1 & W2 & W3).
  pose proof (good_sub_ok env s (rgood_good env s Hgs)) as Hs.
  apply compl_overlapping_general; auto. apply rgood_chain_bwd_ok; assumption.
Qed.

(* sources with an internally non-overlapping stream: non-overlapping stored timelines, their
   differences, complements, mask intersections ... *)
Corollary C16_complement_dj env s p :
  rgood env s -> dj env s -> NEG_INF < p -> p + 1 < POS_INF ->
  overlapping env (Compl s) p = ov_expected env (Compl s) p.
Proof.
  intros Hr Hd. apply C16_complement_general. apply rg_compl; [exact Hr|].
  apply dj_chain_e; [apply rgood_good; exact Hr|exact Hd].
Qed.

(* every intersection of the domain *)
Corollary C16_complement_inter env es p :
  rgood env (Inter es) -> NEG_INF < p -> p + 1 < POS_INF ->
  overlapping env (Compl (Inter es)) p = ov_expected env (Compl (Inter es)) p.
Proof.
  intros Hr. apply C16_complement_general. apply rg_compl; [exact Hr|apply chain_e_inter; exact Hr].
Qed.

(* a union of stored timelines whose events, taken together, form a chain (in particular when
   no two of them overlap) *)
Lemma chain_e_union_stored env evss : chain (concat evss) -> chain_e env (Union (map Stored evss)).
Proof.
  intros Hc a b _. eapply chain_incl; [|exact Hc]. intros x Hx.
  rewrite fetch_union in Hx. apply merge_in in Hx as (l & Hl & Hx).
  rewrite map_map in Hl. apply in_map_iff in Hl as (evs & <- & Hevs).
  rewrite fetch_stored in Hx. apply filter_In in Hx as [Hx _]. apply (proj1 (sl_build_in _ _)) in Hx.
  apply in_concat. exists evs. split; assumption.
Qed.

Corollary C16_complement_union_stored env evss p :
  Forall (fun evs => Forall wf_ivl evs /\ Forall canon_ivl evs) evss -> chain (concat evss) ->
  NEG_INF < p -> p + 1 < POS_INF ->
  overlapping env (Compl (Union (map Stored evss))) p =
  ov_expected env (Compl (Union (map Stored evss))) p.
Proof.
  intros Hw Hc. apply C16_complement_general. apply rg_compl; [|apply chain_e_union_stored; exact Hc].
  apply rg_union. apply Forall_map_intro. eapply Forall_impl; [|exact Hw].
  intros evs [H1 H2]. apply rg_stored; assumption.
Qed.

(* ------------------------------------------------------------------------------------ *)
(* (2b) a buffered stored timeline as subtractor / complement source.  The buffered events
   must stay between the sentinels ([wf_ivl] of the shifted event). *)

Lemma shift_fstart_mono before after x y :
  0 <= before -> NEG_INF <= fstart (buf_shift before after y) ->
  fstart x <= fstart y -> fstart (buf_shift before after x) <= fstart (buf_shift before after y).
Proof.
  intros Hb Hy H. unfold fstart in *. rewrite !buf_shift_st in *.
  destruct (st x) as [u|], (st y) as [v|]; cbn [addO] in *; lia.
Qed.

Lemma shift_fend_mono before after x y :
  0 <= after -> fend (buf_shift before after x) <= POS_INF ->
  fend x <= fend y -> fend (buf_shift before after x) <= fend (buf_shift before after y).
Proof.
  intros Ha Hx H. unfold fend in *. rewrite !buf_shift_en in *.
  destruct (en x) as [u|], (en y) as [v|]; cbn [addO] in *; lia.
Qed.

Section BufStored.
  Variable env : fenv.
  Variable evs : list ivl.
  Variables before after : Z.
  Hypothesis Hb : 0 <= before.
  Hypothesis Ha : 0 <= after.
  Hypothesis Hwf : Forall wf_ivl evs.
  Hypothesis Hsh : Forall (fun x => wf_ivl (buf_shift before after x)) evs.

  Let e := Buf (Stored evs) before after.

  Lemma buf_stored_elems a b x :
    In x (filter (in_range (addO a (- after)) (addO b before)) (sl_build evs)) ->
    In x evs /\ wf_ivl x /\ wf_ivl (buf_shift before after x).
  Proof.
    intro Hx. apply filter_In in Hx as [Hx _]. apply (proj1 (sl_build_in _ _)) in Hx.
    rewrite Forall_forall in Hwf, Hsh. auto.
  Qed.

  Lemma buf_stored_fwd_ok a b : fwd_ok env e a b.
  Proof.
    unfold fwd_ok, e. rewrite fetch_buf_stored_filter.
    set (l := filter (in_range (addO a (- after)) (addO b before)) (sl_build evs)).
    split; [|split].
    - apply Forall_map_intro, Forall_forall. intros x Hx. apply (buf_stored_elems a b x Hx).
    - apply sorted_start_pw, pairwiseP_map.
      assert (Hs : sorted_start l)
        by (apply sorted_start_filter, sorted_key_sorted_start, sl_build_sorted).
      apply sorted_start_pw in Hs. revert Hs. apply pairwiseP_impl. intros x y _ Hy Hxy.
      apply shift_fstart_mono; [exact Hb| |exact Hxy].
      destruct (buf_stored_elems a b y Hy) as (_ & _ & (W1 & _)). exact W1.
    - intros t Ht. cbn [ref]. rewrite (filter_pos_len_all evs).
      2:{ intros x Hx. rewrite Forall_forall in Hwf. destruct (Hwf x Hx) as (_ & W & _). unfold pos_len. lia. }
      apply covers_ext_in. intros y Hy. rewrite !in_map_iff. split.
      + intros (x & <- & Hx). exists x. split; [reflexivity|]. apply (buf_stored_elems a b x Hx).
      + intros (x & <- & Hx). exists x. split; [reflexivity|]. apply filter_In.
        split; [apply sl_build_in; exact Hx|].
        destruct (in_range (addO a (- after)) (addO b before) x) eqn:E; [reflexivity|].
        pose proof (widened_range_complete before after a b x Hb Ha E) as Hr.
        unfold inside in Hy. unfold inw in Ht. lia.
  Qed.

  Lemma buf_stored_sub_ok : sub_ok env e.
  Proof. intros a b _. apply buf_stored_fwd_ok. Qed.

  (* the reverse direction needs the ends to be monotone: no stored event nested in another *)
  Hypothesis Hch : chain evs.

  Lemma buf_stored_bwd_ok a b : bwd_ok env e a b.
  Proof.
    destruct (buf_stored_fwd_ok a b) as (W & _ & C). unfold bwd_ok, e in *.
    rewrite fetch_buf_stored_rev. split; [|split].
    - apply Forall_forall. intros x Hx. apply in_rev in Hx. exact (proj1 (Forall_forall _ _) W x Hx).
    - apply negate_sorted_iff_monotone_ends_gen. unfold mono_ends_desc. apply pairwiseP_rev.
      rewrite fetch_buf_stored_filter. apply pairwiseP_map.
      set (l := filter (in_range (addO a (- after)) (addO b before)) (sl_build evs)).
      assert (Hs : sortedP l) by (apply sortedP_filter, sorted_key_P, sl_build_sorted).
      assert (Hs' : pairwiseP (fun x y => key_le x y = true) l).
      { clear - Hs. induction l as [|x r IH]; [exact I|]. destruct Hs as [H1 H2]. split; auto. }
      revert Hs'. apply pairwiseP_impl. intros x y Hx Hy K.
      destruct (buf_stored_elems a b x Hx) as (Ix & _ & (_ & _ & W3 & _)).
      destruct (buf_stored_elems a b y Hy) as (Iy & _ & _).
      apply shift_fend_mono; [exact Ha|exact W3|].
      unfold key_le in K. destruct (Z_lt_dec (fstart x) (fstart y)) as [L|L]; [|lia].
      exact (Hch x y Ix Iy L).
    - intros t Ht. rewrite covers_rev. exact (C t Ht).
  Qed.

  Theorem C16_complement_buf_stored p :
    NEG_INF < p -> p + 1 < POS_INF ->
    overlapping env (Compl e) p = ov_expected env (Compl e) p.
  Proof.
    intros Hp1 Hp2. apply compl_overlapping_general; auto using buf_stored_fwd_ok, buf_stored_bwd_ok.
  Qed.
End BufStored.

(* ------------------------------------------------------------------------------------ *)
(* (3) the class covered, and the oracle *)

Inductive ovdom (env : fenv) (p : Z) : expr -> Prop :=
| od_leaf e : ov_leaf e = true -> ovdom env p e
| od_diff s subs : ovdom env p s -> ref_ok env s -> Forall (sub_ok env) subs ->
                   ovdom env p (Diff s subs)
| od_compl s : fwd_ok env s (Some p) (Some (p + 1)) -> fwd_ok env s (Some p) None ->
               bwd_ok env s None (Some (p + 1)) -> ovdom env p (Compl s).

(* the two syntactic entry points *)
Lemma od_compl_rgood env p s :
  NEG_INF < p -> p + 1 < POS_INF -> rgood env (Compl s) -> ovdom env p (Compl s).
Proof.
  intros Hp1 Hp2 H. inv_rgood H. destruct (point_windows p Hp1 Hp2) as (W1 & W2 & W3).
  pose proof (good_sub_ok env s (rgood_good env s Hgs)) as Hs.
  apply od_compl; auto. apply rgood_chain_bwd_ok; assumption.
Qed.

Lemma od_diff_good env p s subs :
  ovdom env p s -> ref_ok env s -> Forall (Assembly.good env) subs -> ovdom env p (Diff s subs).
Proof.
  intros Hs Hr Hg. apply od_diff; auto. eapply Forall_impl; [|exact Hg]. intros u Hu. apply good_sub_ok, Hu.
Qed.

(* [ref_ok] propagates upwards, so differences and complements can be sources again *)
Lemma ref_ok_diff env s subs : ref_ok env s -> ref_ok env (Diff s subs).
Proof.
  intro H. apply ref_ok_intro. cbn [ref]. intros f Hf. apply in_flat_map in Hf as (x & Hx & Hf).
  destruct (ref_ok_in env s x H Hx) as [Wx Cx]. eapply minus_runs_ok; eauto.
Qed.

Lemma ref_ok_compl env s : ref_ok env (Compl s).
Proof.
  apply ref_ok_intro. cbn [ref]. intros f Hf. destruct full_line_ok as [Wl Cl]. eapply minus_runs_ok; eauto.
Qed.

(* GOAL 3 *)
Theorem C16_nested_perm env p e :
  NEG_INF < p -> p + 1 < POS_INF -> ovdom env p e ->
  Permutation (overlapping env e p) (ov_expected env e p).
Proof.
  intros Hp1 Hp2 H. induction H as [e Hl|s subs Hs IH Hr Hsubs|s F1 F2 B].
  - apply overlapping_leaf_spec. exact Hl.
  - apply diff_overlapping_general; [exact IH| |exact Hsubs].
    intros x Hx _. exact (ref_ok_in env s x Hr Hx).
  - rewrite (compl_overlapping_general env s p Hp1 Hp2 F1 F2 B). apply Permutation_refl.
Qed.

(* the check the harness applies to the implementation (Harness/MoreChk.v) *)
Theorem C16_nested_expected env p e :
  NEG_INF < p -> p + 1 < POS_INF -> ovdom env p e ->
  mset_eqb (overlapping env e p) (ov_expected env e p) = true.
Proof. intros Hp1 Hp2 H. apply perm_mset_eqb. apply C16_nested_perm; assumption. Qed.

(* ------------------------------------------------------------------------------------ *)
(* (4) refuted: "for ANY expression".  Union, Intersection and Filter inherit the base
   implementation (filter of fetch(p, p+1)); below them the special handling of Difference and
   Complement is lost. *)

(* a complement below a union comes out clipped to [p, p+1): T = {[5,7)}, p = 10 *)
Theorem C16_union_of_complement_refuted :
  exists env e p,
    overlapping env e p = [mkI (Some 10) (Some 11) Plain] /\
    ov_expected env e p = [mkI (Some 7) None Plain].
Proof.
  exists [], (Union [Compl (Stored [mkI (Some 5) (Some 7) (Rich 2)])]), 10.
  vm_compute. split; reflexivity.
Qed.

(* the same below an intersection and below a filter-free union of two masks *)
Theorem C16_inter_of_complement_refuted :
  exists env e p,
    overlapping env e p = [mkI (Some 12) (Some 13) Plain] /\
    ov_expected env e p = [mkI (Some 10) None Plain].
Proof.
  exists [], (Inter [Compl (Stored [mkI (Some 5) (Some 7) (Rich 2)]);
                     Compl (Stored [mkI (Some 0) (Some 10) (Rich 1)])]), 12.
  vm_compute. split; reflexivity.
Qed.

(* a difference below a union is carved only by the subtractors meeting [p, p+1):
   A = {[0,10)}, B = {[5,7)}, p = 2: (A - B).overlapping(2) = [0,5) but
   ((A - B) | empty).overlapping(2) = [0,10) *)
Theorem C16_union_of_difference_refuted :
  exists env a b p,
    overlapping env (Diff a [b]) p = [mkI (Some 0) (Some 5) (Rich 1)] /\
    overlapping env (Union [Diff a [b]]) p = [mkI (Some 0) (Some 10) (Rich 1)] /\
    ov_expected env (Union [Diff a [b]]) p = [mkI (Some 0) (Some 5) (Rich 1)].
Proof.
  exists [], (Stored [mkI (Some 0) (Some 10) (Rich 1)]), (Stored [mkI (Some 5) (Some 7) (Rich 2)]), 2.
  vm_compute. repeat split; reflexivity.
Qed.

Theorem C16_filter_of_difference_refuted :
  exists env a b f p,
    overlapping env (Filt (Diff a [b]) f) p = [mkI (Some 0) (Some 10) (Rich 1)] /\
    ov_expected env (Filt (Diff a [b]) f) p = [mkI (Some 0) (Some 5) (Rich 1)].
Proof.
  exists [], (Stored [mkI (Some 0) (Some 10) (Rich 1)]), (Stored [mkI (Some 5) (Some 7) (Rich 2)]),
         (FCmp PStart Ge (VInt 0)), 2.
  vm_compute. split; reflexivity.
Qed.

(* merge_within has no [ref] in Spec/Sets.v (its result depends on the window, see C17), so
   [ov_expected] says nothing about it; against the unbounded evaluation itself the base
   implementation is wrong there too: only the events meeting [p, p+1) are merged.
   T = {[0,2), [3,5), [6,9)}, gap 1: the unbounded result is the single interval [0,9), but
   overlapping(0) = [0,2) and overlapping(4) = [3,5). *)
Theorem C16_merge_within_refuted :
  exists env e,
    fetch env e None None false = [mkI (Some 0) (Some 9) (Rich 1)] /\
    overlapping env e 0 = [mkI (Some 0) (Some 2) (Rich 1)] /\
    overlapping env e 4 = [mkI (Some 3) (Some 5) (Rich 2)].
Proof.
  exists [], (MergeW (Stored [mkI (Some 0) (Some 2) (Rich 1); mkI (Some 3) (Some 5) (Rich 2);
                              mkI (Some 6) (Some 9) (Rich 3)]) 1).
  vm_compute. repeat split; reflexivity.
Qed.

(* ------------------------------------------------------------------------------------ *)
(* non-vacuity: concrete instances of every premise *)

Module Examples2.
  Definition ev (s e : Z) (id : N) : ivl := mkI (Some s) (Some e) (Rich id).
  Definition env0 : fenv := [].

  (* source: overlapping, nested and duplicated events, a union and a leaf filter *)
  Definition A : list ivl := [ev 0 10 1; ev 2 5 2; ev 2 5 2; ev 20 30 3].
  Definition A2 : list ivl := [ev 1 40 4; mkI None (Some 3) (Rich 5)].
  Definition src : expr := Union [Stored A; Filt (Stored A2) (FCmp (PDur 1) Gt (VInt 3))].
  (* subtractors: a union with nested events reaching far beyond p, a complement, an
     intersection, a nested difference *)
  Definition B : list ivl := [ev 8 12 6; ev 9 10 7; mkI (Some 35) None (Rich 8)].
  Definition C : list ivl := [ev (-5) 1 9; ev 33 50 10].
  Definition D1 : list ivl := [ev 15 18 11; ev 0 4 12; ev 4 9 13].
  Definition subs : list expr :=
    [Union [Stored B; Stored C]; Compl (Stored [ev (-100) 100 14]);
     Inter [Stored D1; Compl (Stored B)]; Diff (Stored D1) [Stored A]].

  Lemma src_leaf : ov_leaf src = true. Proof. reflexivity. Qed.
  Lemma src_ref_ok : ref_ok env0 src.
  Proof. apply good_ref_ok, sgood_good. vm_compute. reflexivity. Qed.
  Lemma subs_good : Forall (Assembly.good env0) subs.
  Proof.
    unfold subs. repeat (apply Forall_cons; [apply sgood_good; vm_compute; reflexivity|]). apply Forall_nil.
  Qed.

  Example diff_instance p :
    Permutation (overlapping env0 (Diff src subs) p) (ov_expected env0 (Diff src subs) p).
  Proof. apply C16_difference_good_subs; [exact src_leaf|exact src_ref_ok|exact subs_good]. Qed.

  (* at p = 25: the event [1,40) survives as [18,33), cut by [15,18) (from D1 - A and D1 & ~B) and
     by [33,50) (from C), both far from p; the event [20,30) is untouched *)
  Example diff_instance_value :
    overlapping env0 (Diff src subs) 25 = [mkI (Some 18) (Some 33) (Rich 4); ev 20 30 3].
  Proof. vm_compute. reflexivity. Qed.

  (* complement sources: a difference with a non-overlapping source, an intersection, a union of
     stored timelines forming a chain *)
  Definition cs1 : expr := Diff (Stored D1) [Stored C; Inter [Stored [ev 5 8 30]; Compl (Stored [ev 7 20 31])]].
  Definition cs2 : expr := Inter [Stored D1; Compl (Stored C)].
  Definition cs3 : expr := Union [Stored D1; Stored [ev 4 9 20; ev 30 31 21]].

  Lemma cs1_rgood : rgood env0 (Compl cs1).
  Proof. apply srgood_sound. vm_compute. reflexivity. Qed.
  Lemma cs2_rgood : rgood env0 (Compl cs2).
  Proof. apply srgood_sound. vm_compute. reflexivity. Qed.

  Lemma p_ok : NEG_INF < 10 /\ 10 + 1 < POS_INF.
  Proof. unfold NEG_INF, POS_INF. lia. Qed.

  Example compl_instance1 : overlapping env0 (Compl cs1) 10 = ov_expected env0 (Compl cs1) 10.
  Proof. apply C16_complement_general; [exact cs1_rgood|apply p_ok|apply p_ok]. Qed.
  Example compl_instance1_value : overlapping env0 (Compl cs1) 10 = [mkI (Some 9) (Some 15) Plain].
  Proof. vm_compute. reflexivity. Qed.
  Example compl_instance2 : overlapping env0 (Compl cs2) 10 = ov_expected env0 (Compl cs2) 10.
  Proof. apply C16_complement_general; [exact cs2_rgood|apply p_ok|apply p_ok]. Qed.

  Example compl_instance3 :
    overlapping env0 (Compl cs3) 10 = ov_expected env0 (Compl cs3) 10.
  Proof.
    apply (C16_complement_union_stored env0 [D1; [ev 4 9 20; ev 30 31 21]]); try apply p_ok.
    - repeat constructor; unfold wf_ivl, canon_ivl, fstart, fend, NEG_INF, POS_INF; cbn [st en ev];
        try lia; try discriminate.
    - apply chainb_ok. vm_compute. reflexivity.
  Qed.

  (* the class: a difference whose source is a complement, itself the source of a difference *)
  Definition nested : expr := Diff (Diff (Compl cs1) [Stored A]) subs.
  Lemma nested_dom : ovdom env0 10 nested.
  Proof.
    apply od_diff_good; [|apply ref_ok_diff, ref_ok_compl|exact subs_good].
    apply od_diff_good; [|apply ref_ok_compl|apply Forall_cons; [apply sgood_good; vm_compute; reflexivity|apply Forall_nil]].
    apply od_compl_rgood; [apply p_ok|apply p_ok|exact cs1_rgood].
  Qed.
  Example nested_instance : mset_eqb (overlapping env0 nested 10) (ov_expected env0 nested 10) = true.
  Proof. apply C16_nested_expected; [apply p_ok|apply p_ok|exact nested_dom]. Qed.

  (* through the two corollaries *)
  Example compl_instance2' : overlapping env0 (Compl cs2) 10 = ov_expected env0 (Compl cs2) 10.
  Proof.
    apply C16_complement_inter; [apply srgood_sound; vm_compute; reflexivity|apply p_ok|apply p_ok].
  Qed.
  Example compl_instance1' : overlapping env0 (Compl cs1) 10 = ov_expected env0 (Compl cs1) 10.
  Proof.
    apply C16_complement_dj; [apply srgood_sound; vm_compute; reflexivity| |apply p_ok|apply p_ok].
    apply (proj2 (sgood_sound env0 cs1 ltac:(vm_compute; reflexivity))). vm_compute. reflexivity.
  Qed.

  (* buffered stored timelines: as complement source and as subtractor *)
  Lemma D1_wf : Forall wf_ivl D1 /\ Forall (fun x => wf_ivl (buf_shift 1 2 x)) D1.
  Proof.
    split; repeat constructor; unfold wf_ivl, fstart, fend, NEG_INF, POS_INF; cbn [st en ev buf_shift set_span addO]; lia.
  Qed.
  Example compl_buf_instance :
    overlapping env0 (Compl (Buf (Stored D1) 1 2)) 12 = ov_expected env0 (Compl (Buf (Stored D1) 1 2)) 12.
  Proof.
    apply C16_complement_buf_stored;
      first [lia|apply D1_wf|apply chainb_ok; vm_compute; reflexivity|unfold NEG_INF, POS_INF; lia].
  Qed.
  Example compl_buf_value :
    overlapping env0 (Compl (Buf (Stored D1) 1 2)) 12 = [mkI (Some 11) (Some 14) Plain].
  Proof. vm_compute. reflexivity. Qed.
  Example diff_buf_sub_instance p :
    Permutation (overlapping env0 (Diff src [Buf (Stored D1) 1 2; Stored B]) p)
                (ov_expected env0 (Diff src [Buf (Stored D1) 1 2; Stored B]) p).
  Proof.
    apply C16_difference_general; [exact src_leaf|exact src_ref_ok|].
    constructor; [apply buf_stored_sub_ok; try lia; apply D1_wf|].
    constructor; [apply good_sub_ok, sgood_good; vm_compute; reflexivity|constructor].
  Qed.
End Examples2.

Print Assumptions good_sub_ok.
Print Assumptions diff_overlapping_event_gen.
Print Assumptions diff_overlapping_general.
Print Assumptions C16_difference_general.
Print Assumptions C16_difference_good_subs.
Print Assumptions C16_difference_general_in.
Print Assumptions leaf_ref_ok.
Print Assumptions compl_ov_right_gen.
Print Assumptions compl_ov_left_gen.
Print Assumptions compl_overlapping_general.
Print Assumptions compl_overlapping_general_shape.
Print Assumptions C16_complement_general.
Print Assumptions C16_complement_dj.
Print Assumptions C16_complement_inter.
Print Assumptions C16_complement_union_stored.
Print Assumptions buf_stored_sub_ok.
Print Assumptions C16_complement_buf_stored.
Print Assumptions C16_nested_perm.
Print Assumptions C16_nested_expected.
Print Assumptions C16_union_of_complement_refuted.
Print Assumptions C16_inter_of_complement_refuted.
Print Assumptions C16_union_of_difference_refuted.
Print Assumptions C16_filter_of_difference_refuted.
Print Assumptions C16_merge_within_refuted.
Print Assumptions Examples2.diff_instance.
Print Assumptions Examples2.compl_instance1.
Print Assumptions Examples2.nested_instance.
