(* Proofs/MemRefine.v — C12: the in-memory timeline (Model/Mem.v) refines the abstract machine of
   Spec/MemSpec.v, for every history of add / add(pattern) / remove / remove_series / slice.

   Part 1 (this file): the simulation relation R, the write operations (exact success flags,
   "an unsuccessful removal changes nothing"), the arithmetic of stored patterns
   (pat_fetch = the occurrences meeting the window; remove_instance succeeds iff is_occurrence).
   Part 2 (MemRefine2.v): slices in both directions, the history theorem, the metadata merge. *)
From CG Require Import Proofs.Defs Proofs.Stored Proofs.RefSpec.
From CG Require Export Spec.MemSpec Harness.MemChk.

(* ------------------------------------------------------------------------------------ *)
(* 0. The histories the property quantifies over *)

(* what the code allows: add(Interval) takes any well-formed event, with or without a
   recurring_event_id in its payload; a pattern has a positive period
   and duration; removal arguments are arbitrary; slices have a < b strictly inside the
   sentinels *)
Definition op_wf (o : mop) : Prop :=
  match o with
  | MAdd ev => wf_ivl ev /\ canon_ivl ev
  | MAddPat period phase dur tag => 0 < period /\ 0 < dur
  | MRemove _ => True
  | MRemoveSeries _ => True
  | MSlice a b _ => NEG_INF < a /\ a < b /\ b < POS_INF
  end.

(* what the refinement proof actually needs *)
Definition op_ok (o : mop) : Prop :=
  match o with
  | MAddPat period phase dur tag => 0 < period /\ 0 < dur
  | _ => True
  end.

Lemma op_wf_ok o : op_wf o -> op_ok o.
Proof. destruct o; simpl; tauto. Qed.

(* ------------------------------------------------------------------------------------ *)
(* 1. The simulation relation *)

Definition abs_pat (p : pat) : aseries :=
  mkAS (p_ser p) (p_period p) (p_phase p) (p_dur p) (p_tag p) (p_ex p).

Definition pat_ok (bound : N) (p : pat) : Prop :=
  (p_ser p <= bound)%N /\ 0 < p_period p /\ 0 < p_dur p.

Record R (m : mstate) (s : astate) : Prop := mkR {
  R_sorted : sorted_key (m_static m) = true;
  R_perm : Permutation (m_static m) (a_bag s);
  R_seq : m_seq m = a_count s;
  R_series : a_series s = map abs_pat (m_pats m);
  R_nodup : NoDup (map p_ser (m_pats m));
  R_ok : Forall (pat_ok (m_seq m)) (m_pats m) }.

Theorem R_init : R minit ainit.
Proof.
  constructor; simpl; try reflexivity; constructor.
Qed.

(* ------------------------------------------------------------------------------------ *)
(* 2. The list of stored patterns against the list of abstract series *)

Definition excl (t : Z) (p : pat) : pat :=
  mkP (p_ser p) (p_period p) (p_phase p) (p_dur p) (t :: p_ex p) (p_tag p).

Definition aexcl (k : N) (t : Z) (y : aseries) : aseries :=
  if N.eqb (a_ser y) k
  then mkAS (a_ser y) (a_period y) (a_phase y) (a_dur y) (a_tag y) (t :: a_removed y)
  else y.

Lemma afind_map k l : afind k (map abs_pat l) = option_map abs_pat (find_pat k l).
Proof.
  induction l as [|p r IH]; [reflexivity|]. cbn [map afind find_pat].
  change (a_ser (abs_pat p)) with (p_ser p).
  destruct (N.eqb (p_ser p) k) eqn:E; [reflexivity|exact IH].
Qed.

Lemma find_pat_some k l p : find_pat k l = Some p -> In p l /\ p_ser p = k.
Proof.
  induction l as [|q r IH]; [discriminate|]. cbn [find_pat].
  destruct (N.eqb (p_ser q) k) eqn:E.
  - intro H. injection H as <-. split; [left; reflexivity|]. apply N.eqb_eq. exact E.
  - intro H. destruct (IH H) as [H1 H2]. split; [right; exact H1|exact H2].
Qed.

Lemma find_pat_none k l : find_pat k l = None -> ~ In k (map p_ser l).
Proof.
  induction l as [|q r IH]; [intros _ []|]. cbn [find_pat].
  destruct (N.eqb (p_ser q) k) eqn:E; [discriminate|].
  intros H [Hq|Hr]; [apply N.eqb_neq in E; congruence|exact (IH H Hr)].
Qed.

Lemma aexcl_absent k t r : ~ In k (map p_ser r) -> map (aexcl k t) (map abs_pat r) = map abs_pat r.
Proof.
  induction r as [|q r IH]; [reflexivity|]. intro H. cbn [map].
  rewrite IH by (intro Hr; apply H; right; exact Hr). f_equal.
  unfold aexcl. change (a_ser (abs_pat q)) with (p_ser q).
  destruct (N.eqb (p_ser q) k) eqn:E; [|reflexivity].
  apply N.eqb_eq in E. exfalso. apply H. left. exact E.
Qed.

Lemma upd_pat_abs t k l p :
  NoDup (map p_ser l) -> find_pat k l = Some p ->
  map abs_pat (upd_pat (excl t p) l) = map (aexcl k t) (map abs_pat l).
Proof.
  induction l as [|q r IH]; [discriminate|]. intros Hnd Hf.
  cbn [map] in Hnd. apply NoDup_cons_iff in Hnd as [Hq Hnd].
  assert (Hk : p_ser p = k) by (apply (find_pat_some k (q :: r) p Hf)).
  cbn [find_pat] in Hf. cbn [upd_pat]. change (p_ser (excl t p)) with (p_ser p). rewrite Hk.
  destruct (N.eqb (p_ser q) k) eqn:E.
  - injection Hf as <-. apply N.eqb_eq in E. cbn [map].
    rewrite aexcl_absent by (rewrite <- E; exact Hq). f_equal.
    unfold aexcl. change (a_ser (abs_pat q)) with (p_ser q).
    rewrite (proj2 (N.eqb_eq _ _) E). reflexivity.
  - cbn [map]. rewrite (IH Hnd Hf). f_equal.
    unfold aexcl. change (a_ser (abs_pat q)) with (p_ser q). rewrite E. reflexivity.
Qed.

Lemma upd_pat_sers q l : map p_ser (upd_pat q l) = map p_ser l.
Proof.
  induction l as [|p r IH]; [reflexivity|]. cbn [upd_pat].
  destruct (N.eqb (p_ser p) (p_ser q)) eqn:E; cbn [map].
  - apply N.eqb_eq in E. rewrite E. reflexivity.
  - rewrite IH. reflexivity.
Qed.

Lemma upd_pat_Forall (P : pat -> Prop) q l : P q -> Forall P l -> Forall P (upd_pat q l).
Proof.
  intros Hq. induction l as [|p r IH]; intro H; [constructor|]. inversion H; subst. cbn [upd_pat].
  destruct (N.eqb (p_ser p) (p_ser q)); constructor; auto.
Qed.

Lemma filter_absent k r :
  ~ In k (map p_ser r) ->
  filter (fun y => negb (N.eqb (a_ser y) k)) (map abs_pat r) = map abs_pat r.
Proof.
  induction r as [|q r IH]; [reflexivity|]. intro H. cbn [map filter].
  change (a_ser (abs_pat q)) with (p_ser q).
  destruct (N.eqb (p_ser q) k) eqn:E.
  - apply N.eqb_eq in E. exfalso. apply H. left. exact E.
  - cbn [negb]. rewrite IH by (intro Hr; apply H; right; exact Hr). reflexivity.
Qed.

Lemma del_pat_abs k l :
  NoDup (map p_ser l) ->
  map abs_pat (del_pat k l) = filter (fun y => negb (N.eqb (a_ser y) k)) (map abs_pat l).
Proof.
  induction l as [|q r IH]; [reflexivity|]. intros Hnd.
  cbn [map] in Hnd. apply NoDup_cons_iff in Hnd as [Hq Hnd].
  cbn [del_pat map filter]. change (a_ser (abs_pat q)) with (p_ser q).
  destruct (N.eqb (p_ser q) k) eqn:E.
  - apply N.eqb_eq in E. cbn [negb]. rewrite filter_absent by (rewrite <- E; exact Hq). reflexivity.
  - cbn [negb map]. rewrite (IH Hnd). reflexivity.
Qed.

Lemma del_pat_incl k l p : In p (del_pat k l) -> In p l.
Proof.
  induction l as [|q r IH]; [intros []|]. cbn [del_pat].
  destruct (N.eqb (p_ser q) k); [intro H; right; exact H|].
  intros [<-|H]; [left; reflexivity|right; exact (IH H)].
Qed.

Lemma del_pat_nodup k l : NoDup (map p_ser l) -> NoDup (map p_ser (del_pat k l)).
Proof.
  induction l as [|q r IH]; [intros _; constructor|]. intros Hnd.
  cbn [map] in Hnd. apply NoDup_cons_iff in Hnd as [Hq Hnd]. cbn [del_pat].
  destruct (N.eqb (p_ser q) k); [exact Hnd|]. cbn [map]. constructor; [|exact (IH Hnd)].
  intro H. apply Hq. apply in_map_iff in H as (p & Hp & Hin). apply in_map_iff.
  exists p. split; [exact Hp|exact (del_pat_incl k r p Hin)].
Qed.

Lemma del_pat_Forall (P : pat -> Prop) k l : Forall P l -> Forall P (del_pat k l).
Proof.
  rewrite !Forall_forall. intros H p Hp. apply H. exact (del_pat_incl k l p Hp).
Qed.

(* ------------------------------------------------------------------------------------ *)
(* 3. The static store against the bag *)

Lemma in_list_In x l : in_list x l = true <-> In x l.
Proof.
  unfold in_list. rewrite existsb_exists. split.
  - intros (y & Hy & E). apply ivl_eqb_eq in E. subst y. exact Hy.
  - intro H. exists x. split; [exact H|apply ivl_eqb_refl].
Qed.

Lemma sl_remove1_perm x l : In x l -> Permutation l (x :: sl_remove1 x l).
Proof.
  induction l as [|y r IH]; [intros []|]. intro H. cbn [sl_remove1].
  destruct (ivl_eqb x y) eqn:E.
  - apply ivl_eqb_eq in E. subst y. reflexivity.
  - destruct H as [H|H]; [subst y; rewrite ivl_eqb_refl in E; discriminate|].
    rewrite perm_swap. constructor. exact (IH H).
Qed.

Lemma sl_remove1_incl x l y : In y (sl_remove1 x l) -> In y l.
Proof.
  induction l as [|z r IH]; [intros []|]. cbn [sl_remove1].
  destruct (ivl_eqb x z); [intro H; right; exact H|].
  intros [<-|H]; [left; reflexivity|right; exact (IH H)].
Qed.

Lemma sl_remove1_sorted x l : sorted_key l = true -> sorted_key (sl_remove1 x l) = true.
Proof.
  rewrite !sorted_key_P. induction l as [|z r IH]; [tauto|]. intros [H1 H2]. cbn [sl_remove1].
  destruct (ivl_eqb x z); [exact H2|]. split; [|exact (IH H2)].
  intros y Hy. apply H1. exact (sl_remove1_incl x r y Hy).
Qed.

Lemma bag_remove_some x l l' : bag_remove x l = Some l' -> Permutation l (x :: l').
Proof.
  revert l'. induction l as [|y r IH]; [discriminate|]. intros l'. cbn [bag_remove].
  destruct (ivl_eqb x y) eqn:E.
  - intro H. injection H as <-. apply ivl_eqb_eq in E. subst y. reflexivity.
  - destruct (bag_remove x r) as [r'|] eqn:Er; [|discriminate].
    intro H. injection H as <-. rewrite perm_swap. constructor. exact (IH r' eq_refl).
Qed.

Lemma bag_remove_none x l : bag_remove x l = None -> ~ In x l.
Proof.
  induction l as [|y r IH]; [intros _ []|]. cbn [bag_remove].
  destruct (ivl_eqb x y) eqn:E; [discriminate|].
  destruct (bag_remove x r) as [r'|] eqn:Er; [discriminate|].
  intros _ [H|H]; [subst y; rewrite ivl_eqb_refl in E; discriminate|exact (IH eq_refl H)].
Qed.

(* remove(Interval) on a static event: same flag, related results *)
Lemma remove_static_sim m s ev :
  R m s ->
  match bag_remove ev (a_bag s) with
  | Some bag' => snd (remove_static m ev) = true /\
                 R (fst (remove_static m ev)) (mkA bag' (a_series s) (a_count s))
  | None => remove_static m ev = (m, false)
  end.
Proof.
  intros [H1 H2 H3 H4 H5 H6]. unfold remove_static.
  destruct (bag_remove ev (a_bag s)) as [bag'|] eqn:Eb.
  - assert (Hin : In ev (m_static m)).
    { apply (Permutation_in ev (Permutation_sym H2)).
      apply (Permutation_in ev (Permutation_sym (bag_remove_some _ _ _ Eb))). left. reflexivity. }
    rewrite (proj2 (in_list_In ev (m_static m)) Hin). cbn [fst snd]. split; [reflexivity|].
    constructor; cbn [m_static m_pats m_seq a_bag a_series a_count]; auto.
    + apply sl_remove1_sorted. exact H1.
    + apply (Permutation_cons_inv (a := ev)).
      rewrite <- (sl_remove1_perm ev (m_static m) Hin), H2. apply bag_remove_some. exact Eb.
  - destruct (in_list ev (m_static m)) eqn:Ei; [|reflexivity].
    exfalso. apply (bag_remove_none _ _ Eb). apply (Permutation_in ev H2).
    apply in_list_In. exact Ei.
Qed.

(* ------------------------------------------------------------------------------------ *)
(* 4. Integer ranges and the occurrences of a pattern *)

Definition zrange (lo : Z) (c : nat) : list Z := map (fun k => lo + Z.of_nat k) (seq 0 c).

Lemma zrange_S lo c : zrange lo (S c) = lo :: zrange (lo + 1) c.
Proof.
  unfold zrange. cbn [seq map]. f_equal; [lia|].
  rewrite <- seq_shift, map_map. apply map_ext. intro k. lia.
Qed.

Lemma In_zrange n lo c : In n (zrange lo c) <-> lo <= n < lo + Z.of_nat c.
Proof.
  unfold zrange. rewrite in_map_iff. split.
  - intros (k & <- & Hk). apply in_seq in Hk. lia.
  - intro H. exists (Z.to_nat (n - lo)). split; [lia|]. apply in_seq. lia.
Qed.

Lemma zrange_app lo c1 c2 : zrange lo (c1 + c2) = zrange lo c1 ++ zrange (lo + Z.of_nat c1) c2.
Proof.
  revert lo. induction c1 as [|c1 IH]; intro lo.
  - cbn [Nat.add]. change (Z.of_nat 0) with 0. rewrite Z.add_0_r. reflexivity.
  - cbn [Nat.add]. rewrite !zrange_S, IH. cbn [app]. do 3 f_equal. lia.
Qed.

Lemma flat_map_all_nil {A B} (h : A -> list B) l : (forall x, In x l -> h x = []) -> flat_map h l = [].
Proof.
  induction l as [|x r IH]; [reflexivity|]. intro H. cbn [flat_map].
  rewrite (H x (or_introl eq_refl)), IH; [reflexivity|]. intros y Hy. apply H. right. exact Hy.
Qed.

(* a function that vanishes outside a sub-range can be summed over the sub-range *)
Lemma flat_map_zrange_shrink {B} (h : Z -> list B) lo c lo' c' :
  lo <= lo' -> lo' + Z.of_nat c' <= lo + Z.of_nat c ->
  (forall n, ~ (lo' <= n < lo' + Z.of_nat c') -> h n = []) ->
  flat_map h (zrange lo c) = flat_map h (zrange lo' c').
Proof.
  intros H1 H2 Hv.
  set (k1 := Z.to_nat (lo' - lo)). set (k3 := (c - k1 - c')%nat).
  assert (Ec : c = (k1 + (c' + k3))%nat) by lia.
  rewrite Ec, !zrange_app, !flat_map_app.
  replace (lo + Z.of_nat k1) with lo' by lia.
  rewrite (flat_map_all_nil h (zrange lo k1)), (flat_map_all_nil h (zrange _ k3)).
  - rewrite app_nil_r. reflexivity.
  - intros n Hn. apply In_zrange in Hn. apply Hv. lia.
  - intros n Hn. apply In_zrange in Hn. apply Hv. lia.
Qed.

Lemma occ_from_map p n c : occ_from p n c = map (occ_n p) (zrange n c).
Proof.
  revert n. induction c as [|c IH]; intro n; [reflexivity|].
  cbn [occ_from]. rewrite zrange_S, IH. reflexivity.
Qed.

Lemma fstart_occ p n : fstart (occ_n p n) = n * p_period p + p_phase p.
Proof. reflexivity. Qed.
Lemma fend_occ p n : fend (occ_n p n) = n * p_period p + p_phase p + p_dur p.
Proof. reflexivity. Qed.
Lemma aocc_abs p n : aocc (abs_pat p) n = occ_n p n.
Proof. reflexivity. Qed.

(* the two index bounds of _fetch_forward *)
Lemma nmin_spec P x n : 0 < P -> (x / P + 1 <= n <-> x < n * P).
Proof.
  intro HP. split; intro H.
  - pose proof (Z.mul_succ_div_gt x P HP) as H1. nia.
  - assert (x / P < n); [|lia]. apply Z.div_lt_upper_bound; [exact HP|lia].
Qed.

Lemma nmax_spec P x n : 0 < P -> (n <= x / P <-> n * P <= x).
Proof.
  intro HP. split; intro H.
  - pose proof (Z.mul_div_le x P HP) as H1. nia.
  - apply Z.div_le_lower_bound; [exact HP|lia].
Qed.

Definition p_nmin (p : pat) (a : Z) : Z := (a - p_dur p - p_phase p) / p_period p + 1.
Definition p_nmax (p : pat) (b : Z) : Z := (b - p_phase p) / p_period p.

Lemma pat_fetch_unfold p a b :
  pat_fetch p a b =
  filter (fun o => negb (memZ (fstart o) (p_ex p)))
         (map (occ_n p) (zrange (p_nmin p a) (Z.to_nat (p_nmax p b - p_nmin p a + 1)))).
Proof. unfold pat_fetch, p_nmin, p_nmax. cbv zeta. rewrite occ_from_map. reflexivity. Qed.

(* (i) what pat_fetch returns: the occurrences not excluded that end after a and start at or
   before b (inclusive: an occurrence that merely starts at b is fetched, then clipped away) *)
Theorem pat_fetch_in p a b o :
  0 < p_period p ->
  (In o (pat_fetch p a b) <->
   exists n, o = occ_n p n /\ memZ (fstart o) (p_ex p) = false /\ a < fend o /\ fstart o <= b).
Proof.
  intro HP. rewrite pat_fetch_unfold, filter_In, in_map_iff. split.
  - intros ((n & <- & Hn) & Hex). apply In_zrange in Hn. exists n.
    split; [reflexivity|]. split; [destruct (memZ _ _); [discriminate|reflexivity]|].
    rewrite fstart_occ, fend_occ.
    assert (H1 : p_nmin p a <= n) by lia. assert (H2 : n <= p_nmax p b) by lia.
    apply (nmin_spec _ _ _ HP) in H1. apply (nmax_spec _ _ _ HP) in H2. lia.
  - intros (n & -> & Hex & Ha & Hb). rewrite fstart_occ in *. rewrite fend_occ in Ha.
    split; [|rewrite Hex; reflexivity]. exists n. split; [reflexivity|]. apply In_zrange.
    assert (H1 : p_nmin p a <= n) by (apply (nmin_spec _ _ _ HP); lia).
    assert (H2 : n <= p_nmax p b) by (apply (nmax_spec _ _ _ HP); lia). lia.
Qed.

(* (ii) remove(instance): the test of _remove_recurring_instance is is_occurrence *)
Theorem instance_test p t :
  0 < p_period p -> 0 < p_dur p ->
  existsb (fun o => fstart o =? t) (pat_fetch p t (t + 1)) = is_occurrence (abs_pat p) t.
Proof.
  intros HP HD. apply eq_iff_eq_true. rewrite existsb_exists. unfold is_occurrence.
  change (a_phase (abs_pat p)) with (p_phase p). change (a_period (abs_pat p)) with (p_period p).
  change (a_removed (abs_pat p)) with (p_ex p). rewrite andb_true_iff, negb_true_iff, Z.eqb_eq. split.
  - intros (o & Ho & Et). apply (pat_fetch_in p t (t + 1) o HP) in Ho as (n & -> & Hex & _ & _).
    apply Z.eqb_eq in Et. rewrite Et in Hex. split; [|exact Hex].
    rewrite fstart_occ in Et. replace (t - p_phase p) with (n * p_period p) by lia.
    apply Z_mod_mult.
  - intros [Hm Hex]. set (n := (t - p_phase p) / p_period p).
    assert (En : t - p_phase p = p_period p * n).
    { apply Z_div_exact_full_2; [lia|exact Hm]. }
    exists (occ_n p n). assert (Es : fstart (occ_n p n) = t) by (rewrite fstart_occ; lia).
    split; [|apply Z.eqb_eq; exact Es].
    apply (pat_fetch_in p t (t + 1) _ HP). exists n. split; [reflexivity|].
    rewrite fend_occ, Es. split; [exact Hex|]. lia.
Qed.

(* remove(Interval) on an instance of a series: same flag, related results *)
Lemma remove_instance_sim m s ev :
  R m s ->
  match afind (series_of ev) (a_series s), st ev with
  | Some x, Some t =>
    if is_occurrence x t
    then snd (remove_instance m ev) = true /\
         R (fst (remove_instance m ev))
           (mkA (a_bag s)
                (map (fun y => if N.eqb (a_ser y) (a_ser x)
                               then mkAS (a_ser y) (a_period y) (a_phase y) (a_dur y) (a_tag y)
                                         (t :: a_removed y)
                               else y) (a_series s))
                (a_count s))
    else remove_instance m ev = (m, false)
  | _, _ => remove_instance m ev = (m, false)
  end.
Proof.
  intros [H1 H2 H3 H4 H5 H6]. unfold remove_instance. rewrite H4, afind_map.
  destruct (find_pat (series_of ev) (m_pats m)) as [p|] eqn:Ef; cbn [option_map]; [|reflexivity].
  destruct (st ev) as [t|]; [|reflexivity].
  destruct (find_pat_some _ _ _ Ef) as [Hin Hk].
  assert (Hp : pat_ok (m_seq m) p) by exact (proj1 (Forall_forall _ _) H6 p Hin).
  destruct Hp as (Hb & HP & HD). rewrite (instance_test p t HP HD).
  destruct (is_occurrence (abs_pat p) t); [|reflexivity]. cbn [fst snd]. split; [reflexivity|].
  constructor; cbn [m_static m_pats m_seq a_bag a_series a_count]; auto.
  - change (a_ser (abs_pat p)) with (p_ser p). rewrite <- Hk in Ef. symmetry.
    exact (upd_pat_abs t (p_ser p) (m_pats m) p H5 Ef).
  - rewrite upd_pat_sers. exact H5.
  - apply upd_pat_Forall; [|exact H6]. repeat split; assumption.
Qed.

(* ------------------------------------------------------------------------------------ *)
(* 5. One write step: the relation is kept and the flag is the abstract machine's *)

Definition is_slice (o : mop) : bool := match o with MSlice _ _ _ => true | _ => false end.

Theorem write_step_sim m s o :
  R m s -> op_ok o -> is_slice o = false ->
  exists f, snd (astep s o) = Some f /\ snd (mstep m o) = ([f], []) /\
            R (fst (mstep m o)) (fst (astep s o)).
Proof.
  intros HR Hok Hs. destruct o as [ev|period phase dur tag|ev|ev|a b rv]; [| | | |discriminate].
  - (* add(Interval) *)
    exists true. cbn [astep mstep fst snd]. split; [reflexivity|]. split; [reflexivity|].
    destruct HR as [H1 H2 H3 H4 H5 H6].
    constructor; cbn [m_static m_pats m_seq a_bag a_series a_count]; auto.
    + apply sl_add_sorted. exact H1.
    + rewrite sl_add_perm. constructor. exact H2.
  - (* add(RecurringPattern) *)
    exists true. cbn [astep mstep fst snd]. split; [reflexivity|]. split; [reflexivity|].
    destruct HR as [H1 H2 H3 H4 H5 H6]. destruct Hok as [HP HD].
    constructor; cbn [m_static m_pats m_seq a_bag a_series a_count]; auto.
    + rewrite H3. reflexivity.
    + rewrite H4, map_app, <- H3. reflexivity.
    + rewrite map_app. cbn [map p_ser].
      apply (Permutation_NoDup (Permutation_cons_append _ _)). constructor; [|exact H5].
      intro Hin. apply in_map_iff in Hin as (q & Hq & Hin).
      destruct (proj1 (Forall_forall _ _) H6 q Hin) as (Hb & _). lia.
    + apply Forall_app. split.
      * eapply Forall_impl; [|exact H6]. intros q (Hb & Hq). split; [lia|exact Hq].
      * constructor; [|constructor]. unfold pat_ok. cbn [p_ser p_period p_dur]. lia.
  - (* remove(Interval) *)
    cbn [astep mstep]. pose proof (remove_static_sim m s ev HR) as Hst.
    destruct (bag_remove ev (a_bag s)) as [bag'|].
    { destruct (remove_static m ev) as [m' ok]. cbn [fst snd] in *. destruct Hst as [-> Hst].
      exists true. auto. }
    rewrite Hst. destruct (N.eqb (series_of ev) 0) eqn:E0.
    + exists false. cbn [fst snd]. auto.
    + pose proof (remove_instance_sim m s ev HR) as H.
      destruct (afind (series_of ev) (a_series s)) as [x|].
      2:{ rewrite H. exists false. cbn [fst snd]. auto. }
      destruct (st ev) as [t|].
      2:{ rewrite H. exists false. cbn [fst snd]. auto. }
      destruct (is_occurrence x t).
      * destruct (remove_instance m ev) as [m' ok]. cbn [fst snd] in *. destruct H as [-> H].
        exists true. auto.
      * rewrite H. exists false. cbn [fst snd]. auto.
  - (* remove_series(Interval) *)
    cbn [astep mstep]. destruct (N.eqb (series_of ev) 0) eqn:E0.
    + pose proof (remove_static_sim m s ev HR) as H.
      destruct (bag_remove ev (a_bag s)) as [bag'|].
      * destruct (remove_static m ev) as [m' ok]. cbn [fst snd] in *. destruct H as [-> H].
        exists true. auto.
      * rewrite H. exists false. cbn [fst snd]. auto.
    + destruct HR as [H1 H2 H3 H4 H5 H6]. rewrite H4, afind_map.
      destruct (find_pat (series_of ev) (m_pats m)) as [p|] eqn:Ef; cbn [option_map].
      * exists true. cbn [fst snd]. split; [reflexivity|]. split; [reflexivity|].
        destruct (find_pat_some _ _ _ Ef) as [Hin Hk].
        constructor; cbn [m_static m_pats m_seq a_bag a_series a_count]; auto.
        -- change (a_ser (abs_pat p)) with (p_ser p). rewrite Hk. symmetry. apply del_pat_abs. exact H5.
        -- apply del_pat_nodup. exact H5.
        -- apply del_pat_Forall. exact H6.
      * exists false. cbn [fst snd]. split; [reflexivity|]. split; [reflexivity|].
        constructor; auto.
Qed.

(* "an unsuccessful removal changes nothing", literally, in the model ... *)
Theorem mstep_failed_unchanged m o : fst (snd (mstep m o)) = [false] -> fst (mstep m o) = m.
Proof.
  destruct o as [ev|period phase dur tag|ev|ev|a b rv]; cbn [mstep fst snd]; try discriminate.
  - unfold remove_static. destruct (in_list ev (m_static m)); cbn [fst snd]; [discriminate|].
    destruct (N.eqb (series_of ev) 0); [reflexivity|].
    unfold remove_instance. destruct (find_pat (series_of ev) (m_pats m)) as [p|]; [|reflexivity].
    destruct (st ev) as [t|]; [|reflexivity].
    destruct (existsb _ _); cbn [fst snd]; [discriminate|reflexivity].
  - destruct (N.eqb (series_of ev) 0).
    + unfold remove_static. destruct (in_list ev (m_static m)); cbn [fst snd]; [discriminate|reflexivity].
    + destruct (find_pat (series_of ev) (m_pats m)) as [p|]; cbn [fst snd]; [discriminate|reflexivity].
Qed.

(* ... and in the abstract machine *)
Theorem astep_failed_unchanged s o : snd (astep s o) = Some false -> fst (astep s o) = s.
Proof.
  destruct o as [ev|period phase dur tag|ev|ev|a b rv]; cbn [astep fst snd]; try discriminate.
  - destruct (bag_remove ev (a_bag s)); cbn [fst snd]; [discriminate|].
    destruct (N.eqb (series_of ev) 0); [reflexivity|].
    destruct (afind (series_of ev) (a_series s)) as [x|]; [|reflexivity].
    destruct (st ev) as [t|]; [|reflexivity].
    destruct (is_occurrence x t); cbn [fst snd]; [discriminate|reflexivity].
  - destruct (N.eqb (series_of ev) 0).
    + destruct (bag_remove ev (a_bag s)); cbn [fst snd]; [discriminate|reflexivity].
    + destruct (afind (series_of ev) (a_series s)) as [x|]; cbn [fst snd]; [discriminate|reflexivity].
Qed.

(* a slice never changes the state *)
Lemma mstep_slice m a b rv : mstep m (MSlice a b rv) = (m, ([], mslice m a b rv)).
Proof. reflexivity. Qed.

Print Assumptions R_init.
Print Assumptions pat_fetch_in.
Print Assumptions instance_test.
Print Assumptions write_step_sim.
Print Assumptions mstep_failed_unchanged.
Print Assumptions astep_failed_unchanged.
