(* Proofs/GenEq_filt2.v — tie C (third extension, tag "filt") for the operator dispatch of calgebra/core.py:
   Timeline.__or__ / __and__ / __sub__ / __invert__, Filter.__or__ / __and__ (which node class is built for
   which operand kinds, and when TypeError is raised), _flatten_sources, the constructors of Union /
   Intersection / Difference / Complement / Filtered / Or / And, and _is_mask of every node class — the
   definitions generated from their source text against Model/Expr.v (or_, and_, sub_, inv_, is_mask, the
   constructors of expr) and Model/Slice.v (or_kind, and_kind).  No hypotheses anywhere. *)
From CG Require Import Model.Slice Model.Loop Model.FiltVal Gen.Source.
From Coq Require Import ZArith List Bool Lia.

(* _flatten_sources(sources, cls) *)
Theorem g_flatten_sources_eq : forall (TL : Type) (is_cls : TL -> bool) (srcs : TL -> list TL) (l : list TL),
  g_flatten_sources_f is_cls srcs l = flat_map (fun e => if is_cls e then srcs e else [e]) l.
Proof.
  intros TL is_cls srcs l. unfold g_flatten_sources_f. cbv zeta.
  match goal with |- iter_for ?body ?post _ _ = _ =>
    assert (H : forall acc, iter_for body post acc l =
                            acc ++ flat_map (fun e => if is_cls e then srcs e else [e]) l) end.
  { induction l as [|x r IH]; intros acc; cbn [iter_for flat_map].
    - rewrite app_nil_r. reflexivity.
    - destruct (is_cls x); rewrite IH, <- app_assoc; reflexivity. }
  apply (H []).
Qed.
Print Assumptions g_flatten_sources_eq.

(* the model's reading of `isinstance(x, Union)` / `x.sources` *)
Definition is_union (e : expr) : bool := match e with Union _ => true | _ => false end.
Definition is_inter (e : expr) : bool := match e with Inter _ => true | _ => false end.
Definition node_sources (e : expr) : list expr := match e with Union l => l | Inter l => l | _ => [] end.

(* the objects the constructors build: the model's constructor applied to the attributes the translated
   __init__ stores (the first arguments are the attributes' values before: irrelevant) *)
Definition ctor_union (a b : expr) : expr := Union (g_union_init_f is_union node_sources [] [a; b]).
Definition ctor_inter (a b : expr) : expr := Inter (g_intersection_init_f is_inter node_sources [] [a; b]).
Definition ctor_diff (a b : expr) : expr := let '(s, subs) := g_difference_init_f a [] a [b] in Diff s subs.
Definition ctor_compl (a : expr) : expr := Compl (g_complement_init_f a a).
Definition ctor_filtered (s : expr) (f : filt) : expr := let '(s', f') := g_filtered_init_f s f s f in Filt s' f'.
Definition ctor_fand (a b : filt) : filt := FAnd (g_and_init [] [a; b]).
Definition ctor_for (a b : filt) : filt := FOr (g_or_init [] [a; b]).

Theorem g_init_eqs :
  (forall (TL : Type) (isu : TL -> bool) srcs junk l,
     g_union_init_f isu srcs junk l = flat_map (fun e => if isu e then srcs e else [e]) l) /\
  (forall (TL : Type) (isi : TL -> bool) srcs junk l,
     g_intersection_init_f isi srcs junk l = flat_map (fun e => if isi e then srcs e else [e]) l) /\
  (forall (TL : Type) (j1 : TL) j2 s subs, g_difference_init_f j1 j2 s subs = (s, subs)) /\
  (forall (TL : Type) (j : TL) s, g_complement_init_f j s = s) /\
  (forall (TL FILT : Type) (j1 : TL) (j2 : FILT) s f, g_filtered_init_f j1 j2 s f = (s, f)) /\
  (forall (FILT : Type) (j l : list FILT), g_and_init j l = l) /\
  (forall (FILT : Type) (j l : list FILT), g_or_init j l = l).
Proof.
  repeat split; intros; try reflexivity.
  - unfold g_union_init_f. apply g_flatten_sources_eq.
  - unfold g_intersection_init_f. apply g_flatten_sources_eq.
Qed.
Print Assumptions g_init_eqs.

Lemma ctor_union_eq a b : ctor_union a b = or_ a b.
Proof.
  unfold ctor_union, g_union_init_f. rewrite g_flatten_sources_eq. cbn [flat_map]. rewrite app_nil_r.
  unfold or_. destruct a, b; reflexivity.
Qed.
Lemma ctor_inter_eq a b : ctor_inter a b = and_ a b.
Proof.
  unfold ctor_inter, g_intersection_init_f. rewrite g_flatten_sources_eq. cbn [flat_map]. rewrite app_nil_r.
  unfold and_. destruct a, b; reflexivity.
Qed.

(* Timeline.__or__ / __and__ / __sub__ / __invert__: `other` is a Timeline (inl) or a Filter (inr) *)
Theorem g_timeline_or_eq : forall a (other : expr + filt),
  g_timeline_or ctor_union a other = match other with inl b => RDone (or_ a b) | inr _ => RRaise TypeError end.
Proof. intros a [b|f]; cbn [g_timeline_or]; unfold g_timeline_or; [rewrite ctor_union_eq|]; reflexivity. Qed.
Print Assumptions g_timeline_or_eq.

Theorem g_timeline_and_eq : forall a (other : expr + filt),
  g_timeline_and ctor_filtered ctor_inter a other = match other with inl b => and_ a b | inr f => Filt a f end.
Proof. intros a [b|f]; unfold g_timeline_and; [apply ctor_inter_eq | reflexivity]. Qed.
Print Assumptions g_timeline_and_eq.

Theorem g_timeline_sub_eq : forall a b, g_timeline_sub ctor_diff a b = sub_ a b.
Proof. reflexivity. Qed.
Print Assumptions g_timeline_sub_eq.

Theorem g_timeline_invert_eq : forall a, g_timeline_invert ctor_compl a = inv_ a.
Proof. reflexivity. Qed.
Print Assumptions g_timeline_invert_eq.

(* Filter.__or__ / __and__ on the filters of Model/Expr.v *)
Theorem g_filter_or_expr_eq : forall (f : filt) (other : expr + filt),
  g_filter_or ctor_for f other = match other with inl _ => RRaise TypeError | inr g => RDone (FOr [f; g]) end.
Proof. intros f [t|g]; reflexivity. Qed.
Print Assumptions g_filter_or_expr_eq.

Theorem g_filter_and_expr_eq : forall (f : filt) (other : expr + filt),
  g_filter_and ctor_filtered ctor_fand f other =
  match other with inl t => inl (Filt t f) | inr g => inr (FAnd [f; g]) end.
Proof. intros f [t|g]; reflexivity. Qed.
Print Assumptions g_filter_and_expr_eq.

(* operator typing (Model/Slice.v: or_kind, and_kind) read off the generated dispatch, whatever the
   constructors are *)
Definition okind_of {A B : Type} (x : A + B) : okind := match x with inl _ => KTimeline | inr _ => KFilter end.
Definition kind_res {A : Type} (r : res A) (k : okind) : pyerr + okind :=
  match r with RDone _ => inr k | RRaise Loop.TypeError => inl Slice.TypeError | _ => inl Slice.ValueError end.

Theorem src_operator_kinds : forall (TL FILT : Type) (mku mki : TL -> TL -> TL) (mkf : TL -> FILT -> TL)
                                    (mko mka : FILT -> FILT -> FILT) (t : TL) (f : FILT) (other : TL + FILT),
  kind_res (g_timeline_or mku t other) KTimeline = or_kind KTimeline (okind_of other) /\
  kind_res (g_filter_or mko f other) KFilter = or_kind KFilter (okind_of other) /\
  inr KTimeline = and_kind KTimeline (okind_of other) /\
  inr (okind_of (g_filter_and mkf mka f other)) = and_kind KFilter (okind_of other).
Proof. intros. destruct other; repeat split; reflexivity. Qed.
Print Assumptions src_operator_kinds.

(* _is_mask: the model's is_mask is the recursion through the generated per-class properties
   (Stored = MemoryTimeline, Buf = _Buffered, MergeW = _MergedWithin inherit Timeline._is_mask) *)
Fixpoint src_is_mask (e : expr) : bool :=
  match e with
  | Stored _ => g_is_mask_base
  | Solid => g_is_mask_solid
  | Union es => g_is_mask_union src_is_mask es
  | Inter es => g_is_mask_intersection src_is_mask es
  | Diff s _ => g_is_mask_difference src_is_mask s
  | Compl _ => g_is_mask_complement
  | Filt s _ => g_is_mask_filtered src_is_mask s
  | Buf _ _ _ => g_is_mask_base
  | MergeW _ _ => g_is_mask_base
  end.

Theorem is_mask_is_source : forall e, is_mask e = src_is_mask e.
Proof.
  (* the two fixpoints have convertible bodies once the generated properties are unfolded *)
  intros e. destruct e; reflexivity.
Qed.
Print Assumptions is_mask_is_source.

(* the emit selection of Intersection.fetch reads these flags: the mask of `t & solid` (slicing) *)
Example src_dispatch_nonvacuous :
  let a := Stored [mkI (Some 0) (Some 5) (Rich 1)] in
  let f := FCmp (PDur 3600) Ge (VInt 1) in
  g_timeline_or ctor_union (Union [a; Solid]) (inl (Union [Compl a; a]) : expr + filt)
    = RDone (Union [a; Solid; Compl a; a]) /\
  g_timeline_and ctor_filtered ctor_inter a (inr f) = Filt a f /\
  g_timeline_or ctor_union a (inr f) = RRaise TypeError /\
  src_is_mask (Inter [Compl a; Filt Solid f]) = true /\ src_is_mask (Diff a [Solid]) = false.
Proof. vm_compute. repeat split; reflexivity. Qed.
