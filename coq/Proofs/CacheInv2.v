(* Proofs/CacheInv2.v — C09 for Model/Cache.v: the sink invariant (T4) through eviction
   (_purge_sink), gap filling (_fill_gap) and stitching (_stitch_at), and the observational
   theorem (T5) for a static keyed source; non-vacuity examples.
   Part 1: multiset characterisations of stitch_at, purge_sink and the clipping loop.
   Part 2: the invariant [sink_sem] and its preservation by each of the three operations.
   Part 3: states, queries, histories. *)
From CG Require Import Proofs.Defs Proofs.Stored Proofs.Diff Proofs.Merge Proofs.RefSpec Model.Cache Proofs.CacheInv.

(* ==================================== Part 1 ==================================== *)
(* Multiset characterisation of [stitch_at] (cache.py: _stitch_at) for a keyed cache, masked = false. *)

Definition merged_of (fl : bool) (lr : ivl * ivl) : ivl :=
  mkI (st (fst lr)) (en (snd lr)) (pl (if fl then fst lr else snd lr)).

Definition frag_ok (f : ivl) : Prop :=
  st f = Some (fstart f) /\ en f = Some (fend f) /\ fstart f < fend f /\ key_of f <> None.

(* ---------- sl_remove ---------- *)
Lemma sl_remove_perm x l : In x l -> Permutation l (x :: sl_remove x l).
Proof.
  induction l as [|y r IH]; simpl; [intros []|].
  intros H. destruct (ivl_eqb x y) eqn:E.
  - apply ivl_eqb_eq in E. subst. reflexivity.
  - destruct H as [H|H]; [subst; rewrite ivl_eqb_refl in E; discriminate|].
    eapply perm_trans; [apply perm_skip, IH, H|apply perm_swap].
Qed.

Lemma sl_remove_incl x l z : In z (sl_remove x l) -> In z l.
Proof.
  induction l as [|y r IH]; simpl; [intros []|].
  destruct (ivl_eqb x y); [intro H; right; exact H|].
  intros [H|H]; [left; exact H|right; apply IH, H].
Qed.

Lemma sl_remove_sortedP x l : sortedP l -> sortedP (sl_remove x l).
Proof.
  induction l as [|y r IH]; simpl; [tauto|].
  intros [H1 H2]. destruct (ivl_eqb x y); [exact H2|].
  simpl. split; [|apply IH, H2]. intros z Hz. apply H1. eapply sl_remove_incl, Hz.
Qed.

Lemma sl_remove_sorted x l : sorted_key l = true -> sorted_key (sl_remove x l) = true.
Proof. rewrite !sorted_key_P. apply sl_remove_sortedP. Qed.

(* ---------- keys ---------- *)
Lemma okey_eqb_eq k k' : okey_eqb k k' = true <-> k = k'.
Proof.
  destruct k as [x|], k' as [y|]; simpl; try (split; congruence).
  rewrite N.eqb_eq. split; congruence.
Qed.

Lemma okey_eqb_refl k : okey_eqb k k = true.
Proof. apply okey_eqb_eq. reflexivity. Qed.

Definition upd_key (k : option N) (i : ivl) :=
  fix upd (a : list (option N * ivl)) : list (option N * ivl) :=
    match a with
    | [] => [(k, i)]
    | (k', j) :: a' =>
      if (match k, k' with Some x, Some y => N.eqb x y | None, None => true | _, _ => false end)
      then (k', i) :: a' else (k', j) :: upd a'
    end.

Lemma by_key_cons i r acc : by_key (i :: r) acc = by_key r (upd_key (key_of i) i acc).
Proof. reflexivity. Qed.

Lemma upd_key_nil k i : upd_key k i [] = [(k, i)].
Proof. reflexivity. Qed.

Lemma upd_key_cons k i k' j a :
  upd_key k i ((k', j) :: a) = if okey_eqb k k' then (k', i) :: a else (k', j) :: upd_key k i a.
Proof. reflexivity. Qed.

Lemma upd_key_in k i a k' f :
  In (k', f) (upd_key k i a) -> In (k', f) a \/ (k' = k /\ f = i).
Proof.
  induction a as [|[k0 j] a IH].
  - rewrite upd_key_nil. intros [H|[]]. inversion H. right. split; reflexivity.
  - rewrite upd_key_cons. destruct (okey_eqb k k0) eqn:E.
    + apply okey_eqb_eq in E. subst k0. intros [H|H].
      * inversion H. right. split; reflexivity.
      * left. right. exact H.
    + intros [H|H].
      * left. left. exact H.
      * destruct (IH H) as [H'|H']; [left; right; exact H'|right; exact H'].
Qed.

Lemma upd_key_fst k i a :
  (In k (map fst a) /\ map fst (upd_key k i a) = map fst a) \/
  (~ In k (map fst a) /\ map fst (upd_key k i a) = map fst a ++ [k]).
Proof.
  induction a as [|[k0 j] a IH].
  - right. split; [intros []|reflexivity].
  - rewrite upd_key_cons. destruct (okey_eqb k k0) eqn:E.
    + apply okey_eqb_eq in E. subst k0. left. split; [left; reflexivity|reflexivity].
    + assert (Hne : k0 <> k).
      { intro Heq. subst k0. rewrite okey_eqb_refl in E. discriminate. }
      destruct IH as [[I M]|[I M]]; [left|right]; simpl; rewrite M; (split; [|reflexivity]).
      * right. exact I.
      * intros [H|H]; [apply Hne, H|apply I, H].
Qed.

Lemma upd_key_fst_mono k i a k' : In k' (map fst a) -> In k' (map fst (upd_key k i a)).
Proof.
  intro H. destruct (upd_key_fst k i a) as [[_ M]|[_ M]]; rewrite M; [exact H|].
  apply in_or_app. left. exact H.
Qed.

Lemma upd_key_fst_new k i a : In k (map fst (upd_key k i a)).
Proof.
  destruct (upd_key_fst k i a) as [[I M]|[_ M]]; rewrite M; [exact I|].
  apply in_or_app. right. left. reflexivity.
Qed.

Lemma by_key_entries l0 : forall l acc,
  (forall x, In x l -> In x l0) ->
  (forall k f, In (k, f) acc -> In f l0 /\ key_of f = k) ->
  forall k f, In (k, f) (by_key l acc) -> In f l0 /\ key_of f = k.
Proof.
  induction l as [|i r IH]; intros acc Hl Hacc k f H.
  - apply Hacc, H.
  - rewrite by_key_cons in H. eapply IH; [| |exact H].
    + intros x Hx. apply Hl. right. exact Hx.
    + intros k1 f1 H1. apply upd_key_in in H1. destruct H1 as [H1|[-> ->]]; [apply Hacc, H1|].
      split; [apply Hl; left; reflexivity|reflexivity].
Qed.

Lemma by_key_nodup l : forall acc, NoDup (map fst acc) -> NoDup (map fst (by_key l acc)).
Proof.
  induction l as [|i r IH]; intros acc H; [exact H|].
  rewrite by_key_cons. apply IH.
  destruct (upd_key_fst (key_of i) i acc) as [[_ M]|[I M]]; rewrite M; [exact H|].
  apply (Permutation_NoDup (Permutation_cons_append _ _)). constructor; assumption.
Qed.

Lemma by_key_keys_mono l : forall acc k, In k (map fst acc) -> In k (map fst (by_key l acc)).
Proof.
  induction l as [|i r IH]; intros acc k H; [exact H|].
  rewrite by_key_cons. apply IH, upd_key_fst_mono, H.
Qed.

Lemma by_key_has l : forall acc f, In f l -> In (key_of f) (map fst (by_key l acc)).
Proof.
  induction l as [|i r IH]; intros acc f H; [destruct H|].
  rewrite by_key_cons. destruct H as [<-|H].
  - apply by_key_keys_mono, upd_key_fst_new.
  - apply IH, H.
Qed.

Lemma by_key_char l :
  (forall f g, In f l -> In g l -> key_of f = key_of g -> f = g) ->
  (forall k f, In (k, f) (by_key l []) <-> In f l /\ key_of f = k) /\
  NoDup (map fst (by_key l [])).
Proof.
  intro U. split; [|apply by_key_nodup; constructor].
  assert (E : forall k f, In (k, f) (by_key l []) -> In f l /\ key_of f = k).
  { apply (by_key_entries l l []); [auto|intros k f []]. }
  intros k f. split; [apply E|].
  intros [Hf <-]. pose proof (by_key_has l [] f Hf) as H.
  apply in_map_iff in H as [[k' g] [Hk Hg]]. simpl in Hk. subst k'.
  destruct (E _ _ Hg) as [Hg1 Hg2].
  rewrite <- (U g f Hg1 Hf Hg2) at 2. exact Hg.
Qed.

Lemma lookup_some k a r : lookup_key k a = Some r -> In (k, r) a.
Proof.
  induction a as [|[k' j] a IH]; simpl; [discriminate|].
  destruct (okey_eqb k k') eqn:E.
  - apply okey_eqb_eq in E. subst k'. intro H. inversion H. left. reflexivity.
  - intro H. right. apply IH, H.
Qed.

Lemma lookup_none k a : lookup_key k a = None -> forall r, ~ In (k, r) a.
Proof.
  induction a as [|[k' j] a IH]; simpl; [intros _ r []|].
  destruct (okey_eqb k k') eqn:E; [discriminate|].
  intros H r [Hr|Hr].
  - inversion Hr. subst k'. rewrite okey_eqb_refl in E. discriminate.
  - exact (IH H r Hr).
Qed.

(* ---------- the fold of stitch_at ---------- *)
Definition stepF (fl : bool) (rk : list (option N * ivl)) (sk0 : list ivl) (kl : option N * ivl) : list ivl :=
  let '(k, l) := kl in
  match k with
  | None => sk0
  | Some _ =>
    match lookup_key k rk with
    | None => sk0
    | Some r =>
      let fresh := if fl then l else r in
      let merged := mkI (st l) (en r) (pl fresh) in
      sl_add merged (sl_remove r (sl_remove l sk0))
    end
  end.

Definition pair_of (rk : list (option N * ivl)) (kl : option N * ivl) : list (ivl * ivl) :=
  match fst kl with
  | None => []
  | Some _ => match lookup_key (fst kl) rk with None => [] | Some r => [(snd kl, r)] end
  end.

Definition pairs_of (rk es : list (option N * ivl)) : list (ivl * ivl) := flat_map (pair_of rk) es.

Local Notation flat2 := (fun lr : ivl * ivl => [fst lr; snd lr]).

Lemma fold_nil_rk fl es sk : fold_left (stepF fl []) es sk = sk.
Proof.
  induction es as [|[k l] es IH]; simpl; [reflexivity|]. destruct k; exact IH.
Qed.

Lemma stitch_at_fold p fl sk :
  stitch_at false p fl sk =
  fold_left (stepF fl (by_key (filter (fun i => oZ_eqb (st i) (Some p)) (sink_overlapping sk p)) []))
            (by_key (filter (fun i => oZ_eqb (en i) (Some p)) (sink_overlapping sk (p - 1))) []) sk.
Proof.
  unfold stitch_at. cbv beta iota zeta.
  set (L := filter (fun i => oZ_eqb (en i) (Some p)) (sink_overlapping sk (p - 1))).
  set (R := filter (fun i => oZ_eqb (st i) (Some p)) (sink_overlapping sk p)).
  destruct L as [|a L]; [reflexivity|].
  destruct R as [|b R]; [symmetry; apply fold_nil_rk|reflexivity].
Qed.

Lemma pairs_of_some rk n l r es : lookup_key (Some n) rk = Some r ->
  pairs_of rk ((Some n, l) :: es) = (l, r) :: pairs_of rk es.
Proof. intro H. unfold pairs_of, pair_of. simpl. rewrite H. reflexivity. Qed.

Lemma pairs_of_none1 rk n l es : lookup_key (Some n) rk = None ->
  pairs_of rk ((Some n, l) :: es) = pairs_of rk es.
Proof. intro H. unfold pairs_of, pair_of. simpl. rewrite H. reflexivity. Qed.

Lemma pairs_of_none2 rk l es : pairs_of rk ((None, l) :: es) = pairs_of rk es.
Proof. reflexivity. Qed.

Lemma pairs_of_in rk es l r :
  In (l, r) (pairs_of rk es) <-> exists n, In (Some n, l) es /\ lookup_key (Some n) rk = Some r.
Proof.
  unfold pairs_of. rewrite in_flat_map. split.
  - intros [[k l0] [Hin Hp]]. unfold pair_of in Hp. simpl in Hp.
    destruct k as [n|]; [|destruct Hp].
    destruct (lookup_key (Some n) rk) as [r0|] eqn:E; [|destruct Hp].
    destruct Hp as [Hp|[]]. inversion Hp. subst. exists n. split; assumption.
  - intros [n [Hin E]]. exists (Some n, l). split; [exact Hin|].
    unfold pair_of. simpl. rewrite E. left. reflexivity.
Qed.

Lemma fold_perm fl rk : forall es sk0 rest0,
  Permutation sk0 (flat_map flat2 (pairs_of rk es) ++ rest0) ->
  Permutation (fold_left (stepF fl rk) es sk0) (map (merged_of fl) (pairs_of rk es) ++ rest0).
Proof.
  induction es as [|[k l] es IH]; intros sk0 rest0 HP; [exact HP|].
  cbn [fold_left]. destruct k as [n|].
  - destruct (lookup_key (Some n) rk) as [r|] eqn:E.
    + rewrite (pairs_of_some rk n l r es E) in *.
      assert (ES : stepF fl rk sk0 (Some n, l) =
                   sl_add (merged_of fl (l, r)) (sl_remove r (sl_remove l sk0))).
      { unfold stepF. rewrite E. reflexivity. }
      rewrite ES. cbn [flat_map map fst snd app] in *.
      assert (Hl : In l sk0).
      { apply (Permutation_in _ (Permutation_sym HP)). left. reflexivity. }
      pose proof (sl_remove_perm l sk0 Hl) as P1.
      assert (P2 : Permutation (sl_remove l sk0) (r :: flat_map flat2 (pairs_of rk es) ++ rest0)).
      { apply (Permutation_cons_inv (a := l)). eapply perm_trans; [apply Permutation_sym, P1|exact HP]. }
      assert (Hr : In r (sl_remove l sk0)).
      { apply (Permutation_in _ (Permutation_sym P2)). left. reflexivity. }
      pose proof (sl_remove_perm r _ Hr) as P3.
      assert (P4 : Permutation (sl_remove r (sl_remove l sk0)) (flat_map flat2 (pairs_of rk es) ++ rest0)).
      { apply (Permutation_cons_inv (a := r)). eapply perm_trans; [apply Permutation_sym, P3|exact P2]. }
      eapply perm_trans.
      * apply (IH _ (merged_of fl (l, r) :: rest0)).
        eapply perm_trans; [apply sl_add_perm|].
        eapply perm_trans; [apply perm_skip, P4|]. apply Permutation_middle.
      * apply Permutation_sym, Permutation_middle.
    + rewrite (pairs_of_none1 rk n l es E) in *.
      assert (ES : stepF fl rk sk0 (Some n, l) = sk0).
      { unfold stepF. rewrite E. reflexivity. }
      rewrite ES. apply IH, HP.
  - rewrite pairs_of_none2 in *. apply IH, HP.
Qed.

Lemma fold_sorted fl rk : forall es sk0,
  sorted_key sk0 = true -> sorted_key (fold_left (stepF fl rk) es sk0) = true.
Proof.
  induction es as [|[k l] es IH]; intros sk0 H; [exact H|].
  cbn [fold_left]. apply IH. unfold stepF. destruct k as [n|]; [|exact H].
  destruct (lookup_key (Some n) rk) as [r|]; [|exact H].
  apply sl_add_sorted, sl_remove_sorted, sl_remove_sorted, H.
Qed.

Lemma pairs_of_nodup rk es :
  (forall k l, In (k, l) es -> key_of l = k) ->
  NoDup (map fst es) ->
  NoDup (map (fun lr : ivl * ivl => key_of (fst lr)) (pairs_of rk es)).
Proof.
  induction es as [|[k l] es IH]; intros Hes ND; [constructor|].
  simpl in ND. inversion ND as [|? ? Hnot ND']; subst.
  assert (Hes' : forall k0 l0, In (k0, l0) es -> key_of l0 = k0).
  { intros k0 l0 H0. apply Hes. right. exact H0. }
  destruct k as [n|].
  - destruct (lookup_key (Some n) rk) as [r|] eqn:E.
    + rewrite (pairs_of_some rk n l r es E). simpl. constructor; [|apply IH; assumption].
      intro H. apply in_map_iff in H as [[l' r'] [Hk Hin]]. simpl in Hk.
      apply pairs_of_in in Hin as (n' & Hin & _).
      pose proof (Hes' _ _ Hin) as K1. pose proof (Hes _ _ (or_introl eq_refl)) as K2.
      apply Hnot. rewrite <- K2, <- Hk, K1.
      apply (in_map fst _ _ Hin).
    + rewrite (pairs_of_none1 rk n l es E). apply IH; assumption.
  - rewrite pairs_of_none2. apply IH; assumption.
Qed.

(* ---------- sub-multisets ---------- *)
Lemma nodup_incl_split (l sk : list ivl) :
  NoDup l -> incl l sk -> exists rest, Permutation sk (l ++ rest).
Proof.
  revert sk. induction l as [|x l IH]; intros sk ND HI.
  - exists sk. reflexivity.
  - inversion ND as [|? ? Hx ND']; subst.
    destruct (in_split x sk (HI x (or_introl eq_refl))) as (s1 & s2 & ->).
    destruct (IH (s1 ++ s2) ND') as [rest HR].
    + intros y Hy. assert (H : In y (s1 ++ x :: s2)) by (apply HI; right; exact Hy).
      apply in_app_or in H as [H|[H|H]].
      * apply in_or_app. left. exact H.
      * subst. contradiction.
      * apply in_or_app. right. exact H.
    + exists rest. simpl. eapply perm_trans; [apply Permutation_sym, Permutation_middle|].
      apply perm_skip, HR.
Qed.

Lemma nodup_flat2 (ps : list (ivl * ivl)) :
  NoDup (map fst ps) -> NoDup (map snd ps) ->
  (forall a b, In a (map fst ps) -> In b (map snd ps) -> a <> b) ->
  NoDup (flat_map flat2 ps).
Proof.
  induction ps as [|[l r] ps IH]; simpl; intros N1 N2 D; [constructor|].
  inversion N1 as [|? ? Hl N1']; inversion N2 as [|? ? Hr N2']; subst.
  assert (Hflat : forall z, In z (flat_map flat2 ps) -> In z (map fst ps) \/ In z (map snd ps)).
  { intros z Hz. apply in_flat_map in Hz as [[a b] [Hab Hz]]. simpl in Hz.
    destruct Hz as [<-|[<-|[]]]; [left; apply (in_map fst _ _ Hab)|right; apply (in_map snd _ _ Hab)]. }
  constructor.
  - intros [H|H].
    + apply (D l r); [left; reflexivity|left; reflexivity|symmetry; exact H].
    + destruct (Hflat _ H) as [H'|H']; [contradiction|].
      apply (D l l); [left; reflexivity|right; exact H'|reflexivity].
  - constructor.
    + intro H. destruct (Hflat _ H) as [H'|H']; [|contradiction].
      apply (D r r); [right; exact H'|left; reflexivity|reflexivity].
    + apply IH; [assumption|assumption|].
      intros a b Ha Hb. apply D; right; assumption.
Qed.

(* ---------- left / right of stitch_at ---------- *)
Lemma left_in p sk f :
  sorted_key sk = true -> (forall g, In g sk -> frag_ok g) ->
  (In f (filter (fun i => oZ_eqb (en i) (Some p)) (sink_overlapping sk (p - 1))) <->
   In f sk /\ fend f = p).
Proof.
  intros Hs Hok. unfold sink_overlapping. rewrite !filter_In, fetch_static_in by exact Hs. split.
  - intros [[[Hin _] _] He]. apply oZ_eqb_eq in He. split; [exact Hin|].
    unfold fend. rewrite He. reflexivity.
  - intros [Hin He]. destruct (Hok f Hin) as (S & E & Lt & K).
    split; [split; [split; [exact Hin|]|]|].
    + unfold in_range. lia.
    + unfold contains. lia.
    + apply oZ_eqb_eq. rewrite E. f_equal. exact He.
Qed.

Lemma right_in p sk f :
  sorted_key sk = true -> (forall g, In g sk -> frag_ok g) ->
  (In f (filter (fun i => oZ_eqb (st i) (Some p)) (sink_overlapping sk p)) <->
   In f sk /\ fstart f = p).
Proof.
  intros Hs Hok. unfold sink_overlapping. rewrite !filter_In, fetch_static_in by exact Hs. split.
  - intros [[[Hin _] _] He]. apply oZ_eqb_eq in He. split; [exact Hin|].
    unfold fstart. rewrite He. reflexivity.
  - intros [Hin He]. destruct (Hok f Hin) as (S & E & Lt & K).
    split; [split; [split; [exact Hin|]|]|].
    + unfold in_range. lia.
    + unfold contains. lia.
    + apply oZ_eqb_eq. rewrite S. f_equal. exact He.
Qed.

(* ---------- main theorem ---------- *)
Theorem stitch_at_perm p fl sk :
  sorted_key sk = true ->
  (forall f, In f sk -> frag_ok f) ->
  (forall f g, In f sk -> In g sk -> key_of f = key_of g -> fend f = p -> fend g = p -> f = g) ->
  (forall f g, In f sk -> In g sk -> key_of f = key_of g -> fstart f = p -> fstart g = p -> f = g) ->
  exists pairs rest,
    Permutation sk (flat_map (fun lr => [fst lr; snd lr]) pairs ++ rest) /\
    Permutation (stitch_at false p fl sk) (map (merged_of fl) pairs ++ rest) /\
    (forall l r, In (l, r) pairs -> In l sk /\ In r sk /\ fend l = p /\ fstart r = p /\ key_of l = key_of r) /\
    (forall l r, In l sk -> In r sk -> fend l = p -> fstart r = p -> key_of l = key_of r -> In (l, r) pairs) /\
    sorted_key (stitch_at false p fl sk) = true.
Proof.
  intros Hs Hok UL UR.
  rewrite (stitch_at_fold p fl sk).
  set (L := filter (fun i => oZ_eqb (en i) (Some p)) (sink_overlapping sk (p - 1))).
  set (R := filter (fun i => oZ_eqb (st i) (Some p)) (sink_overlapping sk p)).
  assert (HL : forall f, In f L <-> In f sk /\ fend f = p).
  { intro f. apply left_in; assumption. }
  assert (HR : forall f, In f R <-> In f sk /\ fstart f = p).
  { intro f. apply right_in; assumption. }
  destruct (by_key_char L) as [CL NL].
  { intros f g Hf Hg K. apply HL in Hf. apply HL in Hg. destruct Hf as [Hf1 Hf2], Hg as [Hg1 Hg2].
    apply UL; assumption. }
  destruct (by_key_char R) as [CR NR].
  { intros f g Hf Hg K. apply HR in Hf. apply HR in Hg. destruct Hf as [Hf1 Hf2], Hg as [Hg1 Hg2].
    apply UR; assumption. }
  set (lk := by_key L []) in *. set (rk := by_key R []) in *.
  set (ps := pairs_of rk lk).
  assert (Hps1 : forall l r, In (l, r) ps ->
             In l sk /\ In r sk /\ fend l = p /\ fstart r = p /\ key_of l = key_of r).
  { intros l r H. apply pairs_of_in in H as (n & Hin & Hlk).
    apply CL in Hin. destruct Hin as [Hl Kl]. apply HL in Hl. destruct Hl as [Hl1 Hl2].
    apply lookup_some in Hlk. apply CR in Hlk. destruct Hlk as [Hr Kr].
    apply HR in Hr. destruct Hr as [Hr1 Hr2].
    repeat split; try assumption. rewrite Kl, Kr. reflexivity. }
  assert (Hps2 : forall l r, In l sk -> In r sk -> fend l = p -> fstart r = p ->
             key_of l = key_of r -> In (l, r) ps).
  { intros l r Hl Hr El Er K. apply pairs_of_in.
    destruct (Hok l Hl) as (_ & _ & _ & Kn).
    destruct (key_of l) as [n|] eqn:Kl; [|contradiction Kn; reflexivity].
    exists n. split.
    - apply CL. split; [apply HL; split; assumption|exact Kl].
    - assert (Hrk : In (Some n, r) rk).
      { apply CR. split; [apply HR; split; assumption|symmetry; exact K]. }
      destruct (lookup_key (Some n) rk) as [r'|] eqn:E.
      + f_equal. apply lookup_some in E. apply CR in E. destruct E as [Hr' Kr'].
        apply HR in Hr'. destruct Hr' as [Hr'1 Hr'2].
        apply UR; try assumption. rewrite Kr'. exact K.
      + exfalso. exact (lookup_none _ _ E r Hrk). }
  assert (NDk : NoDup (map (fun lr : ivl * ivl => key_of (fst lr)) ps)).
  { apply pairs_of_nodup; [|exact NL]. intros k l H. apply CL in H. apply H. }
  assert (ND1 : NoDup (map fst ps)).
  { apply (NoDup_map_inv key_of). rewrite map_map. exact NDk. }
  assert (ND2 : NoDup (map snd ps)).
  { apply (NoDup_map_inv key_of). rewrite map_map.
    rewrite (map_ext_in (fun x : ivl * ivl => key_of (snd x)) (fun lr : ivl * ivl => key_of (fst lr))); [exact NDk|].
    intros [l r] H. simpl. symmetry. apply (Hps1 l r H). }
  assert (NDf : NoDup (flat_map flat2 ps)).
  { apply nodup_flat2; [exact ND1|exact ND2|].
    intros a b Ha Hb Hab. subst b.
    apply in_map_iff in Ha as [[l r] [Ea Ha]]. apply in_map_iff in Hb as [[l' r'] [Eb Hb]].
    simpl in Ea, Eb. subst.
    destruct (Hps1 _ _ Ha) as (Hl & _ & El & _). destruct (Hps1 _ _ Hb) as (_ & _ & _ & Er & _).
    destruct (Hok _ Hl) as (_ & _ & Lt & _). lia. }
  assert (HI : incl (flat_map flat2 ps) sk).
  { intros z Hz. apply in_flat_map in Hz as [[l r] [Hlr Hz]]. simpl in Hz.
    destruct (Hps1 _ _ Hlr) as (Hl & Hr & _).
    destruct Hz as [<-|[<-|[]]]; assumption. }
  destruct (nodup_incl_split _ _ NDf HI) as [rest Hrest].
  exists ps, rest.
  split; [exact Hrest|].
  split; [apply fold_perm; exact Hrest|].
  split; [exact Hps1|].
  split; [exact Hps2|].
  apply fold_sorted, Hs.
Qed.

(* ---------- generic list facts ---------- *)
Lemma filter_split_perm {A} (P : A -> bool) l :
  Permutation l (filter P l ++ filter (fun x => negb (P x)) l).
Proof.
  induction l as [|x r IH]; simpl; [reflexivity|].
  destruct (P x); simpl.
  - apply perm_skip, IH.
  - eapply Permutation_trans; [apply perm_skip, IH|apply Permutation_middle].
Qed.

Lemma flat_map_filter_nil {A B} (g : A -> list B) (P : A -> bool) l :
  (forall x, In x l -> P x = false -> g x = []) ->
  flat_map g (filter P l) = flat_map g l.
Proof.
  induction l as [|x r IH]; simpl; intro H; [reflexivity|].
  assert (IH' : flat_map g (filter P r) = flat_map g r).
  { apply IH. intros z Hz. apply H. right; exact Hz. }
  destruct (P x) eqn:E; simpl.
  - rewrite IH'. reflexivity.
  - rewrite (H x (or_introl eq_refl) E). simpl. exact IH'.
Qed.

Lemma flat_map_singleton {A} (g : A -> list A) l :
  (forall x, In x l -> g x = [x]) -> flat_map g l = l.
Proof.
  induction l as [|x r IH]; simpl; intro H; [reflexivity|].
  rewrite (H x (or_introl eq_refl)). simpl. f_equal. apply IH.
  intros z Hz. apply H. right; exact Hz.
Qed.

Lemma flat_map_ext_in' {A B} (f g : A -> list B) l :
  (forall x, In x l -> f x = g x) -> flat_map f l = flat_map g l.
Proof.
  induction l as [|x r IH]; simpl; intro H; [reflexivity|].
  rewrite (H x (or_introl eq_refl)). f_equal. apply IH.
  intros z Hz. apply H. right; exact Hz.
Qed.

(* ---------- _purge_sink ---------- *)
Definition purge_parts (s e : Z) (i : ivl) : list ivl :=
  if in_range (Some s) (Some e) i then
    (match st i with Some x => if x <? s then [set_span i (st i) (Some s)] else [] | None => [] end) ++
    (match en i with Some y => if y >? e then [set_span i (Some e) (en i)] else [] | None => [] end)
  else [i].

(* the two fragments kept of an affected interval *)
Definition purge_keep (s e : Z) (i : ivl) : list ivl :=
  (match st i with Some x => if x <? s then [set_span i (st i) (Some s)] else [] | None => [] end) ++
  (match en i with Some y => if y >? e then [set_span i (Some e) (en i)] else [] | None => [] end).

Definition purge_step (s e : Z) (sk0 : list ivl) (i : ivl) : list ivl :=
  let sk1 := sl_remove i sk0 in
  let sk2 := match st i with
             | Some x => if x <? s then sl_add (set_span i (st i) (Some s)) sk1 else sk1
             | None => sk1
             end in
  match en i with
  | Some y => if y >? e then sl_add (set_span i (Some e) (en i)) sk2 else sk2
  | None => sk2
  end.

Lemma purge_sink_unfold sk s e :
  purge_sink sk s e = fold_left (purge_step s e) (fetch_static sk (Some s) (Some e) false) sk.
Proof. reflexivity. Qed.

Lemma purge_parts_in s e i : in_range (Some s) (Some e) i = true ->
  purge_parts s e i = purge_keep s e i.
Proof. intro H. unfold purge_parts. rewrite H. reflexivity. Qed.

Lemma purge_parts_out s e i : in_range (Some s) (Some e) i = false ->
  purge_parts s e i = [i].
Proof. intro H. unfold purge_parts. rewrite H. reflexivity. Qed.

Lemma purge_step_perm s e sk0 i :
  Permutation (purge_step s e sk0 i) (purge_keep s e i ++ sl_remove i sk0).
Proof.
  unfold purge_step, purge_keep.
  set (sk1 := sl_remove i sk0).
  set (A := match st i with Some x => if x <? s then [set_span i (st i) (Some s)] else [] | None => [] end).
  set (sk2 := match st i with
              | Some x => if x <? s then sl_add (set_span i (st i) (Some s)) sk1 else sk1
              | None => sk1 end).
  assert (P2 : Permutation sk2 (A ++ sk1)).
  { unfold sk2, A. destruct (st i) as [x|]; [|reflexivity].
    destruct (x <? s); [apply sl_add_perm|reflexivity]. }
  destruct (en i) as [y|].
  - destruct (y >? e).
    + eapply Permutation_trans; [apply sl_add_perm|].
      eapply Permutation_trans; [apply perm_skip, P2|].
      rewrite <- app_assoc. apply Permutation_middle.
    + rewrite app_nil_r. exact P2.
  - rewrite app_nil_r. exact P2.
Qed.

Lemma purge_step_sorted s e sk0 i :
  sorted_key sk0 = true -> sorted_key (purge_step s e sk0 i) = true.
Proof.
  intro H. unfold purge_step.
  assert (H1 : sorted_key (sl_remove i sk0) = true) by (apply sl_remove_sorted, H).
  assert (H2 : sorted_key (match st i with
              | Some x => if x <? s then sl_add (set_span i (st i) (Some s)) (sl_remove i sk0)
                          else sl_remove i sk0
              | None => sl_remove i sk0 end) = true).
  { destruct (st i) as [x|]; [|exact H1]. destruct (x <? s); [apply sl_add_sorted|]; exact H1. }
  destruct (en i) as [y|]; [|exact H2].
  destruct (y >? e); [apply sl_add_sorted|]; exact H2.
Qed.

Lemma purge_fold_sorted s e aff sk0 :
  sorted_key sk0 = true -> sorted_key (fold_left (purge_step s e) aff sk0) = true.
Proof.
  revert sk0. induction aff as [|a aff IH]; simpl; intros sk0 H; [exact H|].
  apply IH, purge_step_sorted, H.
Qed.

Lemma purge_fold_perm s e aff : forall sk0 rest,
  Permutation sk0 (aff ++ rest) ->
  Permutation (fold_left (purge_step s e) aff sk0) (flat_map (purge_keep s e) aff ++ rest).
Proof.
  induction aff as [|a aff IH]; simpl; intros sk0 rest HP; [exact HP|].
  assert (Ha : In a sk0).
  { eapply Permutation_in; [apply Permutation_sym, HP|left; reflexivity]. }
  assert (HR : Permutation (sl_remove a sk0) (aff ++ rest)).
  { apply (Permutation_cons_inv (a := a)).
    eapply Permutation_trans; [apply Permutation_sym, sl_remove_perm, Ha|exact HP]. }
  assert (HS : Permutation (purge_step s e sk0 a) (aff ++ (purge_keep s e a ++ rest))).
  { eapply Permutation_trans; [apply purge_step_perm|].
    eapply Permutation_trans; [apply Permutation_app_head, HR|].
    rewrite !app_assoc. apply Permutation_app_tail, Permutation_app_comm. }
  eapply Permutation_trans; [apply (IH _ _ HS)|].
  rewrite !app_assoc. apply Permutation_app_tail, Permutation_app_comm.
Qed.

Theorem purge_sink_perm sk s e : sorted_key sk = true ->
  Permutation (purge_sink sk s e) (flat_map (purge_parts s e) sk) /\
  sorted_key (purge_sink sk s e) = true.
Proof.
  intro Hs. rewrite purge_sink_unfold.
  split; [|apply purge_fold_sorted, Hs].
  rewrite (proj1 (fetch_static_spec sk (Some s) (Some e) Hs)).
  set (P := in_range (Some s) (Some e)).
  eapply Permutation_trans.
  - apply (purge_fold_perm s e (filter P sk) sk (filter (fun x => negb (P x)) sk)).
    apply filter_split_perm.
  - eapply Permutation_trans;
      [|apply Permutation_flat_map, Permutation_sym, (filter_split_perm P sk)].
    rewrite flat_map_app.
    replace (flat_map (purge_parts s e) (filter P sk))
      with (flat_map (purge_keep s e) (filter P sk)).
    + rewrite (flat_map_singleton (purge_parts s e) (filter (fun x => negb (P x)) sk)); [reflexivity|].
      intros x Hx. apply filter_In in Hx as [_ Hx]. apply purge_parts_out.
      fold P. destruct (P x); [discriminate|reflexivity].
    + apply flat_map_ext_in'. intros x Hx. apply filter_In in Hx as [_ Hx].
      symmetry. apply purge_parts_in. exact Hx.
Qed.

(* ---------- the clipping loop of _fill_gap ---------- *)
Definition clip_list (gs ge : Z) (i : ivl) : list ivl :=
  match clip_to_gap gs ge i with Some j => [j] | None => [] end.

Theorem fill_fold_perm gs ge src sk : sorted_key sk = true ->
  let sk1 := fold_left (fun sk i => match clip_to_gap gs ge i with Some j => sl_add j sk | None => sk end) src sk in
  Permutation sk1 (sk ++ flat_map (clip_list gs ge) src) /\ sorted_key sk1 = true.
Proof.
  revert sk. induction src as [|a src IH]; intros sk Hs; cbn zeta.
  - simpl. rewrite app_nil_r. split; [reflexivity|exact Hs].
  - simpl. unfold clip_list at 1. destruct (clip_to_gap gs ge a) as [j|].
    + destruct (IH (sl_add j sk) (sl_add_sorted j sk Hs)) as [HP HS]. cbn zeta in HP, HS.
      split; [|exact HS].
      eapply Permutation_trans; [exact HP|].
      eapply Permutation_trans; [apply Permutation_app_tail, sl_add_perm|].
      simpl. apply Permutation_middle.
    + destruct (IH sk Hs) as [HP HS]. cbn zeta in HP, HS.
      split; [exact HP|exact HS].
Qed.

(* ---------- the static source ---------- *)
Lemma retag0_id i : (forall id, pl i = Rich id -> exists k, id = (k * KEYMOD)%N) -> retag 0 i = i.
Proof.
  destruct i as [a b p]. unfold retag. cbn [pl st en]. intro H.
  destruct p as [|id]; [reflexivity|].
  destruct (H id eq_refl) as [k Hk]. subst id.
  rewrite N.div_mul by (unfold KEYMOD; discriminate).
  rewrite N.add_0_r. reflexivity.
Qed.

Lemma clip_list_out gs ge i : gs < ge -> NEG_INF <= ge -> gs < POS_INF ->
  in_range (Some gs) (Some ge) i = false -> clip_list gs ge i = [].
Proof.
  intros Hg Hn Hp Hr. unfold clip_list, clip_to_gap.
  unfold in_range, fstart, fend in Hr.
  destruct (st i) as [x|], (en i) as [y|].
  - destruct (x <? gs) eqn:E1, (y >? ge) eqn:E2;
      match goal with |- context [?a >=? ?b] => destruct (a >=? b) eqn:E3 end;
      try reflexivity; exfalso; lia.
  - destruct (x <? gs) eqn:E1;
      match goal with |- context [?a >=? ?b] => destruct (a >=? b) eqn:E3 end;
      try reflexivity; exfalso; lia.
  - destruct (y >? ge) eqn:E2;
      match goal with |- context [?a >=? ?b] => destruct (a >=? b) eqn:E3 end;
      try reflexivity; exfalso; lia.
  - exfalso; lia.
Qed.

(* ADDED hypotheses: NEG_INF <= ge and gs < POS_INF (both follow from
   NEG_INF < gs, ge < POS_INF and gs < ge).  Without them an event with start None (resp. end
   None) fails the window test of the source but still clips to a non-empty fragment. *)
Theorem src_clip_perm evs gs ge : gs < ge -> NEG_INF <= ge -> gs < POS_INF ->
  (forall i, In i evs -> retag 0 i = i) ->
  (forall i, In i evs -> fstart i < fend i) ->
  Permutation (flat_map (clip_list gs ge) (src_of evs 0 gs ge)) (flat_map (clip_list gs ge) evs).
Proof.
  intros Hg Hn Hp Hre _. unfold src_of.
  assert (Em : map (retag 0) evs = evs).
  { rewrite <- (map_id evs) at 2. apply map_ext_in. exact Hre. }
  rewrite Em.
  rewrite (proj1 (fetch_static_spec (sl_build evs) (Some gs) (Some ge) (sl_build_sorted evs))).
  rewrite flat_map_filter_nil.
  - apply Permutation_flat_map, sl_build_perm.
  - intros x _ Hx. apply clip_list_out; assumption.
Qed.

(* ------------------------------------------------------------------------------------ *)
(* the sink invariant (C09) *)

(* the static keyed source: positive length, canonical encoding, ids key*KEYMOD, distinct keys *)
Definition src_ok (evs : list ivl) : Prop :=
  (forall e, In e evs -> wf_ivl e /\ canon_ivl e /\ exists k, pl e = Rich (k * KEYMOD)) /\
  NoDup (map key_of evs).

(* a stored fragment carries the payload of a source event and lies inside it *)
Definition frag_src (evs : list ivl) (f : ivl) : Prop :=
  exists e, In e evs /\ pl f = pl e /\ fstart e <= fstart f /\ fend f <= fend e.

(* fragments of one key never overlap, and touch only at the points X *)
Definition sepR (X : Z -> Prop) (f g : ivl) : Prop :=
  key_of f = key_of g ->
  fend f < fstart g \/ fend g < fstart f \/
  (fend f = fstart g /\ X (fend f)) \/ (fend g = fstart f /\ X (fend g)).

Fixpoint sep_list (X : Z -> Prop) (l : list ivl) : Prop :=
  match l with
  | [] => True
  | x :: r => (forall y, In y r -> sepR X x y) /\ sep_list X r
  end.

(* the part of the invariant that only depends on the sink as a multiset *)
Record sink_sem (evs : list ivl) (X : Z -> Prop) (sk : list ivl) (cv : list cov) : Prop := mkSS {
  ss_frag : forall f, In f sk -> frag_ok f /\ frag_src evs f;
  ss_in : forall f x, In f sk -> inside f x = true -> covers (map cov_ivl cv) x = true;
  ss_sep : sep_list X sk;
  ss_cov : forall e x, In e evs -> inside e x = true -> covers (map cov_ivl cv) x = true ->
           exists f, In f sk /\ pl f = pl e /\ inside f x = true
}.

Definition noX : Z -> Prop := fun _ => False.

Lemma sepR_sym X f g : sepR X f g -> sepR X g f.
Proof. unfold sepR. intros H K. symmetry in K. specialize (H K). tauto. Qed.

Lemma sepR_mono (X Y : Z -> Prop) f g : (forall q, X q -> Y q) -> sepR X f g -> sepR Y f g.
Proof.
  unfold sepR. intros HXY H K. specialize (H K).
  destruct H as [H|[H|[[H1 H2]|[H1 H2]]]]; [left; exact H|right; left; exact H| |].
  - right; right; left. split; [exact H1|apply HXY; exact H2].
  - right; right; right. split; [exact H1|apply HXY; exact H2].
Qed.

Lemma sep_list_perm X l l' : Permutation l l' -> sep_list X l -> sep_list X l'.
Proof.
  intro P. induction P as [|x l l' P IH|x y l|l l' l'' P1 IH1 P2 IH2].
  - auto.
  - simpl. intros [Hx Hr]. split; [|auto]. intros y Hy. apply Hx.
    eapply Permutation_in; [apply Permutation_sym|]; eauto.
  - simpl. intros [Hy [Hx Hr]]. split; [|split; [|exact Hr]].
    + intros z [<-|Hz]; [apply sepR_sym, Hy; left; reflexivity|auto].
    + intros z Hz. apply Hy. right; exact Hz.
  - auto.
Qed.

Lemma sep_list_mono (X Y : Z -> Prop) l : (forall q, X q -> Y q) -> sep_list X l -> sep_list Y l.
Proof.
  intro HXY. induction l as [|x r IH]; simpl; auto. intros [Hx Hr]. split; [|auto].
  intros y Hy. eapply sepR_mono; eauto.
Qed.

Lemma sep_list_app X l1 l2 :
  sep_list X (l1 ++ l2) <->
  sep_list X l1 /\ sep_list X l2 /\ (forall f g, In f l1 -> In g l2 -> sepR X f g).
Proof.
  induction l1 as [|x r IH]; simpl.
  - split; [intro H; repeat split; auto; intros f g []|intros (_ & H & _); exact H].
  - rewrite IH. split.
    + intros [Hx (Hr & H2 & Hc)]. repeat split; auto.
      * intros y Hy. apply Hx. apply in_or_app; left; exact Hy.
      * intros f g [<-|Hf] Hg; [apply Hx; apply in_or_app; right; exact Hg|auto].
    + intros ([Hx Hr] & H2 & Hc). repeat split; auto.
      intros y Hy. apply in_app_or in Hy as [Hy|Hy]; auto.
Qed.

(* two occurrences in a separated list are the same fragment or separated *)
Lemma sep_list_in X l f g : sep_list X l -> In f l -> In g l -> f = g \/ sepR X f g.
Proof.
  induction l as [|x r IH]; simpl; [tauto|]. intros [Hx Hr] [<-|Hf] [<-|Hg]; auto.
  right. apply sepR_sym. auto.
Qed.

Lemma sink_sem_perm evs X sk sk' cv :
  Permutation sk sk' -> sink_sem evs X sk cv -> sink_sem evs X sk' cv.
Proof.
  intros P [A B C D]. pose proof (Permutation_sym P) as P'. constructor.
  - intros f Hf. apply A. eapply Permutation_in; eauto.
  - intros f x Hf. apply B. eapply Permutation_in; eauto.
  - eapply sep_list_perm; eauto.
  - intros e x He Hi Hc. destruct (D e x He Hi Hc) as (f & Hf & Hp & Hx).
    exists f. split; [eapply Permutation_in; eauto|auto].
Qed.

Lemma sink_sem_cover_perm evs X sk cv cv' :
  Permutation cv cv' -> sink_sem evs X sk cv -> sink_sem evs X sk cv'.
Proof.
  intros P [A B C D].
  assert (E : forall x, covers (map cov_ivl cv) x = covers (map cov_ivl cv') x).
  { intro x. apply covers_perm. apply Permutation_map. exact P. }
  constructor; auto.
  - intros f x Hf Hi. rewrite <- E. eauto.
  - intros e x He Hi Hc. rewrite <- E in Hc. eauto.
Qed.

(* source events are identified by their key *)
Lemma src_key_inj evs e e' :
  src_ok evs -> In e evs -> In e' evs -> key_of e = key_of e' -> e = e'.
Proof.
  intros [_ Hnd] He He' K. induction evs as [|x r IH]; simpl in *; [tauto|].
  inversion Hnd as [|? ? Hx Hr]; subst.
  destruct He as [<-|He], He' as [<-|He']; auto.
  - exfalso. apply Hx. rewrite K. apply in_map; exact He'.
  - exfalso. apply Hx. rewrite <- K. apply in_map; exact He.
Qed.

Lemma key_of_pl f g : pl f = pl g -> key_of f = key_of g.
Proof. unfold key_of. intros ->. reflexivity. Qed.

Lemma src_key_some evs e : src_ok evs -> In e evs -> key_of e <> None.
Proof.
  intros [H _] He. destruct (H e He) as (_ & _ & k & Hk). unfold key_of. rewrite Hk. discriminate.
Qed.

(* ==================================== Part 2 ==================================== *)
(* ---------- small facts ---------- *)
Lemma inside_iff i x : inside i x = true <-> fstart i <= x < fend i.
Proof. unfold inside. lia. Qed.

Lemma inside_cov c x : inside (cov_ivl c) x = true <-> cv_s c <= x < cv_e c.
Proof. rewrite inside_iff. unfold cov_ivl, fstart, fend. simpl. tauto. Qed.

Lemma covers_cov cv x :
  covers (map cov_ivl cv) x = true <-> exists c, In c cv /\ cv_s c <= x < cv_e c.
Proof.
  rewrite covers_true_iff. split.
  - intros (i & Hi & Hx). apply in_map_iff in Hi as (c & <- & Hc).
    exists c. split; [exact Hc|apply inside_cov, Hx].
  - intros (c & Hc & Hx). exists (cov_ivl c). split; [apply in_map, Hc|apply inside_cov, Hx].
Qed.

(* sub-intervals of strictly separated fragments are strictly separated *)
Lemma sepR_sub f f' g g' :
  sepR noX f f' -> pl g = pl f -> pl g' = pl f' ->
  fstart f <= fstart g -> fend g <= fend f ->
  fstart f' <= fstart g' -> fend g' <= fend f' ->
  sepR noX g g'.
Proof.
  intros H P P' A B A' B' K.
  rewrite (key_of_pl _ _ P), (key_of_pl _ _ P') in K.
  destruct (H K) as [H1|[H1|[[_ []]|[_ []]]]]; [left; lia|right; left; lia].
Qed.

Lemma sep_flat_map X (P : ivl -> list ivl) sk :
  sep_list X sk ->
  (forall f, In f sk -> sep_list X (P f)) ->
  (forall f f' g g', In f sk -> In f' sk -> sepR X f f' ->
                     In g (P f) -> In g' (P f') -> sepR X g g') ->
  sep_list X (flat_map P sk).
Proof.
  induction sk as [|a r IH]; simpl; [auto|].
  intros [Ha Hr] H1 H2. apply sep_list_app. split; [apply H1; left; reflexivity|]. split.
  - apply IH; [exact Hr| |].
    + intros f Hf. apply H1. right; exact Hf.
    + intros f f' g g' Hf Hf'. apply H2; right; assumption.
  - intros g g' Hg Hg'. apply in_flat_map in Hg' as (f' & Hf' & Hg').
    apply (H2 a f' g g'); auto.
Qed.

(* ---------- purge_parts on a well-formed fragment ---------- *)
Lemma purge_parts_ok s e f : frag_ok f ->
  purge_parts s e f =
  if in_range (Some s) (Some e) f then
    (if fstart f <? s then [mkI (Some (fstart f)) (Some s) (pl f)] else []) ++
    (if fend f >? e then [mkI (Some e) (Some (fend f)) (pl f)] else [])
  else [f].
Proof.
  intros (S & E & _). unfold purge_parts.
  destruct (in_range (Some s) (Some e) f); [|reflexivity].
  rewrite S, E. reflexivity.
Qed.

Lemma fstart_mk a b p : fstart (mkI (Some a) b p) = a.
Proof. reflexivity. Qed.
Lemma fend_mk a b p : fend (mkI a (Some b) p) = b.
Proof. reflexivity. Qed.

Ltac smk := rewrite ?fstart_mk, ?fend_mk in *; cbn [pl st en] in *.

Lemma frag_ok_mk a b f : a < b -> key_of f <> None -> frag_ok (mkI (Some a) (Some b) (pl f)).
Proof. intros L K. unfold frag_ok. smk. repeat split; try assumption. Qed.

Lemma purge_char s e f g : s < e -> frag_ok f -> In g (purge_parts s e f) ->
  frag_ok g /\ pl g = pl f /\ fstart f <= fstart g /\ fend g <= fend f /\
  (fend g <= s \/ e <= fstart g).
Proof.
  intros Hse Hf Hg. rewrite (purge_parts_ok s e f Hf) in Hg.
  pose proof Hf as (S & E & Lt & K).
  destruct (in_range (Some s) (Some e) f) eqn:R; unfold in_range in R.
  - apply in_app_or in Hg. destruct Hg as [Hg|Hg].
    + destruct (fstart f <? s) eqn:C; [|destruct Hg]. destruct Hg as [<-|[]].
      split; [apply frag_ok_mk; [lia|exact K]|].
      smk. repeat split; try lia.
    + destruct (fend f >? e) eqn:C; [|destruct Hg]. destruct Hg as [<-|[]].
      split; [apply frag_ok_mk; [lia|exact K]|].
      smk. repeat split; try lia.
  - destruct Hg as [<-|[]]. repeat split; try assumption; try lia.
Qed.

Lemma purge_cover s e f x : frag_ok f -> inside f x = true -> (x < s \/ e <= x) ->
  exists g, In g (purge_parts s e f) /\ inside g x = true.
Proof.
  intros Hf Hx Ho. rewrite (purge_parts_ok s e f Hf).
  apply inside_iff in Hx.
  destruct (in_range (Some s) (Some e) f) eqn:R; unfold in_range in R.
  - destruct Ho as [Ho|Ho].
    + exists (mkI (Some (fstart f)) (Some s) (pl f)). split.
      * apply in_or_app. left. destruct (fstart f <? s) eqn:C; [left; reflexivity|lia].
      * apply inside_iff. smk. lia.
    + exists (mkI (Some e) (Some (fend f)) (pl f)). split.
      * apply in_or_app. right. destruct (fend f >? e) eqn:C; [left; reflexivity|lia].
      * apply inside_iff. smk. lia.
  - exists f. split; [left; reflexivity|apply inside_iff; exact Hx].
Qed.

Lemma purge_self_sep s e f : s < e -> frag_ok f -> sep_list noX (purge_parts s e f).
Proof.
  intros Hse Hf. rewrite (purge_parts_ok s e f Hf).
  destruct (in_range (Some s) (Some e) f);
    [destruct (fstart f <? s), (fend f >? e)|]; simpl;
    try (split; [intros z []|exact I]); try exact I.
  split; [|split; [intros z []|exact I]].
  intros z [<-|[]] _. left. smk. lia.
Qed.

(* evicting the cover c: every fragment meeting [cv_s c, cv_e c] is replaced by its parts outside *)
Theorem purge_sem evs sk cv cv' c :
  sink_sem evs noX sk cv ->
  Permutation cv (c :: cv') ->
  cv_s c < cv_e c ->
  (forall c', In c' cv' -> cv_e c' <= cv_s c \/ cv_e c <= cv_s c') ->
  sink_sem evs noX (flat_map (purge_parts (cv_s c) (cv_e c)) sk) cv'.
Proof.
  intros [A B C D] HP Hse Hdis.
  set (s := cv_s c) in *. set (e := cv_e c) in *.
  assert (E : forall x, covers (map cov_ivl cv) x =
                        inside (cov_ivl c) x || covers (map cov_ivl cv') x).
  { intro x. rewrite (covers_perm _ _ x (Permutation_map cov_ivl HP)). reflexivity. }
  constructor.
  - intros g Hg. apply in_flat_map in Hg as (f & Hf & Hg).
    destruct (A f Hf) as [Fo (e0 & He0 & Pe & S0 & E0)].
    destruct (purge_char s e f g Hse Fo Hg) as (Go & Pg & Sg & Eg & _).
    split; [exact Go|]. exists e0. split; [exact He0|]. split; [congruence|]. lia.
  - intros g x Hg Hx. apply in_flat_map in Hg as (f & Hf & Hg).
    destruct (A f Hf) as [Fo _].
    destruct (purge_char s e f g Hse Fo Hg) as (Go & Pg & Sg & Eg & Out).
    apply inside_iff in Hx.
    assert (Hfx : inside f x = true) by (apply inside_iff; lia).
    pose proof (B f x Hf Hfx) as Hc. rewrite E in Hc.
    destruct (inside (cov_ivl c) x) eqn:Ic; [|exact Hc].
    apply inside_cov in Ic. fold s e in Ic. lia.
  - apply sep_flat_map; [exact C| |].
    + intros f Hf. apply purge_self_sep; [exact Hse|apply (A f Hf)].
    + intros f f' g g' Hf Hf' Hs Hg Hg'.
      destruct (purge_char s e f g Hse (proj1 (A f Hf)) Hg) as (_ & Pg & Sg & Eg & _).
      destruct (purge_char s e f' g' Hse (proj1 (A f' Hf')) Hg') as (_ & Pg' & Sg' & Eg' & _).
      apply (sepR_sub f f' g g'); assumption.
  - intros e0 x He0 Hx Hc.
    assert (Hc0 : covers (map cov_ivl cv) x = true) by (rewrite E, Hc; apply orb_true_r).
    destruct (D e0 x He0 Hx Hc0) as (f & Hf & Pf & Hfx).
    apply covers_cov in Hc as (c' & Hc' & Hx').
    assert (Ho : x < s \/ e <= x) by (destruct (Hdis c' Hc'); lia).
    destruct (purge_cover s e f x (proj1 (A f Hf)) Hfx Ho) as (g & Hg & Hgx).
    exists g. split; [apply in_flat_map; exists f; split; assumption|]. split; [|exact Hgx].
    destruct (purge_char s e f g Hse (proj1 (A f Hf)) Hg) as (_ & Pg & _). congruence.
Qed.

(* ---------- clip_list on a source event ---------- *)
Lemma clip_cs gs i : NEG_INF <= gs ->
  match st i with None => gs | Some x => if x <? gs then gs else x end = Z.max (fstart i) gs.
Proof.
  intro H. unfold fstart. destruct (st i) as [x|]; [destruct (x <? gs) eqn:C; lia|lia].
Qed.

Lemma clip_ce ge i : ge <= POS_INF ->
  match en i with None => ge | Some y => if y >? ge then ge else y end = Z.min (fend i) ge.
Proof.
  intro H. unfold fend. destruct (en i) as [y|]; [destruct (y >? ge) eqn:C; lia|lia].
Qed.

Lemma clip_list_ok gs ge i : NEG_INF <= gs -> ge <= POS_INF ->
  clip_list gs ge i =
  if Z.max (fstart i) gs >=? Z.min (fend i) ge then []
  else [mkI (Some (Z.max (fstart i) gs)) (Some (Z.min (fend i) ge)) (pl i)].
Proof.
  intros H1 H2. unfold clip_list, clip_to_gap. cbv zeta.
  rewrite (clip_cs gs i H1), (clip_ce ge i H2).
  destruct (Z.max (fstart i) gs >=? Z.min (fend i) ge); reflexivity.
Qed.

Lemma clip_char gs ge i n : NEG_INF <= gs -> ge <= POS_INF -> In n (clip_list gs ge i) ->
  n = mkI (Some (Z.max (fstart i) gs)) (Some (Z.min (fend i) ge)) (pl i) /\
  Z.max (fstart i) gs < Z.min (fend i) ge.
Proof.
  intros H1 H2 Hn. rewrite (clip_list_ok gs ge i H1 H2) in Hn.
  destruct (Z.max (fstart i) gs >=? Z.min (fend i) ge) eqn:C; [destruct Hn|].
  destruct Hn as [<-|[]]. split; [reflexivity|lia].
Qed.

Lemma clip_cover gs ge i x : NEG_INF <= gs -> ge <= POS_INF ->
  inside i x = true -> gs <= x < ge ->
  In (mkI (Some (Z.max (fstart i) gs)) (Some (Z.min (fend i) ge)) (pl i)) (clip_list gs ge i).
Proof.
  intros H1 H2 Hx Hg. apply inside_iff in Hx. rewrite (clip_list_ok gs ge i H1 H2).
  destruct (Z.max (fstart i) gs >=? Z.min (fend i) ge) eqn:C; [lia|left; reflexivity].
Qed.

Lemma sep_clip X gs ge evs : NEG_INF <= gs -> ge <= POS_INF ->
  NoDup (map key_of evs) -> sep_list X (flat_map (clip_list gs ge) evs).
Proof.
  intros H1 H2. induction evs as [|a r IH]; simpl; [auto|].
  intro ND. inversion ND as [|? ? Hna NDr]; subst.
  apply sep_list_app. split; [|split; [apply IH, NDr|]].
  - rewrite (clip_list_ok gs ge a H1 H2).
    destruct (Z.max (fstart a) gs >=? Z.min (fend a) ge); simpl; [exact I|].
    split; [intros y []|exact I].
  - intros g g' Hg Hg' K. exfalso. apply Hna.
    apply in_flat_map in Hg' as (e' & He' & Hg').
    destruct (clip_char gs ge a g H1 H2 Hg) as [-> _].
    destruct (clip_char gs ge e' g' H1 H2 Hg') as [-> _].
    change (key_of a = key_of e') in K. rewrite K. apply in_map, He'.
Qed.

(* filling the gap [gs,ge), which meets no cover: every source event is clipped to the gap and added *)
Theorem clip_sem evs sk cv gs ge t :
  src_ok evs ->
  sink_sem evs noX sk cv ->
  NEG_INF < gs -> gs < ge -> ge < POS_INF ->
  (forall c, In c cv -> cv_s c < cv_e c) ->
  (forall c, In c cv -> cv_e c <= gs \/ ge <= cv_s c) ->
  sink_sem evs (fun q => q = gs \/ q = ge) (sk ++ flat_map (clip_list gs ge) evs) (mkCov gs ge t :: cv).
Proof.
  intros Hsrc [A B C D] Hn Hg Hp _ Hdis.
  assert (H1 : NEG_INF <= gs) by lia. assert (H2 : ge <= POS_INF) by lia.
  assert (E : forall x, covers (map cov_ivl (mkCov gs ge t :: cv)) x =
                        ((gs <=? x) && (x <? ge)) || covers (map cov_ivl cv) x).
  { intro x. reflexivity. }
  (* an old fragment lies on one side of the gap *)
  assert (Hside : forall f, In f sk -> fend f <= gs \/ ge <= fstart f).
  { intros f Hf. destruct (A f Hf) as [(_ & _ & Lt & _) _].
    destruct (Z_le_gt_dec (fend f) gs) as [L|L]; [left; exact L|].
    destruct (Z_le_gt_dec ge (fstart f)) as [R|R]; [right; exact R|]. exfalso.
    assert (Hx : inside f (Z.max (fstart f) gs) = true) by (apply inside_iff; lia).
    apply (B f _ Hf) in Hx. apply covers_cov in Hx as (c & Hc & Hx).
    destruct (Hdis c Hc); lia. }
  constructor.
  - intros f Hf. apply in_app_or in Hf as [Hf|Hf]; [apply A, Hf|].
    apply in_flat_map in Hf as (e0 & He0 & Hf).
    destruct (clip_char gs ge e0 f H1 H2 Hf) as [-> Lt].
    split.
    + apply frag_ok_mk; [exact Lt|apply (src_key_some evs e0 Hsrc He0)].
    + exists e0. split; [exact He0|]. smk. split; [reflexivity|lia].
  - intros f x Hf Hx. rewrite E. apply in_app_or in Hf as [Hf|Hf].
    + rewrite (B f x Hf Hx). apply orb_true_r.
    + apply in_flat_map in Hf as (e0 & He0 & Hf).
      destruct (clip_char gs ge e0 f H1 H2 Hf) as [-> Lt].
      apply inside_iff in Hx. smk.
      apply orb_true_iff. left. lia.
  - apply sep_list_app. split; [|split].
    + apply (sep_list_mono noX); [intros q []|exact C].
    + apply sep_clip; [exact H1|exact H2|apply Hsrc].
    + intros f n Hf Hn' K. apply in_flat_map in Hn' as (e0 & He0 & Hn').
      destruct (clip_char gs ge e0 n H1 H2 Hn') as [-> Lt]. smk.
      destruct (Hside f Hf) as [L|R].
      * destruct (Z.eq_dec (fend f) (Z.max (fstart e0) gs)) as [Q|Q].
        -- right; right; left. split; [exact Q|left; lia].
        -- left. lia.
      * destruct (Z.eq_dec (Z.min (fend e0) ge) (fstart f)) as [Q|Q].
        -- right; right; right. split; [exact Q|right; lia].
        -- right; left. lia.
  - intros e0 x He0 Hx Hc. rewrite E in Hc.
    destruct ((gs <=? x) && (x <? ge)) eqn:G.
    + exists (mkI (Some (Z.max (fstart e0) gs)) (Some (Z.min (fend e0) ge)) (pl e0)).
      split; [|split; [reflexivity|]].
      * apply in_or_app. right. apply in_flat_map. exists e0. split; [exact He0|].
        apply (clip_cover gs ge e0 x); [exact H1|exact H2|exact Hx|lia].
      * apply inside_iff in Hx. apply inside_iff. smk. lia.
    + simpl in Hc. destruct (D e0 x He0 Hx Hc) as (f & Hf & Pf & Hfx).
      exists f. split; [apply in_or_app; left; exact Hf|]. split; assumption.
Qed.

(* The sink invariant is preserved by [stitch_at]; the stitched point leaves the set X. *)


(* ---------- the merged fragment ---------- *)
Lemma merged_fstart fl lr : fstart (merged_of fl lr) = fstart (fst lr).
Proof. reflexivity. Qed.

Lemma merged_fend fl lr : fend (merged_of fl lr) = fend (snd lr).
Proof. reflexivity. Qed.

Lemma merged_st fl lr : st (merged_of fl lr) = st (fst lr).
Proof. reflexivity. Qed.

Lemma merged_en fl lr : en (merged_of fl lr) = en (snd lr).
Proof. reflexivity. Qed.

Lemma merged_pl fl lr : pl (fst lr) = pl (snd lr) ->
  pl (merged_of fl lr) = pl (fst lr) /\ pl (merged_of fl lr) = pl (snd lr).
Proof. intro H. unfold merged_of. cbn [pl]. destruct fl; split; congruence. Qed.

Lemma merged_key fl lr : pl (fst lr) = pl (snd lr) ->
  key_of (merged_of fl lr) = key_of (fst lr) /\ key_of (merged_of fl lr) = key_of (snd lr).
Proof.
  intro H. destruct (merged_pl fl lr H) as [H1 H2].
  split; apply key_of_pl; assumption.
Qed.

Lemma merged_inside fl lr x :
  fend (fst lr) = fstart (snd lr) ->
  fstart (fst lr) < fend (fst lr) -> fstart (snd lr) < fend (snd lr) ->
  (inside (merged_of fl lr) x = true <-> inside (fst lr) x = true \/ inside (snd lr) x = true).
Proof.
  intros E L1 L2. unfold inside. rewrite merged_fstart, merged_fend. lia.
Qed.

(* two fragments of one key come from the same source event *)
Lemma pair_src evs f g :
  src_ok evs -> frag_src evs f -> frag_src evs g -> key_of f = key_of g ->
  exists e, In e evs /\ pl f = pl e /\ pl g = pl e /\
            fstart e <= fstart f /\ fend f <= fend e /\
            fstart e <= fstart g /\ fend g <= fend e.
Proof.
  intros Hsrc (ef & Hef & Pf & Sf & Ef) (eg & Heg & Pg & Sg & Eg) K.
  assert (Heq : ef = eg).
  { apply (src_key_inj evs); [exact Hsrc|exact Hef|exact Heg|].
    rewrite <- (key_of_pl _ _ Pf), <- (key_of_pl _ _ Pg). exact K. }
  subst eg. exists ef. repeat split; assumption.
Qed.

Lemma merged_ok fl lr :
  frag_ok (fst lr) -> frag_ok (snd lr) -> fend (fst lr) = fstart (snd lr) ->
  pl (fst lr) = pl (snd lr) -> frag_ok (merged_of fl lr).
Proof.
  intros (S1 & E1 & L1 & K1) (S2 & E2 & L2 & K2) E P.
  unfold frag_ok. rewrite merged_fstart, merged_fend, merged_st, merged_en.
  split; [exact S1|]. split; [exact E2|]. split; [lia|].
  rewrite (proj1 (merged_key fl lr P)). exact K1.
Qed.

Lemma merged_src evs fl lr :
  src_ok evs -> frag_src evs (fst lr) -> frag_src evs (snd lr) ->
  key_of (fst lr) = key_of (snd lr) ->
  pl (fst lr) = pl (snd lr) /\ frag_src evs (merged_of fl lr).
Proof.
  intros Hsrc F1 F2 K.
  destruct (pair_src evs _ _ Hsrc F1 F2 K) as (e & He & P1 & P2 & A1 & A2 & A3 & A4).
  assert (P : pl (fst lr) = pl (snd lr)) by congruence.
  split; [exact P|].
  exists e. split; [exact He|]. rewrite merged_fstart, merged_fend.
  split; [|split; assumption].
  rewrite (proj1 (merged_pl fl lr P)). exact P1.
Qed.

(* ---------- separation ---------- *)
Lemma sep_list_strengthen (X Y : Z -> Prop) l :
  sep_list X l ->
  (forall f g, In f l -> In g l -> sepR X f g -> sepR Y f g) ->
  sep_list Y l.
Proof.
  induction l as [|x r IH]; simpl; [auto|].
  intros [Hx Hr] H. split.
  - intros y Hy. apply H; [left; reflexivity|right; exact Hy|apply Hx, Hy].
  - apply IH; [exact Hr|]. intros f g Hf Hg. apply H; right; assumption.
Qed.

Lemma sep_merge (X : Z -> Prop) p fl pairs rest :
  sep_list X (flat_map flat2 pairs ++ rest) ->
  (forall f, In f (flat_map flat2 pairs ++ rest) -> fstart f < fend f) ->
  (forall l r, In (l, r) pairs ->
     fend l = p /\ fstart r = p /\ key_of l = key_of r /\ pl l = pl r) ->
  (forall f g, In f rest -> In g rest -> key_of f = key_of g ->
     fend f = p -> fstart g = p -> False) ->
  sep_list (fun q => X q /\ q <> p) (map (merged_of fl) pairs ++ rest).
Proof.
  intros Hsep Hpos Hpairs Hrest.
  induction pairs as [|[l r] ps IH].
  - simpl in *. apply (sep_list_strengthen X); [exact Hsep|].
    intros f g Hf Hg S K. specialize (S K).
    pose proof (Hpos f Hf) as Lf. pose proof (Hpos g Hg) as Lg.
    destruct S as [S|[S|[[S1 S2]|[S1 S2]]]].
    + left. exact S.
    + right; left. exact S.
    + right; right; left. split; [exact S1|]. split; [exact S2|].
      intro Ep. apply (Hrest f g Hf Hg K); lia.
    + right; right; right. split; [exact S1|]. split; [exact S2|].
      intro Ep. apply (Hrest g f Hg Hf (eq_sym K)); lia.
  - cbn [flat_map map fst snd app] in *.
    destruct Hsep as [Hl [Hr Hsep']].
    destruct (Hpairs l r (or_introl eq_refl)) as (El & Er & Klr & Plr).
    pose proof (Hpos l (or_introl eq_refl)) as Ll.
    pose proof (Hpos r (or_intror (or_introl eq_refl))) as Lr.
    destruct (merged_key fl (l, r) Plr) as [Km1 Km2]. cbn [fst snd] in Km1, Km2.
    split.
    + intros y Hy. apply in_app_or in Hy as [Hy|Hy].
      * (* another merged pair: impossible with the same key *)
        apply in_map_iff in Hy as [[l' r'] [<- Hin]].
        destruct (Hpairs l' r' (or_intror Hin)) as (El' & Er' & Klr' & Plr').
        destruct (merged_key fl (l', r') Plr') as [Km1' _]. cbn [fst snd] in Km1'.
        assert (Hl'in : In l' (r :: flat_map flat2 ps ++ rest)).
        { right. apply in_or_app. left. apply in_flat_map. exists (l', r').
          split; [exact Hin|left; reflexivity]. }
        pose proof (Hpos l' (or_intror Hl'in)) as Ll'.
        intro K. exfalso.
        assert (K' : key_of l = key_of l') by congruence.
        pose proof (Hl l' Hl'in K') as S.
        destruct S as [S|[S|[[S1 S2]|[S1 S2]]]]; lia.
      * (* a remaining fragment *)
        assert (Hyin : In y (r :: flat_map flat2 ps ++ rest)).
        { right. apply in_or_app. right. exact Hy. }
        pose proof (Hpos y (or_intror Hyin)) as Ly.
        intro K.
        assert (K1 : key_of l = key_of y) by congruence.
        assert (K2 : key_of r = key_of y) by congruence.
        pose proof (Hl y Hyin K1) as S1.
        assert (Hyin' : In y (flat_map flat2 ps ++ rest)).
        { apply in_or_app. right. exact Hy. }
        pose proof (Hr y Hyin' K2) as S2.
        rewrite merged_fstart, merged_fend. cbn [fst snd].
        destruct S1 as [S1|[S1|[[S1 X1]|[S1 X1]]]];
          destruct S2 as [S2|[S2|[[S2 X2]|[S2 X2]]]];
          first [ left; lia
                | right; left; lia
                | right; right; left; split; [lia|split; [assumption|lia]]
                | right; right; right; split; [lia|split; [assumption|lia]]
                | exfalso; lia ].
    + apply IH.
      * exact Hsep'.
      * intros f Hf. apply Hpos. right. right. exact Hf.
      * intros l' r' Hin. apply Hpairs. right. exact Hin.
Qed.

(* ---------- main theorem ---------- *)
Theorem stitch_sem evs (X : Z -> Prop) p fl sk cv :
  src_ok evs ->
  sorted_key sk = true ->
  sink_sem evs X sk cv ->
  sink_sem evs (fun q => X q /\ q <> p) (stitch_at false p fl sk) cv /\
  sorted_key (stitch_at false p fl sk) = true.
Proof.
  intros Hsrc Hsorted S.
  pose proof S as [A B C D].
  assert (Hok : forall f, In f sk -> frag_ok f).
  { intros f Hf. apply (A f Hf). }
  assert (UL : forall f g, In f sk -> In g sk -> key_of f = key_of g ->
                 fend f = p -> fend g = p -> f = g).
  { intros f g Hf Hg K Ef Eg.
    destruct (sep_list_in X sk f g C Hf Hg) as [H|H]; [exact H|exfalso].
    destruct (Hok f Hf) as (_ & _ & Lf & _). destruct (Hok g Hg) as (_ & _ & Lg & _).
    destruct (H K) as [H1|[H1|[[H1 _]|[H1 _]]]]; lia. }
  assert (UR : forall f g, In f sk -> In g sk -> key_of f = key_of g ->
                 fstart f = p -> fstart g = p -> f = g).
  { intros f g Hf Hg K Ef Eg.
    destruct (sep_list_in X sk f g C Hf Hg) as [H|H]; [exact H|exfalso].
    destruct (Hok f Hf) as (_ & _ & Lf & _). destruct (Hok g Hg) as (_ & _ & Lg & _).
    destruct (H K) as [H1|[H1|[[H1 _]|[H1 _]]]]; lia. }
  destruct (stitch_at_perm p fl sk Hsorted Hok UL UR)
    as (pairs & rest & P1 & P2 & H3 & H4 & H5).
  split; [|exact H5].
  apply (sink_sem_perm evs _ _ _ cv (Permutation_sym P2)).
  pose proof (sink_sem_perm evs X _ _ cv P1 S) as [A' B' C' D'].
  (* membership helpers *)
  assert (InL : forall l r, In (l, r) pairs -> In l (flat_map flat2 pairs ++ rest)).
  { intros l r H. apply in_or_app. left. apply in_flat_map. exists (l, r).
    split; [exact H|left; reflexivity]. }
  assert (InR : forall l r, In (l, r) pairs -> In r (flat_map flat2 pairs ++ rest)).
  { intros l r H. apply in_or_app. left. apply in_flat_map. exists (l, r).
    split; [exact H|right; left; reflexivity]. }
  assert (InRest : forall f, In f rest -> In f (flat_map flat2 pairs ++ rest)).
  { intros f H. apply in_or_app. right. exact H. }
  (* facts about a pair *)
  assert (PF : forall l r, In (l, r) pairs ->
            fend l = p /\ fstart r = p /\ key_of l = key_of r /\ pl l = pl r /\
            frag_ok l /\ frag_ok r /\
            frag_ok (merged_of fl (l, r)) /\ frag_src evs (merged_of fl (l, r))).
  { intros l r H. destruct (H3 l r H) as (_ & _ & El & Er & K).
    destruct (A' l (InL l r H)) as [Ol Sl]. destruct (A' r (InR l r H)) as [Or Sr].
    destruct (merged_src evs fl (l, r) Hsrc Sl Sr K) as [Plr Sm].
    cbn [fst snd] in Plr.
    assert (Om : frag_ok (merged_of fl (l, r))).
    { apply merged_ok; cbn [fst snd]; [exact Ol|exact Or|lia|exact Plr]. }
    split; [exact El|]. split; [exact Er|]. split; [exact K|]. split; [exact Plr|].
    split; [exact Ol|]. split; [exact Or|]. split; [exact Om|exact Sm]. }
  assert (MI : forall l r x, In (l, r) pairs ->
            (inside (merged_of fl (l, r)) x = true <-> inside l x = true \/ inside r x = true)).
  { intros l r x H. destruct (PF l r H) as (El & Er & _ & _ & Ol & Or & _).
    destruct Ol as (_ & _ & Ll & _). destruct Or as (_ & _ & Lr & _).
    apply merged_inside; cbn [fst snd]; lia. }
  constructor.
  - (* ss_frag *)
    intros f Hf. apply in_app_or in Hf as [Hf|Hf].
    + apply in_map_iff in Hf as [[l r] [<- Hin]].
      destruct (PF l r Hin) as (_ & _ & _ & _ & _ & _ & Om & Sm). split; assumption.
    + apply A', InRest, Hf.
  - (* ss_in *)
    intros f x Hf Hi. apply in_app_or in Hf as [Hf|Hf].
    + apply in_map_iff in Hf as [[l r] [<- Hin]].
      apply (MI l r x Hin) in Hi as [Hi|Hi].
      * apply (B' l x (InL l r Hin) Hi).
      * apply (B' r x (InR l r Hin) Hi).
    + apply (B' f x (InRest f Hf) Hi).
  - (* ss_sep *)
    apply sep_merge.
    + exact C'.
    + intros f Hf. destruct (A' f Hf) as [(_ & _ & L & _) _]. exact L.
    + intros l r Hin. destruct (PF l r Hin) as (El & Er & K & Pl & _).
      repeat split; assumption.
    + intros f g Hf Hg K Ef Eg.
      assert (Hf' : In f sk).
      { apply (Permutation_in _ (Permutation_sym P1)), InRest, Hf. }
      assert (Hg' : In g sk).
      { apply (Permutation_in _ (Permutation_sym P1)), InRest, Hg. }
      pose proof (H4 f g Hf' Hg' Ef Eg K) as Hin.
      apply sep_list_app in C' as (_ & _ & Cross).
      assert (Hff : In f (flat_map flat2 pairs)).
      { apply in_flat_map. exists (f, g). split; [exact Hin|left; reflexivity]. }
      pose proof (Cross f f Hff Hf eq_refl) as Sff.
      destruct (Hok f Hf') as (_ & _ & Lf & _).
      destruct Sff as [Sff|[Sff|[[Sff _]|[Sff _]]]]; lia.
  - (* ss_cov *)
    intros e x He Hi Hc. destruct (D' e x He Hi Hc) as (f & Hf & Pf & Hx).
    apply in_app_or in Hf as [Hf|Hf].
    + apply in_flat_map in Hf as [[l r] [Hin Hf]]. cbn [fst snd] in Hf.
      destruct (PF l r Hin) as (_ & _ & _ & Plr & _).
      destruct (merged_pl fl (l, r) Plr) as [Pm1 Pm2]. cbn [fst snd] in Pm1, Pm2.
      exists (merged_of fl (l, r)). split; [|split].
      * apply in_or_app. left. apply in_map. exact Hin.
      * destruct Hf as [<-|[<-|[]]]; congruence.
      * apply (MI l r x Hin). destruct Hf as [<-|[<-|[]]]; [left|right]; exact Hx.
    + exists f. split; [apply in_or_app; right; exact Hf|]. split; assumption.
Qed.

(* ==================================== Part 3 ==================================== *)
(* ------------------------------------------------------------------------------------ *)
(* (T4) the sink invariant of a state *)

Record sink_inv (evs : list ivl) (s : cstate) : Prop := mkSI {
  si_sorted : sorted_key (sink s) = true;
  si_sem : sink_sem evs noX (sink s) (cover s)
}.

Lemma sink_inv_init evs t0 : sink_inv evs (cinit t0).
Proof.
  constructor; [reflexivity|]. constructor; simpl.
  - intros f [].
  - intros f x [].
  - exact I.
  - intros e x _ _ Hc. discriminate.
Qed.

(* eviction *)
Lemma evict_go_sink evs t : forall h cv sk h1 cv1 sk1,
  Permutation (map h_cov h) cv -> cov_chain cv -> cov_span_ok cv ->
  sorted_key sk = true -> sink_sem evs noX sk cv ->
  evict_go t h cv sk = (h1, cv1, sk1) ->
  sorted_key sk1 = true /\ sink_sem evs noX sk1 cv1.
Proof.
  induction h as [|[[ex sq] c] r IH]; intros cv sk h1 cv1 sk1 Hp Hch Hok Hs Hsem He; simpl in He.
  - inversion He; subst. split; assumption.
  - destruct (ex <=? t) eqn:E; [|inversion He; subst; split; assumption].
    simpl in Hp. assert (Hin : In c cv) by (eapply Permutation_in; [exact Hp|left; reflexivity]).
    pose proof (cov_remove_perm c cv Hin) as Hrm.
    assert (Hp' : Permutation (map h_cov r) (cov_remove c cv)).
    { eapply Permutation_cons_inv. eapply Permutation_trans; [exact Hp|exact Hrm]. }
    assert (Hpos : forall y, In y cv -> cv_s y < cv_e y).
    { intros y Hy. destruct (Hok y Hy) as (_ & ? & _). assumption. }
    assert (Hnd : NoDup (c :: cov_remove c cv)).
    { eapply Permutation_NoDup; [exact Hrm|]. apply cov_chain_nodup; assumption. }
    assert (Hdis : forall c', In c' (cov_remove c cv) -> cv_e c' <= cv_s c \/ cv_e c <= cv_s c').
    { intros c' Hc'. pose proof (cov_remove_in _ _ _ Hc') as Hc'in.
      destruct (cov_chain_disjoint cv Hch Hpos c' c Hc'in Hin) as [->|Hd]; [|exact Hd].
      inversion Hnd; contradiction. }
    destruct (purge_sink_perm sk (cv_s c) (cv_e c) Hs) as [Hpp Hps].
    assert (Hsem' : sink_sem evs noX (purge_sink sk (cv_s c) (cv_e c)) (cov_remove c cv)).
    { eapply sink_sem_perm; [apply Permutation_sym, Hpp|].
      eapply purge_sem; eauto. }
    eapply IH; try exact He; auto.
    + apply cov_chain_remove; assumption.
    + intros y Hy. apply Hok. eapply cov_remove_in; eauto.
Qed.

(* filling one gap *)
Lemma src_ok_retag evs : src_ok evs -> forall i, In i evs -> retag 0 i = i.
Proof.
  intros [H _] i Hi. apply retag0_id. intros id Hid. destruct (H i Hi) as (_ & _ & k & Hk).
  exists k. congruence.
Qed.

Lemma fill_gap_sink evs ttl tick gs ge s :
  src_ok evs -> heap_inv ttl s -> sink_inv evs s ->
  NEG_INF < gs -> gs < ge -> ge < POS_INF ->
  (forall c, In c (cover s) -> cv_e c <= gs \/ ge <= cv_s c) ->
  sink_inv evs (fill_gap false ttl tick (src_of evs 0 gs ge) gs ge s).
Proof.
  intros Hsrc H [Hs Hsem] Hlo Hlt Hhi Hd. unfold fill_gap.
  set (sk1 := fold_left _ (src_of evs 0 gs ge) (sink s)).
  destruct (fill_fold_perm gs ge (src_of evs 0 gs ge) (sink s) Hs) as [Hp1 Hs1]. fold sk1 in Hp1, Hs1.
  assert (Hp2 : Permutation sk1 (sink s ++ flat_map (clip_list gs ge) evs)).
  { eapply Permutation_trans; [exact Hp1|]. apply Permutation_app_head.
    apply src_clip_perm; try lia.
    - apply src_ok_retag; assumption.
    - intros i Hi. destruct Hsrc as [Hw _]. destruct (Hw i Hi) as ((_ & ? & _) & _). assumption. }
  set (c := mkCov gs ge (now s)).
  assert (Hsem1 : sink_sem evs (fun q => q = gs \/ q = ge) sk1 (c :: cover s)).
  { eapply sink_sem_perm; [apply Permutation_sym, Hp2|].
    apply clip_sem; auto. apply (heap_inv_pos _ _ H). }
  destruct (stitch_sem evs _ gs false sk1 _ Hsrc Hs1 Hsem1) as [Hsem2 Hs2].
  destruct (stitch_sem evs _ ge true _ _ Hsrc Hs2 Hsem2) as [Hsem3 Hs3].
  constructor; simpl; [exact Hs3|].
  eapply sink_sem_cover_perm; [apply Permutation_sym, cov_add_perm|]. fold c.
  destruct Hsem3 as [A B C D]. constructor; auto.
  eapply sep_list_mono; [|exact C]. unfold noX. intros q Hq. simpl in Hq. lia.
Qed.

Lemma fill_fold_sink evs ttl tick : src_ok evs -> tick >= 0 -> forall gaps s0 lg0 s2 lg2,
  fold_left (fill_step false ttl tick (src_of evs 0)) gaps (s0, lg0) = (s2, lg2) ->
  heap_inv ttl s0 -> sink_inv evs s0 ->
  (forall g, In g gaps -> gap_ok g) -> disjoint_sorted gaps ->
  (forall g c, In g gaps -> In c (cover s0) -> cv_e c <= fstart g \/ fend g <= cv_s c) ->
  sink_inv evs s2.
Proof.
  intros Hsrc Htick. induction gaps as [|g r IH]; intros s0 lg0 s2 lg2 Hf H Hsi Hok Hds Hd; simpl in Hf.
  - inversion Hf; subst. exact Hsi.
  - simpl in Hds. destruct Hds as [Hg Hr].
    destruct (Hok g (or_introl eq_refl)) as (Hlo & Hlt & Hhi).
    set (s1 := fill_gap false ttl tick (src_of evs 0 (fstart g) (fend g)) (fstart g) (fend g) s0) in *.
    assert (Hd0 : forall c, In c (cover s0) -> cv_e c <= fstart g \/ fend g <= cv_s c).
    { intros c Hc. apply Hd; [left; reflexivity|exact Hc]. }
    assert (H1 : heap_inv ttl s1) by (apply fill_gap_inv; auto).
    assert (Hsi1 : sink_inv evs s1) by (eapply fill_gap_sink; eauto).
    eapply IH; try exact Hf; auto.
    + intros g' Hg'. apply Hok. right; exact Hg'.
    + intros g' c Hg' Hc. apply fill_gap_cover in Hc as [->|Hc].
      * simpl. left. apply Hg; exact Hg'.
      * apply Hd; [right; exact Hg'|exact Hc].
Qed.

(* one query keeps the sink invariant *)
Theorem cquery_sink_inv evs ttl tick s a b rv s' out log :
  src_ok evs -> ttl > 0 -> tick >= 0 -> NEG_INF < a -> a < b -> b < POS_INF ->
  heap_inv ttl s -> sink_inv evs s ->
  cquery false ttl tick (src_of evs 0) s a b rv = (s', out, log) ->
  sink_inv evs s'.
Proof.
  intros Hsrc Httl Htick Ha Hab Hb H [Hs Hsem] Hq.
  destruct (evict_go (now s) (heap s) (cover s) (sink s)) as [[h1 cv1] sk1] eqn:He.
  set (s1 := mkC sk1 cv1 h1 (hseq s) (now s + tick)).
  destruct (fold_left (fill_step false ttl tick (src_of evs 0)) (gaps_of cv1 a b) (s1, [])) as [s2 lg] eqn:Hf.
  rewrite (cquery_unfold _ _ _ _ _ _ _ _ _ _ _ _ _ He Hf) in Hq. inversion Hq; subst s' out log. clear Hq.
  pose proof (evict_inv ttl tick s h1 cv1 sk1 Htick H He) as H1. fold s1 in H1.
  destruct (evict_go_sink evs _ _ _ _ _ _ _ (hi_bij _ _ H) (hi_chain _ _ H) (hi_span _ _ H) Hs Hsem He)
    as [Hs1 Hsem1].
  assert (Hsi1 : sink_inv evs s1) by (constructor; assumption).
  assert (Hok : cov_span_ok cv1) by (exact (hi_span _ _ H1)).
  assert (Hch : cov_chain cv1) by (exact (hi_chain _ _ H1)).
  destruct (gaps_spec cv1 a b Ha Hab Hb Hok Hch) as (Hin & Hsep & Hcov).
  eapply fill_fold_sink; try exact Hf; auto.
  - intros g Hg. destruct (Hin g Hg) as (? & ? & ?). unfold gap_ok. lia.
  - apply Diff.separatedP_disjoint; [|exact Hsep]. intros f Hf'. destruct (Hin f Hf') as (_ & ? & _). assumption.
  - intros g c Hg Hc. eapply gaps_disjoint_cover; eauto.
Qed.

(* ------------------------------------------------------------------------------------ *)
(* (T5) the result of a query *)

Lemma clipW_eq a b f e :
  pl f = pl e ->
  Z.max (fstart f) (bnd_lo a) = Z.max (fstart e) (bnd_lo a) ->
  Z.min (fend f) (bnd_hi b) = Z.min (fend e) (bnd_hi b) ->
  clipW a b f = clipW a b e.
Proof. intros Hp Hs He. unfold clipW, set_span. rewrite Hp, Hs, He. reflexivity. Qed.

Lemma clipW_nonempty a b f :
  Z.max (fstart f) (bnd_lo a) < Z.min (fend f) (bnd_hi b) ->
  clipW a b f = [set_span f (unS (Z.max (fstart f) (bnd_lo a))) (unE (Z.min (fend f) (bnd_hi b)))].
Proof. intro H. unfold clipW. destruct (_ <? _) eqn:E; [reflexivity|lia]. Qed.

Lemma clipW_in_lt a b f y : In y (clipW a b f) ->
  Z.max (fstart f) (bnd_lo a) < Z.min (fend f) (bnd_hi b).
Proof. unfold clipW. destruct (_ <? _) eqn:E; [lia|intros []]. Qed.

Definition win_covered (cv : list cov) (a b : Z) : Prop :=
  forall x, a <= x < b -> covers (map cov_ivl cv) x = true.

(* a stored fragment that meets a covered window spans the whole of (its event ∩ window) *)
Lemma frag_spans_window evs sk cv a b f e :
  src_ok evs -> sink_sem evs noX sk cv -> win_covered cv a b ->
  In f sk -> In e evs -> pl f = pl e -> fstart e <= fstart f -> fend f <= fend e ->
  Z.max (fstart f) a < Z.min (fend f) b ->
  Z.max (fstart f) a = Z.max (fstart e) a /\ Z.min (fend f) b = Z.min (fend e) b.
Proof.
  intros Hsrc [A B C D] Hwin Hf He Hp Hlo Hhi Hne.
  destruct (A f Hf) as [(_ & _ & Hpos & _) _].
  split.
  - destruct (Z_le_gt_dec (fstart f) (Z.max (fstart e) a)) as [|Hgt]; [lia|exfalso].
    set (x := fstart f - 1).
    assert (Hex : inside e x = true) by (unfold inside, x; lia).
    assert (Hcx : covers (map cov_ivl cv) x = true) by (apply Hwin; unfold x; lia).
    destruct (D e x He Hex Hcx) as (f' & Hf' & Hp' & Hx'). unfold inside in Hx'.
    destruct (sep_list_in _ _ f' f C Hf' Hf) as [->|Hsep]; [unfold x in Hx'; lia|].
    assert (K : key_of f' = key_of f) by (apply key_of_pl; congruence).
    specialize (Hsep K). unfold noX, x in *. lia.
  - destruct (Z_le_gt_dec (Z.min (fend e) b) (fend f)) as [|Hgt]; [lia|exfalso].
    set (x := fend f).
    assert (Hex : inside e x = true) by (unfold inside, x; lia).
    assert (Hcx : covers (map cov_ivl cv) x = true) by (apply Hwin; unfold x; lia).
    destruct (D e x He Hex Hcx) as (f' & Hf' & Hp' & Hx'). unfold inside in Hx'.
    destruct (sep_list_in _ _ f' f C Hf' Hf) as [->|Hsep]; [unfold x in Hx'; lia|].
    assert (K : key_of f' = key_of f) by (apply key_of_pl; congruence).
    specialize (Hsep K). unfold noX, x in *. lia.
Qed.

Lemma NoDup_app_intro {A} (l1 l2 : list A) :
  NoDup l1 -> NoDup l2 -> (forall x, In x l1 -> ~ In x l2) -> NoDup (l1 ++ l2).
Proof.
  induction l1 as [|x r IH]; simpl; intros H1 H2 Hd; [exact H2|].
  inversion H1; subst. constructor.
  - intro Hin. apply in_app_or in Hin as [Hin|Hin]; [contradiction|]. eapply Hd; [left; reflexivity|exact Hin].
  - apply IH; [assumption|assumption|]. intros y Hy Hy2. apply (Hd y); [right; exact Hy|exact Hy2].
Qed.

Lemma clipW_nodup a b f : NoDup (clipW a b f).
Proof. unfold clipW. destruct (_ <? _); repeat constructor; simpl; tauto. Qed.

Lemma clipW_pl a b f y : In y (clipW a b f) -> pl y = pl f.
Proof. unfold clipW. destruct (_ <? _); [|intros []]. intros [<-|[]]. reflexivity. Qed.

Lemma clip_src_nodup a b evs : NoDup (map key_of evs) -> NoDup (flat_map (clipW a b) evs).
Proof.
  induction evs as [|e r IH]; simpl; intro Hnd; [constructor|]. inversion Hnd as [|? ? Hx Hr]; subst.
  apply NoDup_app_intro; [apply clipW_nodup|auto|].
  intros y Hy Hy'. apply in_flat_map in Hy' as (e' & He' & Hy').
  apply clipW_pl in Hy. apply clipW_pl in Hy'. apply Hx.
  assert (K : key_of e = key_of e') by (apply key_of_pl; congruence).
  rewrite K. apply in_map; exact He'.
Qed.

Lemma clip_sink_nodup a b sk :
  (forall f, In f sk -> fstart f < fend f) -> sep_list noX sk -> NoDup (flat_map (clipW a b) sk).
Proof.
  induction sk as [|f r IH]; simpl; intros Hpos Hsep; [constructor|]. destruct Hsep as [Hf Hr].
  apply NoDup_app_intro; [apply clipW_nodup| |].
  - apply IH; auto.
  - intros y Hy Hy'. apply in_flat_map in Hy' as (g & Hg & Hy').
    pose proof (clipW_pl _ _ _ _ Hy) as P1. pose proof (clipW_pl _ _ _ _ Hy') as P2.
    assert (K : key_of f = key_of g) by (apply key_of_pl; congruence).
    specialize (Hf g Hg K). unfold noX in Hf.
    destruct (clipW_shape _ _ _ _ Hy) as (_ & S1 & E1 & L1 & _).
    destruct (clipW_shape _ _ _ _ Hy') as (_ & S2 & E2 & L2 & _).
    pose proof (Hpos f (or_introl eq_refl)). pose proof (Hpos g (or_intror Hg)). lia.
Qed.

Lemma sortedP_sorted_le l : sortedP l <-> sorted_le key_le l.
Proof. induction l as [|x r IH]; simpl; [tauto|]. rewrite IH. tauto. Qed.

Lemma sorted_le_snoc le l x :
  sorted_le le l -> (forall y, In y l -> le y x = true) -> sorted_le le (l ++ [x]).
Proof.
  induction l as [|z r IH]; simpl; intros Hs Hx; [split; [intros y []|exact I]|].
  destruct Hs as [Hz Hr]. split.
  - intros y Hy. apply in_app_or in Hy as [Hy|[<-|[]]]; auto.
  - apply IH; auto.
Qed.

Lemma sorted_le_rev le l : sorted_le le l -> sorted_le (fun a b => le b a) (rev l).
Proof.
  induction l as [|x r IH]; simpl; intro Hs; [exact I|]. destruct Hs as [Hx Hr].
  apply sorted_le_snoc; [auto|]. intros y Hy. apply in_rev in Hy. auto.
Qed.

Lemma filter_all {A} (P : A -> bool) l : (forall x, In x l -> P x = true) -> filter P l = l.
Proof.
  induction l as [|x r IH]; simpl; intro H; [reflexivity|].
  rewrite (H x (or_introl eq_refl)). f_equal. apply IH. intros y Hy. apply H. right; exact Hy.
Qed.

(* the result of fetching a covered window from a sink satisfying the invariant *)
Theorem fetch_covered_window evs s a b rv :
  src_ok evs -> sink_inv evs s -> a < b -> NEG_INF < a -> b < POS_INF ->
  win_covered (cover s) a b ->
  let out := fetch_static (sink s) (Some a) (Some b) rv in
  Permutation (flat_map (clipW (Some a) (Some b)) out)
              (flat_map (clipW (Some a) (Some b)) (filter pos_len evs)) /\
  sorted_le (if rv then key_ge else key_le) out.
Proof.
  intros Hsrc [Hs Hsem] Hab Ha Hb Hwin out.
  destruct (fetch_static_spec (sink s) (Some a) (Some b) Hs) as [Hfwd Hrev].
  split.
  - assert (Hevs : filter pos_len evs = evs).
    { apply filter_all. intros e He. destruct Hsrc as [Hw _]. destruct (Hw e He) as ((_ & ? & _) & _).
      unfold pos_len. lia. }
    rewrite Hevs.
    assert (Hout : Permutation out (filter (in_range (Some a) (Some b)) (sink s))).
    { unfold out. destruct rv; [rewrite Hrev, Hfwd; apply Permutation_sym, Permutation_rev|rewrite Hfwd; reflexivity]. }
    eapply Permutation_trans; [apply Permutation_flat_map, Hout|].
    rewrite flat_map_filter_nil.
    2:{ intros f _ Hr. unfold clipW. destruct (_ <? _) eqn:E; [|reflexivity].
        unfold in_range in Hr. simpl in Hr, E. lia. }
    pose proof Hsem as [A B C D].
    assert (Hkey : forall f e, In f (sink s) -> In e evs -> pl f = pl e ->
                     Z.max (fstart f) a < Z.min (fend f) b ->
                     clipW (Some a) (Some b) f = clipW (Some a) (Some b) e).
    { intros f e Hf He Hp Hne. destruct (A f Hf) as [_ (e' & He' & Hp' & Hlo & Hhi)].
      assert (e' = e) as ->.
      { apply (src_key_inj evs); auto. apply key_of_pl. congruence. }
      destruct (frag_spans_window evs _ _ a b f e Hsrc Hsem Hwin Hf He Hp Hlo Hhi Hne) as [E1 E2].
      apply clipW_eq; simpl; auto. }
    apply NoDup_Permutation.
    + apply clip_sink_nodup; [|exact C]. intros f Hf. destruct (A f Hf) as [(_ & _ & ? & _) _]. assumption.
    + apply clip_src_nodup. destruct Hsrc as [_ Hnd]. exact Hnd.
    + intro y. rewrite !in_flat_map. split.
      * intros (f & Hf & Hy). destruct (A f Hf) as [_ (e & He & Hp & Hlo & Hhi)].
        exists e. split; [exact He|]. rewrite <- (Hkey f e Hf He Hp); [exact Hy|].
        apply clipW_in_lt in Hy. simpl in Hy. exact Hy.
      * intros (e & He & Hy). pose proof (clipW_in_lt _ _ _ _ Hy) as Hne. simpl in Hne.
        set (x := Z.max (fstart e) a).
        assert (Hex : inside e x = true) by (unfold inside, x; lia).
        assert (Hcx : covers (map cov_ivl (cover s)) x = true) by (apply Hwin; unfold x; lia).
        destruct (D e x He Hex Hcx) as (f & Hf & Hp & Hx). unfold inside in Hx.
        exists f. split; [exact Hf|]. rewrite (Hkey f e Hf He Hp); [exact Hy|unfold x in Hx; lia].
  - assert (Hsf : sorted_le key_le (fetch_static (sink s) (Some a) (Some b) false)).
    { apply sortedP_sorted_le. apply sorted_key_P. apply fetch_static_sorted. exact Hs. }
    unfold out. destruct rv; [|exact Hsf]. rewrite Hrev. apply (sorted_le_rev key_le). exact Hsf.
Qed.

(* ------------------------------------------------------------------------------------ *)
(* histories over a static keyed source *)

Definition static_op (o : cop) : Prop := op_ok o /\ o <> CMutate.

Record run_inv (evs : list ivl) (ttl : Z) (r : crun) : Prop := mkRI {
  ri_ver : r_ver r = 0%N;
  ri_heap : heap_inv ttl (r_state r);
  ri_sink : sink_inv evs (r_state r)
}.

(* what C09 says about one query and its result *)
Definition c09_result (evs : list ivl) (q : Z * Z * bool) (out : list ivl) : Prop :=
  let '(a, b, rv) := q in
  Permutation (flat_map (clipW (Some a) (Some b)) out)
              (flat_map (clipW (Some a) (Some b)) (filter pos_len evs)) /\
  sorted_le (if rv then key_ge else key_le) out.

Lemma cquery_c09 evs ttl tick s a b rv s' out log :
  src_ok evs -> ttl > 0 -> tick >= 0 -> NEG_INF < a -> a < b -> b < POS_INF ->
  heap_inv ttl s -> sink_inv evs s ->
  cquery false ttl tick (src_of evs 0) s a b rv = (s', out, log) ->
  heap_inv ttl s' /\ sink_inv evs s' /\ c09_result evs (a, b, rv) out.
Proof.
  intros Hsrc Httl Htick Ha Hab Hb H Hsi Hq.
  pose proof (cquery_sink_inv evs ttl tick s a b rv s' out log Hsrc Httl Htick Ha Hab Hb H Hsi Hq) as Hsi'.
  destruct (economy _ _ _ _ _ _ _ _ _ _ _ Httl Htick Ha Hab Hb H Hq)
    as (h1 & cv1 & sk1 & _ & _ & _ & _ & _ & H' & Hout & Hwin & _).
  split; [exact H'|]. split; [exact Hsi'|]. unfold c09_result. rewrite Hout.
  apply fetch_covered_window; auto.
  intros x Hx. apply covers_cov_iff. destruct (Hwin x Hx) as (c & Hc & Hcx). exists c. split; [exact Hc|lia].
Qed.

Lemma cstep_run_inv evs ttl tick r o :
  src_ok evs -> ttl > 0 -> tick >= 0 -> static_op o -> run_inv evs ttl r ->
  run_inv evs ttl (cstep false ttl tick evs r o).
Proof.
  intros Hsrc Httl Htick [Ho Hnm] [Hv H Hsi]. destruct o as [a b rv|d|]; simpl in *.
  - destruct Ho as (Ha & Hab & Hb). rewrite Hv.
    destruct (cquery false ttl tick (src_of evs 0) (r_state r) a b rv) as [[s' out] lg] eqn:Hq.
    destruct (cquery_c09 evs ttl tick _ a b rv s' out lg Hsrc Httl Htick Ha Hab Hb H Hsi Hq) as (H' & Hsi' & _).
    constructor; simpl; [reflexivity|exact H'|exact Hsi'].
  - constructor; simpl; [exact Hv| |].
    + destruct H as [A B C D E F G]. constructor; simpl; auto.
      intros c Hc. specialize (G c Hc). lia.
    + destruct Hsi as [A B]. constructor; simpl; assumption.
  - congruence.
Qed.

Lemma crun_from_run_inv evs ttl tick : src_ok evs -> ttl > 0 -> tick >= 0 -> forall ops r,
  Forall static_op ops -> run_inv evs ttl r ->
  run_inv evs ttl (fold_left (cstep false ttl tick evs) ops r).
Proof.
  intros Hsrc Httl Htick. induction ops as [|o ops IH]; intros r Hops H; simpl; [exact H|].
  inversion Hops; subst. apply IH; [assumption|]. apply cstep_run_inv; assumption.
Qed.

Lemma run_inv_init evs ttl t0 : run_inv evs ttl (mkR (cinit t0) 0%N [] [] [] []).
Proof. constructor; simpl; [reflexivity|apply heap_inv_init|apply sink_inv_init]. Qed.

(* (T4) in every reachable state the sink is sorted and is exactly the source restricted to the
   maximal runs of the covers (stated as sink_sem with no touching points allowed) *)
Theorem sink_inv_reachable evs ttl tick t0 ops :
  src_ok evs -> ttl > 0 -> tick >= 0 -> Forall static_op ops ->
  sink_inv evs (r_state (crun_all false ttl tick t0 evs ops)).
Proof.
  intros Hsrc Httl Htick Hops. unfold crun_all.
  apply (crun_from_run_inv evs ttl tick Hsrc Httl Htick ops _ Hops (run_inv_init evs ttl t0)).
Qed.

(* (T5) a query made in any reachable state returns the source's events on its window *)
Theorem C09_observational evs ttl tick t0 ops a b rv s' out log :
  src_ok evs -> ttl > 0 -> tick >= 0 -> Forall static_op ops ->
  NEG_INF < a -> a < b -> b < POS_INF ->
  cquery false ttl tick (src_of evs 0) (r_state (crun_all false ttl tick t0 evs ops)) a b rv = (s', out, log) ->
  Permutation (flat_map (clipW (Some a) (Some b)) out)
              (flat_map (clipW (Some a) (Some b)) (filter pos_len evs)) /\
  sorted_le (if rv then key_ge else key_le) out.
Proof.
  intros Hsrc Httl Htick Hops Ha Hab Hb Hq.
  pose proof (crun_from_run_inv evs ttl tick Hsrc Httl Htick ops _ Hops (run_inv_init evs ttl t0)) as [Hv H Hsi].
  fold (crun_all false ttl tick t0 evs ops) in H, Hsi.
  destruct (cquery_c09 evs ttl tick _ a b rv s' out log Hsrc Httl Htick Ha Hab Hb H Hsi Hq) as (_ & _ & Hr).
  exact Hr.
Qed.

(* the same for every result recorded along a history *)
Definition queries (ops : list cop) : list (Z * Z * bool) :=
  flat_map (fun o => match o with CQuery a b rv => [(a, b, rv)] | _ => [] end) ops.

Lemma crun_from_outputs evs ttl tick : src_ok evs -> ttl > 0 -> tick >= 0 -> forall ops r qs0,
  Forall static_op ops -> run_inv evs ttl r ->
  Forall2 (c09_result evs) qs0 (r_outs r) ->
  Forall2 (c09_result evs) (qs0 ++ queries ops) (r_outs (fold_left (cstep false ttl tick evs) ops r)).
Proof.
  intros Hsrc Httl Htick. induction ops as [|o ops IH]; intros r qs0 Hops Hri Hf; simpl.
  - rewrite app_nil_r. exact Hf.
  - inversion Hops as [|? ? Ho Hops']; subst.
    pose proof (cstep_run_inv evs ttl tick r o Hsrc Httl Htick Ho Hri) as Hri'.
    destruct o as [a b rv|d|].
    + change (queries (CQuery a b rv :: ops)) with ([(a, b, rv)] ++ queries ops).
      rewrite (app_assoc qs0 [(a, b, rv)] (queries ops)).
      apply IH; auto.
      destruct Hri as [Hv H Hsi]. destruct Ho as [(Ha & Hab & Hb) _].
      simpl. rewrite Hv.
      destruct (cquery false ttl tick (src_of evs 0) (r_state r) a b rv) as [[s' out] lg] eqn:Hq.
      destruct (cquery_c09 evs ttl tick _ a b rv s' out lg Hsrc Httl Htick Ha Hab Hb H Hsi Hq) as (_ & _ & Hr).
      simpl. apply Forall2_app; [exact Hf|]. constructor; [exact Hr|constructor].
    + change (queries (CAdvance d :: ops)) with (queries ops). apply IH; auto.
    + change (queries (CMutate :: ops)) with (queries ops). apply IH; auto.
Qed.

Theorem C09_all_outputs evs ttl tick t0 ops :
  src_ok evs -> ttl > 0 -> tick >= 0 -> Forall static_op ops ->
  Forall2 (c09_result evs) (queries ops) (r_outs (crun_all false ttl tick t0 evs ops)).
Proof.
  intros Hsrc Httl Htick Hops. unfold crun_all.
  apply (crun_from_outputs evs ttl tick Hsrc Httl Htick ops _ [] Hops (run_inv_init evs ttl t0)).
  constructor.
Qed.


(* ------------------------------------------------------------------------------------ *)
(* the invariant determines the sink: two sinks satisfying it for the same covers are equal as
   multisets (so "sink_sem" is the statement "the sink is exactly the source restricted to the
   maximal runs of the covers") *)

Lemma sink_sem_nodup evs sk cv : sink_sem evs noX sk cv -> NoDup sk.
Proof.
  intros [A _ C _]. induction sk as [|f r IH]; [constructor|]. simpl in C. destruct C as [Hf Hr].
  constructor.
  - intro Hin. destruct (A f (or_introl eq_refl)) as [(_ & _ & Hpos & _) _].
    specialize (Hf f Hin eq_refl). unfold noX in Hf. lia.
  - apply IH; auto. intros g Hg. apply A. right; exact Hg.
Qed.

Lemma sink_sem_incl evs sk sk' cv :
  src_ok evs -> sink_sem evs noX sk cv -> sink_sem evs noX sk' cv -> incl sk sk'.
Proof.
  intros Hsrc S S' f Hf. pose proof S as [A B C D]. pose proof S' as [A' B' C' D'].
  destruct (A f Hf) as [(Hst & Hen & Hpos & Hk) (e & He & Hp & Hlo & Hhi)].
  (* the fragment of sk' that contains the first instant of f *)
  assert (Hex : inside e (fstart f) = true) by (unfold inside; lia).
  assert (Hcx : covers (map cov_ivl cv) (fstart f) = true) by (apply (B f); [exact Hf|unfold inside; lia]).
  destruct (D' e _ He Hex Hcx) as (f' & Hf' & Hp' & Hx'). unfold inside in Hx'.
  destruct (A' f' Hf') as [(Hst' & Hen' & Hpos' & Hk') (e' & He' & Hpe' & Hlo' & Hhi')].
  assert (e' = e) as -> by (apply (src_key_inj evs); auto; apply key_of_pl; congruence).
  (* any fragment of key e in sk (resp. sk') containing an instant outside f (resp. f') contradicts separation *)
  assert (Kf : forall g, In g sk -> pl g = pl e -> g = f \/ fend g < fstart f \/ fend f < fstart g).
  { intros g Hg Hpg. destruct (sep_list_in _ _ g f C Hg Hf) as [->|Hs]; [left; reflexivity|right].
    assert (K : key_of g = key_of f) by (apply key_of_pl; congruence). specialize (Hs K). unfold noX in Hs. lia. }
  assert (Kf' : forall g, In g sk' -> pl g = pl e -> g = f' \/ fend g < fstart f' \/ fend f' < fstart g).
  { intros g Hg Hpg. destruct (sep_list_in _ _ g f' C' Hg Hf') as [->|Hs]; [left; reflexivity|right].
    assert (K : key_of g = key_of f') by (apply key_of_pl; congruence). specialize (Hs K). unfold noX in Hs. lia. }
  assert (E1 : fstart f' = fstart f).
  { destruct (Z_lt_le_dec (fstart f') (fstart f)) as [Hlt|]; [exfalso|lia].
    set (x := fstart f - 1).
    assert (I1 : inside f' x = true) by (unfold inside, x; lia).
    assert (I2 : inside e x = true) by (unfold inside, x; lia).
    destruct (D e x He I2 (B' f' x Hf' I1)) as (g & Hg & Hpg & Hxg). unfold inside in Hxg.
    destruct (Kf g Hg Hpg) as [->|Hs]; unfold x in *; lia. }
  assert (E2 : fend f' = fend f).
  { destruct (Z_lt_le_dec (fend f) (fend f')) as [Hlt|Hge]; [exfalso|].
    - set (x := fend f).
      assert (I1 : inside f' x = true) by (unfold inside, x; lia).
      assert (I2 : inside e x = true) by (unfold inside, x; lia).
      destruct (D e x He I2 (B' f' x Hf' I1)) as (g & Hg & Hpg & Hxg). unfold inside in Hxg.
      destruct (Kf g Hg Hpg) as [->|Hs]; unfold x in *; lia.
    - destruct (Z_lt_le_dec (fend f') (fend f)) as [Hlt|]; [exfalso|lia].
      set (x := fend f').
      assert (I1 : inside f x = true) by (unfold inside, x; lia).
      assert (I2 : inside e x = true) by (unfold inside, x; lia).
      destruct (D' e x He I2 (B f x Hf I1)) as (g & Hg & Hpg & Hxg). unfold inside in Hxg.
      destruct (Kf' g Hg Hpg) as [->|Hs]; unfold x in *; lia. }
  assert (f' = f) as <-; [|exact Hf'].
  destruct f as [s1 e1 p1], f' as [s2 e2 p2]; simpl in *. congruence.
Qed.

Theorem sink_sem_unique evs sk sk' cv :
  src_ok evs -> sink_sem evs noX sk cv -> sink_sem evs noX sk' cv -> Permutation sk sk'.
Proof.
  intros Hsrc S S'. apply NoDup_Permutation.
  - eapply sink_sem_nodup; eauto.
  - eapply sink_sem_nodup; eauto.
  - intro f. split; apply sink_sem_incl with (evs := evs) (cv := cv); auto.
Qed.

(* ------------------------------------------------------------------------------------ *)
(* non-vacuity: concrete histories satisfy the hypotheses; expected results by computation *)

Definition ex_ev (a b : option Z) (k : N) : ivl := mkI a b (Rich (k * KEYMOD)).
(* key 1 spans the segment edges 10, 15 and 20; key 3 is unbounded on the left *)
Definition ex_evs : list ivl :=
  [ex_ev (Some 5) (Some 25) 1; ex_ev (Some 12) (Some 18) 2; ex_ev None (Some 8) 3].

Example ex_src_ok : src_ok ex_evs.
Proof.
  split.
  - intros e He. simpl in He.
    destruct He as [<-|[<-|[<-|[]]]];
      (split; [unfold wf_ivl, fstart, fend, NEG_INF, POS_INF; simpl; lia|]);
      (split; [unfold canon_ivl, NEG_INF, POS_INF; simpl; split; intro H; discriminate H|]).
    + exists 1%N; reflexivity.
    + exists 2%N; reflexivity.
    + exists 3%N; reflexivity.
  - assert (E : map key_of ex_evs = [Some 1%N; Some 2%N; Some 3%N]) by (vm_compute; reflexivity).
    rewrite E. repeat constructor; simpl; intuition discriminate.
Qed.

(* ttl 5, tick 1, clock starts at 0.  History A: the second cover is created 5 later than the
   first; the third query evicts only the first cover ([0,10) expires at 6), which cuts the
   stitched fragment [5,20) of key 1 back to [10,20); the refetch of [0,10) stitches it again;
   the last query is served from the cache (empty log). *)
Definition ex_opsA : list cop :=
  [CQuery 0 10 false; CAdvance 3; CQuery 10 20 false; CQuery 0 20 false; CQuery 8 12 true].

Example ex_opsA_ok : Forall static_op ex_opsA.
Proof.
  unfold ex_opsA, static_op, op_ok, NEG_INF, POS_INF.
  repeat constructor; try lia; discriminate.
Qed.

Definition I3 (a b : Z) (k : N) : ivl := mkI (Some a) (Some b) (Rich (k * KEYMOD)).

Example exA_run :
  let r := crun_all false 5 1 0 ex_evs ex_opsA in
  r_outs r = [ [I3 0 8 3; I3 5 10 1];
               [I3 5 20 1; I3 12 18 2];
               [I3 0 8 3; I3 5 20 1; I3 12 18 2];
               [I3 12 18 2; I3 5 20 1] ] /\
  r_logs r = [ [(1, 0, 10)]; [(6, 10, 20)]; [(8, 0, 10)]; [] ] /\
  r_evt r = [0; 5; 7; 9] /\
  sink (r_state r) = [I3 0 8 3; I3 5 20 1; I3 12 18 2] /\
  cover (r_state r) = [mkCov 0 10 8; mkCov 10 20 6] /\
  heap (r_state r) = [(11, 2%N, mkCov 10 20 6); (13, 3%N, mkCov 0 10 8)].
Proof. vm_compute. repeat split; reflexivity. Qed.

(* the theorems apply to it *)
Example exA_heap_inv : heap_inv 5 (r_state (crun_all false 5 1 0 ex_evs ex_opsA)).
Proof.
  apply heap_inv_reachable; [lia|lia|].
  eapply Forall_impl; [|exact ex_opsA_ok]. intros o [Ho _]; exact Ho.
Qed.

Example exA_sink_inv : sink_inv ex_evs (r_state (crun_all false 5 1 0 ex_evs ex_opsA)).
Proof. apply sink_inv_reachable; [exact ex_src_ok|lia|lia|exact ex_opsA_ok]. Qed.

Example exA_c09 :
  Forall2 (c09_result ex_evs) (queries ex_opsA) (r_outs (crun_all false 5 1 0 ex_evs ex_opsA)).
Proof. apply C09_all_outputs; [exact ex_src_ok|lia|lia|exact ex_opsA_ok]. Qed.

(* what C09 says about the third result: the three events, each once, clipped to [0,20) *)
Example exA_third_clipped :
  flat_map (clipW (Some 0) (Some 20)) [I3 0 8 3; I3 5 20 1; I3 12 18 2] =
  [I3 0 8 3; I3 5 20 1; I3 12 18 2] /\
  flat_map (clipW (Some 0) (Some 20)) (filter pos_len ex_evs) =
  [I3 5 20 1; I3 12 18 2; I3 0 8 3].
Proof. vm_compute. split; reflexivity. Qed.

(* History B: both covers expire before the third query (clock 8: expiries 6 and 8), which
   refetches its whole window [5,15); the fourth query fetches the two parts still missing. *)
Definition ex_opsB : list cop :=
  [CQuery 0 10 false; CQuery 10 20 false; CAdvance 4; CQuery 5 15 true; CAdvance 2; CQuery 0 30 false].

Example ex_opsB_ok : Forall static_op ex_opsB.
Proof.
  unfold ex_opsB, static_op, op_ok, NEG_INF, POS_INF.
  repeat constructor; try lia; discriminate.
Qed.

Example exB_run :
  let r := crun_all false 5 1 0 ex_evs ex_opsB in
  r_outs r = [ [I3 0 8 3; I3 5 10 1];
               [I3 5 20 1; I3 12 18 2];
               [I3 12 15 2; I3 5 15 1; I3 5 8 3];
               [I3 0 8 3; I3 5 25 1; I3 12 18 2] ] /\
  r_logs r = [ [(1, 0, 10)]; [(3, 10, 20)]; [(9, 5, 15)]; [(13, 0, 5); (14, 15, 30)] ] /\
  r_evt r = [0; 2; 8; 12] /\
  sink (r_state r) = [I3 0 8 3; I3 5 25 1; I3 12 18 2] /\
  cover (r_state r) = [mkCov 0 5 13; mkCov 5 15 9; mkCov 15 30 14].
Proof. vm_compute. repeat split; reflexivity. Qed.

Example exB_c09 :
  Forall2 (c09_result ex_evs) (queries ex_opsB) (r_outs (crun_all false 5 1 0 ex_evs ex_opsB)).
Proof. apply C09_all_outputs; [exact ex_src_ok|lia|lia|exact ex_opsB_ok]. Qed.

(* economy on a concrete query: the fourth query of history A makes no source fetch *)
Example exA_no_refetch :
  let s := r_state (crun_all false 5 1 0 ex_evs [CQuery 0 10 false; CAdvance 3; CQuery 10 20 false; CQuery 0 20 false]) in
  snd (cquery false 5 1 (src_of ex_evs 0) s 8 12 true) = [].
Proof. vm_compute. reflexivity. Qed.

Print Assumptions stitch_at_perm.
Print Assumptions purge_sem.
Print Assumptions clip_sem.
Print Assumptions stitch_sem.
Print Assumptions sink_inv_reachable.
Print Assumptions sink_sem_unique.
Print Assumptions C09_observational.
Print Assumptions C09_all_outputs.
Print Assumptions exA_c09.
