(* Proofs/CacheMask.v — C09 for MASK sources (Model/Cache.v with masked = true: no key, so
   _stitch_at is the identity and a source event spanning several cached segments stays cut at
   the segment edges).  What the property claims for masks is the covered time.
   Part 1: pointwise coverage of _purge_sink and of the clipping loop of _fill_gap.
   Part 2: the invariant [msem] (coverage of the sink = source coverage restricted to the
           covers; every fragment inside ONE cover segment) through eviction and gap filling.
   Part 3: one query, histories (with clock advances AND source mutations: re-tagging does not
           move time), the observational theorems; the same machine over ANY source faithful to
           a covered-time function (a mask expression such as ~T), instance cached(~T).
   Part 4: the exact content of the sink and of a result as multisets, payloads included: the
           source clipped to each cached segment separately.
   Part 5: the harness oracle as a theorem, non-vacuity, and the clauses that do NOT hold
           (results are not clipped to the window; events are not returned whole).
   Nothing is assumed of the source events: overlapping, nested, duplicated, unbounded,
   empty and reversed (start >= end) events, any payloads. *)
From CG Require Import Proofs.Defs Proofs.Stored Proofs.Compl Proofs.Diff Proofs.Merge Proofs.RefSpec Model.Cache Proofs.CacheInv Proofs.CacheInv2.

(* ==================================== Part 1 ==================================== *)

(* a stored fragment of a masked cache: finite explicit bounds, positive length (no key) *)
Definition mfrag_ok (f : ivl) : Prop :=
  st f = Some (fstart f) /\ en f = Some (fend f) /\ fstart f < fend f.

Definition in_seg (s e t : Z) : bool := (s <=? t) && (t <? e).

Lemma mfrag_mk a b p : a < b -> mfrag_ok (mkI (Some a) (Some b) p).
Proof. intro L. unfold mfrag_ok, fstart, fend. cbn [st en]. repeat split. exact L. Qed.

Lemma covers_flat_map_app (F : ivl -> list ivl) x l t :
  covers (flat_map F (x :: l)) t = covers (F x) t || covers (flat_map F l) t.
Proof. cbn [flat_map]. apply covers_app. Qed.

Lemma covers_filter (Q : ivl -> bool) l t :
  (forall i, In i l -> inside i t = true -> Q i = true) -> covers (filter Q l) t = covers l t.
Proof.
  induction l as [|x r IH]; intro H; [reflexivity|].
  assert (IH' : covers (filter Q r) t = covers r t).
  { apply IH. intros i Hi. apply H. right; exact Hi. }
  cbn [filter]. destruct (Q x) eqn:E.
  - rewrite !covers_cons, IH'. reflexivity.
  - rewrite covers_cons, IH'. destruct (inside x t) eqn:I; [|reflexivity].
    rewrite (H x (or_introl eq_refl) I) in E. discriminate.
Qed.

(* ---------- _purge_sink ---------- *)
Lemma purge_parts_m s e f : mfrag_ok f ->
  purge_parts s e f =
  if in_range (Some s) (Some e) f then
    (if fstart f <? s then [mkI (Some (fstart f)) (Some s) (pl f)] else []) ++
    (if fend f >? e then [mkI (Some e) (Some (fend f)) (pl f)] else [])
  else [f].
Proof.
  intros (S & E & _). unfold purge_parts.
  destruct (in_range (Some s) (Some e) f); [|reflexivity].
  rewrite S, E. reflexivity.
Qed.

Lemma purge_char_m s e f g : mfrag_ok f -> In g (purge_parts s e f) ->
  mfrag_ok g /\ pl g = pl f /\ fstart f <= fstart g /\ fend g <= fend f /\
  (fend g <= s \/ e <= fstart g).
Proof.
  intros Hf Hg. rewrite (purge_parts_m s e f Hf) in Hg.
  pose proof Hf as (S & E & Lt).
  destruct (in_range (Some s) (Some e) f) eqn:R; unfold in_range in R.
  - apply in_app_or in Hg. destruct Hg as [Hg|Hg].
    + destruct (fstart f <? s) eqn:C; [|destruct Hg]. destruct Hg as [<-|[]].
      split; [apply mfrag_mk; lia|].
      rewrite ?fstart_mk, ?fend_mk. cbn [pl]. repeat split; try lia.
    + destruct (fend f >? e) eqn:C; [|destruct Hg]. destruct Hg as [<-|[]].
      split; [apply mfrag_mk; lia|].
      rewrite ?fstart_mk, ?fend_mk. cbn [pl]. repeat split; try lia.
  - destruct Hg as [<-|[]]. repeat split; try assumption; try lia.
Qed.

(* the instants a fragment keeps when [s,e) is purged *)
Lemma purge_parts_covers s e f t : mfrag_ok f ->
  covers (purge_parts s e f) t = inside f t && negb (in_seg s e t).
Proof.
  intro Hf. rewrite (purge_parts_m s e f Hf). destruct Hf as (_ & _ & Lt).
  unfold in_seg.
  destruct (in_range (Some s) (Some e) f) eqn:R; unfold in_range in R.
  - destruct (fstart f <? s) eqn:C1; destruct (fend f >? e) eqn:C2;
      cbn [app]; rewrite ?covers_cons, ?covers_nil; unfold inside;
      rewrite ?fstart_mk, ?fend_mk; lia.
  - rewrite covers_cons, covers_nil. unfold inside. lia.
Qed.

Lemma purge_flat_covers s e sk t : (forall f, In f sk -> mfrag_ok f) ->
  covers (flat_map (purge_parts s e) sk) t = covers sk t && negb (in_seg s e t).
Proof.
  induction sk as [|x r IH]; intro H; [reflexivity|].
  rewrite covers_flat_map_app, covers_cons, (purge_parts_covers s e x t (H x (or_introl eq_refl))).
  rewrite IH by (intros f Hf; apply H; right; exact Hf).
  destruct (inside x t), (covers r t), (in_seg s e t); reflexivity.
Qed.

(* ---------- the clipping loop of _fill_gap ---------- *)
Lemma clip_list_covers gs ge i t : NEG_INF <= gs -> ge <= POS_INF ->
  covers (clip_list gs ge i) t = in_seg gs ge t && inside i t.
Proof.
  intros H1 H2. rewrite (clip_list_ok gs ge i H1 H2). unfold in_seg.
  destruct (Z.max (fstart i) gs >=? Z.min (fend i) ge) eqn:C.
  - rewrite covers_nil. unfold inside. lia.
  - rewrite covers_cons, covers_nil. unfold inside. rewrite fstart_mk, fend_mk. lia.
Qed.

Lemma clip_flat_covers gs ge l t : NEG_INF <= gs -> ge <= POS_INF ->
  covers (flat_map (clip_list gs ge) l) t = in_seg gs ge t && covers l t.
Proof.
  intros H1 H2. induction l as [|x r IH]; [rewrite andb_false_r; reflexivity|].
  rewrite covers_flat_map_app, covers_cons, (clip_list_covers gs ge x t H1 H2), IH.
  destruct (in_seg gs ge t), (inside x t), (covers r t); reflexivity.
Qed.

(* ---------- the source of the model: re-tagging does not move time ---------- *)
Lemma inside_retag v i t : inside (retag v i) t = inside i t.
Proof. unfold retag. destruct (pl i); reflexivity. Qed.

Lemma covers_retag v l t : covers (map (retag v) l) t = covers l t.
Proof.
  induction l as [|x r IH]; [reflexivity|].
  cbn [map]. rewrite !covers_cons, inside_retag, IH. reflexivity.
Qed.

(* a source fetch is faithful to the denotation D on the fetched window (the cache only fetches
   windows with finite bounds strictly between the sentinels) *)
Definition faithful (D : Z -> bool) (src : Z -> Z -> list ivl) : Prop :=
  forall gs ge t, NEG_INF < gs -> ge < POS_INF -> gs <= t < ge -> covers (src gs ge) t = D t.

Lemma src_of_faithful evs v : faithful (covers evs) (src_of evs v).
Proof.
  intros gs ge t _ _ Ht. unfold src_of.
  rewrite (proj1 (fetch_static_spec _ (Some gs) (Some ge) (sl_build_sorted _))).
  rewrite covers_filter.
  - rewrite sl_build_covers. apply covers_retag.
  - intros i _ Hi. unfold inside in Hi. unfold in_range. lia.
Qed.

(* ==================================== Part 2 ==================================== *)
(* the sink of a masked cache, relative to the covers: D is the source's covered time *)
Record msem (D : Z -> bool) (sk : list ivl) (cv : list cov) : Prop := mkMS {
  ms_frag : forall f, In f sk -> mfrag_ok f;
  (* never stitched: every fragment lies inside ONE cached segment *)
  ms_seg : forall f, In f sk -> exists c, In c cv /\ cv_s c <= fstart f /\ fend f <= cv_e c;
  (* the covered time of the sink is the source's covered time inside the cached segments *)
  ms_cov : forall t, covers sk t = D t && covers (map cov_ivl cv) t
}.

Lemma msem_perm D sk sk' cv : Permutation sk sk' -> msem D sk cv -> msem D sk' cv.
Proof.
  intros HP [A B C]. pose proof (Permutation_sym HP) as HP'. constructor.
  - intros f Hf. apply A. eapply Permutation_in; eauto.
  - intros f Hf. apply B. eapply Permutation_in; eauto.
  - intro t. rewrite <- (covers_perm _ _ t HP). apply C.
Qed.

Lemma msem_cover_perm D sk cv cv' : Permutation cv cv' -> msem D sk cv -> msem D sk cv'.
Proof.
  intros HP [A B C]. constructor.
  - exact A.
  - intros f Hf. destruct (B f Hf) as (c & Hc & H). exists c. split; [|exact H].
    eapply Permutation_in; eauto.
  - intro t. rewrite <- (covers_perm _ _ t (Permutation_map cov_ivl HP)). apply C.
Qed.

Lemma covers_cov_cons c cv t :
  covers (map cov_ivl (c :: cv)) t = in_seg (cv_s c) (cv_e c) t || covers (map cov_ivl cv) t.
Proof. reflexivity. Qed.

(* evicting the cover c *)
Theorem purge_msem D sk cv cv' c :
  msem D sk cv ->
  Permutation cv (c :: cv') ->
  (forall c', In c' cv' -> cv_e c' <= cv_s c \/ cv_e c <= cv_s c') ->
  msem D (flat_map (purge_parts (cv_s c) (cv_e c)) sk) cv'.
Proof.
  intros [A B C] HP Hdis.
  set (s := cv_s c) in *. set (e := cv_e c) in *.
  constructor.
  - intros g Hg. apply in_flat_map in Hg as (f & Hf & Hg).
    apply (purge_char_m s e f g (A f Hf) Hg).
  - intros g Hg. apply in_flat_map in Hg as (f & Hf & Hg).
    destruct (purge_char_m s e f g (A f Hf) Hg) as ((_ & _ & Lg) & _ & Sg & Eg & Out).
    destruct (B f Hf) as (c0 & Hc0 & S0 & E0).
    apply (Permutation_in _ HP) in Hc0. destruct Hc0 as [<-|Hc0].
    + exfalso. fold s e in S0, E0. lia.
    + exists c0. split; [exact Hc0|lia].
  - intro t. rewrite (purge_flat_covers s e sk t A), C.
    rewrite (covers_perm _ _ t (Permutation_map cov_ivl HP)), covers_cov_cons. fold s e.
    destruct (in_seg s e t) eqn:I; [|rewrite andb_true_r; reflexivity].
    cbn [orb negb]. rewrite !andb_false_r.
    destruct (covers (map cov_ivl cv') t) eqn:Cv; [|rewrite andb_false_r; reflexivity].
    exfalso. apply covers_cov in Cv as (c' & Hc' & Hx). unfold in_seg in I.
    destruct (Hdis c' Hc'); lia.
Qed.

(* the eviction pass *)
Lemma evict_go_mask D t : forall h cv sk h1 cv1 sk1,
  Permutation (map h_cov h) cv -> cov_chain cv -> cov_span_ok cv ->
  sorted_key sk = true -> msem D sk cv ->
  evict_go t h cv sk = (h1, cv1, sk1) ->
  sorted_key sk1 = true /\ msem D sk1 cv1.
Proof.
  induction h as [|[[ex sq] c] r IH]; intros cv sk h1 cv1 sk1 Hp Hch Hok Hs Hsem He; simpl in He.
  - inversion He; subst. split; assumption.
  - destruct (ex <=? t) eqn:E; [|inversion He; subst; split; assumption].
    simpl in Hp. assert (Hin : In c cv) by (eapply Permutation_in; [exact Hp|left; reflexivity]).
    pose proof (cov_remove_perm c cv Hin) as Hrm.
    assert (Hp' : Permutation (map h_cov r) (cov_remove c cv)).
    { eapply Permutation_cons_inv. eapply Permutation_trans; [exact Hp|exact Hrm]. }
    assert (Hpos : forall y, In y cv -> cv_s y < cv_e y).
    { intros y Hy. destruct (Hok y Hy) as (_ & ? & _). assumption. }
    assert (Hnd : NoDup (c :: cov_remove c cv)).
    { eapply Permutation_NoDup; [exact Hrm|]. apply cov_chain_nodup; assumption. }
    assert (Hdis : forall c', In c' (cov_remove c cv) -> cv_e c' <= cv_s c \/ cv_e c <= cv_s c').
    { intros c' Hc'. pose proof (cov_remove_in _ _ _ Hc') as Hc'in.
      destruct (cov_chain_disjoint cv Hch Hpos c' c Hc'in Hin) as [->|Hd]; [|exact Hd].
      inversion Hnd; contradiction. }
    destruct (purge_sink_perm sk (cv_s c) (cv_e c) Hs) as [Hpp Hps].
    assert (Hsem' : msem D (purge_sink sk (cv_s c) (cv_e c)) (cov_remove c cv)).
    { eapply msem_perm; [apply Permutation_sym, Hpp|].
      eapply purge_msem; eauto. }
    eapply IH; try exact He; auto.
    + apply cov_chain_remove; assumption.
    + intros y Hy. apply Hok. eapply cov_remove_in; eauto.
Qed.

(* filling one gap of a masked cache: [srcl] is what the source returned for [gs,ge) *)
Lemma stitch_masked p fl sk : stitch_at true p fl sk = sk.
Proof. reflexivity. Qed.

Lemma fill_gap_mask D ttl tick srcl gs ge s :
  sorted_key (sink s) = true -> msem D (sink s) (cover s) ->
  NEG_INF < gs -> gs < ge -> ge < POS_INF ->
  (forall t, gs <= t < ge -> covers srcl t = D t) ->
  sorted_key (sink (fill_gap true ttl tick srcl gs ge s)) = true /\
  msem D (sink (fill_gap true ttl tick srcl gs ge s)) (cover (fill_gap true ttl tick srcl gs ge s)).
Proof.
  intros Hs [A B C] Hlo Hlt Hhi Hsrc. unfold fill_gap. rewrite !stitch_masked. cbn [sink cover].
  assert (H1 : NEG_INF <= gs) by lia. assert (H2 : ge <= POS_INF) by lia.
  destruct (fill_fold_perm gs ge srcl (sink s) Hs) as [Hp1 Hs1]. cbn zeta in Hp1, Hs1.
  split; [exact Hs1|].
  eapply msem_perm; [apply Permutation_sym, Hp1|].
  eapply msem_cover_perm; [apply Permutation_sym, cov_add_perm|].
  set (c := mkCov gs ge (now s)).
  constructor.
  - intros f Hf. apply in_app_or in Hf as [Hf|Hf]; [apply A, Hf|].
    apply in_flat_map in Hf as (e0 & _ & Hf).
    destruct (clip_char gs ge e0 f H1 H2 Hf) as [-> Lt]. apply mfrag_mk, Lt.
  - intros f Hf. apply in_app_or in Hf as [Hf|Hf].
    + destruct (B f Hf) as (c0 & Hc0 & H). exists c0. split; [right; exact Hc0|exact H].
    + apply in_flat_map in Hf as (e0 & _ & Hf).
      destruct (clip_char gs ge e0 f H1 H2 Hf) as [-> Lt].
      exists c. split; [left; reflexivity|]. rewrite fstart_mk, fend_mk. unfold c. cbn [cv_s cv_e]. lia.
  - intro t. rewrite covers_app, C, (clip_flat_covers gs ge srcl t H1 H2), covers_cov_cons.
    unfold c. cbn [cv_s cv_e].
    destruct (in_seg gs ge t) eqn:I.
    + rewrite (Hsrc t) by (unfold in_seg in I; lia).
      destruct (D t), (covers (map cov_ivl (cover s)) t); reflexivity.
    + cbn [andb orb]. rewrite orb_false_r. reflexivity.
Qed.

(* the state invariant *)
Record mask_inv (D : Z -> bool) (s : cstate) : Prop := mkMI {
  mi_sorted : sorted_key (sink s) = true;
  mi_sem : msem D (sink s) (cover s)
}.

Lemma mask_inv_init D t0 : mask_inv D (cinit t0).
Proof.
  constructor; [reflexivity|]. constructor; simpl.
  - intros f [].
  - intros f [].
  - intro t. rewrite andb_false_r. reflexivity.
Qed.

Lemma fill_fold_mask D ttl tick src : faithful D src -> forall gaps s0 lg0 s2 lg2,
  fold_left (fill_step true ttl tick src) gaps (s0, lg0) = (s2, lg2) ->
  mask_inv D s0 -> (forall g, In g gaps -> gap_ok g) -> mask_inv D s2.
Proof.
  intro Hsrc. induction gaps as [|g r IH]; intros s0 lg0 s2 lg2 Hf [Hs Hsem] Hok; simpl in Hf.
  - inversion Hf; subst. constructor; assumption.
  - destruct (Hok g (or_introl eq_refl)) as (Hlo & Hlt & Hhi).
    destruct (fill_gap_mask D ttl tick (src (fstart g) (fend g)) (fstart g) (fend g) s0
                Hs Hsem Hlo Hlt Hhi (fun t => Hsrc (fstart g) (fend g) t Hlo Hhi)) as [Hs1 Hsem1].
    eapply IH; [exact Hf|constructor; assumption|].
    intros g' Hg'. apply Hok. right; exact Hg'.
Qed.

(* one query keeps the invariant *)
Theorem cquery_mask_inv D src ttl tick s a b rv s' out log :
  faithful D src -> tick >= 0 -> NEG_INF < a -> a < b -> b < POS_INF ->
  heap_inv ttl s -> mask_inv D s ->
  cquery true ttl tick src s a b rv = (s', out, log) ->
  mask_inv D s'.
Proof.
  intros Hsrc Htick Ha Hab Hb H [Hs Hsem] Hq.
  destruct (evict_go (now s) (heap s) (cover s) (sink s)) as [[h1 cv1] sk1] eqn:He.
  set (s1 := mkC sk1 cv1 h1 (hseq s) (now s + tick)).
  destruct (fold_left (fill_step true ttl tick src) (gaps_of cv1 a b) (s1, [])) as [s2 lg] eqn:Hf.
  rewrite (cquery_unfold _ _ _ _ _ _ _ _ _ _ _ _ _ He Hf) in Hq. inversion Hq; subst s' out log. clear Hq.
  pose proof (evict_inv ttl tick s h1 cv1 sk1 Htick H He) as H1. fold s1 in H1.
  destruct (evict_go_mask D _ _ _ _ _ _ _ (hi_bij _ _ H) (hi_chain _ _ H) (hi_span _ _ H) Hs Hsem He)
    as [Hs1 Hsem1].
  assert (Hsi1 : mask_inv D s1) by (constructor; assumption).
  assert (Hok : cov_span_ok cv1) by (exact (hi_span _ _ H1)).
  assert (Hch : cov_chain cv1) by (exact (hi_chain _ _ H1)).
  destruct (gaps_spec cv1 a b Ha Hab Hb Hok Hch) as (Hin & _ & _).
  eapply fill_fold_mask; [exact Hsrc|exact Hf|exact Hsi1|].
  intros g Hg. destruct (Hin g Hg) as (? & ? & ?). unfold gap_ok. lia.
Qed.

(* ==================================== Part 3 ==================================== *)
(* what C09 says about one query of a masked cache and its result: on the window the covered
   time is the source's; the result is in (start,end) order, descending when reversed; every
   returned fragment is a finite positive-length piece of source time that meets the window's
   closure (NOT clipped to the window: see Part 5) *)
Definition c09m_result (D : Z -> bool) (q : Z * Z * bool) (out : list ivl) : Prop :=
  let '(a, b, rv) := q in
  (forall t, a <= t < b -> covers out t = D t) /\
  (forall f, In f out -> mfrag_ok f /\ fstart f <= b /\ a < fend f /\
                         forall t, inside f t = true -> D t = true) /\
  sorted_le (if rv then key_ge else key_le) out.

Theorem fetch_mask_window D s a b rv :
  mask_inv D s ->
  (forall x, a <= x < b -> covers (map cov_ivl (cover s)) x = true) ->
  c09m_result D (a, b, rv) (fetch_static (sink s) (Some a) (Some b) rv).
Proof.
  intros [Hs [A B C]] Hwin.
  destruct (fetch_static_spec (sink s) (Some a) (Some b) Hs) as [Hfwd Hrev].
  assert (Hout : Permutation (fetch_static (sink s) (Some a) (Some b) rv)
                             (filter (in_range (Some a) (Some b)) (sink s))).
  { destruct rv; [rewrite Hrev, Hfwd; apply Permutation_sym, Permutation_rev|rewrite Hfwd; reflexivity]. }
  split; [|split].
  - intros t Ht. rewrite (covers_perm _ _ t Hout), covers_filter.
    + rewrite C, (Hwin t Ht). apply andb_true_r.
    + intros i _ Hi. unfold inside in Hi. unfold in_range. lia.
  - intros f Hf. apply (Permutation_in _ Hout) in Hf. apply filter_In in Hf as [Hf Hr].
    unfold in_range in Hr. split; [apply A, Hf|]. split; [lia|]. split; [lia|].
    intros t Ht. assert (Hc : covers (sink s) t = true) by (apply covers_true_iff; exists f; split; assumption).
    rewrite C in Hc. apply andb_true_iff in Hc. apply Hc.
  - assert (Hsf : sorted_le key_le (fetch_static (sink s) (Some a) (Some b) false)).
    { apply sortedP_sorted_le. apply sorted_key_P. apply fetch_static_sorted. exact Hs. }
    destruct rv; [|exact Hsf]. rewrite Hrev. apply (sorted_le_rev key_le). exact Hsf.
Qed.

(* the reversed query returns the reversed list and leaves the same state *)
Lemma cquery_reverse masked ttl tick src s a b :
  cquery masked ttl tick src s a b true =
  (let '(s', out, log) := cquery masked ttl tick src s a b false in (s', rev out, log)).
Proof.
  unfold cquery.
  destruct (evict_go (now s) (heap s) (cover s) (sink s)) as [[h1 cv1] sk1].
  destruct (fold_left _ (gaps_of cv1 a b) _) as [s2 lg]. reflexivity.
Qed.

(* one query in any state satisfying the invariants, for ANY source faithful to D *)
Theorem cquery_mask D src ttl tick s a b rv s' out log :
  faithful D src -> ttl > 0 -> tick >= 0 -> NEG_INF < a -> a < b -> b < POS_INF ->
  heap_inv ttl s -> mask_inv D s ->
  cquery true ttl tick src s a b rv = (s', out, log) ->
  heap_inv ttl s' /\ mask_inv D s' /\ c09m_result D (a, b, rv) out.
Proof.
  intros Hsrc Httl Htick Ha Hab Hb H Hmi Hq.
  pose proof (cquery_mask_inv D src ttl tick s a b rv s' out log Hsrc Htick Ha Hab Hb H Hmi Hq) as Hmi'.
  destruct (economy _ _ _ _ _ _ _ _ _ _ _ Httl Htick Ha Hab Hb H Hq)
    as (h1 & cv1 & sk1 & _ & _ & _ & _ & _ & H' & Hout & Hwin & _).
  split; [exact H'|]. split; [exact Hmi'|]. rewrite Hout.
  apply fetch_mask_window; [exact Hmi'|].
  intros x Hx. apply covers_cov_iff. destruct (Hwin x Hx) as (c & Hc & Hcx). exists c. split; [exact Hc|lia].
Qed.

(* ---------- histories: queries, clock advances, source mutations ---------- *)
Record mrun_inv (evs : list ivl) (ttl : Z) (r : crun) : Prop := mkMR {
  mr_heap : heap_inv ttl (r_state r);
  mr_mask : mask_inv (covers evs) (r_state r)
}.

Lemma cstep_mrun_inv evs ttl tick r o :
  ttl > 0 -> tick >= 0 -> op_ok o -> mrun_inv evs ttl r ->
  mrun_inv evs ttl (cstep true ttl tick evs r o).
Proof.
  intros Httl Htick Ho [H Hmi]. destruct o as [a b rv|d|]; simpl in *.
  - destruct Ho as (Ha & Hab & Hb).
    destruct (cquery true ttl tick (src_of evs (r_ver r)) (r_state r) a b rv) as [[s' out] lg] eqn:Hq.
    destruct (cquery_mask _ _ ttl tick _ a b rv s' out lg (src_of_faithful evs (r_ver r))
                Httl Htick Ha Hab Hb H Hmi Hq) as (H' & Hmi' & _).
    constructor; simpl; assumption.
  - constructor; simpl.
    + destruct H as [A B C D0 E F G]. constructor; simpl; auto.
      intros c Hc. specialize (G c Hc). lia.
    + destruct Hmi as [A B]. constructor; simpl; assumption.
  - constructor; simpl; assumption.
Qed.

Lemma crun_from_mrun_inv evs ttl tick : ttl > 0 -> tick >= 0 -> forall ops r,
  Forall op_ok ops -> mrun_inv evs ttl r ->
  mrun_inv evs ttl (fold_left (cstep true ttl tick evs) ops r).
Proof.
  intros Httl Htick. induction ops as [|o ops IH]; intros r Hops H; simpl; [exact H|].
  inversion Hops; subst. apply IH; [assumption|]. apply cstep_mrun_inv; assumption.
Qed.

Lemma mrun_inv_init evs ttl t0 : mrun_inv evs ttl (mkR (cinit t0) 0%N [] [] [] []).
Proof. constructor; simpl; [apply heap_inv_init|apply mask_inv_init]. Qed.

(* the invariant holds in every reachable state of a masked cache, for EVERY event list and every
   history of bounded queries, clock advances and mutations *)
Theorem mask_inv_reachable evs ttl tick t0 ops :
  ttl > 0 -> tick >= 0 -> Forall op_ok ops ->
  mask_inv (covers evs) (r_state (crun_all true ttl tick t0 evs ops)).
Proof.
  intros Httl Htick Hops. unfold crun_all.
  apply (crun_from_mrun_inv evs ttl tick Httl Htick ops _ Hops (mrun_inv_init evs ttl t0)).
Qed.

(* the two readable halves of the invariant *)
Corollary mask_sink_coverage evs ttl tick t0 ops :
  ttl > 0 -> tick >= 0 -> Forall op_ok ops ->
  let s := r_state (crun_all true ttl tick t0 evs ops) in
  forall t, covers (sink s) t = covers evs t && covers (map cov_ivl (cover s)) t.
Proof. intros Httl Htick Hops s. apply (mask_inv_reachable evs ttl tick t0 ops Httl Htick Hops). Qed.

Corollary mask_sink_fractured evs ttl tick t0 ops :
  ttl > 0 -> tick >= 0 -> Forall op_ok ops ->
  let s := r_state (crun_all true ttl tick t0 evs ops) in
  forall f, In f (sink s) ->
    mfrag_ok f /\ exists c, In c (cover s) /\ cv_s c <= fstart f /\ fend f <= cv_e c.
Proof.
  intros Httl Htick Hops s f Hf.
  destruct (mask_inv_reachable evs ttl tick t0 ops Httl Htick Hops) as [_ [A B _]].
  split; [apply A, Hf|apply B, Hf].
Qed.

(* C09 for masks: a query made in any reachable state, against any version v of the source
   (v = 0: the static source; v = the current version after mutations), returns on its window
   exactly the source's covered time, whichever way earlier queries cut the range into segments
   and whichever segments have expired *)
Theorem C09_mask_observational evs ttl tick t0 ops v a b rv s' out log :
  ttl > 0 -> tick >= 0 -> Forall op_ok ops ->
  NEG_INF < a -> a < b -> b < POS_INF ->
  let s := r_state (crun_all true ttl tick t0 evs ops) in
  cquery true ttl tick (src_of evs v) s a b rv = (s', out, log) ->
  (forall t, a <= t < b -> covers out t = covers evs t) /\
  (forall f, In f out -> mfrag_ok f /\ fstart f <= b /\ a < fend f /\
                         forall t, inside f t = true -> covers evs t = true) /\
  sorted_le (if rv then key_ge else key_le) out.
Proof.
  intros Httl Htick Hops Ha Hab Hb s Hq.
  pose proof (crun_from_mrun_inv evs ttl tick Httl Htick ops _ Hops (mrun_inv_init evs ttl t0)) as [H Hmi].
  fold (crun_all true ttl tick t0 evs ops) in H, Hmi. fold s in H, Hmi.
  destruct (cquery_mask _ _ ttl tick s a b rv s' out log (src_of_faithful evs v)
              Httl Htick Ha Hab Hb H Hmi Hq) as (_ & _ & Hr).
  exact Hr.
Qed.

(* ... against any source whatsoever that is faithful to the covered time of evs on the windows
   it is asked for (e.g. a mask expression returning merged, unclipped or re-cut intervals) *)
Theorem C09_mask_any_source evs ttl tick t0 ops src a b rv s' out log :
  faithful (covers evs) src ->
  ttl > 0 -> tick >= 0 -> Forall op_ok ops ->
  NEG_INF < a -> a < b -> b < POS_INF ->
  let s := r_state (crun_all true ttl tick t0 evs ops) in
  cquery true ttl tick src s a b rv = (s', out, log) ->
  c09m_result (covers evs) (a, b, rv) out.
Proof.
  intros Hsrc Httl Htick Hops Ha Hab Hb s Hq.
  pose proof (crun_from_mrun_inv evs ttl tick Httl Htick ops _ Hops (mrun_inv_init evs ttl t0)) as [H Hmi].
  fold (crun_all true ttl tick t0 evs ops) in H, Hmi. fold s in H, Hmi.
  destruct (cquery_mask _ _ ttl tick s a b rv s' out log Hsrc Httl Htick Ha Hab Hb H Hmi Hq) as (_ & _ & Hr).
  exact Hr.
Qed.

(* the same for every result recorded along a history (mutations included) *)
Lemma crun_from_moutputs evs ttl tick : ttl > 0 -> tick >= 0 -> forall ops r qs0,
  Forall op_ok ops -> mrun_inv evs ttl r ->
  Forall2 (c09m_result (covers evs)) qs0 (r_outs r) ->
  Forall2 (c09m_result (covers evs)) (qs0 ++ queries ops) (r_outs (fold_left (cstep true ttl tick evs) ops r)).
Proof.
  intros Httl Htick. induction ops as [|o ops IH]; intros r qs0 Hops Hri Hf; simpl.
  - rewrite app_nil_r. exact Hf.
  - inversion Hops as [|? ? Ho Hops']; subst.
    pose proof (cstep_mrun_inv evs ttl tick r o Httl Htick Ho Hri) as Hri'.
    destruct o as [a b rv|d|].
    + change (queries (CQuery a b rv :: ops)) with ([(a, b, rv)] ++ queries ops).
      rewrite (app_assoc qs0 [(a, b, rv)] (queries ops)).
      apply IH; auto.
      destruct Hri as [H Hmi]. destruct Ho as (Ha & Hab & Hb).
      simpl.
      destruct (cquery true ttl tick (src_of evs (r_ver r)) (r_state r) a b rv) as [[s' out] lg] eqn:Hq.
      destruct (cquery_mask _ _ ttl tick _ a b rv s' out lg (src_of_faithful evs (r_ver r))
                  Httl Htick Ha Hab Hb H Hmi Hq) as (_ & _ & Hr).
      simpl. apply Forall2_app; [exact Hf|]. constructor; [exact Hr|constructor].
    + change (queries (CAdvance d :: ops)) with (queries ops). apply IH; auto.
    + change (queries (CMutate :: ops)) with (queries ops). apply IH; auto.
Qed.

Theorem C09_mask_all_outputs evs ttl tick t0 ops :
  ttl > 0 -> tick >= 0 -> Forall op_ok ops ->
  Forall2 (c09m_result (covers evs)) (queries ops) (r_outs (crun_all true ttl tick t0 evs ops)).
Proof.
  intros Httl Htick Hops. unfold crun_all.
  apply (crun_from_moutputs evs ttl tick Httl Htick ops _ [] Hops (mrun_inv_init evs ttl t0)).
  constructor.
Qed.

Print Assumptions mask_inv_reachable.
Print Assumptions C09_mask_observational.
Print Assumptions C09_mask_any_source.
Print Assumptions C09_mask_all_outputs.

(* ---------- a masked cache over ANY faithful source, through a whole history ---------- *)
(* The histories of Model/Cache.v fetch from a stored event list.  A real mask source is an
   expression (~T, a union of masks, ...) that returns a different partition of the same covered
   time for every window.  [gstep] is the same machine with the source as an argument. *)
Definition gstep (ttl tick : Z) (src : Z -> Z -> list ivl) (s : cstate) (o : cop) : cstate :=
  match o with
  | CQuery a b rv => fst (fst (cquery true ttl tick src s a b rv))
  | CAdvance d => mkC (sink s) (cover s) (heap s) (hseq s) (now s + d)
  | CMutate => s
  end.
Definition grun (ttl tick t0 : Z) (src : Z -> Z -> list ivl) (ops : list cop) : cstate :=
  fold_left (gstep ttl tick src) ops (cinit t0).

(* it is the machine of the model when the source is the stored list *)
Lemma grun_crun evs ttl tick : forall ops r, Forall static_op ops -> r_ver r = 0%N ->
  fold_left (gstep ttl tick (src_of evs 0)) ops (r_state r) =
  r_state (fold_left (cstep true ttl tick evs) ops r).
Proof.
  induction ops as [|o ops IH]; intros r Hops Hv; [reflexivity|].
  inversion Hops as [|? ? [_ Ho] Hops']; subst. cbn [fold_left].
  destruct o as [a b rv|d|]; [| |congruence].
  - cbn [gstep cstep]. rewrite Hv.
    destruct (cquery true ttl tick (src_of evs 0) (r_state r) a b rv) as [[s' out] lg] eqn:Hq.
    cbn [fst]. rewrite <- IH; [reflexivity|exact Hops'|reflexivity].
  - cbn [gstep cstep]. rewrite <- IH; [reflexivity|exact Hops'|exact Hv].
Qed.

Lemma gstep_inv D src ttl tick s o :
  faithful D src -> ttl > 0 -> tick >= 0 -> op_ok o ->
  heap_inv ttl s /\ mask_inv D s -> heap_inv ttl (gstep ttl tick src s o) /\ mask_inv D (gstep ttl tick src s o).
Proof.
  intros Hsrc Httl Htick Ho [H Hmi]. destruct o as [a b rv|d|]; cbn [gstep].
  - destruct Ho as (Ha & Hab & Hb).
    destruct (cquery true ttl tick src s a b rv) as [[s' out] lg] eqn:Hq. cbn [fst].
    destruct (cquery_mask D src ttl tick s a b rv s' out lg Hsrc Httl Htick Ha Hab Hb H Hmi Hq) as (H' & Hmi' & _).
    split; assumption.
  - simpl in Ho. split.
    + destruct H as [A B C D0 E F G]. constructor; simpl; auto.
      intros c Hc. specialize (G c Hc). lia.
    + destruct Hmi as [A B]. constructor; simpl; assumption.
  - split; assumption.
Qed.

Theorem grun_inv D src ttl tick t0 ops :
  faithful D src -> ttl > 0 -> tick >= 0 -> Forall op_ok ops ->
  heap_inv ttl (grun ttl tick t0 src ops) /\ mask_inv D (grun ttl tick t0 src ops).
Proof.
  intros Hsrc Httl Htick Hops. unfold grun.
  assert (H0 : heap_inv ttl (cinit t0) /\ mask_inv D (cinit t0)) by (split; [apply heap_inv_init|apply mask_inv_init]).
  revert H0. generalize (cinit t0). induction ops as [|o ops IH]; intros s H0; [exact H0|].
  inversion Hops; subst. cbn [fold_left]. apply IH; [assumption|]. apply gstep_inv; assumption.
Qed.

Theorem C09_mask_generic D src ttl tick t0 ops a b rv s' out log :
  faithful D src -> ttl > 0 -> tick >= 0 -> Forall op_ok ops ->
  NEG_INF < a -> a < b -> b < POS_INF ->
  cquery true ttl tick src (grun ttl tick t0 src ops) a b rv = (s', out, log) ->
  c09m_result D (a, b, rv) out.
Proof.
  intros Hsrc Httl Htick Hops Ha Hab Hb Hq.
  destruct (grun_inv D src ttl tick t0 ops Hsrc Httl Htick Hops) as [H Hmi].
  destruct (cquery_mask D src ttl tick _ a b rv s' out log Hsrc Httl Htick Ha Hab Hb H Hmi Hq) as (_ & _ & Hr).
  exact Hr.
Qed.

(* instance: cached(~T) for a stored timeline T of well-formed events; the source returns the
   maximal gaps of each fetched window (a different list for every window) *)
Definition src_compl (evs : list ivl) (gs ge : Z) : list ivl :=
  fetch [] (Compl (Stored evs)) (Some gs) (Some ge) false.

Lemma src_compl_faithful evs : Forall wf_ivl evs ->
  faithful (fun t => negb (covers evs t)) (src_compl evs).
Proof.
  intros Hwf gs ge t Hlo Hhi Ht. unfold src_compl. cbn [fetch].
  set (xs := fetch_static (sl_build evs) (Some gs) (Some ge) false).
  assert (Hw : wf_win (Some gs) (Some ge)).
  { split; [intros z Hz; inversion Hz; subst; exact Hlo|].
    split; [intros z Hz; inversion Hz; subst; exact Hhi|]. simpl. lia. }
  assert (Hxwf : Forall wf_ivl xs).
  { apply Forall_forall. intros i Hi. apply fetch_static_in in Hi; [|apply sl_build_sorted].
    destruct Hi as [Hi _]. apply (proj1 (sl_build_in evs i)) in Hi. revert i Hi. apply Forall_forall. exact Hwf. }
  assert (Hxs : sorted_start xs).
  { apply sorted_key_sorted_start, fetch_static_sorted, sl_build_sorted. }
  destruct (compl_sweep_spec xs (Some gs) (Some ge) Hw Hxwf Hxs) as (_ & _ & Hc).
  rewrite (Hc t) by (simpl; lia). f_equal.
  unfold xs. rewrite (proj1 (fetch_static_spec _ (Some gs) (Some ge) (sl_build_sorted _))).
  rewrite covers_filter; [apply sl_build_covers|].
  intros i _ Hi. unfold inside in Hi. unfold in_range. lia.
Qed.

Corollary C09_mask_complement evs ttl tick t0 ops a b rv s' out log :
  Forall wf_ivl evs -> ttl > 0 -> tick >= 0 -> Forall op_ok ops ->
  NEG_INF < a -> a < b -> b < POS_INF ->
  cquery true ttl tick (src_compl evs) (grun ttl tick t0 (src_compl evs) ops) a b rv = (s', out, log) ->
  forall t, a <= t < b -> covers out t = negb (covers evs t).
Proof.
  intros Hwf Httl Htick Hops Ha Hab Hb Hq.
  destruct (C09_mask_generic _ _ ttl tick t0 ops a b rv s' out log (src_compl_faithful evs Hwf)
              Httl Htick Hops Ha Hab Hb Hq) as (Hc & _). exact Hc.
Qed.

Print Assumptions C09_mask_generic.
Print Assumptions C09_mask_complement.

(* ==================================== Part 4 ==================================== *)
(* The exact content of the sink of a masked cache, payloads included: it is, as a multiset, the
   source clipped to each cached segment separately — segment by segment, each with the source
   version [ver c] current when the segment was fetched.  Nothing is ever merged across segment
   edges, so an event spanning k cached segments is stored as k fragments. *)
Definition seg_of (evs : list ivl) (ver : cov -> N) (c : cov) : list ivl :=
  flat_map (clip_list (cv_s c) (cv_e c)) (map (retag (ver c)) evs).

Definition mexact (evs : list ivl) (vmax : N) (sk : list ivl) (cv : list cov) : Prop :=
  exists ver, (forall c, In c cv -> (ver c <= vmax)%N) /\
              Permutation sk (flat_map (seg_of evs ver) cv).

Lemma seg_of_in evs ver c f :
  NEG_INF <= cv_s c -> cv_e c <= POS_INF -> In f (seg_of evs ver c) ->
  mfrag_ok f /\ cv_s c <= fstart f /\ fend f <= cv_e c.
Proof.
  intros H1 H2 Hf. unfold seg_of in Hf. apply in_flat_map in Hf as (e0 & _ & Hf).
  destruct (clip_char _ _ e0 f H1 H2 Hf) as [-> Lt].
  split; [apply mfrag_mk, Lt|]. rewrite fstart_mk, fend_mk. lia.
Qed.

Lemma mfrag_eta f : mfrag_ok f -> f = mkI (Some (fstart f)) (Some (fend f)) (pl f).
Proof. destruct f as [a b p]. intros (S & E & _). cbn [st en pl] in *. rewrite <- S, <- E. reflexivity. Qed.

(* a fragment inside the purged range disappears; one outside it is kept as it is *)
Lemma purge_parts_inside s e f : mfrag_ok f -> s <= fstart f -> fend f <= e -> purge_parts s e f = [].
Proof.
  intros Hf A B. rewrite (purge_parts_m s e f Hf). destruct Hf as (_ & _ & Lt).
  destruct (in_range (Some s) (Some e) f) eqn:R; unfold in_range in R; [|exfalso; lia].
  destruct (fstart f <? s) eqn:C1; [exfalso; lia|].
  destruct (fend f >? e) eqn:C2; [exfalso; lia|]. reflexivity.
Qed.

Lemma purge_parts_outside s e f : mfrag_ok f -> s < e -> (fend f <= s \/ e <= fstart f) ->
  purge_parts s e f = [f].
Proof.
  intros Hf Hse Ho. rewrite (purge_parts_m s e f Hf). pose proof Hf as (_ & _ & Lt).
  destruct (in_range (Some s) (Some e) f) eqn:R; unfold in_range in R; [|reflexivity].
  assert (E : fstart f = e) by lia.
  destruct (fstart f <? s) eqn:C1; [exfalso; lia|].
  destruct (fend f >? e) eqn:C2; [|exfalso; lia].
  cbn [app]. rewrite (mfrag_eta f Hf) at 3. rewrite E. reflexivity.
Qed.

Lemma flat_map_nil_all {A B} (g : A -> list B) l : (forall x, In x l -> g x = []) -> flat_map g l = [].
Proof.
  induction l as [|x r IH]; intro H; [reflexivity|]. cbn [flat_map].
  rewrite (H x (or_introl eq_refl)), IH; [reflexivity|]. intros y Hy. apply H. right; exact Hy.
Qed.

Theorem purge_exact evs vmax sk cv cv' c :
  mexact evs vmax sk cv ->
  Permutation cv (c :: cv') -> cov_span_ok cv ->
  (forall c', In c' cv' -> cv_e c' <= cv_s c \/ cv_e c <= cv_s c') ->
  mexact evs vmax (flat_map (purge_parts (cv_s c) (cv_e c)) sk) cv'.
Proof.
  intros (ver & Hv & HP) Hcv Hok Hdis. exists ver. split.
  { intros c' Hc'. apply Hv. apply (Permutation_in _ (Permutation_sym Hcv)). right; exact Hc'. }
  assert (Hokc : forall c', In c' (c :: cv') -> NEG_INF < cv_s c' /\ cv_s c' < cv_e c' /\ cv_e c' < POS_INF).
  { intros c' Hc'. apply Hok. apply (Permutation_in _ (Permutation_sym Hcv)). exact Hc'. }
  eapply Permutation_trans; [apply Permutation_flat_map, HP|].
  eapply Permutation_trans; [apply Permutation_flat_map, Permutation_flat_map, Hcv|].
  cbn [flat_map]. rewrite flat_map_app.
  destruct (Hokc c (or_introl eq_refl)) as (C1 & C2 & C3).
  assert (E1 : flat_map (purge_parts (cv_s c) (cv_e c)) (seg_of evs ver c) = []).
  { apply flat_map_nil_all. intros f Hf.
    destruct (seg_of_in evs ver c f ltac:(lia) ltac:(lia) Hf) as (Fo & A & B).
    apply purge_parts_inside; assumption. }
  rewrite E1. cbn [app].
  rewrite flat_map_singleton; [reflexivity|].
  intros f Hf. apply in_flat_map in Hf as (c' & Hc' & Hf).
  destruct (Hokc c' (or_intror Hc')) as (D1 & D2 & D3).
  destruct (seg_of_in evs ver c' f ltac:(lia) ltac:(lia) Hf) as (Fo & A & B).
  apply purge_parts_outside; [exact Fo|exact C2|]. destruct (Hdis c' Hc'); lia.
Qed.

Lemma mexact_perm evs vmax sk sk' cv : Permutation sk sk' -> mexact evs vmax sk cv -> mexact evs vmax sk' cv.
Proof.
  intros HP (ver & Hv & H). exists ver. split; [exact Hv|].
  eapply Permutation_trans; [apply Permutation_sym, HP|exact H].
Qed.

Lemma evict_go_exact evs vmax t : forall h cv sk h1 cv1 sk1,
  Permutation (map h_cov h) cv -> cov_chain cv -> cov_span_ok cv ->
  sorted_key sk = true -> mexact evs vmax sk cv ->
  evict_go t h cv sk = (h1, cv1, sk1) ->
  sorted_key sk1 = true /\ mexact evs vmax sk1 cv1.
Proof.
  induction h as [|[[ex sq] c] r IH]; intros cv sk h1 cv1 sk1 Hp Hch Hok Hs Hsem He; simpl in He.
  - inversion He; subst. split; assumption.
  - destruct (ex <=? t) eqn:E; [|inversion He; subst; split; assumption].
    simpl in Hp. assert (Hin : In c cv) by (eapply Permutation_in; [exact Hp|left; reflexivity]).
    pose proof (cov_remove_perm c cv Hin) as Hrm.
    assert (Hp' : Permutation (map h_cov r) (cov_remove c cv)).
    { eapply Permutation_cons_inv. eapply Permutation_trans; [exact Hp|exact Hrm]. }
    assert (Hpos : forall y, In y cv -> cv_s y < cv_e y).
    { intros y Hy. destruct (Hok y Hy) as (_ & ? & _). assumption. }
    assert (Hnd : NoDup (c :: cov_remove c cv)).
    { eapply Permutation_NoDup; [exact Hrm|]. apply cov_chain_nodup; assumption. }
    assert (Hdis : forall c', In c' (cov_remove c cv) -> cv_e c' <= cv_s c \/ cv_e c <= cv_s c').
    { intros c' Hc'. pose proof (cov_remove_in _ _ _ Hc') as Hc'in.
      destruct (cov_chain_disjoint cv Hch Hpos c' c Hc'in Hin) as [->|Hd]; [|exact Hd].
      inversion Hnd; contradiction. }
    destruct (purge_sink_perm sk (cv_s c) (cv_e c) Hs) as [Hpp Hps].
    assert (Hsem' : mexact evs vmax (purge_sink sk (cv_s c) (cv_e c)) (cov_remove c cv)).
    { eapply mexact_perm; [apply Permutation_sym, Hpp|].
      eapply purge_exact; eauto. }
    eapply IH; try exact He; auto.
    + apply cov_chain_remove; assumption.
    + intros y Hy. apply Hok. eapply cov_remove_in; eauto.
Qed.

(* what the clipping loop keeps of a source fetch = what it would keep of the whole source *)
Lemma src_clip_perm_v evs v gs ge : gs < ge -> NEG_INF <= ge -> gs < POS_INF ->
  Permutation (flat_map (clip_list gs ge) (src_of evs v gs ge))
              (flat_map (clip_list gs ge) (map (retag v) evs)).
Proof.
  intros Hg Hn Hp. unfold src_of.
  rewrite (proj1 (fetch_static_spec _ (Some gs) (Some ge) (sl_build_sorted _))).
  rewrite flat_map_filter_nil.
  - apply Permutation_flat_map, sl_build_perm.
  - intros x _ Hx. apply clip_list_out; assumption.
Qed.

Lemma cov_eqb_refl c : cov_eqb c c = true.
Proof. apply cov_eqb_eq. reflexivity. Qed.

Lemma fill_gap_exact evs vmax v ttl tick gs ge s :
  (v <= vmax)%N ->
  sorted_key (sink s) = true -> mexact evs vmax (sink s) (cover s) ->
  NEG_INF < gs -> gs < ge -> ge < POS_INF ->
  (forall c, In c (cover s) -> cv_s c < cv_e c) ->
  (forall c, In c (cover s) -> cv_e c <= gs \/ ge <= cv_s c) ->
  sorted_key (sink (fill_gap true ttl tick (src_of evs v gs ge) gs ge s)) = true /\
  mexact evs vmax (sink (fill_gap true ttl tick (src_of evs v gs ge) gs ge s))
                  (cover (fill_gap true ttl tick (src_of evs v gs ge) gs ge s)).
Proof.
  intros Hvm Hs (ver & Hv & HP) Hlo Hlt Hhi Hpos Hdis. unfold fill_gap. rewrite !stitch_masked. cbn [sink cover].
  destruct (fill_fold_perm gs ge (src_of evs v gs ge) (sink s) Hs) as [Hp1 Hs1]. cbn zeta in Hp1, Hs1.
  split; [exact Hs1|].
  set (c := mkCov gs ge (now s)).
  set (ver' := fun c0 => if cov_eqb c0 c then v else ver c0).
  assert (Hnew : forall c0, In c0 (cover s) -> cov_eqb c0 c = false).
  { intros c0 Hc0. destruct (cov_eqb c0 c) eqn:E; [exfalso|reflexivity].
    apply cov_eqb_eq in E. subst c0. pose proof (Hpos c Hc0). destruct (Hdis c Hc0); simpl in *; lia. }
  exists ver'. split.
  { intros c0 Hc0. apply cov_add_in in Hc0. unfold ver'. destruct (cov_eqb c0 c) eqn:E; [exact Hvm|].
    destruct Hc0 as [->|Hc0]; [rewrite cov_eqb_refl in E; discriminate|apply Hv, Hc0]. }
  eapply Permutation_trans; [exact Hp1|].
  eapply Permutation_trans; [|apply Permutation_flat_map, Permutation_sym, cov_add_perm].
  cbn [flat_map]. eapply Permutation_trans; [|apply Permutation_app_comm].
  apply Permutation_app.
  - eapply Permutation_trans; [exact HP|].
    rewrite (flat_map_ext_in' (seg_of evs ver) (seg_of evs ver') (cover s)); [reflexivity|].
    intros c0 Hc0. unfold seg_of, ver'. rewrite (Hnew c0 Hc0). reflexivity.
  - unfold seg_of at 1. unfold ver'. rewrite cov_eqb_refl. unfold c. cbn [cv_s cv_e].
    apply src_clip_perm_v; lia.
Qed.

Lemma fill_fold_exact evs vmax v ttl tick : (v <= vmax)%N -> tick >= 0 -> forall gaps s0 lg0 s2 lg2,
  fold_left (fill_step true ttl tick (src_of evs v)) gaps (s0, lg0) = (s2, lg2) ->
  heap_inv ttl s0 -> sorted_key (sink s0) = true -> mexact evs vmax (sink s0) (cover s0) ->
  (forall g, In g gaps -> gap_ok g) -> disjoint_sorted gaps ->
  (forall g c, In g gaps -> In c (cover s0) -> cv_e c <= fstart g \/ fend g <= cv_s c) ->
  sorted_key (sink s2) = true /\ mexact evs vmax (sink s2) (cover s2).
Proof.
  intros Hvm Htick. induction gaps as [|g r IH]; intros s0 lg0 s2 lg2 Hf H Hs Hsem Hok Hds Hd; simpl in Hf.
  - inversion Hf; subst. split; assumption.
  - simpl in Hds. destruct Hds as [Hg Hr].
    destruct (Hok g (or_introl eq_refl)) as (Hlo & Hlt & Hhi).
    set (s1 := fill_gap true ttl tick (src_of evs v (fstart g) (fend g)) (fstart g) (fend g) s0) in *.
    assert (Hd0 : forall c, In c (cover s0) -> cv_e c <= fstart g \/ fend g <= cv_s c).
    { intros c Hc. apply Hd; [left; reflexivity|exact Hc]. }
    assert (H1 : heap_inv ttl s1) by (apply fill_gap_inv; auto).
    destruct (fill_gap_exact evs vmax v ttl tick (fstart g) (fend g) s0 Hvm Hs Hsem Hlo Hlt Hhi
                (heap_inv_pos _ _ H) Hd0) as [Hs1 Hsem1]. fold s1 in Hs1, Hsem1.
    eapply IH; try exact Hf; auto.
    + intros g' Hg'. apply Hok. right; exact Hg'.
    + intros g' c Hg' Hc. apply fill_gap_cover in Hc as [->|Hc].
      * simpl. left. apply Hg; exact Hg'.
      * apply Hd; [right; exact Hg'|exact Hc].
Qed.

Theorem cquery_exact evs vmax v ttl tick s a b rv s' out log :
  (v <= vmax)%N -> tick >= 0 -> NEG_INF < a -> a < b -> b < POS_INF ->
  heap_inv ttl s -> sorted_key (sink s) = true -> mexact evs vmax (sink s) (cover s) ->
  cquery true ttl tick (src_of evs v) s a b rv = (s', out, log) ->
  sorted_key (sink s') = true /\ mexact evs vmax (sink s') (cover s').
Proof.
  intros Hvm Htick Ha Hab Hb H Hs Hsem Hq.
  destruct (evict_go (now s) (heap s) (cover s) (sink s)) as [[h1 cv1] sk1] eqn:He.
  set (s1 := mkC sk1 cv1 h1 (hseq s) (now s + tick)).
  destruct (fold_left (fill_step true ttl tick (src_of evs v)) (gaps_of cv1 a b) (s1, [])) as [s2 lg] eqn:Hf.
  rewrite (cquery_unfold _ _ _ _ _ _ _ _ _ _ _ _ _ He Hf) in Hq. inversion Hq; subst s' out log. clear Hq.
  pose proof (evict_inv ttl tick s h1 cv1 sk1 Htick H He) as H1. fold s1 in H1.
  destruct (evict_go_exact evs vmax _ _ _ _ _ _ _ (hi_bij _ _ H) (hi_chain _ _ H) (hi_span _ _ H) Hs Hsem He)
    as [Hs1 Hsem1].
  assert (Hok : cov_span_ok cv1) by (exact (hi_span _ _ H1)).
  assert (Hch : cov_chain cv1) by (exact (hi_chain _ _ H1)).
  destruct (gaps_spec cv1 a b Ha Hab Hb Hok Hch) as (Hin & Hsep & Hcov).
  eapply (fill_fold_exact evs vmax v ttl tick Hvm Htick _ s1); try exact Hf; auto.
  - intros g Hg. destruct (Hin g Hg) as (? & ? & ?). unfold gap_ok. lia.
  - apply Diff.separatedP_disjoint; [|exact Hsep]. intros f Hf'. destruct (Hin f Hf') as (_ & ? & _). assumption.
  - intros g c Hg Hc. eapply gaps_disjoint_cover; eauto.
Qed.

Lemma mexact_mono evs v v' sk cv : (v <= v')%N -> mexact evs v sk cv -> mexact evs v' sk cv.
Proof.
  intros Hle (ver & Hv & HP). exists ver. split; [|exact HP].
  intros c Hc. specialize (Hv c Hc). lia.
Qed.

Record xrun_inv (evs : list ivl) (ttl : Z) (r : crun) : Prop := mkXR {
  xr_heap : heap_inv ttl (r_state r);
  xr_sorted : sorted_key (sink (r_state r)) = true;
  xr_exact : mexact evs (r_ver r) (sink (r_state r)) (cover (r_state r))
}.

Lemma cstep_xrun_inv evs ttl tick r o :
  ttl > 0 -> tick >= 0 -> op_ok o -> xrun_inv evs ttl r ->
  xrun_inv evs ttl (cstep true ttl tick evs r o).
Proof.
  intros Httl Htick Ho [H Hs Hx]. destruct o as [a b rv|d|]; simpl in *.
  - destruct Ho as (Ha & Hab & Hb).
    destruct (cquery true ttl tick (src_of evs (r_ver r)) (r_state r) a b rv) as [[s' out] lg] eqn:Hq.
    destruct (cquery_exact evs (r_ver r) (r_ver r) ttl tick _ a b rv s' out lg (N.le_refl _)
                Htick Ha Hab Hb H Hs Hx Hq) as [Hs' Hx'].
    destruct (economy _ _ _ _ _ _ _ _ _ _ _ Httl Htick Ha Hab Hb H Hq)
      as (h1 & cv1 & sk1 & _ & _ & _ & _ & _ & H' & _).
    constructor; simpl; assumption.
  - constructor; simpl; [|exact Hs|exact Hx].
    destruct H as [A B C D0 E F G]. constructor; simpl; auto.
    intros c Hc. specialize (G c Hc). lia.
  - constructor; simpl; [exact H|exact Hs|]. eapply mexact_mono; [|exact Hx]. lia.
Qed.

Lemma crun_from_xrun_inv evs ttl tick : ttl > 0 -> tick >= 0 -> forall ops r,
  Forall op_ok ops -> xrun_inv evs ttl r ->
  xrun_inv evs ttl (fold_left (cstep true ttl tick evs) ops r).
Proof.
  intros Httl Htick. induction ops as [|o ops IH]; intros r Hops H; simpl; [exact H|].
  inversion Hops; subst. apply IH; [assumption|]. apply cstep_xrun_inv; assumption.
Qed.

Lemma xrun_inv_init evs ttl t0 : xrun_inv evs ttl (mkR (cinit t0) 0%N [] [] [] []).
Proof.
  constructor; simpl; [apply heap_inv_init|reflexivity|].
  exists (fun _ => 0%N). split; [intros c []|reflexivity].
Qed.

(* in every reachable state (mutations allowed): the sink is exactly the source clipped to each
   cached segment, each segment with one of the versions seen so far *)
Theorem mask_sink_exact evs ttl tick t0 ops :
  ttl > 0 -> tick >= 0 -> Forall op_ok ops ->
  let r := crun_all true ttl tick t0 evs ops in
  sorted_key (sink (r_state r)) = true /\
  exists ver, (forall c, In c (cover (r_state r)) -> (ver c <= r_ver r)%N) /\
    Permutation (sink (r_state r)) (flat_map (seg_of evs ver) (cover (r_state r))).
Proof.
  intros Httl Htick Hops r.
  destruct (crun_from_xrun_inv evs ttl tick Httl Htick ops _ Hops (xrun_inv_init evs ttl t0)) as [_ Hs Hx].
  split; [exact Hs|exact Hx].
Qed.

(* without mutations, over a source whose ids are version-0 ids (Plain masks, or key*KEYMOD):
   the sink is the flat list of the source events cut at the edges of the cached segments *)
Lemma r_ver_static masked ttl tick evs ops : Forall static_op ops -> forall r,
  r_ver (fold_left (cstep masked ttl tick evs) ops r) = r_ver r.
Proof.
  induction ops as [|o ops IH]; intros Hops r; [reflexivity|].
  inversion Hops as [|? ? [_ Ho] Hops']; subst. simpl. rewrite IH by assumption.
  destruct o as [a b rv|d|]; [|reflexivity|congruence].
  simpl. destruct (cquery _ _ _ _ _ _ _ _) as [[? ?] ?]. reflexivity.
Qed.

Theorem mask_sink_exact_static evs ttl tick t0 ops :
  ttl > 0 -> tick >= 0 -> Forall static_op ops ->
  (forall i, In i evs -> retag 0 i = i) ->
  let s := r_state (crun_all true ttl tick t0 evs ops) in
  Permutation (sink s)
              (flat_map (fun c => flat_map (clip_list (cv_s c) (cv_e c)) evs) (cover s)).
Proof.
  intros Httl Htick Hops Hre s.
  assert (Hops' : Forall op_ok ops).
  { eapply Forall_impl; [|exact Hops]. intros o [Ho _]; exact Ho. }
  destruct (mask_sink_exact evs ttl tick t0 ops Httl Htick Hops') as (_ & ver & Hv & HP).
  cbv zeta in Hv, HP. fold s in Hv, HP.
  assert (Hv0 : r_ver (crun_all true ttl tick t0 evs ops) = 0%N).
  { unfold crun_all. rewrite r_ver_static by exact Hops. reflexivity. }
  rewrite Hv0 in Hv.
  eapply Permutation_trans; [exact HP|].
  rewrite (flat_map_ext_in' (seg_of evs ver)
             (fun c => flat_map (clip_list (cv_s c) (cv_e c)) evs) (cover s)); [reflexivity|].
  intros c Hc. unfold seg_of. assert (E : ver c = 0%N) by (specialize (Hv c Hc); lia). rewrite E.
  f_equal. rewrite <- (map_id evs) at 2. apply map_ext_in. exact Hre.
Qed.


(* ... hence the exact result of a query (no mutation): the source events cut at the edges of the
   segments cached after the query, those pieces that start at or before b and end after a *)
Lemma perm_filter {A} (P : A -> bool) l l' : Permutation l l' -> Permutation (filter P l) (filter P l').
Proof.
  intro H. induction H as [|x l l' H IH|x y l|l l' l'' H1 IH1 H2 IH2]; cbn [filter].
  - constructor.
  - destruct (P x); [apply perm_skip|]; exact IH.
  - destruct (P y), (P x); try apply perm_swap; reflexivity.
  - eapply perm_trans; eauto.
Qed.

Lemma cquery_out masked ttl tick src s a b rv s' out log :
  cquery masked ttl tick src s a b rv = (s', out, log) ->
  out = fetch_static (sink s') (Some a) (Some b) rv.
Proof.
  unfold cquery.
  destruct (evict_go (now s) (heap s) (cover s) (sink s)) as [[h1 cv1] sk1].
  destruct (fold_left _ (gaps_of cv1 a b) _) as [s2 lg]. intro H. inversion H; subst. reflexivity.
Qed.

Theorem C09_mask_result_exact evs ttl tick t0 ops a b rv s' out log :
  ttl > 0 -> tick >= 0 -> Forall static_op ops -> (forall i, In i evs -> retag 0 i = i) ->
  NEG_INF < a -> a < b -> b < POS_INF ->
  cquery true ttl tick (src_of evs 0) (r_state (crun_all true ttl tick t0 evs ops)) a b rv = (s', out, log) ->
  Permutation out
    (filter (in_range (Some a) (Some b))
            (flat_map (fun c => flat_map (clip_list (cv_s c) (cv_e c)) evs) (cover s'))).
Proof.
  intros Httl Htick Hops Hre Ha Hab Hb Hq.
  set (ops' := ops ++ [CQuery a b rv]).
  assert (Hops' : Forall static_op ops').
  { apply Forall_app. split; [exact Hops|]. constructor; [|constructor].
    split; [simpl; lia|discriminate]. }
  assert (Hok' : Forall op_ok ops').
  { eapply Forall_impl; [|exact Hops']. intros o [Ho _]; exact Ho. }
  assert (Hs' : r_state (crun_all true ttl tick t0 evs ops') = s').
  { unfold crun_all, ops'. rewrite fold_left_app. cbn [fold_left cstep].
    fold (crun_all true ttl tick t0 evs ops).
    assert (Hv0 : r_ver (crun_all true ttl tick t0 evs ops) = 0%N).
    { unfold crun_all. rewrite r_ver_static by exact Hops. reflexivity. }
    rewrite Hv0, Hq. reflexivity. }
  pose proof (mask_sink_exact_static evs ttl tick t0 ops' Httl Htick Hops' Hre) as HP.
  cbv zeta in HP. rewrite Hs' in HP.
  destruct (mask_inv_reachable evs ttl tick t0 ops' Httl Htick Hok') as [Hsorted _].
  rewrite Hs' in Hsorted.
  rewrite (cquery_out _ _ _ _ _ _ _ _ _ _ _ Hq).
  destruct (fetch_static_spec (sink s') (Some a) (Some b) Hsorted) as [Hfwd Hrev].
  eapply Permutation_trans; [|apply perm_filter, HP].
  destruct rv; [rewrite Hrev, Hfwd; apply Permutation_sym, Permutation_rev|rewrite Hfwd; reflexivity].
Qed.

Print Assumptions mask_sink_exact.
Print Assumptions mask_sink_exact_static.
Print Assumptions C09_mask_result_exact.

(* ==================================== Part 5 ==================================== *)
(* ---------- the harness oracle for masked caches is a theorem of the model ---------- *)
From CG Require Harness.CacheChk.

Lemma clipW_covers a b l t :
  covers (flat_map (clipW (Some a) (Some b)) l) t = in_seg a b t && covers l t.
Proof.
  induction l as [|x r IH]; [rewrite andb_false_r; reflexivity|].
  rewrite covers_flat_map_app, covers_cons, IH. unfold clipW. cbn [bnd_lo bnd_hi].
  destruct (Z.max (fstart x) a <? Z.min (fend x) b) eqn:C.
  - rewrite covers_cons, covers_nil. unfold inside at 1, set_span. rewrite fstart_unS, fend_unE.
    unfold in_seg, inside. destruct (covers r t); lia.
  - rewrite covers_nil. unfold in_seg, inside. destruct (covers r t); lia.
Qed.

Lemma covers_pos_len l t : covers (filter pos_len l) t = covers l t.
Proof. apply covers_filter. intros i _ Hi. unfold inside in Hi. unfold pos_len. lia. Qed.

Lemma sorted_le_by_fwd l : sorted_le key_le l -> sorted_by Z.leb l = true.
Proof.
  induction l as [|x r IH]; [reflexivity|]. intros [Hx Hr]. destruct r as [|y r']; [reflexivity|].
  change (sorted_by Z.leb (x :: y :: r')) with ((fstart x <=? fstart y) && sorted_by Z.leb (y :: r')).
  rewrite (IH Hr), andb_true_r. pose proof (Hx y (or_introl eq_refl)) as K. unfold key_le in K. lia.
Qed.

Lemma sorted_le_by_rev l : sorted_le key_ge l -> sorted_by Z.geb l = true.
Proof.
  induction l as [|x r IH]; [reflexivity|]. intros [Hx Hr]. destruct r as [|y r']; [reflexivity|].
  change (sorted_by Z.geb (x :: y :: r')) with ((fstart x >=? fstart y) && sorted_by Z.geb (y :: r')).
  rewrite (IH Hr), andb_true_r. pose proof (Hx y (or_introl eq_refl)) as K. unfold key_ge, key_le in K. lia.
Qed.

Lemma agree_on_all pts (f g : Z -> bool) : (forall t, f t = g t) -> agree_on pts f g = true.
Proof.
  intro H. unfold agree_on. apply forallb_forall. intros t _. rewrite H. apply eqb_reflx.
Qed.

(* Harness/CacheChk.v evaluates [c09_one true] on traces of the Python code; on the model it
   holds for every history, every query, every source version *)
Theorem C09_mask_oracle evs ttl tick t0 ops v a b rv s' out log :
  ttl > 0 -> tick >= 0 -> Forall op_ok ops ->
  NEG_INF < a -> a < b -> b < POS_INF ->
  cquery true ttl tick (src_of evs v) (r_state (crun_all true ttl tick t0 evs ops)) a b rv = (s', out, log) ->
  CacheChk.c09_one true evs (a, b, rv, v) out = true.
Proof.
  intros Httl Htick Hops Ha Hab Hb Hq.
  destruct (C09_mask_observational evs ttl tick t0 ops v a b rv s' out log Httl Htick Hops Ha Hab Hb Hq)
    as (Hcov & _ & Hsort).
  unfold CacheChk.c09_one. apply andb_true_iff. split.
  - destruct rv; [apply sorted_le_by_rev|apply sorted_le_by_fwd]; exact Hsort.
  - apply agree_on_all. intro t. rewrite !clipW_covers, covers_retag, covers_pos_len.
    destruct (in_seg a b t) eqn:I; [|reflexivity]. cbn [andb]. apply Hcov. unfold in_seg in I. lia.
Qed.
Print Assumptions C09_mask_oracle.

(* ---------- non-vacuity: concrete histories ---------- *)
Definition mP (a b : Z) : ivl := mkI (Some a) (Some b) Plain.
Definition mR (a b : Z) (k : N) : ivl := mkI (Some a) (Some b) (Rich (k * KEYMOD)).

(* overlapping ([5,25) and [20,30)), nested ([12,18) in [5,25)), duplicated ([12,18) twice),
   unbounded on either side, empty ([33,33)), reversed ([37,35)), keyed payloads (two events
   with the SAME key 7) *)
Definition mx_evs : list ivl :=
  [mP 5 25; mP 12 18; mP 12 18; mkI None (Some 8) Plain; mkI (Some 40) None Plain; mP 20 30;
   mP 33 33; mP 37 35; mR 26 31 7; mR 2 6 7].

(* ttl 5, tick 1.  The three segments [0,10) [20,30) [10,20) are created at clock 1, 5, 9; the
   query [0,30) reads clock 14 and finds all three expired (6, 10, 14 <= 14: expiry is inclusive),
   so it re-fetches its whole window as ONE segment; the mutation before it changes the payload
   version of the later fetches (ids 7000 -> 7001), not their time *)
Definition mx_ops : list cop :=
  [CQuery 0 10 false; CAdvance 2; CQuery 20 30 true; CAdvance 2; CQuery 10 20 false; CMutate; CAdvance 4;
   CQuery 0 30 true; CAdvance 1; CQuery 4 50 false; CAdvance 2; CQuery (-3) 45 true; CQuery 7 9 false].

(* the MIDDLE segment expires alone: [10,20) is created first (clock 1, expires at 6), then [0,10)
   (clock 3, expires at 8) and [20,30) (clock 5, expires at 10); the query [5,27) at clock 7 evicts
   [10,20) only and re-fetches exactly that segment *)
Definition mx_ops2 : list cop :=
  [CQuery 10 20 false; CQuery 0 10 false; CQuery 20 30 false; CAdvance 1; CQuery 5 27 true;
   CAdvance 3; CQuery 5 27 false; CQuery 0 50 true].

Example mx_ops_ok : Forall op_ok mx_ops.
Proof. unfold mx_ops, op_ok, NEG_INF, POS_INF. repeat constructor; lia. Qed.
Example mx_ops2_ok : Forall op_ok mx_ops2.
Proof. unfold mx_ops2, op_ok, NEG_INF, POS_INF. repeat constructor; lia. Qed.
Example mx_ops2_static : Forall static_op mx_ops2.
Proof. unfold mx_ops2, static_op, op_ok, NEG_INF, POS_INF. repeat constructor; try lia; discriminate. Qed.

Example mx_run1 :
  let r := crun_all true 5 1 0 mx_evs mx_ops in
  r_logs r = [ [(1, 0, 10)]; [(5, 20, 30)]; [(9, 10, 20)]; [(15, 0, 30)]; [(18, 30, 50)]; [(22, -3, 30)]; [] ] /\
  (* the second result (reversed): descending (start, end) *)
  nth 1 (r_outs r) [] = [mR 26 30 7; mP 20 30; mP 20 25] /\
  (* the last result, window [7,9): two whole fragments, neither clipped to the window *)
  nth 6 (r_outs r) [] = [mP (-3) 8; mP 5 25] /\
  cover (r_state r) = [mkCov (-3) 30 22] /\
  sink (r_state r) = [mP (-3) 8; mkI (Some 2) (Some 6) (Rich 7001); mP 5 25; mP 12 18; mP 12 18; mP 20 30;
                      mkI (Some 26) (Some 30) (Rich 7001)].
Proof. vm_compute. repeat split; reflexivity. Qed.

Example mx_run2 :
  let r := crun_all true 5 1 0 mx_evs mx_ops2 in
  r_logs r = [ [(1, 10, 20)]; [(3, 0, 10)]; [(5, 20, 30)]; [(8, 10, 20)]; [(13, 5, 10); (14, 20, 27)];
               [(16, 0, 5); (17, 10, 20); (18, 27, 50)] ] /\
  r_evt r = [0; 2; 4; 7; 12; 15] /\
  (* after the fourth query the event [5,25) is stored as [5,10) + [10,20) + [20,25): cut at the
     segment edges 10 and 20, before and after the middle segment was replaced *)
  sink (r_state (crun_all true 5 1 0 mx_evs (firstn 5 mx_ops2))) =
    [mP 0 8; mR 2 6 7; mP 5 10; mP 10 20; mP 12 18; mP 12 18; mP 20 25; mP 20 30; mR 26 30 7] /\
  cover (r_state (crun_all true 5 1 0 mx_evs (firstn 5 mx_ops2))) =
    [mkCov 0 10 3; mkCov 10 20 8; mkCov 20 30 5] /\
  nth 3 (r_outs r) [] =
    [mR 26 30 7; mP 20 30; mP 20 25; mP 12 18; mP 12 18; mP 10 20; mP 5 10; mR 2 6 7; mP 0 8] /\
  (* the fifth query finds everything expired but [10,20): its window [5,27) is re-fetched on both
     sides of it, and the result is cut at 10 and 20 again, and clipped by the fetches at 5 and 27 *)
  nth 4 (r_outs r) [] =
    [mR 5 6 7; mP 5 8; mP 5 10; mP 10 20; mP 12 18; mP 12 18; mP 20 25; mP 20 27; mR 26 27 7].
Proof. vm_compute. repeat split; reflexivity. Qed.

Example mx_mask_inv : mask_inv (covers mx_evs) (r_state (crun_all true 5 1 0 mx_evs mx_ops)).
Proof. apply mask_inv_reachable; [lia|lia|exact mx_ops_ok]. Qed.

Example mx_c09 :
  Forall2 (c09m_result (covers mx_evs)) (queries mx_ops) (r_outs (crun_all true 5 1 0 mx_evs mx_ops)).
Proof. apply C09_mask_all_outputs; [lia|lia|exact mx_ops_ok]. Qed.

Example mx_c09_2 :
  Forall2 (c09m_result (covers mx_evs)) (queries mx_ops2) (r_outs (crun_all true 5 1 0 mx_evs mx_ops2)).
Proof. apply C09_mask_all_outputs; [lia|lia|exact mx_ops2_ok]. Qed.

Example mx_retag0 : forall i, In i mx_evs -> retag 0 i = i.
Proof. intros i Hi. simpl in Hi. repeat (destruct Hi as [<-|Hi]; [reflexivity|]). destruct Hi. Qed.

Example mx_exact_static :
  let s := r_state (crun_all true 5 1 0 mx_evs mx_ops2) in
  Permutation (sink s) (flat_map (fun c => flat_map (clip_list (cv_s c) (cv_e c)) mx_evs) (cover s)).
Proof. apply mask_sink_exact_static; [lia|lia|exact mx_ops2_static|exact mx_retag0]. Qed.

(* the theorem applied to one more query against the state mx_ops2 leaves (segments cut at 5, 10,
   20 and 27, some of them expired by then) *)
Example mx_next_query :
  forall s' out log,
  cquery true 5 1 (src_of mx_evs 0) (r_state (crun_all true 5 1 0 mx_evs mx_ops2)) 22 29 false = (s', out, log) ->
  (forall t, 22 <= t < 29 -> covers out t = covers mx_evs t) /\ sorted_le key_le out.
Proof.
  intros s' out log Hq.
  destruct (C09_mask_observational mx_evs 5 1 0 mx_ops2 0 22 29 false s' out log) as (H1 & _ & H3);
    try exact Hq; try exact mx_ops2_ok; unfold NEG_INF, POS_INF; try lia.
  split; assumption.
Qed.

(* ---------- what does NOT hold of a masked cache (and is not claimed by C09) ---------- *)

(* (1) The result of fetch(a,b) is NOT clipped to [a,b): a fragment is returned whole as soon as
   it starts at or before b and ends after a — as MemoryTimeline.fetch does; slicing cached(T)[a:b]
   clips afterwards.  Here the query [7,9) returns [0,8) and [5,10), and the query [7,10) returns
   the fragment [10,25), which starts AT the window's end and shares no instant with it. *)
Theorem C09_mask_clipped_refuted :
  exists evs ttl tick t0 ops a b rv s' out log,
    ttl > 0 /\ tick >= 0 /\ Forall op_ok ops /\ NEG_INF < a /\ a < b /\ b < POS_INF /\
    cquery true ttl tick (src_of evs 0) (r_state (crun_all true ttl tick t0 evs ops)) a b rv = (s', out, log) /\
    exists f, In f out /\ ~ (a <= fstart f /\ fend f <= b).
Proof.
  exists [mP 5 25; mkI None (Some 8) Plain], 5, 1, 0, [CQuery 0 10 false], 7, 9, false.
  eexists; eexists; eexists.
  split; [lia|]. split; [lia|]. split; [repeat constructor; unfold NEG_INF, POS_INF; lia|].
  split; [unfold NEG_INF; lia|]. split; [lia|]. split; [unfold POS_INF; lia|].
  split; [vm_compute; reflexivity|].
  exists (mP 0 8). split; [left; reflexivity|]. vm_compute. intros [H1 H2]. apply H1. reflexivity.
Qed.

Theorem C09_mask_touching_refuted :
  exists evs ttl tick t0 ops a b rv s' out log,
    ttl > 0 /\ tick >= 0 /\ Forall op_ok ops /\ NEG_INF < a /\ a < b /\ b < POS_INF /\
    cquery true ttl tick (src_of evs 0) (r_state (crun_all true ttl tick t0 evs ops)) a b rv = (s', out, log) /\
    exists f, In f out /\ fstart f = b.
Proof.
  exists [mP 5 25], 5, 1, 0, [CQuery 0 10 false; CQuery 10 30 false], 7, 10, false.
  eexists; eexists; eexists.
  split; [lia|]. split; [lia|]. split; [repeat constructor; unfold NEG_INF, POS_INF; lia|].
  split; [unfold NEG_INF; lia|]. split; [lia|]. split; [unfold POS_INF; lia|].
  split; [vm_compute; reflexivity|].
  exists (mP 10 25). split; [right; left; reflexivity|reflexivity].
Qed.

(* (2) The keyed statement (C09_observational: each source event overlapping the window returned
   whole and once) is FALSE for a masked cache, even over a keyed source satisfying src_ok: the
   event [5,25) fetched through the segments [0,10) and [10,30) comes back as two fragments. *)
Theorem C09_mask_events_refuted :
  exists evs ttl tick t0 ops a b rv s' out log,
    src_ok evs /\ ttl > 0 /\ tick >= 0 /\ Forall static_op ops /\ NEG_INF < a /\ a < b /\ b < POS_INF /\
    cquery true ttl tick (src_of evs 0) (r_state (crun_all true ttl tick t0 evs ops)) a b rv = (s', out, log) /\
    ~ Permutation (flat_map (clipW (Some a) (Some b)) out)
                  (flat_map (clipW (Some a) (Some b)) (filter pos_len evs)).
Proof.
  exists [mR 5 25 1], 5, 1, 0, [CQuery 0 10 false], 0, 30, false.
  eexists; eexists; eexists.
  split.
  { split.
    - intros e [<-|[]]. split; [unfold wf_ivl, fstart, fend, NEG_INF, POS_INF; simpl; lia|].
      split; [unfold canon_ivl, NEG_INF, POS_INF; simpl; split; intro H; discriminate H|].
      exists 1%N; reflexivity.
    - simpl. repeat constructor. intros []. }
  split; [lia|]. split; [lia|].
  split; [repeat constructor; unfold NEG_INF, POS_INF; try lia; discriminate|].
  split; [unfold NEG_INF; lia|]. split; [lia|]. split; [unfold POS_INF; lia|].
  split; [vm_compute; reflexivity|].
  intro HP. apply Permutation_length in HP. vm_compute in HP. discriminate.
Qed.

Print Assumptions C09_mask_clipped_refuted.
Print Assumptions C09_mask_touching_refuted.
Print Assumptions C09_mask_events_refuted.
Print Assumptions mx_c09.
Print Assumptions mx_exact_static.

(* ---------- non-vacuity of the generic-source theorems: cached(~T) ---------- *)
Definition mc_evs : list ivl := [mP 5 25; mP 12 18; mkI None (Some 8) Plain; mP 40 45].
Definition mc_ops : list cop :=
  [CQuery 0 10 false; CQuery 10 30 false; CAdvance 2; CQuery 20 50 true; CAdvance 2].

Example mc_wf : Forall wf_ivl mc_evs.
Proof. repeat constructor; unfold wf_ivl, fstart, fend, NEG_INF, POS_INF; simpl; lia. Qed.
Example mc_ops_ok : Forall op_ok mc_ops.
Proof. unfold mc_ops, op_ok, NEG_INF, POS_INF. repeat constructor; lia. Qed.

(* ~T = [25,40) + [45,oo).  Fetched through the segments [10,30) and [30,50), the gap [25,40) of
   the source is stored, and returned, as the two TOUCHING pieces [25,30) + [30,40): the result of
   a cached mask is not a canonical mask (C06 says "never touching" of ~T itself) *)
Example mc_run :
  let s := grun 5 1 0 (src_compl mc_evs) mc_ops in
  sink s = [mP 25 30; mP 30 40; mP 45 50] /\ cover s = [mkCov 10 30 3; mkCov 30 50 7] /\
  cquery true 5 1 (src_compl mc_evs) s 22 48 false =
    (mkC [mP 25 30; mP 30 40; mP 45 50] [mkCov 22 30 11; mkCov 30 50 7]
         [(12, 3%N, mkCov 30 50 7); (16, 4%N, mkCov 22 30 11)] 4%N 12,
     [mP 25 30; mP 30 40; mP 45 50], [(11, 22, 30)]).
Proof. vm_compute. repeat split; reflexivity. Qed.

Example mc_c09 : forall s' out log,
  cquery true 5 1 (src_compl mc_evs) (grun 5 1 0 (src_compl mc_evs) mc_ops) 22 48 false = (s', out, log) ->
  forall t, 22 <= t < 48 -> covers out t = negb (covers mc_evs t).
Proof.
  intros s' out log Hq.
  apply (C09_mask_complement mc_evs 5 1 0 mc_ops 22 48 false s' out log);
    try exact Hq; try exact mc_wf; try exact mc_ops_ok; unfold NEG_INF, POS_INF; lia.
Qed.

(* the generic machine is the model's machine on the model's source *)
Example mx_grun : grun 5 1 0 (src_of mx_evs 0) mx_ops2 = r_state (crun_all true 5 1 0 mx_evs mx_ops2).
Proof. exact (grun_crun mx_evs 5 1 mx_ops2 (mkR (cinit 0) 0%N [] [] [] []) mx_ops2_static eq_refl). Qed.
Print Assumptions mc_c09.
