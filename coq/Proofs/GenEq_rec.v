(* Proofs/GenEq_rec.v — tie C (third extension, tag rec) for calgebra/recurrence.py: the RRULE text
   (rrule_kwargs_to_rrule_string / RecurringPattern.to_rrule_string) as generated from its source
   text (Gen/Source.v) equals the model's rrule_text (Model/Ical.v) that the C19 theorems are about.
   (The fetch dispatcher is in GenEq_rec_fetch.v, the constructor in GenEq_rec_init.v.)
   The readings the translation relies on are listed in harness/translate/srcspecs_rec.py. *)
From CG Require Import Model.RecSrc.
From CG Require Import Model.Loop Gen.Source Model.Recur Model.Ical.
From Coq Require Import ZArith List Bool Lia ZifyBool.
Import ListNotations.
Local Open Scope Z_scope.

(* ------------------------------------------------------------------------------------------ *)
(* rrule_kwargs_to_rrule_string                                                                *)

Lemma tok_cat_key k x : tok_cat [TKey k] x = TKey k :: x.
Proof. reflexivity. Qed.

Lemma tok_join_ints : forall l, tok_join [TComma] (map tok_int l) = commas (map TInt l).
Proof.
  induction l as [|a [|b l] IH]; [reflexivity|reflexivity|].
  change (tok_int a ++ [TComma] ++ tok_join [TComma] (map tok_int (b :: l)) = TInt a :: TComma :: commas (map TInt (b :: l))).
  rewrite IH. reflexivity.
Qed.

Lemma tok_join_singletons {A} (t : A -> token) : forall l,
  tok_join [TComma] (map (fun e => [t e]) l) = commas (map t l).
Proof.
  induction l as [|a [|b l] IH]; [reflexivity|reflexivity|].
  change ([t a] ++ [TComma] ++ tok_join [TComma] (map (fun e => [t e]) (b :: l)) = t a :: TComma :: commas (map t (b :: l))).
  rewrite IH. reflexivity.
Qed.

Lemma tok_join_parts : forall ps, tok_join [TSemi] (map part_text ps) = join_parts ps.
Proof.
  induction ps as [|a [|b l] IH]; [reflexivity|reflexivity|].
  change (part_text a ++ [TSemi] ++ tok_join [TSemi] (map part_text (b :: l)) = part_text a ++ TSemi :: join_parts (b :: l)).
  rewrite IH. reflexivity.
Qed.

(* the parts with a value, as strings *)
Definition vparts (l : list (key * list token)) : list text := map part_text (filter has_vals l).

Lemma vparts_app a b : vparts (a ++ b) = vparts a ++ vparts b.
Proof. unfold vparts. rewrite filter_app, map_app. reflexivity. Qed.

(* one generic list field: "if val is not None: parts.append(f"{KEY}={','.join(map(str, val))}")" *)
Lemma list_field_part (parts : list text) (k : key) (o : option (list Z)) :
  o <> Some [] ->
  match o with
  | Some val => parts ++ [tok_cat [TKey k] (tok_join [TComma] (map tok_int val))]
  | None => parts
  end = parts ++ vparts [(k, map TInt (olist_get o))].
Proof.
  intro H. destruct o as [[|a l]|]; [congruence| |symmetry; apply app_nil_r].
  rewrite tok_cat_key, tok_join_ints. reflexivity.
Qed.

(* a weekday object as the BYDAY loop prints it *)
Definition wd_ok (e : Z * option Z) : Prop := 0 <= fst e < 7.

Lemma wd_text_ok w : 0 <= w < 7 -> wd_text w = Some [TDay w None].
Proof. intro H. unfold wd_text. replace ((0 <=? w) && (w <? 7)) with true by lia. reflexivity. Qed.

Lemma wd_text_bad w : ~ 0 <= w < 7 -> wd_text w = None.
Proof. intro H. unfold wd_text. replace ((0 <=? w) && (w <? 7)) with false by lia. reflexivity. Qed.

(* the BYDAY loop, for any body that does on a weekday in range what the source does *)
Lemma days_loop {R} (body : list text -> Z * option Z -> step (list text) R) post :
  (forall acc e, wd_ok e -> body acc e = SCont (acc ++ [[day_token e]])) ->
  forall l acc, Forall wd_ok l ->
    iter_for body post acc l = post (acc ++ map (fun e => [day_token e]) l).
Proof.
  intros Hb. induction l as [|e l IH]; intros acc Hl; cbn [iter_for map].
  - rewrite app_nil_r. reflexivity.
  - inversion Hl as [|? ? He Hl']; subst. rewrite (Hb acc e He). rewrite IH by exact Hl'.
    rewrite <- app_assoc. reflexivity.
Qed.

(* ... and for a list with a weekday outside 0..6: ValueError *)
Lemma days_loop_bad {R} (body : list text -> Z * option Z -> step (list text) R) post (bad : R) :
  (forall acc e, wd_ok e -> exists acc', body acc e = SCont acc') ->
  (forall acc e, ~ wd_ok e -> body acc e = SRet bad) ->
  forall l acc, ~ Forall wd_ok l -> iter_for body post acc l = bad.
Proof.
  intros Hok Hbad. induction l as [|e l IH]; intros acc Hl; [exfalso; apply Hl; constructor|].
  cbn [iter_for]. assert (D : wd_ok e \/ ~ wd_ok e) by (unfold wd_ok; lia).
  destruct D as [D|D].
  - destruct (Hok acc e D) as (acc' & ->). apply IH. intro F. apply Hl. constructor; assumption.
  - rewrite (Hbad acc e D). reflexivity.
Qed.

(* no list field is present with an empty list (then the source emits "KEY=" with no value: see
   g_rrule_text_empty_list below) *)
Definition no_empty_lists (k : kwargs) : Prop :=
  kw_bymonth k <> Some [] /\ kw_bymonthday k <> Some [] /\ kw_byweekno k <> Some [] /\
  kw_byyearday k <> Some [] /\ kw_bysetpos k <> Some [] /\ kw_byhour k <> Some [] /\
  kw_byminute k <> Some [] /\ kw_bysecond k <> Some [].

Lemma body_on_day (acc : list text) (e : Z * option Z) : wd_ok e ->
  (if negb (is_none (snd e)) && negb (ozd (snd e) =? 0)
   then acc ++ [tok_cat (tok_int (ozd (snd e))) [TDay (fst e) None]]
   else acc ++ [[TDay (fst e) None]]) = acc ++ [[day_token e]].
Proof.
  intros _. unfold day_token. destruct e as [w [n|]]; cbn [fst snd is_none negb ozd andb].
  - destruct (n =? 0); reflexivity.
  - reflexivity.
Qed.

(* the WKST part *)
Definition wkst_parts (o : option wkst_v) : list (key * list token) :=
  [(KWkst, match o with
           | Some (WkObj w) | Some (WkInt w) => if (0 <=? w) && (w <? 7) then [TDay w None] else []
           | None => []
           end)].

Ltac list_fields :=
  repeat match goal with
         | |- context [match ?o with Some val => ?parts ++ [tok_cat [TKey ?k] (tok_join [TComma] (map tok_int val))]
                                | None => ?parts end] =>
           rewrite (list_field_part parts k o) by assumption
         end.

(* HEADLINE (general form): for every rrule_kwargs whose weekdays are weekday objects of 0..6 and
   whose list fields are not empty lists, the text is the model's rrule_text of the parts the
   kwargs stand for *)
Theorem g_rrule_text_eq_kw (k : kwargs) (p : rparts) :
  parts_of_kw k = Some p -> Forall wd_ok (p_byday p) -> no_empty_lists k ->
  g_rrule_text k = RDone (rrule_text p).
Proof.
  intros Hp Hd (H1 & H2 & H3 & H4 & H5 & H6 & H7 & H8).
  unfold parts_of_kw in Hp. destruct (kw_freq k) as [f|] eqn:Ef; [|discriminate].
  injection Hp as <-. cbn [p_byday] in Hd.
  unfold g_rrule_text. cbv zeta. rewrite Ef.
  (* the tail common to both arms of "if byweekday is not None": list fields and WKST *)
  assert (Tail : forall parts0 : list text,
    parts0 = vparts [(KFreq, [TFreqV f]);
                     (KInterval, if (match kw_interval k with Some n => n | None => 1 end) =? 1 then []
                                 else [TInt (match kw_interval k with Some n => n | None => 1 end)]);
                     (KByDay, map day_token (olist_get (kw_byweekday k)))] ->
    tok_join [TSemi]
       (((((((((parts0 ++ vparts [(KByMonth, map TInt (olist_get (kw_bymonth k)))])
              ++ vparts [(KByMonthDay, map TInt (olist_get (kw_bymonthday k)))])
              ++ vparts [(KByWeekNo, map TInt (olist_get (kw_byweekno k)))])
              ++ vparts [(KByYearDay, map TInt (olist_get (kw_byyearday k)))])
              ++ vparts [(KBySetPos, map TInt (olist_get (kw_bysetpos k)))])
              ++ vparts [(KByHour, map TInt (olist_get (kw_byhour k)))])
              ++ vparts [(KByMinute, map TInt (olist_get (kw_byminute k)))])
              ++ vparts [(KBySecond, map TInt (olist_get (kw_bysecond k)))])
              ++ vparts (wkst_parts (kw_wkst k))) =
    rrule_text (mkP f (match kw_interval k with Some n => n | None => 1 end) (olist_get (kw_byweekday k))
              (olist_get (kw_bymonth k)) (olist_get (kw_bymonthday k)) (olist_get (kw_byweekno k))
              (olist_get (kw_byyearday k)) (olist_get (kw_bysetpos k)) (olist_get (kw_byhour k))
              (olist_get (kw_byminute k)) (olist_get (kw_bysecond k))
              (match kw_wkst k with
               | Some (WkObj w) | Some (WkInt w) => if (0 <=? w) && (w <? 7) then Some w else None
               | None => None
               end))).
  { intros parts0 ->. rewrite <- !vparts_app. cbn [app]. unfold vparts. rewrite tok_join_parts.
    unfold rrule_text, all_parts, wkst_parts.
    cbn [p_freq p_interval p_byday p_bymonth p_bymonthday p_byweekno p_byyearday p_bysetpos p_byhour
         p_byminute p_bysecond p_wkst].
    do 2 f_equal. repeat f_equal.
    destruct (kw_wkst k) as [[w|w]|]; try reflexivity; destruct ((0 <=? w) && (w <? 7)); reflexivity. }
  (* the head: FREQ and INTERVAL *)
  set (iv := match kw_interval k with Some v_ => v_ | None => 1 end) in *.
  assert (Head : (if negb (iv =? 1)
                  then ([] ++ [tok_cat [TKey KFreq] (tok_freq f)]) ++ [tok_cat [TKey KInterval] (tok_int iv)]
                  else [] ++ [tok_cat [TKey KFreq] (tok_freq f)]) =
                 vparts [(KFreq, [TFreqV f]); (KInterval, if iv =? 1 then [] else [TInt iv])]).
  { destruct (iv =? 1); reflexivity. }
  rewrite Head. clear Head.
  (* the WKST part, in both forms the generated text has *)
  assert (Wk : forall parts0 : list text,
    match kw_wkst k with
    | Some (WkObj wkst_w) =>
        if otext_true (wd_text wkst_w)
        then parts0 ++ [tok_cat [TKey KWkst] match wd_text wkst_w with Some v_ => v_ | None => [] end]
        else parts0
    | Some (WkInt wkst_z) =>
        if (0 <=? wkst_z) && (wkst_z <? 7) then parts0 ++ [tok_cat [TKey KWkst] (tok_wd wkst_z)] else parts0
    | None => parts0
    end = parts0 ++ vparts (wkst_parts (kw_wkst k))).
  { intros parts0. unfold wkst_parts, wd_text. destruct (kw_wkst k) as [[w|w]|].
    - destruct ((0 <=? w) && (w <? 7)); [reflexivity|symmetry; apply app_nil_r].
    - destruct ((0 <=? w) && (w <? 7)); [reflexivity|symmetry; apply app_nil_r].
    - symmetry; apply app_nil_r. }
  destruct (kw_byweekday k) as [days|] eqn:Ed; cbn [olist_get] in Hd, Tail.
  - (* byweekday present: the loop *)
    rewrite days_loop with (l := days); [| |exact Hd].
    + cbn [app]. list_fields. rewrite Wk. f_equal. apply Tail.
      change [(KFreq, [TFreqV f]); (KInterval, if iv =? 1 then [] else [TInt iv]); (KByDay, map day_token days)]
        with ([(KFreq, [TFreqV f]); (KInterval, if iv =? 1 then [] else [TInt iv])] ++ [(KByDay, map day_token days)]).
      rewrite vparts_app.
      rewrite tok_cat_key, (tok_join_singletons day_token days).
      destruct days as [|d days]; [symmetry; apply app_nil_r|reflexivity].
    + intros acc e He. rewrite (wd_text_ok (fst e) He). rewrite <- (body_on_day acc e He).
      destruct (negb (is_none (snd e)) && negb (ozd (snd e) =? 0)); reflexivity.
  - (* byweekday absent *)
    list_fields.
    assert (Wk2 : forall parts0 : list text,
      match kw_wkst k with
      | Some (WkObj wkst_w) =>
          RDone (tok_join [TSemi]
            (if otext_true (wd_text wkst_w)
             then parts0 ++ [tok_cat [TKey KWkst] match wd_text wkst_w with Some v_ => v_ | None => [] end]
             else parts0))
      | Some (WkInt wkst_z) =>
          RDone (tok_join [TSemi]
            (if (0 <=? wkst_z) && (wkst_z <? 7) then parts0 ++ [tok_cat [TKey KWkst] (tok_wd wkst_z)] else parts0))
      | None => RDone (tok_join [TSemi] parts0)
      end = RDone (tok_join [TSemi] (parts0 ++ vparts (wkst_parts (kw_wkst k))))).
    { intros parts0. rewrite <- Wk. destruct (kw_wkst k) as [[w|w]|]; reflexivity. }
    rewrite Wk2. f_equal. apply Tail.
    change [(KFreq, [TFreqV f]); (KInterval, if iv =? 1 then [] else [TInt iv]); (KByDay, map day_token [])]
      with ([(KFreq, [TFreqV f]); (KInterval, if iv =? 1 then [] else [TInt iv])] ++ [(KByDay, [])]).
    rewrite vparts_app. symmetry. apply app_nil_r.
Qed.
Print Assumptions g_rrule_text_eq_kw.

(* the kwargs of a rule of Model/Ical.v stand for that rule *)
Definition wkst_ok (p : rparts) : Prop := match p_wkst p with Some w => 0 <= w < 7 | None => True end.

Lemma olist_get_olist {A} (l : list A) : olist_get (olist l) = l.
Proof. destruct l; reflexivity. Qed.

Lemma parts_of_kw_of (p : rparts) : wkst_ok p -> parts_of_kw (kw_of p) = Some p.
Proof.
  intro Hw. unfold parts_of_kw, kw_of.
  cbn [kw_freq kw_interval kw_byweekday kw_bymonth kw_bymonthday kw_byweekno kw_byyearday kw_bysetpos
       kw_byhour kw_byminute kw_bysecond kw_wkst].
  rewrite !olist_get_olist. destruct p as [f i bd bm bmd bwn byd bsp bh bmi bs wk].
  unfold wkst_ok in Hw. cbn [p_freq p_interval p_byday p_bymonth p_bymonthday p_byweekno p_byyearday p_bysetpos
       p_byhour p_byminute p_bysecond p_wkst] in *.
  destruct wk as [w|]; [|reflexivity].
  replace ((0 <=? w) && (w <? 7)) with true by lia. reflexivity.
Qed.

Lemma olist_not_empty {A} (l : list A) : olist l <> Some [].
Proof. destruct l; discriminate. Qed.

(* HEADLINE: for every rule whose weekdays are 0..6, the text the code builds from the rule's
   kwargs is the model's rrule_text *)
Theorem g_rrule_text_eq (p : rparts) :
  Forall wd_ok (p_byday p) -> wkst_ok p -> g_rrule_text (kw_of p) = RDone (rrule_text p).
Proof.
  intros Hd Hw. apply g_rrule_text_eq_kw; [apply parts_of_kw_of; exact Hw|exact Hd|].
  unfold no_empty_lists, kw_of.
  cbn [kw_bymonth kw_bymonthday kw_byweekno kw_byyearday kw_bysetpos kw_byhour kw_byminute kw_bysecond].
  repeat split; apply olist_not_empty.
Qed.
Print Assumptions g_rrule_text_eq.

(* RecurringPattern.to_rrule_string *)
Theorem g_to_rrule_string_eq (p : rparts) :
  Forall wd_ok (p_byday p) -> wkst_ok p -> g_to_rrule_string (kw_of p) = RDone (rrule_text p).
Proof. intros Hd Hw. unfold g_to_rrule_string. rewrite (g_rrule_text_eq p Hd Hw). reflexivity. Qed.
Print Assumptions g_to_rrule_string_eq.

(* every rule of the property's list meets the hypotheses *)
From CG Require Import Spec.IcalSpec Proofs.IcalP.

Lemma supported_days_ok (p : rparts) : supported p = true -> Forall wd_ok (p_byday p) /\ wkst_ok p.
Proof.
  unfold supported, wkst_ok. intro H. repeat (apply andb_prop in H; destruct H as [H ?]).
  split; [|destruct (p_wkst p); [discriminate|exact I]].
  match goal with Hf : forallb _ (p_byday p) = true |- _ => rewrite forallb_forall in Hf; rename Hf into Hd end.
  apply Forall_forall. intros e He. specialize (Hd e He). unfold wd_ok, in_range in *. lia.
Qed.

(* C19 (b) on the code's text: the RRULE text the code emits for a rule of the property's list,
   parsed back, gives the rule *)
Theorem src_rrule_text_roundtrip (p : rparts) :
  supported p = true ->
  exists t, g_to_rrule_string (kw_of p) = RDone t /\ parse_rrule t = Some p.
Proof.
  intro H. destruct (supported_days_ok p H) as [Hd Hw]. exists (rrule_text p).
  split; [apply g_to_rrule_string_eq; assumption|apply rrule_text_roundtrip; exact H].
Qed.
Print Assumptions src_rrule_text_roundtrip.

Example g_rrule_text_ex :
  g_rrule_text (kw_of p_example) = RDone (rrule_text p_example) /\ rrule_text p_example <> [] /\
  Forall wd_ok (p_byday p_example) /\ wkst_ok p_example.
Proof. split; [vm_compute; reflexivity|]. split; [discriminate|]. split; [|exact I]. repeat constructor; vm_compute; congruence. Qed.

(* what the hypotheses exclude, as the code has it: *)
(* no "freq" key: ValueError *)
Theorem g_rrule_text_no_freq (k : kwargs) : kw_freq k = None -> g_rrule_text k = RRaise ValueError.
Proof. intro H. unfold g_rrule_text. cbv zeta. rewrite H. reflexivity. Qed.
Print Assumptions g_rrule_text_no_freq.

(* a weekday object whose weekday is not 0..6: ValueError *)
Theorem g_rrule_text_bad_weekday (k : kwargs) (f : freq) (days : list (Z * option Z)) :
  kw_freq k = Some f -> kw_byweekday k = Some days -> ~ Forall wd_ok days ->
  g_rrule_text k = RRaise ValueError.
Proof.
  intros Hf Hd Hbad. unfold g_rrule_text. cbv zeta. rewrite Hf, Hd.
  apply days_loop_bad; [| |exact Hbad].
  - intros acc e He. rewrite (wd_text_ok (fst e) He).
    destruct (negb (is_none (snd e)) && negb (ozd (snd e) =? 0)); eexists; reflexivity.
  - intros acc e He. rewrite (wd_text_bad (fst e) He). reflexivity.
Qed.
Print Assumptions g_rrule_text_bad_weekday.

(* a list field present with an EMPTY list (recurring(..., month=[])): the code emits "BYMONTH="
   with no value — a text that cannot be read back (vRecur.from_ical rejects it; so does the
   model's reader), although fetch() treats the empty list as "no BYMONTH".  Observation, outside
   the model's rparts (where [] IS the absent key). *)
Example g_rrule_text_empty_list :
  let k := mkKW (Some Daily) (Some 1) None (Some []) None None None None None None None None in
  g_rrule_text k = RDone [TKey KFreq; TFreqV Daily; TSemi; TKey KByMonth] /\
  parse_rrule [TKey KFreq; TFreqV Daily; TSemi; TKey KByMonth] = None.
Proof. split; vm_compute; reflexivity. Qed.
