(* Proofs/RecurExact2.v — forward exactness of Model/Recur.v against Spec/RecurSpec.v, part 2:
   the assembly (part 1, Proofs/RecurExact.v: the day filter of dateutil is the predicate of the
   series; the expansion without BYSETPOS).
     occ_start_mono            occurrence starts strictly increase with the local date (zone spread)
     stream_go_cut             an Ok result of the fuelled loop is a cut of the expansion at the
                               first kept occurrence that starts after b
     setpos_select_spec        dateutil's positional selection = the BYSETPOS test of the series
     L1_expansion_setpos       the expansion, BYSETPOS included (the truncated first week of a
                               WEEKLY rule apart)
     C07_forward_exact         fetch_forward r a b = Ok l -> l = spec_occurrences r a b
                               (all rules, BYSETPOS included; C07_forward_exact_no_setpos is the
                               instance asked for first)
     spec_occurrences_sorted, fetch_forward_sorted   strictly ascending starts
     fetch_forward_no_raise, safe_anchor_total, fetch_window_independent,
     fetch_forward_fuel_enough, C07_forward_total (dense case: the result IS Ok (spec ...)),
     and instances showing the hypotheses are satisfiable. *)
From CG Require Import Model.Recur Spec.RecurSpec Proofs.CivilP Proofs.CdateP Proofs.RecurP
  Proofs.RecurExact.
From Coq Require Import Lia ZifyBool Sorting.Sorted.
Ltac Zify.zify_post_hook ::= Z.to_euclidean_division_equations.

(* ------------------------------------------------------------------------------------------ *)
(* lists                                                                                       *)

Lemma filter_map_comm {A B} (P : B -> bool) (g : A -> B) l :
  filter P (map g l) = map g (filter (fun x => P (g x)) l).
Proof.
  induction l as [|x l IH]; [reflexivity|]. cbn [map filter].
  destruct (P (g x)); cbn [map]; rewrite IH; reflexivity.
Qed.

(* a filter over a range of day numbers only depends on the part of the range where the
   predicate can hold *)
Lemma filter_zseq_widen (Q : Z -> bool) s n S N :
  (forall d, S <= d < S + N -> ~ (s <= d < s + n) -> Q d = false) ->
  (0 < n -> S <= s /\ s + n <= S + N) ->
  filter Q (zseq s n) = filter Q (zseq S N).
Proof.
  intros Hout Hin. destruct (Z_le_gt_dec n 0) as [Hn|Hn].
  - rewrite (zseq_nil s n Hn). cbn [filter]. symmetry. apply filter_none.
    intros d Hd. apply zseq_In in Hd. apply Hout; lia.
  - destruct (Hin ltac:(lia)) as [H1 H2].
    replace N with ((s - S) + (n + (S + N - (s + n)))) by ring.
    rewrite zseq_app by lia. rewrite zseq_app by lia. rewrite !filter_app.
    replace (S + (s - S)) with s by ring.
    rewrite (filter_none Q (zseq S (s - S))).
    + rewrite (filter_none Q (zseq (s + n) _)); [rewrite app_nil_r; reflexivity|].
      intros d Hd. apply zseq_In in Hd. apply Hout; lia.
    + intros d Hd. apply zseq_In in Hd. apply Hout; lia.
Qed.

Lemma filter_zseq_same (Q : Z -> bool) s n s' n' :
  (forall d, ~ (s <= d < s + n) -> Q d = false) ->
  (forall d, ~ (s' <= d < s' + n') -> Q d = false) ->
  filter Q (zseq s n) = filter Q (zseq s' n').
Proof.
  intros H1 H2.
  set (S := Z.min s s'). set (N := Z.max (s + n) (s' + n') - S).
  rewrite (filter_zseq_widen Q s n S N); [|intros; apply H1; assumption|unfold S, N; lia].
  rewrite (filter_zseq_widen Q s' n' S N); [reflexivity|intros; apply H2; assumption|unfold S, N; lia].
Qed.

Lemma zseq_go_sorted n : forall s, StronglySorted Z.lt (zseq_go n s).
Proof.
  induction n as [|n IH]; intros s; cbn [zseq_go]; constructor; [apply IH|].
  apply Forall_forall. intros x Hx. apply zseq_go_In in Hx. lia.
Qed.

Lemma sorted_filter {A} (R : A -> A -> Prop) (P : A -> bool) l :
  StronglySorted R l -> StronglySorted R (filter P l).
Proof.
  induction 1 as [|x l Hs IH Hx]; [constructor|]. cbn [filter].
  destruct (P x); [|exact IH]. constructor; [exact IH|].
  apply Forall_forall. intros y Hy. apply filter_In in Hy. destruct Hy as [Hy _].
  rewrite Forall_forall in Hx. apply Hx. exact Hy.
Qed.

Lemma sorted_split {A} (R : A -> A -> Prop) l1 d l2 :
  StronglySorted R (l1 ++ d :: l2) -> Forall (R d) l2.
Proof.
  induction l1 as [|x l1 IH]; cbn [app]; intros H; inversion H; subst; [assumption|].
  apply IH. assumption.
Qed.

(* the cut the loop makes in an ascending list: everything kept before the first kept element
   past the end of the window *)
Definition cut_at (K B : Z -> bool) (L out : list Z) : Prop :=
  exists l1 d l2, L = l1 ++ d :: l2 /\ out = filter K l1 /\
                  (forall x, In x l1 -> K x = true -> B x = false) /\ K d = true /\ B d = true.

Lemma cut_at_filter (K B : Z -> bool) L out :
  StronglySorted Z.lt L ->
  (forall d d', B d = true -> d < d' -> B d' = true) ->
  cut_at K B L out ->
  out = filter (fun d => K d && negb (B d)) L /\ exists d, In d L /\ B d = true.
Proof.
  intros Hs Hmono (l1 & d & l2 & -> & -> & Hl1 & Kd & Bd).
  split; [|exists d; split; [apply in_or_app; right; left; reflexivity|exact Bd]].
  rewrite filter_app.
  rewrite (filter_none _ (d :: l2)).
  - rewrite app_nil_r. apply filter_ext_in. intros x Hx.
    destruct (K x) eqn:Kx; [|reflexivity]. rewrite (Hl1 x Hx Kx). reflexivity.
  - apply sorted_split in Hs. rewrite Forall_forall in Hs.
    intros x [<-|Hx].
    + rewrite Bd. apply andb_false_r.
    + rewrite (Hmono d x Bd (Hs x Hx)). apply andb_false_r.
Qed.

(* ------------------------------------------------------------------------------------------ *)
(* occurrences and the zone                                                                    *)

(* an accepted pattern never makes occurrence.replace raise, and the interval the model builds
   for a date is the occurrence of the specification *)
Lemma occ_accepted r d : rule_accepted r -> occurrence_to_interval r d = Some (occurrence r d).
Proof.
  intros H. unfold rule_accepted in H. unfold occurrence_to_interval, occurrence.
  replace ((r_sod r <? 0) || (DAY <=? r_sod r)) with false by lia. reflexivity.
Qed.

Lemma occ_fstart r d :
  fstart (occurrence r d) = mk_wall d (r_sod r) - wall_offset (r_zone r) (mk_wall d (r_sod r)) false.
Proof. reflexivity. Qed.

Lemma occ_fend r d :
  fend (occurrence r d) =
  let z := r_zone r in
  let ws := mk_wall d (r_sod r) in
  let o3 := wall_offset z ws false in
  let o2 := offset_at z (ws - o3) in
  let w2 := ws - o3 + o2 + r_dur r in
  w2 - wall_offset z w2 false.
Proof. reflexivity. Qed.

(* (4) starts are strictly increasing in the local date: two dates are a day or more apart on
   the wall clock, two offsets of the table less than a day *)
Theorem occ_start_mono r S d d' :
  zone_spread_le (r_zone r) S -> S < DAY ->
  d < d' -> fstart (occurrence r d) < fstart (occurrence r d').
Proof.
  intros Hz HS Hd. rewrite !occ_fstart. unfold mk_wall.
  set (o := wall_offset (r_zone r) (d * DAY + r_sod r) false).
  set (o' := wall_offset (r_zone r) (d' * DAY + r_sod r) false).
  assert (H : o' - o <= S) by (apply Hz; apply wall_offset_in).
  unfold DAY in *. nia.
Qed.

(* (5a) a date two days or more after b's local date starts after b, by more than DAY - S *)
Lemma occ_after_hi r S b d :
  zone_spread_le (r_zone r) S -> 0 <= r_sod r ->
  local_day (r_zone r) b + 2 <= d -> b + (DAY - S) < fstart (occurrence r d).
Proof.
  intros Hz Hsod Hd. rewrite occ_fstart. unfold mk_wall, local_day, wall_day, utc_to_wall in *.
  set (ow := wall_offset (r_zone r) (d * DAY + r_sod r) false).
  set (ob := offset_at (r_zone r) b) in *.
  assert (H : ow - ob <= S) by (apply Hz; [apply wall_offset_in|apply offset_at_in]).
  unfold DAY in *. lia.
Qed.

(* (5b) a date more than duration/DAY + 2 days before a's local date ends at or before a *)
Lemma occ_before_lo r S a d :
  zone_spread_le (r_zone r) S -> 2 * S <= DAY -> r_sod r < DAY ->
  d < local_day (r_zone r) a - (r_dur r / DAY + 2) -> fend (occurrence r d) <= a.
Proof.
  intros Hz HS Hsod Hd. rewrite occ_fend. cbv zeta. unfold mk_wall, local_day, wall_day, utc_to_wall in *.
  set (z := r_zone r) in *.
  set (ws := d * DAY + r_sod r).
  set (o3 := wall_offset z ws false).
  set (o2 := offset_at z (ws - o3)).
  set (o1 := wall_offset z (ws - o3 + o2 + r_dur r) false).
  set (oa := offset_at z a) in *.
  assert (H23 : o2 - o3 <= S) by (apply Hz; [apply offset_at_in|apply wall_offset_in]).
  assert (Ha1 : oa - o1 <= S) by (apply Hz; [apply offset_at_in|apply wall_offset_in]).
  unfold ws. unfold DAY in *. lia.
Qed.

(* ------------------------------------------------------------------------------------------ *)
(* the loop over the occurrences                                                               *)

(* not skipped: not an excluded start, and ends after the window start *)
Definition keepd (r : rule) (a d : Z) : bool :=
  negb (zmem (fstart (occurrence r d)) (r_exdates r)) && (a <? fend (occurrence r d)).
(* the "break" test *)
Definition pastd (r : rule) (b d : Z) : bool := b <? fstart (occurrence r d).

(* one period: either no break, everything kept is yielded (and starts at or before b); or a
   break at the first kept date starting after b *)
Lemma stream_period_spec r a b : rule_accepted r -> forall occ,
  exists out stop, stream_period r a b occ = Some (map (occurrence r) out, stop) /\
    if stop then cut_at (keepd r a) (pastd r b) occ out
    else out = filter (keepd r a) occ /\
         (forall x, In x occ -> keepd r a x = true -> pastd r b x = false).
Proof.
  intros Hacc. induction occ as [|d rest IH].
  - exists [], false. cbn [stream_period map filter]. split; [reflexivity|]. split; [reflexivity|].
    intros x [].
  - cbn [stream_period]. rewrite (occ_accepted r d Hacc).
    destruct IH as (out & stop & Hsp & Hcase).
    assert (Hskip : keepd r a d = false ->
      exists out0 stop0, stream_period r a b rest = Some (map (occurrence r) out0, stop0) /\
        if stop0 then cut_at (keepd r a) (pastd r b) (d :: rest) out0
        else out0 = filter (keepd r a) (d :: rest) /\
             (forall x, In x (d :: rest) -> keepd r a x = true -> pastd r b x = false)).
    { intros Hk. exists out, stop. split; [exact Hsp|]. destruct stop.
      - destruct Hcase as (l1 & d' & l2 & -> & -> & Hl1 & Kd & Bd).
        exists (d :: l1), d', l2. cbn [app filter]. rewrite Hk.
        repeat split; try assumption. intros x [<-|Hx] Kx; [congruence|apply Hl1; assumption].
      - destruct Hcase as [-> Hall]. cbn [filter]. rewrite Hk. split; [reflexivity|].
        intros x [<-|Hx] Kx; [congruence|apply Hall; assumption]. }
    destruct (zmem (fstart (occurrence r d)) (r_exdates r)) eqn:Eex.
    { apply Hskip. unfold keepd. rewrite Eex. reflexivity. }
    destruct (fend (occurrence r d) <=? a) eqn:Eend.
    { apply Hskip. unfold keepd. rewrite Eex. cbn [negb andb]. lia. }
    assert (Kd : keepd r a d = true) by (unfold keepd; rewrite Eex; cbn [negb andb]; lia).
    destruct (b <? fstart (occurrence r d)) eqn:Eb.
    + exists [], true. split; [reflexivity|]. exists [], d, rest. cbn [app filter].
      repeat split; try assumption. intros x [].
    + rewrite Hsp. exists (d :: out), stop. split; [reflexivity|]. destruct stop.
      * destruct Hcase as (l1 & d' & l2 & -> & -> & Hl1 & Kd' & Bd').
        exists (d :: l1), d', l2. cbn [app filter]. rewrite Kd.
        repeat split; try assumption. intros x [<-|Hx] Kx; [exact Eb|apply Hl1; assumption].
      * destruct Hcase as [-> Hall]. cbn [filter]. rewrite Kd. split; [reflexivity|].
        intros x [<-|Hx] Kx; [exact Eb|apply Hall; assumption].
Qed.

(* the whole loop: an Ok result is a cut of the expansion over some number of periods *)
Lemma stream_go_cut r q a b : rule_accepted r -> forall fuel st l,
  stream_go fuel r q a b st = Ok l ->
  exists n out, (n <= fuel)%nat /\ l = map (occurrence r) out /\
                cut_at (keepd r a) (pastd r b) (rrule_periods q st n) out.
Proof.
  intros Hacc. induction fuel as [|f IH]; intros st l H; cbn [stream_go] in H; [discriminate|].
  destruct (stream_period_spec r a b Hacc (period_occ q st)) as (out & stop & Hsp & Hcase).
  rewrite Hsp in H. destruct stop.
  - injection H as <-. exists 1%nat, out. split; [lia|]. split; [reflexivity|].
    cbn [rrule_periods]. rewrite app_nil_r. exact Hcase.
  - destruct (stream_go f r q a b (next_state q st)) as [l'| |] eqn:Ego; try discriminate.
    injection H as <-.
    destruct (IH _ _ Ego) as (n & out' & Hn & -> & (l1 & d & l2 & HL & -> & Hl1 & Kd & Bd)).
    destruct Hcase as [-> Hall].
    exists (S n), (filter (keepd r a) (period_occ q st) ++ filter (keepd r a) l1).
    split; [lia|]. split; [rewrite map_app; reflexivity|].
    exists (period_occ q st ++ l1), d, l2. cbn [rrule_periods]. rewrite HL, app_assoc, filter_app.
    repeat split; try assumption.
    intros x Hx Kx. apply in_app_or in Hx. destruct Hx as [Hx|Hx]; [apply Hall|apply Hl1]; assumption.
Qed.

(* the loop never raises for an accepted pattern *)
Lemma stream_go_no_raise r q a b : rule_accepted r -> forall fuel st,
  stream_go fuel r q a b st <> Raised.
Proof.
  intros Hacc. induction fuel as [|f IH]; intros st; cbn [stream_go]; [discriminate|].
  destruct (stream_period_spec r a b Hacc (period_occ q st)) as (out & stop & Hsp & _).
  rewrite Hsp. destruct stop; [discriminate|].
  specialize (IH (next_state q st)).
  destruct (stream_go f r q a b (next_state q st)); [discriminate|contradiction|discriminate].
Qed.

(* ------------------------------------------------------------------------------------------ *)
(* the specification as a filter over day numbers                                              *)

(* date d is in the series and its occurrence is in the answer for the window (a, b) *)
Definition wind (r : rule) (a b d : Z) : bool :=
  (a <? fend (occurrence r d)) && (fstart (occurrence r d) <=? b) &&
  negb (zmem (fstart (occurrence r d)) (r_exdates r)).
Definition Qd (r : rule) (a b d : Z) : bool := matches r d && wind r a b d.

Definition spec_lo (r : rule) (a : Z) : Z := local_day (r_zone r) a - (r_dur r / DAY + 2).
Definition spec_hi (r : rule) (b : Z) : Z := local_day (r_zone r) b + 1.

Lemma spec_occurrences_eq r a b :
  spec_occurrences r a b =
  map (occurrence r) (filter (Qd r a b) (zseq (spec_lo r a) (spec_hi r b - spec_lo r a + 1))).
Proof.
  unfold spec_occurrences, matching_dates. cbv zeta.
  fold (local_day (r_zone r) a). fold (local_day (r_zone r) b).
  fold (spec_lo r a). fold (spec_hi r b).
  rewrite cand_days, filter_map_comm, filter_filter'. reflexivity.
Qed.

Lemma wind_keep_past r a b d : wind r a b d = keepd r a d && negb (pastd r b d).
Proof.
  unfold wind, keepd, pastd.
  destruct (zmem (fstart (occurrence r d)) (r_exdates r)); cbn [negb]; rewrite ?andb_false_r; [reflexivity|].
  rewrite andb_true_r. cbn [andb]. f_equal. lia.
Qed.

(* (5) the date range of the specification contains every date that can matter *)
Lemma Qd_outside_spec r a b d :
  rule_accepted r -> zone_spread_ok (r_zone r) = true ->
  ~ (spec_lo r a <= d < spec_lo r a + (spec_hi r b - spec_lo r a + 1)) -> Qd r a b d = false.
Proof.
  intros Hacc Hz Hd. unfold rule_accepted in Hacc. apply zone_spread_ok_le in Hz.
  unfold Qd, wind.
  destruct (Z_lt_ge_dec d (spec_lo r a)) as [Hlo|Hlo].
  - pose proof (occ_before_lo r (DAY / 2) a d Hz ltac:(unfold DAY; lia) ltac:(lia) Hlo) as H.
    replace (a <? fend (occurrence r d)) with false by lia. cbn [andb]. apply andb_false_r.
  - assert (Hhi : local_day (r_zone r) b + 2 <= d) by (unfold spec_hi in Hd; lia).
    pose proof (occ_after_hi r (DAY / 2) b d Hz ltac:(lia) Hhi) as H.
    replace (fstart (occurrence r d) <=? b) with false by (unfold DAY in *; lia).
    rewrite andb_false_r. cbn [andb]. apply andb_false_r.
Qed.

(* ------------------------------------------------------------------------------------------ *)
(* BYSETPOS                                                                                    *)

(* the test of the specification: d is the p-th / |p|-th last of the candidates, for some p *)
Definition sp_test (cand pos : list Z) (d : Z) : bool :=
  let n := Z.of_nat (length cand) in
  existsb (fun p => let i := if 0 <? p then p - 1 else n + p in
                    (0 <=? i) && (nth (Z.to_nat i) cand (d - 1) =? d)) pos.

Lemma setpos_ok_unfold s c :
  setpos_ok s c =
  if is_nil (e_bysetpos s) then true
  else sp_test (map cd_day (filter (filters_ok s) (period_dates (e_freq s) c))) (e_bysetpos s) (cd_day c).
Proof. reflexivity. Qed.

Lemma combine_filter_gen (g h : Z -> bool) : forall c off,
  (forall j d, nth_error c j = Some d -> g (off + Z.of_nat j) = h d) ->
  map snd (filter (fun x => g (fst x)) (combine (zseq_go (length c) off) c)) = filter h c.
Proof.
  induction c as [|d c IH]; intros off H; [reflexivity|].
  cbn [length zseq_go combine filter fst].
  pose proof (H O d eq_refl) as H0. cbn [Z.of_nat] in H0. rewrite Z.add_0_r in H0. rewrite H0.
  assert (IH' : map snd (filter (fun x => g (fst x)) (combine (zseq_go (length c) (off + 1)) c)) = filter h c).
  { apply IH. intros j d' Hj. rewrite <- (H (S j) d' Hj). f_equal. lia. }
  destruct (h d); cbn [map snd]; rewrite IH'; reflexivity.
Qed.

Lemma sorted_NoDup l : StronglySorted Z.lt l -> NoDup l.
Proof.
  induction 1 as [|x l Hs IH Hx]; constructor; [|exact IH].
  intros Hin. rewrite Forall_forall in Hx. specialize (Hx x Hin). lia.
Qed.

Lemma nth_eq_iff cand j d i :
  NoDup cand -> nth_error cand j = Some d -> 0 <= i ->
  (nth (Z.to_nat i) cand (d - 1) =? d) = (Z.of_nat j =? i).
Proof.
  intros Hnd Hj Hi.
  assert (Hjl : (j < length cand)%nat) by (apply nth_error_Some; congruence).
  assert (Hjd : nth j cand (d - 1) = d) by (apply nth_error_nth; exact Hj).
  destruct (Nat.lt_ge_cases (Z.to_nat i) (length cand)) as [Hlt|Hge].
  - destruct (Z.of_nat j =? i) eqn:E.
    + apply Z.eqb_eq in E. subst i. rewrite Nat2Z.id, Hjd. apply Z.eqb_refl.
    + apply Z.eqb_neq. intros Hn. rewrite <- Hjd in Hn at 2.
      pose proof (proj1 (NoDup_nth cand (d - 1)) Hnd _ _ Hlt Hjl Hn). lia.
  - rewrite nth_overflow by exact Hge. lia.
Qed.

(* dateutil's positional selection is the specification's test, on candidates without repeats *)
Lemma setpos_select_spec cand pos :
  NoDup cand -> setpos_select cand pos = filter (sp_test cand pos) cand.
Proof.
  intros Hnd. unfold setpos_select, zseq. rewrite Nat2Z.id.
  set (len := Z.of_nat (length cand)).
  apply (combine_filter_gen (fun x => zmem x (map (fun p => if p <? 0 then len + p else p - 1) pos))).
  intros j d Hj. rewrite Z.add_0_l. unfold zmem, sp_test. rewrite existsb_map. fold len.
  apply existsb_ext_in. intros p _. cbv zeta.
  assert (Hjl : (j < length cand)%nat) by (apply nth_error_Some; congruence).
  destruct (0 <? p) eqn:E1.
  - replace (p <? 0) with false by lia. replace (0 <=? p - 1) with true by lia. cbn [andb].
    symmetry. apply nth_eq_iff; [assumption|assumption|lia].
  - destruct (p <? 0) eqn:E2.
    + destruct (0 <=? len + p) eqn:E3; cbn [andb]; [|lia].
      symmetry. apply nth_eq_iff; [assumption|assumption|lia].
    + assert (p = 0) by lia. subst p. replace (0 <=? len + 0) with true by lia. cbn [andb].
      rewrite nth_overflow by (unfold len; lia). unfold len. lia.
Qed.

(* the dates of the period of the specification are the span of the model's full state *)
Lemma period_dates_span f d :
  period_dates f (cdate_of d) = cdates (pstart f (pidx f d)) (plen f (pidx f d)).
Proof.
  unfold pidx, cdate_of. destruct (civil_from_days d) as [[y m] dd] eqn:E.
  destruct (civil_month_first _ _ _ _ E) as (Hm & Hdd & Hdm & Hmi & Hyr).
  destruct f; cbn [period_dates period_of pstart plen].
  - unfold cdates, cdate_of. rewrite E. reflexivity.
  - f_equal. unfold weekday. lia.
  - replace ((y * 12 + m - 1) / 12) with y by lia.
    replace ((y * 12 + m - 1) mod 12 + 1) with m by lia. reflexivity.
  - reflexivity.
Qed.

(* the candidates of a period: its days passing the filters of the series *)
Definition pcand (r : rule) (a0 p : Z) : list Z :=
  filter (fun d => filters_ok (series_from r a0) (cdate_of d))
         (zseq (pstart (r_freq r) p) (plen (r_freq r) p)).

Lemma zseq_sorted s n : StronglySorted Z.lt (zseq s n).
Proof. apply zseq_go_sorted. Qed.

Lemma pcand_NoDup r a0 p : NoDup (pcand r a0 p).
Proof. apply sorted_NoDup, sorted_filter, zseq_sorted. Qed.

Lemma M_in_phase_sp r a0 d :
  (pidx (r_freq r) d - pidx (r_freq r) a0) mod r_interval r = 0 ->
  M r a0 d = filters_ok (series_from r a0) (cdate_of d) &&
             (if is_nil (r_bysetpos r) then true
              else sp_test (pcand r a0 (pidx (r_freq r) d)) (r_bysetpos r) d).
Proof.
  intros Hph. unfold M, matches_s. rewrite in_phase_pidx, Hph. cbn [Z.eqb].
  destruct (filters_ok (series_from r a0) (cdate_of d)); [|reflexivity]. cbn [andb].
  rewrite setpos_ok_unfold. change (e_bysetpos (series_from r a0)) with (r_bysetpos r).
  change (e_freq (series_from r a0)) with (r_freq r).
  destruct (is_nil (r_bysetpos r)); [reflexivity|].
  rewrite period_dates_span, cand_days, cd_day_cdate_of. reflexivity.
Qed.

(* one pass of the loop over a whole in-phase period, BYSETPOS included *)
Lemma period_occ_full r a0 p :
  lists_ok r ->
  (p - pidx (r_freq r) a0) mod r_interval r = 0 ->
  period_occ (rr_of r a0) (full_state (r_freq r) p) =
  filter (fun d => (a0 <=? d) && M r a0 d) (zseq (pstart (r_freq r) p) (plen (r_freq r) p)).
Proof.
  intros Hok Hph.
  destruct (rr_of_fields r a0) as (Hf & Hk & Hd0 & _ & _ & _ & _ & _ & Hqsp). cbv zeta in *.
  assert (Hfull : forall d, In d (zseq (pstart (r_freq r) p) (plen (r_freq r) p)) -> pidx (r_freq r) d = p).
  { intros d Hd. apply zseq_In in Hd. apply pidx_span. rewrite pstart_succ. lia. }
  unfold period_occ. rewrite full_state_span, Hqsp, Hd0. rewrite cand_days.
  assert (Hc : filter (fun d => day_ok (rr_of r a0) (nwdays (rr_of r a0) (full_state (r_freq r) p)) (cdate_of d))
                      (zseq (pstart (r_freq r) p) (plen (r_freq r) p)) = pcand r a0 p).
  { apply filter_ext_in. intros d Hd. apply day_ok_filters; [exact Hok|].
    rewrite (Hfull d Hd). apply full_state_of_period. }
  rewrite Hc. clear Hc.
  destruct (is_nil (r_bysetpos r)) eqn:Enil.
  - unfold pcand. rewrite filter_filter'. apply filter_ext_in. intros d Hd.
    rewrite M_in_phase_sp by (rewrite (Hfull d Hd); exact Hph). rewrite Enil.
    rewrite andb_true_r. apply andb_comm.
  - rewrite (setpos_select_spec _ _ (pcand_NoDup r a0 p)).
    set (T := sp_test (pcand r a0 p) (r_bysetpos r)).
    unfold pcand. rewrite !filter_filter'. apply filter_ext_in. intros d Hd.
    rewrite M_in_phase_sp by (rewrite (Hfull d Hd); exact Hph). rewrite Enil, (Hfull d Hd).
    fold T. destruct (filters_ok (series_from r a0) (cdate_of d)); destruct (T d); destruct (a0 <=? d); reflexivity.
Qed.

(* any pass yields a sub-list of the days of its span *)
Lemma period_occ_sub q st :
  exists X, period_occ q st = filter X (zseq (fst (period_span st)) (snd (period_span st))).
Proof.
  unfold period_occ. destruct (period_span st) as [s n]. cbn [fst snd]. rewrite cand_days.
  set (cand := filter _ (zseq s n)).
  assert (Hnd : NoDup cand) by (apply sorted_NoDup, sorted_filter, zseq_sorted).
  destruct (is_nil (q_bysetpos q)).
  - eexists. unfold cand. rewrite filter_filter'. reflexivity.
  - rewrite (setpos_select_spec _ _ Hnd). eexists. rewrite filter_filter'. unfold cand at 2.
    rewrite filter_filter'. reflexivity.
Qed.

(* the passes over whole periods, every interval-th from an in-phase one on *)
Lemma rrule_periods_full r a0 :
  lists_ok r -> 0 < r_interval r ->
  let f := r_freq r in
  let p0 := pidx f a0 in
  forall (n : nat) j,
  rrule_periods (rr_of r a0) (full_state f (p0 + j * r_interval r)) n =
  filter (Mfrom r a0)
         (zseq (pstart f (p0 + j * r_interval r))
               (pstart f (p0 + (j + Z.of_nat n) * r_interval r) - pstart f (p0 + j * r_interval r))).
Proof.
  intros Hok Hk f p0. induction n as [|n IH]; intros j.
  - cbn [rrule_periods]. rewrite Z.add_0_r, Z.sub_diag. reflexivity.
  - cbn [rrule_periods]. unfold f at 2. rewrite next_state_full. fold f.
    replace (p0 + j * r_interval r + r_interval r) with (p0 + (j + 1) * r_interval r) by ring.
    rewrite IH.
    set (p := p0 + j * r_interval r).
    assert (Hph : (p - pidx (r_freq r) a0) mod r_interval r = 0).
    { unfold p, p0, f. replace (pidx (r_freq r) a0 + j * r_interval r - pidx (r_freq r) a0)
        with (j * r_interval r) by ring. apply Z_mod_mult. }
    unfold f at 1. rewrite (period_occ_full r a0 p Hok Hph). fold f.
    replace (p0 + (j + 1) * r_interval r) with (p + r_interval r) by (unfold p; ring).
    replace (p0 + (j + 1 + Z.of_nat n) * r_interval r) with (p0 + (j + Z.of_nat (S n)) * r_interval r) by lia.
    set (pe := p0 + (j + Z.of_nat (S n)) * r_interval r).
    assert (Hpe : p + r_interval r <= pe) by (unfold pe, p; nia).
    pose proof (pstart_succ f p) as Hs1.
    pose proof (pstart_mono f (p + 1) (p + r_interval r) ltac:(lia)) as Hs2.
    pose proof (pstart_mono f (p + r_interval r) pe Hpe) as Hs3.
    pose proof (plen_pos f p) as Hl.
    replace (pstart f pe - pstart f p) with
        (plen f p + ((pstart f (p + r_interval r) - pstart f (p + 1)) +
                     (pstart f pe - pstart f (p + r_interval r)))) by lia.
    rewrite zseq_app by lia. rewrite filter_app. f_equal.
    rewrite <- Hs1. rewrite zseq_app by lia. rewrite filter_app.
    pose proof (gap_none r a0 j Hk) as Hg. cbv zeta in Hg. fold f p0 p in Hg.
    unfold Mfrom at 2. rewrite Hg. cbn [app]. f_equal. f_equal. lia.
Qed.

Lemma st_at_1 r a0 :
  next_state (rr_of r a0) (init_state (rr_of r a0)) =
  full_state (r_freq r) (pidx (r_freq r) a0 + 1 * r_interval r).
Proof. exact (next_state_at r a0 0 ltac:(lia)). Qed.

(* L1 with BYSETPOS: as L1_expansion, except that for a WEEKLY rule whose dtstart is not a Monday
   the (truncated) first week yields some sub-list of its days — dateutil numbers the positions
   within the days from dtstart on, the series within the whole week *)
Theorem L1_expansion_setpos r a0 (n : nat) :
  lists_ok r -> 0 < r_interval r ->
  let f := r_freq r in
  let E := pstart f (pidx f a0 + Z.of_nat n * r_interval r) in
  exists (X : Z -> bool) (W : Z),
    (W = a0 \/ (r_freq r = Weekly /\ a0 < W <= a0 + 6)) /\
    rrule_model (rr_of r a0) n =
    filter (fun d => if d <? W then X d else M r a0 d) (zseq a0 (E - a0)).
Proof.
  intros Hok Hk f E.
  pose proof (pstart_le f a0) as Hle.
  destruct n as [|n].
  { exists (fun _ => true), a0. split; [left; reflexivity|].
    unfold E. cbn [Z.of_nat]. rewrite Z.mul_0_l, Z.add_0_r. rewrite zseq_nil by lia. reflexivity. }
  assert (HE : pstart f (pidx f a0 + 1) <= E).
  { unfold E. apply pstart_mono. nia. }
  pose proof (proj1 (pidx_span f a0 (pidx f a0)) eq_refl) as [_ Hnext].
  (* the case of a first pass over the whole first period *)
  assert (Hfullcase : init_state (rr_of r a0) = full_state f (pidx f a0) ->
    rrule_model (rr_of r a0) (S n) =
    filter (fun d => if d <? a0 then true else M r a0 d) (zseq a0 (E - a0))).
  { intros Hi. unfold rrule_model. rewrite Hi.
    pose proof (rrule_periods_full r a0 Hok Hk (S n) 0) as Hp. cbv zeta in Hp. fold f in Hp.
    rewrite Z.mul_0_l, Z.add_0_r, Z.add_0_l in Hp. rewrite Hp. fold E.
    replace (E - pstart f (pidx f a0)) with ((a0 - pstart f (pidx f a0)) + (E - a0)) by ring.
    rewrite zseq_app by lia. rewrite filter_app. rewrite filter_none.
    - cbn [app]. replace (pstart f (pidx f a0) + (a0 - pstart f (pidx f a0))) with a0 by ring.
      apply filter_ext_in. intros d Hd. apply zseq_In in Hd. unfold Mfrom.
      replace (a0 <=? d) with true by lia. replace (d <? a0) with false by lia. reflexivity.
    - intros d Hd. apply zseq_In in Hd. unfold Mfrom. replace (a0 <=? d) with false by lia. reflexivity. }
  destruct (init_state_cases r a0) as [Hi|[Ef Hi]].
  { exists (fun _ => true), a0. split; [left; reflexivity|]. apply Hfullcase. exact Hi. }
  destruct (Z.eq_dec (weekday a0) 0) as [Hw0|Hw0].
  { exists (fun _ => true), a0. split; [left; reflexivity|]. apply Hfullcase.
    rewrite Hi. unfold f. rewrite Ef. cbn [full_state]. rewrite pidx_weekly. f_equal.
    unfold weekday in Hw0. lia. }
  (* WEEKLY, dtstart not a Monday *)
  pose proof (weekday_range a0) as Hwr.
  set (W := a0 + (7 - weekday a0)).
  assert (HW : W = pstart f (pidx f a0 + 1)).
  { unfold W, f. rewrite Ef. cbn [pstart]. rewrite pidx_weekly. unfold weekday. lia. }
  destruct (period_occ_sub (rr_of r a0) (PWeek a0)) as [X HX]. cbn [period_span fst snd] in HX.
  exists X, W. split; [right; split; [exact Ef|unfold W; lia]|].
  unfold rrule_model. cbn [rrule_periods]. rewrite st_at_1. rewrite Hi, HX. fold f.
  pose proof (rrule_periods_full r a0 Hok Hk n 1) as Hp. cbv zeta in Hp. fold f in Hp. rewrite Hp.
  replace (pidx f a0 + (1 + Z.of_nat n) * r_interval r) with (pidx f a0 + Z.of_nat (S n) * r_interval r) by lia.
  fold E.
  set (P1 := pstart f (pidx f a0 + 1 * r_interval r)).
  assert (HP1 : W <= P1 <= E).
  { unfold P1, E. rewrite HW. split; apply pstart_mono; nia. }
  replace (E - a0) with ((W - a0) + ((P1 - W) + (E - P1))) by ring.
  rewrite zseq_app by lia. rewrite filter_app.
  replace (a0 + (W - a0)) with W by ring. rewrite zseq_app by lia. rewrite filter_app.
  replace (W + (P1 - W)) with P1 by ring.
  f_equal; [|rewrite (filter_none _ (zseq W (P1 - W)))].
  - replace (7 - weekday a0) with (W - a0) by (unfold W; ring).
    apply filter_ext_in. intros d Hd. apply zseq_In in Hd. replace (d <? W) with true by lia. reflexivity.
  - cbn [app]. apply filter_ext_in. intros d Hd. apply zseq_In in Hd. unfold Mfrom.
    replace (d <? W) with false by lia. replace (a0 <=? d) with true by lia. reflexivity.
  - intros d Hd. apply zseq_In in Hd. replace (d <? W) with false by lia.
    pose proof (gap_none r a0 0 Hk) as Hg. cbv zeta in Hg. fold f in Hg.
    rewrite Z.mul_0_l, Z.add_0_r in Hg. rewrite <- HW in Hg.
    replace (pidx f a0 + r_interval r) with (pidx f a0 + 1 * r_interval r) in Hg by ring. fold P1 in Hg.
    assert (Hin : In d (filter (fun d0 => (a0 <=? d0) && M r a0 d0) (zseq W (P1 - W))) -> False)
      by (rewrite Hg; intros []).
    destruct (M r a0 d) eqn:EM; [|reflexivity]. exfalso. apply Hin.
    apply filter_In. split; [apply zseq_In; lia|]. rewrite EM. lia.
Qed.
Print Assumptions L1_expansion_setpos.

(* ------------------------------------------------------------------------------------------ *)
(* C07: forward exactness                                                                      *)

(* WEEKLY: the occurrences of the first six days from the rrule dtstart on (so: of its whole first
   week when it is not a Monday) end at or before the window start too *)
Lemma anchor_before_week r A a0 d :
  0 < r_interval r -> rule_accepted r -> zone_spread_ok (r_zone r) = true ->
  r_freq r = Weekly ->
  safe_anchor r (local_day (r_zone r) (A - lookback_buffer r)) = Some a0 ->
  d <= a0 + 5 -> fend (occurrence r d) <= A.
Proof.
  intros Hk Hacc Hz Ef Ha Hd. unfold rule_accepted in Hacc. apply zone_spread_ok_le in Hz.
  pose proof (anchor_not_late_days r _ a0 Hk Ha) as Hlate. rewrite Ef in Hlate.
  rewrite occ_fend. cbv zeta.
  unfold mk_wall, local_day, wall_day, utc_to_wall, lookback_buffer in *. rewrite Ef in *.
  cbn [period_secs] in *.
  set (z := r_zone r) in *.
  set (ws := d * DAY + r_sod r).
  set (o3 := wall_offset z ws false).
  set (o2 := offset_at z (ws - o3)).
  set (o1 := wall_offset z (ws - o3 + o2 + r_dur r) false).
  set (t0 := A - (r_dur r + r_interval r * (7 * DAY))) in *.
  set (o4 := offset_at z t0) in *.
  assert (H23 : o2 - o3 <= DAY / 2) by (apply Hz; [apply offset_at_in|apply wall_offset_in]).
  assert (H41 : o4 - o1 <= DAY / 2) by (apply Hz; [apply offset_at_in|apply wall_offset_in]).
  assert (Hsd : (t0 + o4) / DAY * DAY <= t0 + o4) by (unfold DAY; lia).
  set (sd := (t0 + o4) / DAY) in *.
  unfold ws, t0 in *. unfold DAY in *. nia.
Qed.

(* Partial correctness of _fetch_forward, for every rule (BYSETPOS included): whenever the fuelled
   model answers, the answer is the list of the specification — the occurrences of the matching
   local dates with end > a and start <= b, minus the excluded ones, ascending, each once.
   Hypotheses: the BYxxx lists are well formed (lists_ok), interval >= 1, start_seconds within a
   day (what __init__ guarantees), and a zone table whose offsets differ by at most half a day
   (checked on every exported table by the harness).  Nothing is assumed of the duration, of the
   exdates, of the anchor, or of the order of a and b. *)
Theorem C07_forward_exact : forall r a b l,
  lists_ok r -> 0 < r_interval r -> rule_accepted r ->
  zone_spread_ok (r_zone r) = true ->
  fetch_forward r a b = Ok l -> l = spec_occurrences r a b.
Proof.
  intros r a b l Hok Hk Hacc Hz H.
  unfold fetch_forward in H.
  destruct (safe_anchor r (local_day (r_zone r) (a - lookback_buffer r))) as [a0|] eqn:Ea; [|discriminate].
  destruct (stream_go_cut r (rr_of r a0) a b Hacc _ _ _ H) as (n & out & _ & -> & Hcut).
  fold (rrule_model (rr_of r a0) n) in Hcut.
  destruct (L1_expansion_setpos r a0 n Hok Hk) as (X & W & HW & HL). cbv zeta in HL.
  rewrite HL in Hcut. clear HL.
  set (E := pstart (r_freq r) (pidx (r_freq r) a0 + Z.of_nat n * r_interval r)) in *.
  pose proof (zone_spread_ok_le _ Hz) as Hzs.
  apply cut_at_filter in Hcut.
  2:{ apply sorted_filter. apply zseq_go_sorted. }
  2:{ intros d d' Bd Hd. unfold pastd in *.
      pose proof (occ_start_mono r (DAY / 2) d d' Hzs ltac:(unfold DAY; lia) Hd). lia. }
  destruct Hcut as [-> (dstar & Hin & Bstar)].
  apply filter_In in Hin. destruct Hin as [Hin _]. apply zseq_In in Hin.
  rewrite spec_occurrences_eq. f_equal.
  rewrite filter_filter'.
  rewrite (filter_ext_in _ (Qd r a b)).
  2:{ intros d Hd. apply zseq_In in Hd. unfold Qd. rewrite wind_keep_past.
      destruct (d <? W) eqn:EW.
      - (* the truncated first week of a WEEKLY rule: not seen by the window *)
        destruct HW as [->|[Ef HW]]; [lia|].
        pose proof (anchor_before_week r a a0 d Hk Hacc Hz Ef Ea ltac:(lia)) as He.
        unfold keepd. replace (a <? fend (occurrence r d)) with false by lia.
        rewrite !andb_false_r. reflexivity.
      - f_equal. unfold M, matches. apply (anchor_series r _ a0 Hk Ea). }
  apply filter_zseq_same; [|intros d Hd; apply Qd_outside_spec; assumption].
  intros d Hd. unfold Qd. rewrite wind_keep_past.
  destruct (Z_lt_ge_dec d a0) as [Hlt|Hge].
  - pose proof (anchor_before_checked_zone r a a0 d _ Hk Hacc Hz Ea Hlt (occ_accepted r d Hacc)) as He.
    unfold keepd. replace (a <? fend (occurrence r d)) with false by lia.
    rewrite andb_false_r. cbn [andb]. apply andb_false_r.
  - assert (Hd' : dstar < d) by lia.
    pose proof (occ_start_mono r (DAY / 2) dstar d Hzs ltac:(unfold DAY; lia) Hd').
    unfold pastd in *. replace (b <? fstart (occurrence r d)) with true by lia.
    cbn [negb]. rewrite !andb_false_r. reflexivity.
Qed.
Print Assumptions C07_forward_exact.

(* the statement as first asked for (rules without BYSETPOS): an instance *)
Corollary C07_forward_exact_no_setpos : forall r a b l,
  lists_ok r -> no_setpos r -> 0 < r_interval r -> rule_accepted r ->
  zone_spread_ok (r_zone r) = true -> a <= b ->
  fetch_forward r a b = Ok l -> l = spec_occurrences r a b.
Proof. intros r a b l Hok _ Hk Hacc Hz _ H. exact (C07_forward_exact r a b l Hok Hk Hacc Hz H). Qed.
Print Assumptions C07_forward_exact_no_setpos.

(* the answer is strictly ascending by start (so: each occurrence once) *)
Lemma map_sorted {A B} (R : A -> A -> Prop) (R' : B -> B -> Prop) (g : A -> B) l :
  (forall x y, R x y -> R' (g x) (g y)) -> StronglySorted R l -> StronglySorted R' (map g l).
Proof.
  intros Hg. induction 1 as [|x l Hs IH Hx]; cbn [map]; constructor; [exact IH|].
  apply Forall_forall. intros y Hy. apply in_map_iff in Hy. destruct Hy as (x' & <- & Hx').
  apply Hg. rewrite Forall_forall in Hx. apply Hx. exact Hx'.
Qed.

Theorem spec_occurrences_sorted r a b :
  zone_spread_ok (r_zone r) = true ->
  StronglySorted (fun x y => fstart x < fstart y) (spec_occurrences r a b).
Proof.
  intros Hz. apply zone_spread_ok_le in Hz. rewrite spec_occurrences_eq.
  apply (map_sorted Z.lt); [|apply sorted_filter, zseq_sorted].
  intros x y Hxy. apply (occ_start_mono r (DAY / 2) x y Hz); [unfold DAY; lia|exact Hxy].
Qed.

Corollary fetch_forward_sorted : forall r a b l,
  lists_ok r -> 0 < r_interval r -> rule_accepted r -> zone_spread_ok (r_zone r) = true ->
  fetch_forward r a b = Ok l -> StronglySorted (fun x y => fstart x < fstart y) l.
Proof.
  intros r a b l Hok Hk Hacc Hz H. rewrite (C07_forward_exact r a b l Hok Hk Hacc Hz H).
  apply spec_occurrences_sorted. exact Hz.
Qed.
Print Assumptions fetch_forward_sorted.

(* ------------------------------------------------------------------------------------------ *)
(* no exception                                                                                *)

(* for an accepted pattern the only way _fetch_forward raises is the ValueError of
   _get_safe_anchor (year < 1 while stepping back to a month / year that has the anchor's day) *)
Theorem fetch_forward_no_raise : forall r a b,
  rule_accepted r ->
  safe_anchor r (local_day (r_zone r) (a - lookback_buffer r)) <> None ->
  fetch_forward r a b <> Raised.
Proof.
  intros r a b Hacc Hsa. unfold fetch_forward.
  destruct (safe_anchor r (local_day (r_zone r) (a - lookback_buffer r))) as [a0|]; [|contradiction].
  apply stream_go_no_raise. exact Hacc.
Qed.
Print Assumptions fetch_forward_no_raise.

(* _get_safe_anchor answers: always for daily and weekly rules; for monthly and yearly rules when
   the anchor's day of the month exists in every month (<= 28) and the look-back date's year is
   beyond the interval (the step-back loop is not entered, year >= 1) *)
Lemma month_back_now fuel k bd abs :
  1 <= abs / 12 -> bd <= dim (abs / 12) (abs mod 12 + 1) ->
  month_back fuel k bd abs = Some (days_from_civil (abs / 12) (abs mod 12 + 1) bd).
Proof.
  intros H1 H2. destruct fuel; cbn [month_back];
    replace ((1 <=? abs / 12) && (bd <=? dim (abs / 12) (abs mod 12 + 1))) with true by lia; reflexivity.
Qed.

Lemma year_back_now fuel k bm bd yr :
  1 <= yr -> bd <= dim yr bm -> year_back fuel k bm bd yr = Some (days_from_civil yr bm bd).
Proof.
  intros H1 H2. destruct fuel; cbn [year_back];
    replace ((1 <=? yr) && (bd <=? dim yr bm)) with true by lia; reflexivity.
Qed.

Lemma safe_anchor_total r sd :
  0 < r_interval r ->
  r_freq r = Daily \/ r_freq r = Weekly \/
  (day_of (base_day r) <= 28 /\ r_interval r < year_of sd) ->
  exists a0, safe_anchor r sd = Some a0.
Proof.
  intros Hk H. unfold safe_anchor.
  destruct (r_freq r) eqn:Ef; try (eexists; reflexivity);
    destruct H as [H|[H|[Hbd Hy]]]; try discriminate.
  - (* monthly *)
    unfold day_of, year_of in *.
    destruct (civil_from_days (base_day r)) as [[by_ bm] bd] eqn:Eb.
    destruct (civil_from_days sd) as [[sy sm] sdd] eqn:Es. cbn [fst snd] in *.
    destruct (civil_fields_valid _ _ _ _ Eb) as [Hvb _]. apply valid_date_elim in Hvb.
    destruct (civil_fields_valid _ _ _ _ Es) as [Hvs _]. apply valid_date_elim in Hvs.
    set (total := (sy - by_) * 12 + (sm - bm)).
    set (abs := by_ * 12 + bm - 1 + (total - total mod r_interval r)).
    pose proof (Z.mod_pos_bound total (r_interval r) Hk) as Hm.
    assert (Habs : 12 <= abs) by (unfold abs, total in *; lia).
    pose proof (dim_bounds (abs / 12) (abs mod 12 + 1)) as Hdim.
    rewrite month_back_now by lia. eexists; reflexivity.
  - (* yearly *)
    unfold day_of, year_of in *.
    destruct (civil_from_days (base_day r)) as [[by_ bm] bd] eqn:Eb.
    destruct (civil_from_days sd) as [[sy sm] sdd] eqn:Es. cbn [fst snd] in *.
    pose proof (Z.mod_pos_bound (sy - by_) (r_interval r) Hk) as Hm.
    set (yr := sy - (sy - by_) mod r_interval r) in *.
    assert (Hyr : 1 <= yr) by (unfold yr; lia).
    pose proof (dim_bounds yr bm) as Hdim.
    rewrite year_back_now by lia. eexists; reflexivity.
Qed.

Corollary fetch_forward_no_raise_daily_weekly : forall r a b,
  rule_accepted r -> 0 < r_interval r -> r_freq r = Daily \/ r_freq r = Weekly ->
  fetch_forward r a b <> Raised.
Proof.
  intros r a b Hacc Hk Hf. apply fetch_forward_no_raise; [exact Hacc|].
  destruct (safe_anchor_total r (local_day (r_zone r) (a - lookback_buffer r)) Hk) as [a0 ->];
    [tauto|discriminate].
Qed.
Print Assumptions fetch_forward_no_raise_daily_weekly.

(* ------------------------------------------------------------------------------------------ *)
(* the answer does not depend on the window asked                                              *)

Lemma Qd_narrow r a b a' b' d :
  a' <= a -> b <= b' ->
  Qd r a' b' d && ((a <? fend (occurrence r d)) && (fstart (occurrence r d) <=? b)) = Qd r a b d.
Proof.
  intros Ha Hb. unfold Qd, wind.
  destruct (matches r d); cbn [andb]; [|reflexivity].
  destruct (zmem (fstart (occurrence r d)) (r_exdates r)); cbn [negb]; rewrite ?andb_false_r; [reflexivity|].
  rewrite !andb_true_r. lia.
Qed.

(* the specification's answer for a window is the part of its answer for any wider window that
   the narrower window sees *)
Lemma spec_window_restrict r a b a' b' :
  rule_accepted r -> zone_spread_ok (r_zone r) = true ->
  a' <= a -> b <= b' ->
  spec_occurrences r a b =
  filter (fun i => (a <? fend i) && (fstart i <=? b)) (spec_occurrences r a' b').
Proof.
  intros Hacc Hz Ha Hb. rewrite !spec_occurrences_eq, filter_map_comm, filter_filter'. f_equal.
  rewrite (filter_ext (fun d => Qd r a' b' d &&
                         ((a <? fend (occurrence r d)) && (fstart (occurrence r d) <=? b))) (Qd r a b))
    by (intros d; apply Qd_narrow; assumption).
  apply filter_zseq_same; intros d Hd.
  - apply Qd_outside_spec; assumption.
  - rewrite <- (Qd_narrow r a b a' b' d Ha Hb).
    rewrite (Qd_outside_spec r a' b' d Hacc Hz Hd). reflexivity.
Qed.

Corollary fetch_window_independent : forall r a b a' b' l l',
  lists_ok r -> 0 < r_interval r -> rule_accepted r ->
  zone_spread_ok (r_zone r) = true ->
  a' <= a -> b <= b' ->
  fetch_forward r a b = Ok l -> fetch_forward r a' b' = Ok l' ->
  l = filter (fun i => (a <? fend i) && (fstart i <=? b)) l'.
Proof.
  intros r a b a' b' l l' Hok Hk Hacc Hz Ha Hb H H'.
  rewrite (C07_forward_exact r a b l Hok Hk Hacc Hz H).
  rewrite (C07_forward_exact r a' b' l' Hok Hk Hacc Hz H').
  apply spec_window_restrict; assumption.
Qed.
Print Assumptions fetch_window_independent.

(* ------------------------------------------------------------------------------------------ *)
(* fuel: the dense case                                                                        *)

(* the loop stops within the periods that contain a kept occurrence starting after b *)
Lemma stream_go_fuel r q a b : rule_accepted r -> forall fuel st d,
  In d (rrule_periods q st fuel) -> keepd r a d = true -> pastd r b d = true ->
  stream_go fuel r q a b st <> OutOfFuel.
Proof.
  intros Hacc. induction fuel as [|f IH]; intros st d Hin Kd Bd; cbn [rrule_periods stream_go] in *;
    [contradiction|].
  destruct (stream_period_spec r a b Hacc (period_occ q st)) as (out & stop & Hsp & Hcase).
  rewrite Hsp. destruct stop; [discriminate|]. destruct Hcase as [_ Hall].
  apply in_app_or in Hin. destruct Hin as [Hin|Hin].
  - rewrite (Hall d Hin Kd) in Bd. discriminate.
  - specialize (IH (next_state q st) d Hin Kd Bd).
    destruct (stream_go f r q a b (next_state q st)); [discriminate|discriminate|contradiction].
Qed.

(* the rrule dtstart is not after the local date of the window end *)
Lemma anchor_le_window r a b a0 :
  0 < r_interval r -> zone_spread_ok (r_zone r) = true -> a <= b -> 0 <= r_dur r ->
  safe_anchor r (local_day (r_zone r) (a - lookback_buffer r)) = Some a0 ->
  a0 <= local_day (r_zone r) b.
Proof.
  intros Hk Hz Hab Hdur Ha. apply zone_spread_ok_le in Hz.
  pose proof (anchor_not_late r _ a0 Hk Ha) as Hlate.
  assert (Hper : DAY * (anchor_slack (r_freq r) + 1) <= r_interval r * period_secs (r_freq r)).
  { destruct (r_freq r); cbn [anchor_slack period_secs]; unfold DAY; nia. }
  assert (Hsl : 0 <= anchor_slack (r_freq r)) by (destruct (r_freq r); cbn; lia).
  unfold local_day, wall_day, utc_to_wall, lookback_buffer in *.
  set (t0 := a - (r_dur r + r_interval r * period_secs (r_freq r))) in *.
  set (o4 := offset_at (r_zone r) t0) in *. set (ob := offset_at (r_zone r) b).
  assert (H4b : o4 - ob <= DAY / 2) by (apply Hz; apply offset_at_in).
  set (P := r_interval r * period_secs (r_freq r)) in *.
  set (sl := anchor_slack (r_freq r)) in *.
  assert (Hsd : (t0 + o4) / DAY * DAY <= t0 + o4) by (unfold DAY; lia).
  assert (Hb : b + ob < ((b + ob) / DAY + 1) * DAY) by (unfold DAY; lia).
  set (sd := (t0 + o4) / DAY) in *. set (lb := (b + ob) / DAY) in *.
  unfold t0 in Hsd. unfold DAY in *. nia.
Qed.

(* WEEKLY: by six days or more *)
Lemma anchor_le_window_week r a b a0 :
  0 < r_interval r -> zone_spread_ok (r_zone r) = true -> a <= b -> 0 <= r_dur r ->
  r_freq r = Weekly ->
  safe_anchor r (local_day (r_zone r) (a - lookback_buffer r)) = Some a0 ->
  a0 + 6 <= local_day (r_zone r) b.
Proof.
  intros Hk Hz Hab Hdur Ef Ha. apply zone_spread_ok_le in Hz.
  pose proof (anchor_not_late_days r _ a0 Hk Ha) as Hlate. rewrite Ef in Hlate.
  unfold local_day, wall_day, utc_to_wall, lookback_buffer in *. rewrite Ef in *. cbn [period_secs] in *.
  set (t0 := a - (r_dur r + r_interval r * (7 * DAY))) in *.
  set (o4 := offset_at (r_zone r) t0) in *. set (ob := offset_at (r_zone r) b).
  assert (H4b : o4 - ob <= DAY / 2) by (apply Hz; apply offset_at_in).
  assert (Hsd : (t0 + o4) / DAY * DAY <= t0 + o4) by (unfold DAY; lia).
  assert (Hb : b + ob < ((b + ob) / DAY + 1) * DAY) by (unfold DAY; lia).
  set (sd := (t0 + o4) / DAY) in *. set (lb := (b + ob) / DAY) in *.
  unfold t0 in Hsd. unfold DAY in *. nia.
Qed.

(* the periods the fuel pays for reach SLACK_DAYS past the local date of the window end *)
Lemma fuel_reach r a0 b :
  0 < r_interval r ->
  local_day (r_zone r) b + SLACK_DAYS <
  pstart (r_freq r) (pidx (r_freq r) a0 + Z.of_nat (fuel_for r a0 b) * r_interval r).
Proof.
  intros Hk. set (f := r_freq r). set (k := r_interval r) in *.
  set (mn := period_min_days f).
  assert (Hmn : 0 < mn) by (unfold mn; destruct f; cbn; lia).
  unfold fuel_for. fold f k mn.
  set (span := Z.max 0 (local_day (r_zone r) b - a0) + SLACK_DAYS).
  assert (Hspan : 0 <= span) by (unfold span, SLACK_DAYS; lia).
  assert (Hkm : 0 < k * mn) by nia.
  set (F := span / (k * mn) + 3).
  assert (HF : 3 <= F) by (unfold F; pose proof (Z.div_pos span (k * mn) Hspan Hkm); lia).
  rewrite Z2Nat.id by lia.
  assert (Hdiv : span < (span / (k * mn) + 1) * (k * mn)).
  { pose proof (Z.div_mod span (k * mn) ltac:(lia)). pose proof (Z.mod_pos_bound span (k * mn) Hkm). nia. }
  pose proof (pstart_advance f (pidx f a0 + 1) (Z.to_nat (F * k - 1))) as Hadv.
  rewrite Z2Nat.id in Hadv by nia.
  replace (pidx f a0 + 1 + (F * k - 1)) with (pidx f a0 + F * k) in Hadv by ring.
  pose proof (proj1 (pidx_span f a0 (pidx f a0)) eq_refl) as [_ Hnext].
  fold mn in Hadv.
  assert (Hbig : span < (F * k - 1) * mn).
  { unfold F. replace ((span / (k * mn) + 3) * k - 1) with ((span / (k * mn) + 1) * k + (2 * k - 1)) by ring.
    rewrite Z.mul_add_distr_r. replace ((span / (k * mn) + 1) * k * mn) with ((span / (k * mn) + 1) * (k * mn)) by ring.
    assert (0 <= (2 * k - 1) * mn) by nia. lia. }
  unfold span in Hbig. lia.
Qed.

(* a date two days or more after b's local date ends after a (a <= b, duration >= 0) *)
Lemma occ_keep_after r a b d :
  zone_spread_ok (r_zone r) = true -> 0 <= r_sod r -> 0 <= r_dur r -> a <= b ->
  local_day (r_zone r) b + 2 <= d -> a < fend (occurrence r d).
Proof.
  intros Hz Hsod Hdur Hab Hd. apply zone_spread_ok_le in Hz.
  pose proof (occ_after_hi r (DAY / 2) b d Hz Hsod Hd) as Hs.
  rewrite occ_fstart in Hs. rewrite occ_fend. cbv zeta.
  set (z := r_zone r) in *. set (ws := mk_wall d (r_sod r)) in *.
  set (o3 := wall_offset z ws false) in *.
  set (o2 := offset_at z (ws - o3)).
  set (o1 := wall_offset z (ws - o3 + o2 + r_dur r) false).
  assert (H12 : o1 - o2 <= DAY / 2) by (apply Hz; [apply wall_offset_in|apply offset_at_in]).
  unfold DAY in *. lia.
Qed.

(* Fuel sufficiency, dense case: if the series has a non-excluded date between 2 and SLACK_DAYS
   (16000) days after the local date of the window end, the model does not run out of fuel. *)
Theorem fetch_forward_fuel_enough : forall r a b dstar,
  lists_ok r -> 0 < r_interval r -> rule_accepted r ->
  zone_spread_ok (r_zone r) = true -> 0 <= r_dur r -> a <= b ->
  matches r dstar = true ->
  local_day (r_zone r) b + 2 <= dstar <= local_day (r_zone r) b + SLACK_DAYS ->
  zmem (fstart (occurrence r dstar)) (r_exdates r) = false ->
  fetch_forward r a b <> OutOfFuel.
Proof.
  intros r a b dstar Hok Hk Hacc Hz Hdur Hab Hm Hd Hex.
  unfold fetch_forward.
  destruct (safe_anchor r (local_day (r_zone r) (a - lookback_buffer r))) as [a0|] eqn:Ea; [|discriminate].
  pose proof (anchor_le_window r a b a0 Hk Hz Hab Hdur Ea) as Ha0.
  pose proof (fuel_reach r a0 b Hk) as HE.
  unfold rule_accepted in Hacc.
  apply (stream_go_fuel r _ a b Hacc _ _ dstar).
  - fold (rrule_model (rr_of r a0) (fuel_for r a0 b)).
    destruct (L1_expansion_setpos r a0 (fuel_for r a0 b) Hok Hk) as (X & W & HW & ->).
    apply filter_In. split; [apply zseq_In; lia|].
    replace (dstar <? W) with false.
    + unfold M. rewrite (anchor_series r _ a0 Hk Ea). exact Hm.
    + destruct HW as [->|[Ef HW]]; [lia|].
      pose proof (anchor_le_window_week r a b a0 Hk Hz Hab Hdur Ef Ea). lia.
  - unfold keepd. rewrite Hex. cbn [negb andb].
    pose proof (occ_keep_after r a b dstar Hz ltac:(lia) Hdur Hab ltac:(lia)). lia.
  - unfold pastd. apply zone_spread_ok_le in Hz.
    pose proof (occ_after_hi r (DAY / 2) b dstar Hz ltac:(lia) ltac:(lia)). unfold DAY in *. lia.
Qed.
Print Assumptions fetch_forward_fuel_enough.

(* Total correctness in the dense case: the model's answer IS the specification's list. *)
Theorem C07_forward_total : forall r a b dstar,
  lists_ok r -> 0 < r_interval r -> rule_accepted r ->
  zone_spread_ok (r_zone r) = true -> 0 <= r_dur r -> a <= b ->
  safe_anchor r (local_day (r_zone r) (a - lookback_buffer r)) <> None ->
  matches r dstar = true ->
  local_day (r_zone r) b + 2 <= dstar <= local_day (r_zone r) b + SLACK_DAYS ->
  zmem (fstart (occurrence r dstar)) (r_exdates r) = false ->
  fetch_forward r a b = Ok (spec_occurrences r a b).
Proof.
  intros r a b dstar Hok Hk Hacc Hz Hdur Hab Hsa Hm Hd Hex.
  pose proof (fetch_forward_no_raise r a b Hacc Hsa) as Hnr.
  pose proof (fetch_forward_fuel_enough r a b dstar Hok Hk Hacc Hz Hdur Hab Hm Hd Hex) as Hnf.
  destruct (fetch_forward r a b) as [l| |] eqn:E; [|contradiction|contradiction].
  f_equal. apply (C07_forward_exact r a b l Hok Hk Hacc Hz E).
Qed.
Print Assumptions C07_forward_total.


(* ------------------------------------------------------------------------------------------ *)
(* the hypotheses are satisfiable                                                              *)
From CG Require Spec.ZoneTables.

(* the zone tables exported from zoneinfo for C13 (Los Angeles, Havana, Chatham, Troll, St John's)
   meet the zone hypothesis of this file *)
Example zone_hypothesis_satisfiable :
  forallb zone_spread_ok
          [CG.Spec.ZoneTables.la; CG.Spec.ZoneTables.havana; CG.Spec.ZoneTables.chatham; CG.Spec.ZoneTables.troll;
           CG.Spec.ZoneTables.st_johns_2005; utc_zone] = true.
Proof. vm_compute. reflexivity. Qed.

(* every other week on Monday and Thursday at 09:00 Los Angeles time for one hour, one excluded
   start, anchored on 2024-01-01 *)
Definition ex_weekly : rule :=
  mkRule Weekly 2 [(0, None); (3, None)] [] [] [] [1705338000] (Some 1704096000) 32400 3600
         CG.Spec.ZoneTables.la.
(* the second and the last working day of every month at 02:00 for 25 hours (BYSETPOS) *)
Definition ex_setpos : rule :=
  mkRule Monthly 1 [(0, None); (1, None); (2, None); (3, None); (4, None)] [] [] [2; -1] []
         (Some 1704096000) 7200 90000 CG.Spec.ZoneTables.la.
(* the last Friday of March and November, every year *)
Definition ex_nth : rule :=
  mkRule Yearly 1 [(4, Some (-1))] [] [3; 11] [] [] (Some 1704096000) 7200 3600 CG.Spec.ZoneTables.la.

Lemma ex_weekly_ok : lists_ok ex_weekly /\ no_setpos ex_weekly /\ 0 < r_interval ex_weekly /\
  rule_accepted ex_weekly /\ zone_spread_ok (r_zone ex_weekly) = true /\ 0 <= r_dur ex_weekly.
Proof.
  split; [|repeat split; try reflexivity; cbn; unfold DAY; lia].
  constructor; cbn;
    [repeat constructor; lia|repeat constructor; lia|repeat constructor; cbn; lia|left; reflexivity].
Qed.

Lemma ex_setpos_ok : lists_ok ex_setpos /\ 0 < r_interval ex_setpos /\
  rule_accepted ex_setpos /\ zone_spread_ok (r_zone ex_setpos) = true /\ 0 <= r_dur ex_setpos.
Proof.
  split; [|repeat split; try reflexivity; cbn; unfold DAY; lia].
  constructor; cbn;
    [repeat constructor; lia|repeat constructor; lia|repeat constructor; cbn; lia|left; reflexivity].
Qed.

Lemma ex_nth_ok : lists_ok ex_nth /\ 0 < r_interval ex_nth /\
  rule_accepted ex_nth /\ zone_spread_ok (r_zone ex_nth) = true /\ 0 <= r_dur ex_nth.
Proof.
  split; [|repeat split; try reflexivity; cbn; unfold DAY; lia].
  constructor; cbn;
    [repeat constructor; lia|repeat constructor; lia|repeat constructor; cbn; lia|right; reflexivity].
Qed.

(* C07_forward_exact is not vacuous: the model answers Ok with a non-empty list on these rules
   (January 2024 for the weekly rule — the excluded 15 January missing —, the first half of 2024
   for the BYSETPOS rule, 2020..2027 for the yearly one) *)
Example C07_forward_exact_instances :
  (exists l, fetch_forward ex_weekly 1704000000 1707000000 = Ok l /\ length l = 5%nat) /\
  (exists l, fetch_forward ex_setpos 1704000000 1720000000 = Ok l /\ length l = 13%nat) /\
  (exists l, fetch_forward ex_nth 1580000000 1830000000 = Ok l /\ length l = 16%nat).
Proof.
  repeat split; eexists; (split; [vm_compute; reflexivity|reflexivity]).
Qed.

(* C07_forward_total is not vacuous: day 19765 = 2024-02-12, a Monday of an in-phase week, lies
   two days or more after the local date of b = 1707000000 (day 19756) *)
Example C07_forward_total_instance :
  fetch_forward ex_weekly 1704000000 1707000000 = Ok (spec_occurrences ex_weekly 1704000000 1707000000).
Proof.
  destruct ex_weekly_ok as (Hok & _ & Hk & Hacc & Hz & Hdur).
  apply (C07_forward_total ex_weekly 1704000000 1707000000 19765 Hok Hk Hacc Hz Hdur).
  - lia.
  - vm_compute. discriminate.
  - vm_compute. reflexivity.
  - vm_compute. split; discriminate.
  - vm_compute. reflexivity.
Qed.

Example C07_forward_total_instance_setpos :
  fetch_forward ex_setpos 1704000000 1720000000 = Ok (spec_occurrences ex_setpos 1704000000 1720000000).
Proof.
  destruct ex_setpos_ok as (Hok & Hk & Hacc & Hz & Hdur).
  apply (C07_forward_total ex_setpos 1704000000 1720000000 19935 Hok Hk Hacc Hz Hdur).
  - lia.
  - vm_compute. discriminate.
  - vm_compute. reflexivity.
  - vm_compute. split; discriminate.
  - vm_compute. reflexivity.
Qed.

(* fetch_window_independent is not vacuous *)
Example fetch_window_independent_instance :
  exists l l', fetch_forward ex_setpos 1706000000 1710000000 = Ok l /\
               fetch_forward ex_setpos 1704000000 1720000000 = Ok l' /\
               l <> [] /\ l <> l'.
Proof. do 2 eexists. split; [vm_compute; reflexivity|]. split; [vm_compute; reflexivity|]. split; discriminate. Qed.

(* the hypothesis of fetch_forward_no_raise cannot be dropped: with an interval beyond the year
   number the look-back reaches before year 1 and _get_safe_anchor re-raises the ValueError *)
Example fetch_forward_can_raise :
  let r := mkRule Yearly 3000 [] [] [] [] [] (Some 1704096000) 7200 3600 utc_zone in
  rule_accepted r /\ fetch_forward r 1580000000 1590000000 = Raised.
Proof. cbv zeta. split; [unfold rule_accepted; cbn; unfold DAY; lia|vm_compute; reflexivity]. Qed.

(* lists_ok's "plain weekdays only or n-th weekdays only" cannot be dropped either: dateutil reads a
   BYDAY list mixing FR and 1FR as a conjunction (first Fridays only), the series (RFC 5545) as a
   union (every Friday) — known finding KF-MIXED-BYDAY-C07; RecurringPattern accepts
   day=["friday", "1FR"] *)
Theorem C07_forward_exact_mixed_byday_refuted :
  exists r a b l,
    Forall (fun m => 1 <= m <= 12) (r_bymonth r) /\ Forall (fun e => e <> 0) (r_bymonthday r) /\
    Forall (fun e => 0 <= fst e < 7) (r_byweekday r) /\
    0 < r_interval r /\ rule_accepted r /\ zone_spread_ok (r_zone r) = true /\
    fetch_forward r a b = Ok l /\ l <> spec_occurrences r a b.
Proof.
  exists (mkRule Monthly 1 [(4, None); (4, Some 1)] [] [] [] [] (Some 1704096000) 7200 3600 utc_zone),
         1704000000, 1707000000.
  eexists. split; [constructor|]. split; [constructor|].
  split; [repeat constructor; cbn; lia|]. split; [cbn; lia|].
  split; [unfold rule_accepted; cbn; unfold DAY; lia|]. split; [reflexivity|].
  split; [vm_compute; reflexivity|]. vm_compute. discriminate.
Qed.
Print Assumptions C07_forward_exact_mixed_byday_refuted.
