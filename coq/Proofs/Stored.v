(* Proofs/Stored.v — the static store of MemoryTimeline: SortedList keyed by (finite_start, finite_end)
   with bisect_right insertion (sl_add / sl_build), and _fetch_static (take_le_start + filter).
   Results: the store is sorted by key and a permutation of what was added; insertion is stable
   (after equal keys), sl_build is a stable sort; fetch_static is exactly a filter of the store
   (hence in store order), complete for every stored event overlapping the window and sound
   (fstart <= b, fend > a). *)
From CG Require Import Proofs.Defs.

(* ---------- the key order ---------- *)
Lemma key_le_refl x : key_le x x = true.
Proof. unfold key_le. lia. Qed.

Lemma key_le_total x y : key_le x y = false -> key_le y x = true.
Proof. unfold key_le. lia. Qed.

Lemma key_le_trans x y z : key_le x y = true -> key_le y z = true -> key_le x z = true.
Proof. unfold key_le. lia. Qed.

Lemma key_lt_negb_le x y : key_lt x y = negb (key_le y x).
Proof. unfold key_lt, key_le. lia. Qed.

Lemma key_lt_le_trans x y z : key_lt x y = true -> key_le y z = true -> key_lt x z = true.
Proof. unfold key_lt, key_le. lia. Qed.

Lemma key_le_fstart x y : key_le x y = true -> fstart x <= fstart y.
Proof. unfold key_le. lia. Qed.

Definition key_eqb (x y : ivl) : bool := (fstart x =? fstart y) && (fend x =? fend y).

Lemma key_eqb_iff x y : key_eqb x y = true <-> key_le x y = true /\ key_le y x = true.
Proof. unfold key_eqb, key_le. lia. Qed.

(* ---------- sorted_key, Prop level (pairwise) ---------- *)
Fixpoint sortedP (l : list ivl) : Prop :=
  match l with
  | [] => True
  | x :: r => (forall y, In y r -> key_le x y = true) /\ sortedP r
  end.

Lemma sorted_key_cons2 x y r : sorted_key (x :: y :: r) = key_le x y && sorted_key (y :: r).
Proof. reflexivity. Qed.

Lemma sorted_key_P l : sorted_key l = true <-> sortedP l.
Proof.
  induction l as [|x r IH]; [simpl; tauto|].
  destruct r as [|y r'].
  - simpl. split; [intros _; split; [intros ? []|exact I]|reflexivity].
  - rewrite sorted_key_cons2, andb_true_iff, IH. split.
    + intros [H1 H2]. split; [|exact H2]. intros z [<-|Hz]; [exact H1|].
      destruct H2 as [H2 _]. eapply key_le_trans; [exact H1|apply H2; exact Hz].
    + intros [H1 H2]. split; [apply H1; left; reflexivity|exact H2].
Qed.

Lemma sorted_key_tail x l : sorted_key (x :: l) = true -> sorted_key l = true.
Proof. rewrite !sorted_key_P. intros [_ H]; exact H. Qed.

Lemma sorted_key_head x l y : sorted_key (x :: l) = true -> In y l -> key_le x y = true.
Proof. rewrite sorted_key_P. intros [H _]; apply H. Qed.

(* sorted by key implies sorted by start (what bisect on finite_start relies on) *)
Lemma sorted_key_sorted_start l : sorted_key l = true -> sorted_start l.
Proof.
  rewrite sorted_key_P. induction l as [|x r IH]; simpl; [tauto|].
  intros [H1 H2]. split; [|auto]. intros y Hy. apply key_le_fstart, H1, Hy.
Qed.

(* ---------- sl_add / sl_build: permutation and sortedness ---------- *)
Lemma sl_add_perm x l : Permutation (sl_add x l) (x :: l).
Proof.
  induction l as [|y r IH]; simpl; [reflexivity|].
  destruct (key_le y x).
  - rewrite IH. apply perm_swap.
  - reflexivity.
Qed.

Lemma sl_add_in x l z : In z (sl_add x l) <-> z = x \/ In z l.
Proof.
  split; intro H.
  - apply (Permutation_in _ (sl_add_perm x l)) in H. destruct H as [<-|H]; auto.
  - apply (Permutation_in _ (Permutation_sym (sl_add_perm x l))). destruct H as [->|H]; [left|right]; auto.
Qed.

Lemma sl_add_sortedP x l : sortedP l -> sortedP (sl_add x l).
Proof.
  induction l as [|y r IH]; simpl.
  - intros _. split; [intros ? []|exact I].
  - intros [H1 H2]. destruct (key_le y x) eqn:E.
    + simpl. split; [|apply IH; exact H2].
      intros z Hz. apply sl_add_in in Hz. destruct Hz as [->|Hz]; [exact E|apply H1; exact Hz].
    + apply key_le_total in E. simpl. split; [|split; assumption].
      intros z [<-|Hz]; [exact E|]. eapply key_le_trans; [exact E|apply H1; exact Hz].
Qed.

Theorem sl_add_sorted x l : sorted_key l = true -> sorted_key (sl_add x l) = true.
Proof. rewrite !sorted_key_P. apply sl_add_sortedP. Qed.

Lemma sl_fold_sortedP evs acc :
  sortedP acc -> sortedP (fold_left (fun l x => sl_add x l) evs acc).
Proof.
  revert acc. induction evs as [|e evs IH]; simpl; intros acc H; [exact H|].
  apply IH, sl_add_sortedP, H.
Qed.

Theorem sl_build_sorted evs : sorted_key (sl_build evs) = true.
Proof. apply sorted_key_P. unfold sl_build. apply sl_fold_sortedP. exact I. Qed.

Lemma sl_fold_perm evs acc :
  Permutation (fold_left (fun l x => sl_add x l) evs acc) (acc ++ evs).
Proof.
  revert acc. induction evs as [|e evs IH]; simpl; intros acc.
  - rewrite app_nil_r. reflexivity.
  - rewrite IH, sl_add_perm. simpl. apply Permutation_middle.
Qed.

Theorem sl_build_perm evs : Permutation (sl_build evs) evs.
Proof. unfold sl_build. apply (sl_fold_perm evs []). Qed.

Corollary sl_build_in evs x : In x (sl_build evs) <-> In x evs.
Proof.
  split; apply Permutation_in; [|apply Permutation_sym]; apply sl_build_perm.
Qed.

Corollary sl_build_length evs : length (sl_build evs) = length evs.
Proof. apply Permutation_length, sl_build_perm. Qed.

Corollary sl_build_covers evs t : covers (sl_build evs) t = covers evs t.
Proof. apply covers_perm, sl_build_perm. Qed.

(* ---------- bisect_right: insertion goes after every element with key <= the new one ---------- *)
Theorem sl_add_split x l : sorted_key l = true ->
  exists l1 l2, l = l1 ++ l2 /\ sl_add x l = l1 ++ x :: l2 /\
    (forall y, In y l1 -> key_le y x = true) /\
    (forall y, In y l2 -> key_lt x y = true).
Proof.
  rewrite sorted_key_P. induction l as [|y r IH]; simpl.
  - intros _. exists [], []. repeat split; intros ? [].
  - intros [H1 H2]. destruct (key_le y x) eqn:E.
    + destruct (IH H2) as (l1 & l2 & E1 & E2 & A1 & A2).
      exists (y :: l1), l2. simpl. rewrite E2, <- E1. repeat split; auto.
      intros z [<-|Hz]; auto.
    + exists [], (y :: r). simpl. repeat split; [intros ? []|].
      assert (Hy : key_lt x y = true) by (rewrite key_lt_negb_le, E; reflexivity).
      intros z [<-|Hz]; [exact Hy|]. eapply key_lt_le_trans; [exact Hy|apply H1; exact Hz].
Qed.

(* stability of one insertion: a stored element with the same key stays before the new one *)
Corollary sl_add_stable x y l :
  sorted_key l = true -> In y l -> key_eqb y x = true ->
  exists l1 l2, l = l1 ++ l2 /\ sl_add x l = l1 ++ x :: l2 /\ In y l1.
Proof.
  intros Hs Hy Hk. destruct (sl_add_split x l Hs) as (l1 & l2 & E1 & E2 & A1 & A2).
  exists l1, l2. split; [exact E1|split; [exact E2|]].
  rewrite E1 in Hy. apply in_app_or in Hy as [Hy|Hy]; [exact Hy|].
  specialize (A2 y Hy). rewrite key_lt_negb_le in A2.
  apply key_eqb_iff in Hk as [Hk _]. rewrite Hk in A2. discriminate.
Qed.

Lemma filter_nil {A} (f : A -> bool) l : (forall z, In z l -> f z = false) -> filter f l = [].
Proof.
  induction l as [|x r IH]; simpl; intro H; [reflexivity|].
  rewrite (H x (or_introl eq_refl)). apply IH. intros z Hz. apply H. right; exact Hz.
Qed.

(* restricted to one key, an insertion appends *)
Lemma sl_add_filter_key k x l : sorted_key l = true ->
  filter (key_eqb k) (sl_add x l) =
  filter (key_eqb k) l ++ (if key_eqb k x then [x] else []).
Proof.
  intros Hs. destruct (sl_add_split x l Hs) as (l1 & l2 & E1 & E2 & A1 & A2).
  rewrite E2, E1, !filter_app. simpl. destruct (key_eqb k x) eqn:E.
  - rewrite (filter_nil (key_eqb k) l2); [rewrite app_nil_r; reflexivity|].
    intros z Hz. specialize (A2 z Hz). unfold key_eqb, key_lt in *. lia.
  - rewrite app_nil_r. reflexivity.
Qed.

Lemma sl_fold_stable k evs acc : sorted_key acc = true ->
  filter (key_eqb k) (fold_left (fun l x => sl_add x l) evs acc) =
  filter (key_eqb k) acc ++ filter (key_eqb k) evs.
Proof.
  revert acc. induction evs as [|e evs IH]; simpl; intros acc Hs.
  - rewrite app_nil_r. reflexivity.
  - rewrite IH by (apply sl_add_sorted; exact Hs). rewrite sl_add_filter_key by exact Hs.
    rewrite <- app_assoc. f_equal. destruct (key_eqb k e); reflexivity.
Qed.

(* sl_build is a stable sort: events with one and the same key keep their insertion order *)
Theorem sl_build_stable k evs :
  filter (key_eqb k) (sl_build evs) = filter (key_eqb k) evs.
Proof. unfold sl_build. rewrite sl_fold_stable by reflexivity. reflexivity. Qed.

(* ---------- _fetch_static ---------- *)
Lemma take_le_start_filter e l : sorted_key l = true ->
  take_le_start e l = filter (fun i => fstart i <=? e) l.
Proof.
  rewrite sorted_key_P. induction l as [|x r IH]; simpl; [reflexivity|].
  intros [H1 H2]. destruct (fstart x <=? e) eqn:E.
  - f_equal. apply IH, H2.
  - symmetry. apply filter_nil. intros z Hz. specialize (H1 z Hz). apply key_le_fstart in H1. lia.
Qed.

Lemma filter_filter {A} (f g : A -> bool) l :
  filter f (filter g l) = filter (fun i => g i && f i) l.
Proof.
  induction l as [|x r IH]; simpl; [reflexivity|].
  destruct (g x); simpl; [destruct (f x); rewrite IH; reflexivity|exact IH].
Qed.

(* the window test of _fetch_static: start <= b (bisect_right on end bound) and end > a *)
Definition in_range (a b : option Z) (i : ivl) : bool :=
  (match b with Some e => fstart i <=? e | None => true end) &&
  (match a with Some s => negb (fend i <=? s) | None => true end).

Theorem fetch_static_spec store a b : sorted_key store = true ->
  fetch_static store a b false = filter (in_range a b) store /\
  fetch_static store a b true = rev (fetch_static store a b false).
Proof.
  intros Hs. split; [|reflexivity]. unfold fetch_static, in_range. destruct b as [e|].
  - rewrite take_le_start_filter by exact Hs. apply filter_filter.
  - apply filter_ext. intros i. reflexivity.
Qed.

Lemma sortedP_filter f l : sortedP l -> sortedP (filter f l).
Proof.
  induction l as [|x r IH]; simpl; [tauto|]. intros [H1 H2].
  destruct (f x); [|auto]. simpl. split; [|auto].
  intros y Hy. apply filter_In in Hy as [Hy _]. apply H1, Hy.
Qed.

(* forward results come in store order, i.e. sorted by (start, end) *)
Theorem fetch_static_sorted store a b : sorted_key store = true ->
  sorted_key (fetch_static store a b false) = true.
Proof.
  intros Hs. rewrite (proj1 (fetch_static_spec store a b Hs)).
  apply sorted_key_P, sortedP_filter, sorted_key_P, Hs.
Qed.

Theorem fetch_static_in store a b rv x : sorted_key store = true ->
  (In x (fetch_static store a b rv) <-> In x store /\ in_range a b x = true).
Proof.
  intros Hs. destruct (fetch_static_spec store a b Hs) as [E1 E2].
  destruct rv; [rewrite E2, <- in_rev|]; rewrite E1; apply filter_In.
Qed.

(* completeness: every stored event having an instant in common with [a,b) is returned *)
Definition overlaps_win (a b : option Z) (x : ivl) : Prop :=
  Z.max (fstart x) (bnd_lo a) < Z.min (fend x) (bnd_hi b).

Theorem fetch_static_complete store a b rv x : sorted_key store = true ->
  In x store -> wf_ivl x -> overlaps_win a b x -> In x (fetch_static store a b rv).
Proof.
  intros Hs Hx Hwf Ho. apply fetch_static_in; [exact Hs|]. split; [exact Hx|].
  unfold overlaps_win in Ho. unfold in_range. destruct Hwf as (W1 & W2 & W3 & W4 & W5).
  destruct a as [s|], b as [e|]; simpl in Ho; lia.
Qed.

(* soundness: everything returned is stored, starts at or before b and ends after a *)
Theorem fetch_static_sound store a b rv x : sorted_key store = true ->
  In x (fetch_static store a b rv) ->
  In x store /\ (forall e, b = Some e -> fstart x <= e) /\ (forall s, a = Some s -> s < fend x).
Proof.
  intros Hs Hx. apply fetch_static_in in Hx; [|exact Hs]. destruct Hx as [Hx Hr].
  split; [exact Hx|]. unfold in_range in Hr.
  split; [intros e Eb; rewrite Eb in Hr; destruct a|intros s Ea; rewrite Ea in Hr; destruct b]; lia.
Qed.

(* the Stored case of fetch *)
Corollary fetch_stored_spec env evs a b :
  fetch env (Stored evs) a b false = filter (in_range a b) (sl_build evs) /\
  fetch env (Stored evs) a b true = rev (filter (in_range a b) (sl_build evs)).
Proof.
  destruct (fetch_static_spec (sl_build evs) a b (sl_build_sorted evs)) as [E1 E2].
  split; [exact E1|rewrite <- E1; exact E2].
Qed.

Print Assumptions sl_add_sorted.
Print Assumptions sl_build_sorted.
Print Assumptions sl_add_perm.
Print Assumptions sl_build_perm.
Print Assumptions sl_add_split.
Print Assumptions sl_add_stable.
Print Assumptions sl_build_stable.
Print Assumptions fetch_static_spec.
Print Assumptions fetch_static_sorted.
Print Assumptions fetch_static_complete.
Print Assumptions fetch_static_sound.
Print Assumptions fetch_stored_spec.
