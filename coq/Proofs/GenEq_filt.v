(* Proofs/GenEq_filt.v — tie C (third extension, tag "filt") for calgebra/properties.py and the Filter
   classes of calgebra/core.py: the definitions generated from the source text (Gen/Source.v) of
     Operator.apply / __init__, Property.__ge__ .. __ne__, Duration.apply / __init__, Start.apply, End.apply,
     _normalize_collection, one_of, has_any, has_all (with their closures `check`), field (with the apply
     methods of its two local classes), Filter.__or__ / __and__, Or / And .apply / __init__
   against the value-level model Model/FiltVal.v (papply, py_cmp_r, pfeval, pf_of) and, through it, against
   Model/Expr.v (eval_cmp, eval_cmpp, feval).  Dynamically dispatched methods and library functions are
   parameters of the generated definitions; the theorems instantiate them with the model's.

   Part 1  generated definition = value-level model function, for all inputs (no hypotheses)
   Part 2  value-level model vs Model/Expr.v: whenever the evaluation of the objects the public API builds
           completes with a Boolean, that Boolean is feval's (pfeval_sound); it always completes on the
           filters that compare time properties with ints / with each other (pfeval_time_total)
   Part 3  the headline statements on the generated definitions (the src_filter theorems). *)
From CG Require Import Model.Slice Model.Loop Model.FiltVal Gen.Source.
From Coq Require Import ZArith List Bool Lia.

(* ------------------------------------------------------------------------------------------------ *)
(* Part 1 *)

(* Duration.apply with the float reading: float('inf') = PyInf, a / b = the exact rational PyRat a b *)
Theorem g_duration_apply_eq : forall env scale i,
  g_duration_apply PyInf PyRat scale i = papply env (PDur scale) i.
Proof.
  intros env scale i. unfold g_duration_apply, papply.
  destruct (st i) as [s|], (en i) as [e|]; reflexivity.
Qed.
Print Assumptions g_duration_apply_eq.

Theorem g_duration_init_eq : forall junk u, g_duration_init junk u = scale_of_unit u.
Proof. intros junk []; reflexivity. Qed.
Print Assumptions g_duration_init_eq.

Theorem g_start_apply_eq : forall env i, PyF (VInt (g_start_apply i)) = papply env PStart i.
Proof. reflexivity. Qed.
Print Assumptions g_start_apply_eq.

Theorem g_end_apply_eq : forall env i, PyF (VInt (g_end_apply i)) = papply env PEnd i.
Proof. reflexivity. Qed.
Print Assumptions g_end_apply_eq.

(* field(): getattr(event, name) is the model's field lookup *)
Definition model_getattr (env : fenv) (ev : ivl) (name : N) : pyv := PyF (field_of env ev name).

Theorem g_field_name_eq : forall env name,
  g_field (fun f : ivl -> pyv => f) (model_getattr env) (inl name) = papply env (PField name).
Proof. reflexivity. Qed.
Print Assumptions g_field_name_eq.

Theorem g_field_getter_eq : forall (getattr : ivl -> N -> pyv) (acc : ivl -> pyv),
  g_field (fun f : ivl -> pyv => f) getattr (inr acc) = acc.
Proof. reflexivity. Qed.
Print Assumptions g_field_getter_eq.

(* Operator: the object built by Operator(l, r, o) (its __init__ stores the three arguments) *)
Definition ctor_operator (l r : operand) (o : pyv -> pyv -> res bool) : pfilt :=
  let '(l', r', o') := g_operator_init l r o l r o in PFOp l' r' o'.

Theorem g_operator_init_eq : forall (j1 j2 : operand) j3 l r (o : pyv -> pyv -> res bool),
  g_operator_init j1 j2 j3 l r o = (l, r, o).
Proof. reflexivity. Qed.
Print Assumptions g_operator_init_eq.

Theorem g_operator_apply_eq : forall env l r o i,
  g_operator_apply (papply env) l r o i = pfeval env (PFOp l r o) i.
Proof. intros env [p|v] [q|w] o i; reflexivity. Qed.
Print Assumptions g_operator_apply_eq.

(* Property.__ge__ .. __ne__ *)
Definition build_cmp (c : cmp) (p : prop) (other : operand) : pfilt :=
  match c with
  | Ge => g_prop_ge ctor_operator (py_cmp_r Ge) p other
  | Le => g_prop_le ctor_operator (py_cmp_r Le) p other
  | Gt => g_prop_gt ctor_operator (py_cmp_r Gt) p other
  | Lt => g_prop_lt ctor_operator (py_cmp_r Lt) p other
  | Eq => g_prop_eq ctor_operator (py_cmp_r Eq) p other
  | Ne => g_prop_ne ctor_operator (py_cmp_r Ne) p other
  end.

Theorem g_prop_cmp_eq : forall c p other, build_cmp c p other = PFOp (inl p) other (py_cmp_r c).
Proof. intros [] p other; reflexivity. Qed.
Print Assumptions g_prop_cmp_eq.

Corollary g_prop_cmp_const : forall c p k, build_cmp c p (inr (PyF k)) = pf_of (FCmp p c k).
Proof. intros. apply g_prop_cmp_eq. Qed.
Corollary g_prop_cmp_prop : forall c p q, build_cmp c p (inl q) = pf_of (FCmpP p c q).
Proof. intros. apply g_prop_cmp_eq. Qed.

(* one_of: set(values) is the collection of the values (only membership is ever asked of it) *)
Theorem g_one_of_eq : forall p vs,
  g_one_of ctor_operator py_contains_r (fun l : list fval => l) PyVals p vs = pf_of (FOneOf p vs).
Proof. reflexivity. Qed.
Print Assumptions g_one_of_eq.

(* _normalize_collection and the closures of has_any / has_all *)
Theorem g_normalize_collection_eq : forall v,
  g_normalize_collection py_is_strlike py_set_of_iterable v = normalize_collection v.
Proof. reflexivity. Qed.
Print Assumptions g_normalize_collection_eq.

Theorem g_has_any_check_eq : forall vs a b,
  g_has_any_check py_is_strlike py_set_of_iterable fset_inter (@nonempty fval) vs a b = has_any_op vs a b.
Proof. reflexivity. Qed.
Print Assumptions g_has_any_check_eq.

Theorem g_has_all_check_eq : forall vs a b,
  g_has_all_check py_is_strlike py_set_of_iterable fset_issubset vs a b = has_all_op vs a b.
Proof. reflexivity. Qed.
Print Assumptions g_has_all_check_eq.

Theorem g_has_any_eq : forall env name vs i,
  pfeval env (g_has_any ctor_operator (PyF VNone) (fun l : list fval => l) py_is_strlike py_set_of_iterable
                        fset_inter (@nonempty fval) (PField name) (map VStr vs)) i
  = pfeval env (pf_of (FHasAny name vs)) i.
Proof. reflexivity. Qed.
Print Assumptions g_has_any_eq.

Theorem g_has_all_eq : forall env name vs i,
  pfeval env (g_has_all ctor_operator (PyF VNone) (fun l : list fval => l) py_is_strlike py_set_of_iterable
                        fset_issubset (PField name) (map VStr vs)) i
  = pfeval env (pf_of (FHasAll name vs)) i.
Proof. reflexivity. Qed.
Print Assumptions g_has_all_eq.

(* Or / And: apply, __init__, and the binary operators that build them *)
Theorem g_or_apply_eq : forall env fs i, g_or_apply (pfeval env) fs i = pfeval env (PFOr fs) i.
Proof. reflexivity. Qed.
Print Assumptions g_or_apply_eq.

Theorem g_and_apply_eq : forall env fs i, g_and_apply (pfeval env) fs i = pfeval env (PFAnd fs) i.
Proof. reflexivity. Qed.
Print Assumptions g_and_apply_eq.

Definition ctor_or (a b : pfilt) : pfilt := PFOr (g_or_init [] [a; b]).
Definition ctor_and (a b : pfilt) : pfilt := PFAnd (g_and_init [] [a; b]).

Theorem g_filter_or_eq : forall (TL : Type) (f : pfilt) (other : TL + pfilt),
  g_filter_or ctor_or f other =
  match other with inl _ => RRaise TypeError | inr g => RDone (PFOr [f; g]) end.
Proof. intros TL f [t|g]; reflexivity. Qed.
Print Assumptions g_filter_or_eq.

Theorem g_filter_and_eq : forall (TL : Type) (mk_filtered : TL -> pfilt -> TL) (f : pfilt) (other : TL + pfilt),
  g_filter_and mk_filtered ctor_and f other =
  match other with inl t => inl (mk_filtered t f) | inr g => inr (PFAnd [f; g]) end.
Proof. intros TL mk f [t|g]; reflexivity. Qed.
Print Assumptions g_filter_and_eq.

(* ------------------------------------------------------------------------------------------------ *)
(* Part 2: the value-level model against Model/Expr.v *)

Lemma filt_ind2 (P : filt -> Prop) :
  (forall p c k, P (FCmp p c k)) -> (forall p c q, P (FCmpP p c q)) -> (forall p vs, P (FOneOf p vs)) ->
  (forall n vs, P (FHasAny n vs)) -> (forall n vs, P (FHasAll n vs)) ->
  (forall fs, Forall P fs -> P (FAnd fs)) -> (forall fs, Forall P fs -> P (FOr fs)) ->
  forall f, P f.
Proof.
  intros H1 H2 H3 H4 H5 HA HO. fix IH 1. intros [p c k|p c q|p vs|n vs|n vs|fs|fs].
  - apply H1.
  - apply H2.
  - apply H3.
  - apply H4.
  - apply H5.
  - apply HA. induction fs as [|g gs IHl]; constructor; [apply IH | exact IHl].
  - apply HO. induction fs as [|g gs IHl]; constructor; [apply IH | exact IHl].
Qed.

Lemma all_r_map {A B : Type} (h : A -> B) (F : B -> res bool) (l : list A) :
  all_r F (map h l) = all_r (fun x => F (h x)) l.
Proof. induction l as [|x r IH]; [reflexivity|]. cbn [map all_r]. destruct (F (h x)) as [[]| | |]; auto. Qed.
Lemma any_r_map {A B : Type} (h : A -> B) (F : B -> res bool) (l : list A) :
  any_r F (map h l) = any_r (fun x => F (h x)) l.
Proof. induction l as [|x r IH]; [reflexivity|]. cbn [map any_r]. destruct (F (h x)) as [[]| | |]; auto. Qed.

Lemma all_r_sound {A : Type} (F : A -> res bool) (G : A -> bool) (l : list A) :
  Forall (fun x => forall b, F x = RDone b -> G x = b) l ->
  forall b, all_r F l = RDone b -> forallb G l = b.
Proof.
  induction 1 as [|x r Hx _ IH]; intros b H.
  - inversion H. reflexivity.
  - cbn [all_r] in H. cbn [forallb]. destruct (F x) as [[]| | |] eqn:E; try discriminate.
    + rewrite (Hx true eq_refl). cbn. apply IH, H.
    + rewrite (Hx false eq_refl). inversion H. reflexivity.
Qed.
Lemma any_r_sound {A : Type} (F : A -> res bool) (G : A -> bool) (l : list A) :
  Forall (fun x => forall b, F x = RDone b -> G x = b) l ->
  forall b, any_r F l = RDone b -> existsb G l = b.
Proof.
  induction 1 as [|x r Hx _ IH]; intros b H.
  - inversion H. reflexivity.
  - cbn [any_r] in H. cbn [existsb]. destruct (F x) as [[]| | |] eqn:E; try discriminate.
    + rewrite (Hx true eq_refl). inversion H. reflexivity.
    + rewrite (Hx false eq_refl). cbn. apply IH, H.
Qed.

(* prop OP constant *)
Lemma cmp_sound env p c k i b :
  py_cmp_r c (papply env p i) (PyF k) = RDone b -> eval_cmp env p c k i = b.
Proof.
  unfold py_cmp_r, eval_cmp. destruct p as [scale| | |name]; cbn [papply].
  - destruct (st i) as [s|], (en i) as [e|]; destruct k as [kz|s0|l|]; cbn [pynum py_num_cmp py_eq_r];
      destruct c; intros H; inversion H; rewrite ?Z.mul_1_r; reflexivity.
  - destruct k as [kz|s0|l|]; cbn [pynum py_num_cmp py_eq_r fval_eqb];
      destruct c; intros H; inversion H; rewrite ?Z.mul_1_r; reflexivity.
  - destruct k as [kz|s0|l|]; cbn [pynum py_num_cmp py_eq_r fval_eqb];
      destruct c; intros H; inversion H; rewrite ?Z.mul_1_r; reflexivity.
  - destruct (field_of env i name) as [x|x|x|]; destruct k as [kz|s0|l|]; cbn [pynum py_num_cmp py_eq_r];
      destruct c; intros H; inversion H; rewrite ?Z.mul_1_r; reflexivity.
Qed.

(* prop OP prop, time-valued properties *)
Definition is_time (p : prop) : bool := match p with PField _ => false | _ => true end.

Lemma prop_num_is_pynum env p i : is_time p = true -> prop_num p i = pynum (papply env p i).
Proof.
  destruct p; cbn [is_time]; intros H; try discriminate; cbn [prop_num papply pynum]; try reflexivity.
  destruct (st i), (en i); reflexivity.
Qed.

Lemma cmpp_eq env p c q i : is_time p = true -> is_time q = true ->
  py_cmp_r c (papply env p i) (papply env q i) = RDone (eval_cmpp p c q i).
Proof.
  intros Hp Hq. unfold py_cmp_r, eval_cmpp. rewrite (prop_num_is_pynum env p i Hp), (prop_num_is_pynum env q i Hq).
  destruct p; try discriminate; destruct q; try discriminate; cbn [papply pynum];
    destruct (st i), (en i); reflexivity.
Qed.

(* membership helpers *)
Lemma fset_mem_str v l : fset_mem (VStr v) (map VStr l) = memN v l.
Proof. unfold fset_mem, memN. induction l as [|x r IH]; [reflexivity|]. cbn. rewrite IH. reflexivity. Qed.
Lemma inter_nonempty vs l :
  nonempty (fset_inter (map VStr vs) (map VStr l)) = existsb (fun v => memN v l) vs.
Proof.
  unfold fset_inter. induction vs as [|v r IH]; [reflexivity|]. cbn [map filter existsb].
  rewrite fset_mem_str. destruct (memN v l); [reflexivity|]. exact IH.
Qed.
Lemma issubset_forallb vs l :
  fset_issubset (map VStr vs) (map VStr l) = forallb (fun v => memN v l) vs.
Proof.
  unfold fset_issubset. induction vs as [|v r IH]; [reflexivity|]. cbn [map forallb].
  rewrite fset_mem_str, IH. reflexivity.
Qed.

(* the filters of Model/Expr.v on which the two models are comparable: a property compared with a
   property only between time-valued properties (Model/Expr.v says so itself: a custom field on either
   side of FCmpP is outside that model) *)
Fixpoint in_model (f : filt) : bool :=
  match f with
  | FCmpP p _ q => is_time p && is_time q
  | FAnd fs => forallb in_model fs
  | FOr fs => forallb in_model fs
  | _ => true
  end.

(* HEADLINE of part 2: whenever apply() of the object the API builds completes with a Boolean — no
   TypeError, nothing outside the value model — that Boolean is feval's *)
Theorem pfeval_sound : forall env i f b,
  in_model f = true -> pfeval env (pf_of f) i = RDone b -> feval env f i = b.
Proof.
  intros env i f. induction f as [p c k|p c q|p vs|n vs|n vs|fs IH|fs IH] using filt_ind2; intros b Hm H.
  - apply cmp_sound, H.
  - cbn [in_model] in Hm. apply andb_prop in Hm as [Hp Hq].
    cbn [pf_of pfeval opnd_val] in H. rewrite (cmpp_eq env p c q i Hp Hq) in H. inversion H. reflexivity.
  - cbn [pf_of pfeval opnd_val py_contains_r] in H. cbn [feval].
    revert b H. apply any_r_sound. apply Forall_forall. intros v _ b Hb. apply cmp_sound, Hb.
  - cbn [pf_of pfeval opnd_val papply] in H. cbn [feval]. unfold has_any_op, normalize_collection in H.
    destruct (field_of env i n) as [x|x|l|]; cbn in H; try discriminate.
    inversion H. unfold set_of. symmetry. apply inter_nonempty.
  - cbn [pf_of pfeval opnd_val papply] in H. cbn [feval]. unfold has_all_op, normalize_collection in H.
    destruct (field_of env i n) as [x|x|l|]; cbn in H; try discriminate.
    inversion H. unfold set_of. symmetry. apply issubset_forallb.
  - cbn [pf_of pfeval] in H. rewrite all_r_map in H. cbn [feval]. cbn [in_model] in Hm.
    revert b H. apply all_r_sound. rewrite Forall_forall in IH |- *. intros g Hg b Hb.
    apply IH; [exact Hg| |exact Hb]. rewrite forallb_forall in Hm. apply Hm, Hg.
  - cbn [pf_of pfeval] in H. rewrite any_r_map in H. cbn [feval]. cbn [in_model] in Hm.
    revert b H. apply any_r_sound. rewrite Forall_forall in IH |- *. intros g Hg b Hb.
    apply IH; [exact Hg| |exact Hb]. rewrite forallb_forall in Hm. apply Hm, Hg.
Qed.
Print Assumptions pfeval_sound.

(* the evaluation always completes on comparisons of time-valued properties with ints / with each other
   and on their combinations (non-vacuity of pfeval_sound, and what C18's duration / start / end theorems
   are about) *)
Fixpoint time_frag (f : filt) : bool :=
  match f with
  | FCmp p _ (VInt _) => is_time p
  | FCmpP p _ q => is_time p && is_time q
  | FAnd fs => forallb time_frag fs
  | FOr fs => forallb time_frag fs
  | _ => false
  end.

Lemma time_frag_in_model f : time_frag f = true -> in_model f = true.
Proof.
  induction f as [p c k|p c q|p vs|n vs|n vs|fs IH|fs IH] using filt_ind2; cbn [time_frag in_model]; auto.
  - intros H. rewrite forallb_forall in *. rewrite Forall_forall in IH. intros g Hg. apply IH, H; exact Hg.
  - intros H. rewrite forallb_forall in *. rewrite Forall_forall in IH. intros g Hg. apply IH, H; exact Hg.
Qed.

Lemma all_r_total {A : Type} (F : A -> res bool) (G : A -> bool) (l : list A) :
  Forall (fun x => F x = RDone (G x)) l -> all_r F l = RDone (forallb G l).
Proof.
  induction 1 as [|x r Hx _ IH]; [reflexivity|]. cbn [all_r forallb]. rewrite Hx. destruct (G x); [exact IH|reflexivity].
Qed.
Lemma any_r_total {A : Type} (F : A -> res bool) (G : A -> bool) (l : list A) :
  Forall (fun x => F x = RDone (G x)) l -> any_r F l = RDone (existsb G l).
Proof.
  induction 1 as [|x r Hx _ IH]; [reflexivity|]. cbn [any_r existsb]. rewrite Hx. destruct (G x); [reflexivity|exact IH].
Qed.

Lemma cmp_time_done env p c k i : is_time p = true ->
  exists b, py_cmp_r c (papply env p i) (PyF (VInt k)) = RDone b.
Proof.
  intros Hp. unfold py_cmp_r. destruct p; try discriminate; cbn [papply pynum].
  - destruct (st i), (en i); eexists; reflexivity.
  - eexists; reflexivity.
  - eexists; reflexivity.
Qed.

Theorem pfeval_time_total : forall env i f,
  time_frag f = true -> pfeval env (pf_of f) i = RDone (feval env f i).
Proof.
  intros env i f. induction f as [p c k|p c q|p vs|n vs|n vs|fs IH|fs IH] using filt_ind2;
    cbn [time_frag]; intros Hf; try discriminate.
  - destruct k as [kz| | |]; try discriminate.
    destruct (cmp_time_done env p c kz i Hf) as [b Hb]. cbn [pf_of pfeval opnd_val feval]. rewrite Hb.
    rewrite (cmp_sound _ _ _ _ _ _ Hb). reflexivity.
  - apply andb_prop in Hf as [Hp Hq]. cbn [pf_of pfeval opnd_val feval]. apply cmpp_eq; assumption.
  - cbn [pf_of pfeval feval]. rewrite all_r_map. apply all_r_total. rewrite Forall_forall in IH |- *.
    intros g Hg. apply IH; [exact Hg|]. rewrite forallb_forall in Hf. apply Hf, Hg.
  - cbn [pf_of pfeval feval]. rewrite any_r_map. apply any_r_total. rewrite Forall_forall in IH |- *.
    intros g Hg. apply IH; [exact Hg|]. rewrite forallb_forall in Hf. apply Hf, Hg.
Qed.
Print Assumptions pfeval_time_total.

(* ------------------------------------------------------------------------------------------------ *)
(* Part 3: everything through the generated definitions *)

(* apply() of a filter object, by the generated apply methods (dynamic dispatch = this recursion); the
   properties' apply by the generated Duration / Start / End / field applies *)
Definition src_papply (env : fenv) (p : prop) (i : ivl) : pyv :=
  match p with
  | PDur scale => g_duration_apply PyInf PyRat scale i
  | PStart => PyF (VInt (g_start_apply i))
  | PEnd => PyF (VInt (g_end_apply i))
  | PField name => g_field (fun f : ivl -> pyv => f) (model_getattr env) (inl name) i
  end.

Lemma src_papply_eq env p i : src_papply env p i = papply env p i.
Proof. destruct p; cbn [src_papply]; [apply g_duration_apply_eq | reflexivity..]. Qed.

Fixpoint src_apply (env : fenv) (f : pfilt) (i : ivl) : res bool :=
  match f with
  | PFOp l r o => g_operator_apply (src_papply env) l r o i
  | PFAnd fs => g_and_apply (src_apply env) fs i
  | PFOr fs => g_or_apply (src_apply env) fs i
  end.

Lemma pfilt_ind2 (P : pfilt -> Prop) :
  (forall l r o, P (PFOp l r o)) -> (forall fs, Forall P fs -> P (PFAnd fs)) ->
  (forall fs, Forall P fs -> P (PFOr fs)) -> forall f, P f.
Proof.
  intros H1 HA HO. fix IH 1. intros [l r o|fs|fs].
  - apply H1.
  - apply HA. induction fs as [|g gs IHl]; constructor; [apply IH | exact IHl].
  - apply HO. induction fs as [|g gs IHl]; constructor; [apply IH | exact IHl].
Qed.

Lemma all_r_ext {A : Type} (F G : A -> res bool) (l : list A) :
  Forall (fun x => F x = G x) l -> all_r F l = all_r G l.
Proof. induction 1 as [|x r Hx _ IH]; [reflexivity|]. cbn [all_r]. rewrite Hx, IH. reflexivity. Qed.
Lemma any_r_ext {A : Type} (F G : A -> res bool) (l : list A) :
  Forall (fun x => F x = G x) l -> any_r F l = any_r G l.
Proof. induction 1 as [|x r Hx _ IH]; [reflexivity|]. cbn [any_r]. rewrite Hx, IH. reflexivity. Qed.

Theorem src_apply_eq : forall env f i, src_apply env f i = pfeval env f i.
Proof.
  intros env f i. induction f as [l r o|fs IH|fs IH] using pfilt_ind2.
  - cbn [src_apply pfeval]. destruct l as [p|v], r as [q|w]; cbn [g_operator_apply opnd_val];
      unfold g_operator_apply; rewrite ?src_papply_eq; reflexivity.
  - cbn [src_apply pfeval]. unfold g_and_apply. apply all_r_ext. exact IH.
  - cbn [src_apply pfeval]. unfold g_or_apply. apply any_r_ext. exact IH.
Qed.
Print Assumptions src_apply_eq.

(* the objects, built by the generated public API: comparisons, one_of / has_any / has_all, and & / |
   folded pairwise from the left (as `f1 & f2 & f3` does) *)
Definition src_and (a b : pfilt) : pfilt :=
  match g_filter_and (fun (t : unit) (_ : pfilt) => t) ctor_and a (inr b) with inr r => r | inl _ => a end.
Definition src_or (a b : pfilt) : pfilt :=
  match g_filter_or (TL := unit) ctor_or a (inr b) with RDone r => r | _ => a end.

Fixpoint src_build (f : filt) : pfilt :=
  match f with
  | FCmp p c k => build_cmp c p (inr (PyF k))
  | FCmpP p c q => build_cmp c p (inl q)
  | FOneOf p vs => g_one_of ctor_operator py_contains_r (fun l : list fval => l) PyVals p vs
  | FHasAny n vs => g_has_any ctor_operator (PyF VNone) (fun l : list fval => l) py_is_strlike py_set_of_iterable
                              fset_inter (@nonempty fval) (PField n) (map VStr vs)
  | FHasAll n vs => g_has_all ctor_operator (PyF VNone) (fun l : list fval => l) py_is_strlike py_set_of_iterable
                              fset_issubset (PField n) (map VStr vs)
  | FAnd fs => match fs with
               | [] => PFAnd []
               | g :: gs => fold_left (fun acc h => src_and acc (src_build h)) gs (src_build g)
               end
  | FOr fs => match fs with
              | [] => PFOr []
              | g :: gs => fold_left (fun acc h => src_or acc (src_build h)) gs (src_build g)
              end
  end.

Definition and_res (x k : res bool) : res bool := match x with RDone true => k | other => other end.
Definition or_res (x k : res bool) : res bool := match x with RDone false => k | other => other end.
Lemma and_res_true_r x : and_res x (RDone true) = x.
Proof. destruct x as [[]| | |]; reflexivity. Qed.
Lemma or_res_false_r x : or_res x (RDone false) = x.
Proof. destruct x as [[]| | |]; reflexivity. Qed.
Lemma and_res_assoc x y z : and_res (and_res x y) z = and_res x (and_res y z).
Proof. destruct x as [[]| | |]; reflexivity. Qed.
Lemma or_res_assoc x y z : or_res (or_res x y) z = or_res x (or_res y z).
Proof. destruct x as [[]| | |]; reflexivity. Qed.

Lemma all_r_cons {A : Type} (F : A -> res bool) x r : all_r F (x :: r) = and_res (F x) (all_r F r).
Proof. unfold and_res. cbn [all_r]. destruct (F x) as [[]| | |]; reflexivity. Qed.
Lemma any_r_cons {A : Type} (F : A -> res bool) x r : any_r F (x :: r) = or_res (F x) (any_r F r).
Proof. unfold or_res. cbn [any_r]. destruct (F x) as [[]| | |]; reflexivity. Qed.
Lemma and2_eval env i a b : pfeval env (PFAnd [a; b]) i = and_res (pfeval env a i) (pfeval env b i).
Proof. cbn [pfeval]. rewrite !all_r_cons. cbn [all_r]. rewrite and_res_true_r. reflexivity. Qed.
Lemma or2_eval env i a b : pfeval env (PFOr [a; b]) i = or_res (pfeval env a i) (pfeval env b i).
Proof. cbn [pfeval]. rewrite !any_r_cons. cbn [any_r]. rewrite or_res_false_r. reflexivity. Qed.

Lemma fold_and_eval env i (B : filt -> pfilt) gs : forall a,
  pfeval env (fold_left (fun acc h => src_and acc (B h)) gs a) i =
  and_res (pfeval env a i) (all_r (fun h => pfeval env (B h) i) gs).
Proof.
  induction gs as [|h gs IH]; intros a.
  - cbn [fold_left all_r]. symmetry. apply and_res_true_r.
  - cbn [fold_left]. rewrite IH. change (src_and a (B h)) with (PFAnd [a; B h]).
    rewrite and2_eval, and_res_assoc, all_r_cons. reflexivity.
Qed.
Lemma fold_or_eval env i (B : filt -> pfilt) gs : forall a,
  pfeval env (fold_left (fun acc h => src_or acc (B h)) gs a) i =
  or_res (pfeval env a i) (any_r (fun h => pfeval env (B h) i) gs).
Proof.
  induction gs as [|h gs IH]; intros a.
  - cbn [fold_left any_r]. symmetry. apply or_res_false_r.
  - cbn [fold_left]. rewrite IH. change (src_or a (B h)) with (PFOr [a; B h]).
    rewrite or2_eval, or_res_assoc, any_r_cons. reflexivity.
Qed.

Theorem src_build_eval : forall env i f, pfeval env (src_build f) i = pfeval env (pf_of f) i.
Proof.
  intros env i f. induction f as [p c k|p c q|p vs|n vs|n vs|fs IH|fs IH] using filt_ind2.
  - cbn [src_build]. rewrite g_prop_cmp_const. reflexivity.
  - cbn [src_build]. rewrite g_prop_cmp_prop. reflexivity.
  - reflexivity.
  - apply g_has_any_eq.
  - apply g_has_all_eq.
  - destruct fs as [|g gs]; [reflexivity|]. cbn [src_build]. rewrite fold_and_eval.
    inversion IH as [|? ? Hg Hgs]; subst. rewrite Hg. cbn [pf_of map pfeval]. rewrite all_r_cons.
    f_equal. rewrite all_r_map. apply all_r_ext. exact Hgs.
  - destruct fs as [|g gs]; [reflexivity|]. cbn [src_build]. rewrite fold_or_eval.
    inversion IH as [|? ? Hg Hgs]; subst. rewrite Hg. cbn [pf_of map pfeval]. rewrite any_r_cons.
    f_equal. rewrite any_r_map. apply any_r_ext. exact Hgs.
Qed.
Print Assumptions src_build_eval.

(* HEADLINES *)
Theorem src_filter_sound : forall env i f b,
  in_model f = true -> src_apply env (src_build f) i = RDone b -> feval env f i = b.
Proof.
  intros env i f b Hm H. rewrite src_apply_eq, src_build_eval in H. exact (pfeval_sound env i f b Hm H).
Qed.
Print Assumptions src_filter_sound.

Theorem src_filter_time_total : forall env i f,
  time_frag f = true -> src_apply env (src_build f) i = RDone (feval env f i).
Proof. intros env i f H. rewrite src_apply_eq, src_build_eval. apply pfeval_time_total, H. Qed.
Print Assumptions src_filter_time_total.

(* the hypotheses are met by a filter that uses every constructor; on an event with a None field the
   guarded chain completes (And stops at the first False) while the unguarded comparison raises TypeError *)
Example src_filter_nonvacuous :
  let env := [(7%N, [(0%N, VInt 5); (1%N, VNone); (2%N, VSet [1%N; 2%N])])] in
  let ev := mkI (Some 0) (Some 7200) (Rich 7) in
  let f := FAnd [FCmp (PDur 3600) Ge (VInt 2); FCmpP PStart Lt PEnd; FOneOf (PField 0%N) [VInt 5; VNone];
                 FOr [FHasAll 2%N [1%N; 2%N]; FHasAny 2%N [9%N]];
                 FAnd [FCmp (PField 1%N) Eq VNone; FCmp (PField 0%N) Gt (VInt 4)]] in
  in_model f = true /\ src_apply env (src_build f) ev = RDone true /\ feval env f ev = true /\
  time_frag (FAnd [FCmp (PDur 60) Le (VInt 2); FCmpP (PDur 3600) Ge PStart]) = true /\
  src_apply env (src_build (FAnd [FCmp (PField 1%N) Ne VNone; FCmp (PField 1%N) Ge (VInt 3)])) ev = RDone false /\
  src_apply env (src_build (FCmp (PField 1%N) Ge (VInt 3))) ev = RRaise TypeError /\
  src_apply env (src_build (FHasAny 0%N [1%N])) ev = RRaise TypeError.
Proof. vm_compute. repeat split; reflexivity. Qed.
